--------------------------- MODULE SubLifecycle ---------------------------
(* Subscription lifecycle of ONE connection on ONE channel under concurrent
   client-side subscribe (CS), client-side unsubscribe (CU), server-side
   Client.Subscribe (SS), server-side Client.Unsubscribe (SU) and close (CL):
   client.go validateSubscribeRequest / handleSubscribe / subscribeCmd /
   commitSubscription / onSubscribeErrorGen / Client.Subscribe /
   Client.Unsubscribe / unsubscribe / close, node.go addSubscription /
   removeSubscription (+ dissolver job), hub addSub / removeSub with
   generations, presence manager, join / leave publication.

   The subscription has presence and join/leave enabled and (but for a `positioned` client-side one) is not positioned,
   so every thread runs through calls of public interfaces that the harness
   implements (natural gates, DESIGN 4.0) plus two `verif` hooks; one action of
   this spec = the code between two such points:

     CS : idle -Reserve-> "cb" (OnSubscribe callback) -> ["bsub" (Broker.Subscribe,
          first subscriber only)] -> "pres" (PresenceManager.AddPresence) -> ["hist" (Broker.History: stream top of a
          POSITIONED client-side subscription, variable positioned; a failing call answers a client error:
          the subscribe command gets an ERROR REPLY after its presence was added)] ->
          "replied" (hook sub:replied: reply enqueued, not committed) ->
          "join" (Broker.PublishJoin) -> done
     SS : idle -Reserve+AddSub-> ["bsub"] -> "pres" -> "committed" (hook
          ssub:committed) -> "join" -> done
     CU, SU : idle -> "snap" (hook unsub:snapshot) -> [wait for the in-flight
          subscribe] -> "rempres" (RemovePresence) -> "leave" (PublishLeave) ->
          "ucb" (OnUnsubscribe) -> done
     CL : idle -> "tclose" (Transport.Close) -> [unsubscribe of the snapshotted
          channel: "snap" .. "ucb"] -> "kdisc" (OnDisconnect) -> done
     dissolver job: JobRun (atomic under the channel's subLock)

   Routing attributes: every subscribe thread of a behaviour carries a routing attribute (attr: none / fA / fB = the
   subscription's tags filter); the hub entry (subInfo) is written as a whole by addSub, so it carries the
   attribute of the generation that wrote it (hubA). C04 requires the settled routing entry to carry the attributes
   of the subscription the connection reports.

   Failing round trips: the calls named in Faults (PublishJoin, PublishLeave, AddPresence, RemovePresence,
   BrokerUnsubscribe) may return an error, at most MaxFaults times per behaviour. What the code does with the error
   at each call site is modelled exactly:
     AddPresence   in subscribeCmd: nothing landed; presenceAdded is marked anyway, the deferred
                   removeSubscribePresence runs, the caller rolls back generation-matched (onSubscribeErrorGen);
                   client-side: disconnect(server error) => go c.close; server-side: the error is returned only.
                   in the presence tick: logged; compensateRacedPresence still runs.
     RemovePresence (the removal landed, the reply was lost): logged at every call site, the unsubscribe continues.
     PublishJoin / PublishLeave: the result is ignored (`_ =`); the unsubscribe continues with removeSubscription.
     BrokerUnsubscribe in the dissolver job: the job cools down, returns the error and is re-queued (retry).
   jl records the join / leave CALLS in the order they reach the broker, whatever their result.

   Properties: C04 (routing = subscription state), C05 (nothing survives close),
   C06 (presence = live subscription), C07 (join/leave paired and ordered),
   C08 (one unsubscribe callback per ended subscription, one disconnect), C26
   (broker subscription tracks local interest).                               *)
EXTENDS Integers, Sequences, FiniteSets, TLC

UpTo3 == {S \in SUBSET {"CS", "CU", "SS", "SU", "CL", "TK"} : Cardinality(S) <= 3 /\ S # {}}
UpTo4 == {S \in SUBSET {"CS", "CU", "SS", "SU", "CL", "TK"} : Cardinality(S) <= 4 /\ S # {}}
AllOps == SUBSET {"CS", "CU", "SS", "SU", "CL", "TK"} \ {{}}

CONSTANTS
  OpSets,         \* set of sets of threads that may run in one behaviour
  JoinRaceFixed,  \* TRUE: model a hypothetical repair that keeps unsubscribe/close behind a pending join
  UrgentClose,    \* TRUE: a close spawned by a failing subscribe (`go c.close`) starts before anything else happens
                  \* (replay configs: that goroutine cannot be held back), FALSE: it may be delayed (design check)
  NoPush,         \* subset of BOOLEAN: TRUE = the transport disables subscribe pushes (Transport.DisabledPushFlags has
                  \* PushFlagSubscribe, e.g. a unidirectional transport that reports subscriptions differently): the
                  \* server-side subscribe writes no push; everything else (join, presence, leave) is unaffected
  JobsLast,       \* TRUE: dissolver jobs run only after every thread finished (replay configs: the job's
                  \* 1 s delay cannot be scheduled), FALSE: at any time (design check)
  AttrPairs,      \* set of <<attribute of the client-side subscribe, attribute of the server-side subscribe>>
  Faults,         \* subset of FaultCalls: the round trips that may fail
  MaxFaults       \* fault budget of one behaviour

FaultCalls == {"PublishJoin", "PublishLeave", "AddPresence", "RemovePresence", "BrokerUnsubscribe", "History"}
AttrVals   == {"none", "fA", "fB"}
AP_None    == {<<"none", "none">>}
AP_Two     == {<<"fA", "none">>, <<"none", "fB">>}
AP_Quick   == {<<"fA", "none">>, <<"none", "fB">>, <<"fA", "fB">>}
AP_All     == AttrVals \X AttrVals

Threads == {"CS", "CU", "SS", "SU", "CL", "TK"}
None == [gen |-> 0, sub |-> FALSE, subCh |-> "nil", ss |-> FALSE]

VARIABLES
  ops, async, nopush,
  positioned,   \* the client-side subscription is positioned: subscribeCmd reads the stream top (Broker.History) after AddPresence
  attr,         \* [CS |-> routing attribute of the client-side subscribe, SS |-> of the server-side subscribe]
  faults,       \* number of failed round trips so far
  hist,         \* history tags for the witness predicates only (not in the VIEW, read by no invariant)
  pc, loc,
  entry,        \* c.channels[ch] (None = absent)
  ctr,          \* subGenCounter
  closedGens,   \* generations whose subscribingCh has been closed
  hubE,         \* generation of the hub routing entry (0 = none)
  hubA,         \* routing attributes of the hub entry = attr of the subscribe that wrote it ("none" when absent)
  brokerSub,    \* node is subscribed to the channel in the broker
  jobs,         \* pending dissolver jobs
  pres,         \* presence manager holds the connection in the channel
  status,       \* "connected" | "closed"
  closeReq,     \* a failed path spawned `go c.close(..)`
  closing,      \* c.closing flag (set at the very start of close)
  settled,      \* a presence tick ran after everything else finished
  established,  \* number of committed subscriptions
  jl,           \* joins / leaves reaching the broker, in order
  cbs,          \* application callbacks: "unsub", "disc"
  out,          \* frames written to the connection: "subreply", "subpush", "unsubreply", "unsubpush", "suberr", "disc"
  step

vars == <<ops, async, nopush, positioned, attr, faults, hist, pc, loc, entry, ctr, closedGens, hubE, hubA, brokerSub, jobs, pres, status, closeReq, closing, settled,
          established, jl, cbs, out, step>>

NoLoc == [gen |-> 0, has |-> FALSE, tgen |-> 0, wait |-> FALSE, wasSub |-> FALSE, rgen |-> 0, snap |-> FALSE]

Init ==
  /\ ops \in OpSets /\ async \in BOOLEAN /\ nopush \in NoPush
  /\ \E ap \in AttrPairs : attr = [CS |-> IF "CS" \in ops THEN ap[1] ELSE "none", SS |-> IF "SS" \in ops THEN ap[2] ELSE "none"]
  /\ faults = 0 /\ hist = {} /\ hubA = "none"
  /\ positioned \in (IF "History" \in Faults /\ MaxFaults > 0 /\ "CS" \in ops /\ ~nopush THEN BOOLEAN ELSE {FALSE})
  /\ pc = [t \in Threads |-> "idle"] /\ loc = [t \in Threads |-> NoLoc]
  /\ entry = None /\ ctr = 0 /\ closedGens = {} /\ hubE = 0 /\ brokerSub = FALSE /\ jobs = 0
  /\ pres = FALSE /\ status = "connected" /\ closeReq = FALSE /\ closing = FALSE /\ settled = FALSE /\ established = 0
  /\ jl = <<>> /\ cbs = <<>> /\ out = <<>>
  /\ step = [thr |-> "-", act |-> "Init", fail |-> FALSE]

Has == entry # None
NoBsub == \A t \in Threads : pc[t] # "bsub"          \* the channel's subLock is free

\* a frame enqueued after close() shut the writer (same critical section as the status flip) is dropped
Write(f)    == IF status = "closed" THEN out ELSE Append(out, f)
Go(t, p)    == pc' = [pc EXCEPT ![t] = p]
Step(t, a)  == step' = [thr |-> t, act |-> a, fail |-> FALSE]
StepF(t, a, f) == step' = [thr |-> t, act |-> a, fail |-> f]

\* a round trip `call` of thread t may fail while the budget lasts; the fault is counted and tagged
MayFail(call) == IF call \in Faults /\ faults < MaxFaults THEN {FALSE, TRUE} ELSE {FALSE}
Fault(call, t, f) == /\ faults' = IF f THEN faults + 1 ELSE faults
                     /\ hist' = IF f THEN hist \cup {<<call, t>>} ELSE hist

\* hub addSub: the entry of this connection is written as a whole (generation and routing attributes)
HubAdd(t, g) == hubE' = g /\ hubA' = attr[t]
OverTag(t)   == IF hubE # 0 /\ hubA # attr[t] THEN {<<"over", t>>} ELSE {}

\* hub removeSub(gen): only the matching generation is removed; an emptied channel submits a dissolver job
HubRemove(g) == IF hubE = g /\ g # 0 THEN hubE' = 0 /\ hubA' = "none" /\ jobs' = jobs + 1 ELSE UNCHANGED <<hubE, hubA, jobs>>

\* onSubscribeErrorGen(g): drop the reservation if this attempt still owns it, remove the hub entry generation-matched
ErrRollback(g) ==
  /\ IF Has /\ entry.gen = g
       THEN /\ entry' = None
            /\ closedGens' = IF entry.subCh = "open" THEN closedGens \cup {g} ELSE closedGens
       ELSE UNCHANGED <<entry, closedGens>>
  /\ HubRemove(g)

---------------------------------------------------------------------------
(* client-side subscribe *)
ReaderFreeForCS == pc["CU"] \in {"idle", "done"}
ReaderFreeForCU == pc["CS"] \in {"idle", "done"} \/ (async /\ pc["CS"] # "idle")

CSReserve ==
  /\ "CS" \in ops /\ pc["CS"] = "idle" /\ ReaderFreeForCS
  /\ IF status = "closed" THEN Go("CS", "done") /\ UNCHANGED <<loc, entry, ctr, out>>
     ELSE IF Has THEN /\ Go("CS", "done") /\ out' = Write("suberr") /\ UNCHANGED <<loc, entry, ctr>>
     ELSE /\ entry' = [gen |-> ctr + 1, sub |-> FALSE, subCh |-> "open", ss |-> FALSE]
          /\ ctr' = ctr + 1
          /\ loc' = [loc EXCEPT !["CS"].gen = ctr + 1]
          /\ Go("CS", "cb") /\ UNCHANGED out
  /\ UNCHANGED <<ops, async, nopush, positioned, attr, faults, hist, closedGens, hubE, hubA, brokerSub, jobs, pres, status, closeReq, closing, settled, established, jl, cbs>>
  /\ Step("CS", "Reserve")

\* the second "still reserved and not closed" check of subscribeCmd (by channel NAME, not generation)
StillReserved == Has /\ status # "closed"

\* failure of a client-side subscribe: rollback + disconnect(server error) => go c.close
CSFail(g) ==
  /\ ErrRollback(g) /\ closeReq' = TRUE /\ Go("CS", "done")

CSCallback ==       \* cb(reply): first check, addSubscription
  /\ pc["CS"] = "cb" /\ NoBsub
  /\ LET g == loc["CS"].gen IN
     IF ~StillReserved
       THEN CSFail(g) /\ UNCHANGED <<brokerSub, pres, hist>>
       ELSE /\ HubAdd("CS", g) /\ hist' = hist \cup OverTag("CS")
            /\ UNCHANGED <<jobs, entry, closedGens, closeReq, closing, settled, brokerSub, pres>>
            /\ IF hubE = 0 THEN Go("CS", "bsub") ELSE Go("CS", "pres")
  /\ UNCHANGED <<ops, async, nopush, positioned, attr, faults, loc, ctr, status, established, jl, cbs, out, closing, settled>>
  /\ Step("CS", "Callback")

CSBrokerSubscribed ==
  /\ pc["CS"] = "bsub"
  /\ brokerSub' = TRUE
  /\ LET g == loc["CS"].gen IN
     IF ~StillReserved
       THEN /\ Go("CS", "done") /\ closeReq' = TRUE
            \* ErrRollback needs the subLock that this very thread releases when Broker.Subscribe returns
            /\ IF Has /\ entry.gen = g
                 THEN entry' = None /\ closedGens' = IF entry.subCh = "open" THEN closedGens \cup {g} ELSE closedGens
                 ELSE UNCHANGED <<entry, closedGens>>
            /\ HubRemove(g)
       ELSE Go("CS", "pres") /\ UNCHANGED <<entry, closedGens, hubE, hubA, jobs, closeReq, closing, settled>>
  /\ UNCHANGED <<ops, async, nopush, positioned, attr, faults, hist, loc, ctr, pres, status, established, jl, cbs, out, closing, settled>>
  /\ Step("CS", "BrokerSubscribed")

CSPresenceReply ==  \* AddPresence lands, subscribe reply enqueued
  /\ pc["CS"] = "pres"
  /\ \E f \in MayFail("AddPresence") :
       /\ Fault("AddPresence", "CS", f) /\ StepF("CS", "PresenceReply", f)
       /\ IF f
            THEN \* subscribeCmd returns disconnect(server error): nothing landed, the deferred removeSubscribePresence
                 \* runs anyway, then onSubscribeErrorGen (needs the subLock) and `go c.close`
                 /\ NoBsub
                 /\ pres' = FALSE /\ CSFail(loc["CS"].gen)
                 /\ UNCHANGED out
            ELSE /\ pres' = TRUE
                 \* a positioned subscription reads the stream top next (Broker.History), the reply follows that
                 /\ IF positioned THEN Go("CS", "hist") /\ UNCHANGED out
                                   ELSE Go("CS", "replied") /\ out' = Write("subreply")
                 /\ UNCHANGED <<entry, closedGens, hubE, hubA, jobs, closeReq>>
  /\ UNCHANGED <<ops, async, nopush, positioned, attr, loc, ctr, brokerSub, status, closing, settled, established, jl, cbs>>

CSHistory ==        \* positioned subscribe: Broker.History (stream top) returns, subscribe reply enqueued
  /\ pc["CS"] = "hist"
  /\ \E f \in MayFail("History") :
       /\ Fault("History", "CS", f) /\ StepF("CS", "History", f)
       /\ IF f
            THEN \* a client error (non-internal *Error) from history / recovery: subscribeCmd returns ctx.err; the presence
                 \* added before is removed by the deferred rollback, the caller drops reservation and hub entry
                 \* generation-matched (needs the subLock) and answers the command with an ERROR REPLY: no disconnect
                 /\ NoBsub
                 /\ pres' = FALSE /\ ErrRollback(loc["CS"].gen) /\ Go("CS", "done")
                 /\ out' = Write("suberr")
            ELSE /\ out' = Write("subreply") /\ Go("CS", "replied")
                 /\ UNCHANGED <<pres, entry, closedGens, hubE, hubA, jobs>>
  /\ UNCHANGED <<ops, async, nopush, positioned, attr, loc, ctr, brokerSub, status, closeReq, closing, settled, established, jl, cbs>>

\* commitSubscription for generation g; ss = server-side. Result in pc: committed -> pcOk, else pcFail
Commit(t, g, ss, pcOk, pcFail, failSpawnsClose) ==
  IF Has /\ entry.gen = g
    THEN IF status = "closed"
           THEN \* closed mid-subscribe: drop reservation, hub entry, presence; wake waiters
                /\ entry' = None /\ closedGens' = closedGens \cup {g}
                /\ HubRemove(g) /\ pres' = FALSE
                /\ Go(t, pcFail) /\ closeReq' = (closeReq \/ failSpawnsClose)
                /\ UNCHANGED established
           ELSE /\ entry' = [gen |-> g, sub |-> TRUE, subCh |-> "nil", ss |-> ss]
                /\ closedGens' = closedGens \cup {g}
                /\ established' = established + 1
                /\ Go(t, pcOk) /\ UNCHANGED <<hubE, hubA, jobs, pres, closeReq, closing, settled>>
    ELSE \* reservation lost to an unsubscribe: roll back only what this attempt owns
         /\ HubRemove(g) /\ pres' = FALSE
         /\ Go(t, pcFail) /\ closeReq' = (closeReq \/ failSpawnsClose)
         /\ UNCHANGED <<entry, closedGens, established>>

CSCommit ==
  /\ pc["CS"] = "replied" /\ NoBsub
  /\ Commit("CS", loc["CS"].gen, FALSE, "join", "done", TRUE)
  /\ UNCHANGED <<ops, async, nopush, positioned, attr, faults, hist, loc, ctr, brokerSub, status, jl, cbs, out, closing, settled>>
  /\ Step("CS", "Commit")

CSJoin ==
  /\ pc["CS"] = "join"
  /\ jl' = Append(jl, [k |-> "join", g |-> loc["CS"].gen]) /\ Go("CS", "done")
  /\ \E f \in MayFail("PublishJoin") : Fault("PublishJoin", "CS", f) /\ StepF("CS", "Join", f)   \* result ignored
  /\ UNCHANGED <<ops, async, nopush, positioned, attr, loc, entry, ctr, closedGens, hubE, hubA, brokerSub, jobs, pres, status, closeReq, closing, settled, established, cbs, out>>

---------------------------------------------------------------------------
(* server-side subscribe *)
SSReserve ==
  /\ "SS" \in ops /\ pc["SS"] = "idle" /\ NoBsub
  /\ IF status = "closed" \/ Has
       THEN Go("SS", "done") /\ UNCHANGED <<loc, entry, ctr, hubE, hubA>>
       ELSE /\ entry' = [gen |-> ctr + 1, sub |-> FALSE, subCh |-> "open", ss |-> FALSE]
            /\ ctr' = ctr + 1
            /\ loc' = [loc EXCEPT !["SS"].gen = ctr + 1]
            /\ HubAdd("SS", ctr + 1)                             \* no "still reserved" check on this path
            /\ IF hubE = 0 THEN Go("SS", "bsub") ELSE Go("SS", "pres")
  /\ hist' = IF status = "closed" \/ Has THEN hist ELSE hist \cup OverTag("SS")
  /\ UNCHANGED <<ops, async, nopush, positioned, attr, faults, closedGens, brokerSub, jobs, pres, status, closeReq, closing, settled, established, jl, cbs, out>>
  /\ Step("SS", "Reserve")

SSBrokerSubscribed ==
  /\ pc["SS"] = "bsub"
  /\ brokerSub' = TRUE /\ Go("SS", "pres")
  /\ UNCHANGED <<ops, async, nopush, positioned, attr, faults, hist, loc, entry, ctr, closedGens, hubE, hubA, jobs, pres, status, closeReq, closing, settled, established, jl, cbs, out>>
  /\ Step("SS", "BrokerSubscribed")

SSPresenceCommit ==
  /\ pc["SS"] = "pres" /\ NoBsub
  /\ \E f \in MayFail("AddPresence") :
     LET g == loc["SS"].gen IN
     /\ Fault("AddPresence", "SS", f) /\ StepF("SS", "PresenceCommit", f)
     /\ IF f
          THEN \* subscribeCmd returns disconnect(server error): deferred presence removal, then Client.Subscribe
               \* rolls back generation-matched and returns the error to its caller (no close is spawned)
               /\ pres' = FALSE /\ ErrRollback(g) /\ Go("SS", "done")
               /\ UNCHANGED <<closeReq, established>>
          ELSE \* AddPresence lands, then commitSubscription (its rollback may remove the presence again)
               IF Has /\ entry.gen = g /\ status # "closed"
                 THEN /\ pres' = TRUE
                      /\ entry' = [gen |-> g, sub |-> TRUE, subCh |-> "nil", ss |-> TRUE]
                      /\ closedGens' = closedGens \cup {g} /\ established' = established + 1
                      /\ Go("SS", "committed") /\ UNCHANGED <<hubE, hubA, jobs, closeReq, closing, settled>>
                 ELSE Commit("SS", g, TRUE, "committed", "done", FALSE)
  /\ UNCHANGED <<ops, async, nopush, positioned, attr, loc, ctr, brokerSub, status, jl, cbs, out, closing, settled>>

SSPush ==
  /\ pc["SS"] = "committed"
  /\ out' = IF nopush THEN out ELSE Write("subpush")
  \* the join is published even when the push cannot be written (connection closed meanwhile): the subscription
  \* is committed and its leave will be published
  /\ Go("SS", "join")
  /\ UNCHANGED <<ops, async, nopush, positioned, attr, faults, hist, loc, entry, ctr, closedGens, hubE, hubA, brokerSub, jobs, pres, status, closeReq, closing, settled, established, jl, cbs>>
  /\ Step("SS", "Push")

SSJoin ==
  /\ pc["SS"] = "join"
  /\ jl' = Append(jl, [k |-> "join", g |-> loc["SS"].gen]) /\ Go("SS", "done")
  /\ \E f \in MayFail("PublishJoin") : Fault("PublishJoin", "SS", f) /\ StepF("SS", "Join", f)   \* result ignored
  /\ UNCHANGED <<ops, async, nopush, positioned, attr, loc, entry, ctr, closedGens, hubE, hubA, brokerSub, jobs, pres, status, closeReq, closing, settled, established, cbs, out>>

---------------------------------------------------------------------------
(* unsubscribe: shared by CU (reply), SU (push) and CL (nothing written) *)
FinishFrame(t) == IF t = "CU" THEN Write("unsubreply") ELSE IF t = "SU" THEN Write("unsubpush") ELSE out
AfterUnsub(t)  == IF t = "CL" THEN "kdisc" ELSE "done"

UnsubSnapshot(t) ==      \* RLock snapshot of the channel context, then the hook gate
  /\ loc' = [loc EXCEPT ![t].has = Has, ![t].tgen = entry.gen, ![t].wasSub = entry.sub,
                        ![t].wait = (Has /\ ~entry.ss /\ ~entry.sub /\ entry.subCh = "open")]
  /\ Go(t, "snap")

UStart(t) ==
  /\ t \in {"CU", "SU"} /\ t \in ops /\ pc[t] = "idle"
  /\ t = "CU" => ReaderFreeForCU
  /\ IF status = "closed"
       THEN Go(t, "done") /\ UNCHANGED loc              \* Client.Unsubscribe / HandleCommand on a closed client: no-op
       ELSE UnsubSnapshot(t)
  /\ UNCHANGED <<ops, async, nopush, positioned, attr, faults, hist, entry, ctr, closedGens, hubE, hubA, brokerSub, jobs, pres, status, closeReq, closing, settled, established, jl, cbs, out>>
  /\ Step(t, "UnsubStart")

PendingJoin(g) == (pc["CS"] = "join" /\ loc["CS"].gen = g) \/ (pc["SS"] \in {"committed", "join"} /\ loc["SS"].gen = g)

UProceed(t) ==           \* wait gate, then the generation-matched delete under c.mu
  /\ pc[t] = "snap"
  /\ loc[t].wait => loc[t].tgen \in closedGens
  /\ JoinRaceFixed => ~(Has /\ PendingJoin(entry.gen))
  /\ LET l == loc[t]
         gone == ~l.has \/ (l.wait /\ ~Has)
         match == Has /\ entry.gen = l.tgen
         wasSub == IF l.wait THEN entry.sub ELSE l.wasSub
     IN IF gone \/ ~match
          THEN \* nothing (left) to tear down
               /\ out' = FinishFrame(t) /\ Go(t, AfterUnsub(t))
               /\ UNCHANGED <<loc, entry, closedGens, hubE, hubA, jobs>>
          ELSE /\ entry' = None
               /\ closedGens' = IF entry.subCh = "open" THEN closedGens \cup {entry.gen} ELSE closedGens
               /\ loc' = [loc EXCEPT ![t].rgen = entry.gen, ![t].wasSub = wasSub]
               /\ IF wasSub
                    THEN Go(t, "rempres") /\ UNCHANGED <<hubE, hubA, jobs, out>>
                    ELSE \* a reservation: only the hub entry (if any) is removed, no presence/leave/callback
                         /\ NoBsub /\ HubRemove(entry.gen)
                         /\ out' = FinishFrame(t) /\ Go(t, AfterUnsub(t))
  /\ UNCHANGED <<ops, async, nopush, positioned, attr, faults, hist, ctr, brokerSub, pres, status, closeReq, closing, settled, established, jl, cbs>>
  /\ Step(t, "UnsubProceed")

URemovePresence(t) ==
  /\ pc[t] = "rempres"
  /\ pres' = FALSE /\ Go(t, "leave")      \* a failing call: the removal landed, its reply was lost; the error is only logged
  /\ \E f \in MayFail("RemovePresence") : Fault("RemovePresence", t, f) /\ StepF(t, "RemovePresence", f)
  /\ UNCHANGED <<ops, async, nopush, positioned, attr, loc, entry, ctr, closedGens, hubE, hubA, brokerSub, jobs, status, closeReq, closing, settled, established, jl, cbs, out>>

ULeave(t) ==
  /\ pc[t] = "leave" /\ NoBsub
  /\ jl' = Append(jl, [k |-> "leave", g |-> loc[t].rgen])
  /\ HubRemove(loc[t].rgen)                 \* whatever PublishLeave returned (`_ =`): removeSubscription follows
  /\ Go(t, "ucb")
  /\ \E f \in MayFail("PublishLeave") : Fault("PublishLeave", t, f) /\ StepF(t, "Leave", f)
  /\ UNCHANGED <<ops, async, nopush, positioned, attr, loc, entry, ctr, closedGens, brokerSub, pres, status, closeReq, closing, settled, established, cbs, out>>

UCallback(t) ==
  /\ pc[t] = "ucb"
  /\ cbs' = Append(cbs, "unsub")
  /\ out' = FinishFrame(t) /\ Go(t, AfterUnsub(t))
  /\ UNCHANGED <<ops, async, nopush, positioned, attr, faults, hist, loc, entry, ctr, closedGens, hubE, hubA, brokerSub, jobs, pres, status, closeReq, closing, settled, established, jl>>
  /\ Step(t, "UnsubCallback")

---------------------------------------------------------------------------
(* close *)
CLStart ==
  /\ pc["CL"] = "idle" /\ ("CL" \in ops \/ closeReq)
  /\ closing' = TRUE
  /\ IF status = "closed" THEN Go("CL", "done") /\ UNCHANGED <<status, loc>>
     ELSE /\ status' = "closed"
          /\ loc' = [loc EXCEPT !["CL"].snap = Has]            \* channels snapshot under c.mu
          /\ Go("CL", "tclose")
  /\ UNCHANGED <<ops, async, nopush, positioned, attr, faults, hist, entry, ctr, closedGens, hubE, hubA, brokerSub, jobs, pres, closeReq, settled, established, jl, cbs, out>>
  /\ Step("CL", "CloseStart")

CLTransportClosed ==
  /\ pc["CL"] = "tclose"
  /\ pc["TK"] \notin {"tkalive", "tkpres"}          \* close() takes presenceMu, held by a running tick
  /\ out' = Append(out, "disc")
  /\ IF loc["CL"].snap THEN UnsubSnapshot("CL") ELSE Go("CL", "kdisc") /\ UNCHANGED loc
  /\ UNCHANGED <<ops, async, nopush, positioned, attr, faults, hist, entry, ctr, closedGens, hubE, hubA, brokerSub, jobs, pres, status, closeReq, closing, settled, established, jl, cbs>>
  /\ Step("CL", "TransportClosed")

CLDisconnectCb ==
  /\ pc["CL"] = "kdisc"
  /\ cbs' = Append(cbs, "disc") /\ Go("CL", "done")
  /\ UNCHANGED <<ops, async, nopush, positioned, attr, faults, hist, loc, entry, ctr, closedGens, hubE, hubA, brokerSub, jobs, pres, status, closeReq, closing, settled, established, jl, out>>
  /\ Step("CL", "DisconnectCallback")

---------------------------------------------------------------------------
(* presence tick (updatePresence): holds presenceMu from start to end *)
CloseHoldsPresenceMu == pc["CL"] \in {"snap", "rempres", "leave", "ucb", "kdisc"}

TKStart ==
  /\ "TK" \in ops /\ pc["TK"] = "idle" /\ ~CloseHoldsPresenceMu
  /\ IF status = "closed" \/ ~(Has /\ entry.sub)
       THEN Go("TK", "done")                         \* closed, or no subscribed channel with duties: nothing to do
       ELSE Go("TK", "tkalive")                      \* snapshot taken, parked in the alive callback
  /\ loc' = [loc EXCEPT !["TK"].tgen = entry.gen]
  /\ UNCHANGED <<ops, async, nopush, positioned, attr, faults, hist, entry, ctr, closedGens, hubE, hubA, brokerSub, jobs, pres, status, closeReq, closing, settled, established, jl, cbs, out>>
  /\ Step("TK", "TickStart")

TKCheck ==          \* closing? channel still present (by name)? then AddPresence
  /\ pc["TK"] = "tkalive"
  /\ IF closing \/ ~Has THEN Go("TK", "done") ELSE Go("TK", "tkpres")
  /\ UNCHANGED <<ops, async, nopush, positioned, attr, faults, hist, loc, entry, ctr, closedGens, hubE, hubA, brokerSub, jobs, pres, status, closeReq, closing, settled, established, jl, cbs, out>>
  /\ Step("TK", "TickCheck")

TKAdd ==            \* AddPresence lands; compensateRacedPresence removes it again if the channel is gone (by name)
  /\ pc["TK"] = "tkpres"
  /\ \E f \in MayFail("AddPresence") :
       /\ Fault("AddPresence", "TK", f) /\ StepF("TK", "TickAdd", f)
       \* a failing add lands nothing and is logged; the compensation runs all the same (presenceAdded = attempted)
       /\ pres' = IF f THEN (IF Has THEN pres ELSE FALSE) ELSE Has
  /\ Go("TK", "done")
  /\ UNCHANGED <<ops, async, nopush, positioned, attr, loc, entry, ctr, closedGens, hubE, hubA, brokerSub, jobs, status, closeReq, closing, settled, established, jl, cbs, out>>

---------------------------------------------------------------------------
AllDone == /\ \A t \in Threads : pc[t] \in {"idle", "done"}
           /\ \A t \in ops : pc[t] = "done"
           /\ closeReq => pc["CL"] = "done"

JobRun ==
  /\ jobs > 0 /\ NoBsub
  /\ JobsLast => AllDone
  /\ \E f \in (IF hubE = 0 THEN MayFail("BrokerUnsubscribe") ELSE {FALSE}) :    \* the call is made only for an empty channel
       /\ Fault("BrokerUnsubscribe", "JOB", f) /\ step' = [thr |-> "JOB", act |-> "JobRun", fail |-> f]
       \* a failing Broker.Unsubscribe: the job cools down, returns the error and is put back into the queue
       /\ jobs' = IF f THEN jobs ELSE jobs - 1
       /\ brokerSub' = IF hubE = 0 /\ ~f THEN FALSE ELSE brokerSub
  /\ UNCHANGED <<ops, async, nopush, positioned, attr, pc, loc, entry, ctr, closedGens, hubE, hubA, pres, status, closeReq, closing, settled, established, jl, cbs, out>>

\* the periodic presence tick that follows once everything is quiet ("settled" in C06)
SettleTick ==
  /\ AllDone /\ ~settled
  /\ settled' = TRUE
  /\ pres' = IF status # "closed" /\ Has /\ entry.sub THEN TRUE ELSE pres
  /\ UNCHANGED <<ops, async, nopush, positioned, attr, faults, hist, pc, loc, entry, ctr, closedGens, hubE, hubA, brokerSub, jobs, status, closeReq, closing, established, jl, cbs, out>>
  /\ step' = [thr |-> "TK2", act |-> "SettleTick", fail |-> FALSE]

Next ==
  IF UrgentClose /\ closeReq /\ pc["CL"] = "idle" THEN CLStart ELSE
  \/ CSReserve \/ CSCallback \/ CSBrokerSubscribed \/ CSPresenceReply \/ CSHistory \/ CSCommit \/ CSJoin
  \/ SSReserve \/ SSBrokerSubscribed \/ SSPresenceCommit \/ SSPush \/ SSJoin
  \/ \E t \in {"CU", "SU"} : UStart(t)
  \/ \E t \in {"CU", "SU", "CL"} : UProceed(t) \/ URemovePresence(t) \/ ULeave(t) \/ UCallback(t)
  \/ CLStart \/ CLTransportClosed \/ CLDisconnectCb
  \/ TKStart \/ TKCheck \/ TKAdd \/ SettleTick
  \/ JobRun

Spec == Init /\ [][Next]_vars

---------------------------------------------------------------------------
Quiescent  == AllDone
Subscribed == Has /\ entry.sub
Count(s, x) == Cardinality({i \in 1..Len(s) : s[i] = x})

TypeOK == /\ jobs >= 0 /\ ctr <= 2 /\ faults <= MaxFaults /\ hubA \in AttrVals /\ (hubE = 0 => hubA = "none")
          /\ \A t \in Threads : pc[t] \in {"idle", "cb", "bsub", "pres", "hist", "replied", "committed", "join", "snap", "rempres",
                                          "leave", "ucb", "tclose", "kdisc", "tkalive", "tkpres", "done"}

\* C04: once settled, "reports itself subscribed" <=> exactly one routing entry, of the same generation, carrying the
\* routing attributes of the subscription the connection reports (the one whose subscribe owns that generation)
AttrOfGen(g) == IF loc["CS"].gen = g THEN attr.CS ELSE attr.SS
C04 == Quiescent => /\ (Subscribed <=> hubE # 0)
                    /\ (Has => (entry.sub /\ hubE = entry.gen /\ hubA = AttrOfGen(entry.gen)))
\* the hub never carries an entry of a generation other than the current reservation/subscription once settled
C05 == (Quiescent /\ status = "closed") => (~Has /\ hubE = 0 /\ ~pres)
C06 == (Quiescent /\ settled) => (Subscribed <=> pres)
\* C07: joins and leaves alternate starting with a join; as many joins as established subscriptions
\* C07: per subscription (generation) exactly one join and at most one leave, the join first; observably: in every
\* prefix of the join/leave sequence of this connection there are at least as many joins as leaves
Kinds(k)  == {i \in 1..Len(jl) : jl[i].k = k}
C07_Order == /\ \A i \in Kinds("leave") : \E j \in Kinds("join") : j < i /\ jl[j].g = jl[i].g
             /\ \A i, j \in 1..Len(jl) : (i # j /\ jl[i].k = jl[j].k) => jl[i].g # jl[j].g
C07_Prefix == \A n \in 1..Len(jl) : Cardinality({i \in 1..n : jl[i].k = "join"}) >= Cardinality({i \in 1..n : jl[i].k = "leave"})
C07_Count == Quiescent => /\ Cardinality(Kinds("join")) = established
                          /\ Cardinality(Kinds("leave")) = established - (IF Subscribed THEN 1 ELSE 0)
C08 == /\ Count(cbs, "disc") <= 1
       /\ Quiescent => Count(cbs, "unsub") = established - (IF Subscribed THEN 1 ELSE 0)
\* C26: local interest implies broker subscription (outside the addSubscription critical section)
C26_Safe  == (hubE # 0 /\ NoBsub) => brokerSub
C26_Exact == (Quiescent /\ jobs = 0) => (brokerSub <=> hubE # 0)

(* Witness predicates: "this scenario never happens". TLC's counterexample to each is a shortest behaviour that
   reaches the scenario; the runner replays every witness on the real code in every run, whatever the seed. *)
W_TickAfterResubscribe == ~(step.act = "TickAdd" /\ Has /\ entry.sub /\ loc["TK"].tgen # entry.gen)
W_LeaveBeforeJoin      == ~(\E i \in 1..Len(jl) : jl[i].k = "leave" /\ ~\E j \in 1..(i - 1) : jl[j].k = "join" /\ jl[j].g = jl[i].g)
W_CloseDuringSubscribe == ~(step.act = "Commit" /\ status = "closed" /\ pc["CS"] = "done")
W_UnsubscribeWaited    == ~(step.act = "UnsubProceed" /\ \E t \in {"CU", "SU", "CL"} : step.thr = t /\ loc[t].wait /\ loc[t].rgen # 0)
W_ReservationLost      == ~(step.act \in {"Commit", "PresenceCommit"} /\ established = 0 /\ status = "connected" /\ ~Has /\ (pc["CS"] = "done" \/ pc["SS"] = "done") /\ hubE = 0 /\ ctr = 1 /\ closeReq)
W_StaleTickPresence    == ~(Quiescent /\ status = "closed" /\ pres)
W_ResubscribeBeforeJob == ~(jobs > 0 /\ hubE # 0 /\ ctr = 2)

\* quiescent witnesses (replayed to the end, so the settled-state monitors run on them): a resubscribe whose addSub
\* overtakes the previous unsubscribe's removeSub with different routing attributes; failing round trips per call site
W_OverwriteByCS   == ~(Quiescent /\ <<"over", "CS">> \in hist /\ Subscribed /\ ~entry.ss)
W_OverwriteBySS   == ~(Quiescent /\ <<"over", "SS">> \in hist /\ Subscribed /\ entry.ss)
W_LeaveFailsCU    == ~(Quiescent /\ <<"PublishLeave", "CU">> \in hist)
W_LeaveFailsSU    == ~(Quiescent /\ <<"PublishLeave", "SU">> \in hist)
W_LeaveFailsCL    == ~(Quiescent /\ <<"PublishLeave", "CL">> \in hist)
W_RemPresFailsCU  == ~(Quiescent /\ <<"RemovePresence", "CU">> \in hist)
W_AddPresFailsCS  == ~(Quiescent /\ <<"AddPresence", "CS">> \in hist)
W_AddPresFailsSS  == ~(Quiescent /\ <<"AddPresence", "SS">> \in hist)
W_HistFailsCS     == ~(Quiescent /\ <<"History", "CS">> \in hist)
W_JobFails        == ~(Quiescent /\ jobs = 0 /\ <<"BrokerUnsubscribe", "JOB">> \in hist)
WOpsA == {{"SS", "SU", "CS"}}
WOpsB == {{"CS", "CU", "SS"}}
WOpsC == {{"CS", "CU"}}
WOpsD == {{"SS", "SU"}}
WOpsE == {{"SS", "CL"}}
WOpsF == {{"CS"}}
WOpsG == {{"SS"}}
AP_A  == {<<"none", "fA">>}
AP_B  == {<<"fA", "fB">>}
NoFaults == {}
F_Leave  == {"PublishLeave"}
F_RemP   == {"RemovePresence"}
F_AddP   == {"AddPresence"}
F_Unsub  == {"BrokerUnsubscribe"}
F_Hist   == {"History"}

WOps1 == {{"SS", "SU", "CS", "TK"}}
WOps2 == {{"CS", "SU"}, {"SS", "CL"}}
WOps3 == {{"CS", "CL"}}
WOps4 == {{"CS", "CU"}, {"SS", "SU"}}
WOps5 == {{"CS", "SU"}}
WOps6 == {{"SS", "CU", "CS", "CL", "TK"}}
WOps7 == {{"SS", "SU", "CS"}}

View == <<ops, async, nopush, positioned, attr, faults, pc, loc, entry, ctr, closedGens, hubE, hubA, brokerSub, jobs, pres, status, closeReq, closing, settled, established, jl, cbs, out>>
=============================================================================
