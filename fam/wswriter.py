"""C30, C31 -- family wswriter: the WebSocket WRITE path, the opening handshake and the close handling of
/repo/internal/websocket + /repo/handler_websocket.go (the frame READER is family wsreader, C29).

C30  spec/WsWriter/WsWriter.tla models NextWriter / Write / WriteString / ReadFrom / Close / WriteMessage (incl. the
     server fast path) / WritePreparedMessage / WriteControl with the real byte counts relative to the write buffer,
     emits abstract frames [op, fin, rsv1, masked, len]; the property is an independent RFC 6455 / RFC 7692 decoder
     (`Dec`) that must accept the wire and yield exactly the written messages.  Exhaustive TLC (online monitor,
     histories out of the VIEW), then TLC -simulate scripts (WsWriterSim, history invariant Roundtrip checked on every
     state) are replayed into a REAL Conn over an in-memory net.Conn (harness/wswriter mode `write`): wire bytes parsed
     by the harness's own frame parser, validated against the RFC by its own stream validator, reassembled (and
     inflated) and compared byte for byte with what was written, then read back by a real Conn of the opposite role.
     Verdict sources: validator (`wire:<rule>`), independent reassembly (`roundtrip-parser:*`), real reader
     (`roundtrip-reader:*`).  A different but valid fragmentation / a different error result than the model's is drift.
     Streaming call kinds (`via` of the Write action; the message is the concatenation of all bytes accepted between
     NextWriter and Close): Write, WriteString, io.Copy = ReadFrom from a source that is not an io.WriterTo and returns
     (0, io.EOF) separately ("r"), the last bytes TOGETHER with io.EOF ("re"), either in chunks of a few bytes
     ("rc", "rce"); on a flate-wrapped writer io.Copy / io.WriteString fall back to Write (also replayed).
     Length-encoding boundaries (simedge.cfg, both tiers): messages of 125/126/127/65535/65536/65537 bytes in one call,
     prepared and streamed, buffers 125/126/4096/65536 so that full non-final frames are exactly 125/126/65536 bytes;
     the run is inconclusive unless frames of exactly 125, 126, 65535 and 65536 bytes were on the wire.
     Blocking assumption (spec/WsWriter/WsWriterPool.tla + harness mode `stall`): a frame handed to the network stays
     this connection's frame while the write is pending -- net.Conn.Write parked on entry before it looks at its
     argument (`netwrite`), or the final frame queued behind the write mutex held by a stalled ping (`mutex`) --
     also when the write buffer comes from a WriteBufferPool shared with another connection that writes a message of
     the same length meanwhile (harness-owned LIFO pool: deterministic reuse).  Signatures pool:stalled-write-mixed,
     pool:queued-write-mixed; setup trouble (park never reached, writer never returns, pool unused) is drift.

C31  spec/WsHandshake/WsHandshake.tla: decision tables (upgrade request classes x configuration -> response, close
     code validity 0..5000 + 65535, close reason UTF-8 classes, websocketTransport.Close(code, len(reason))) with the
     RFC property stated separately; spec/WsHandshake/WsCloseReg.tla: the first-close-wins register as a state machine
     with a ghost "first close frame observed".  Rows / scripts are dumped by TLC and replayed (modes `handshake`:
     Upgrader.Upgrade with an in-memory hijackable writer AND centrifuge.NewWebsocketHandler behind a real net/http
     server over loopback TCP; `closecodes`: the predicate through a shim and real close frames into server and client
     Conns; `transportclose`: the real websocketTransport.Close, the frame parsed by the harness and by a real client
     Conn; `closereg`: Conn.CloseCode() after every step).

Known deviations of the unchanged tree (C31, genuine, reported to the lead -- signatures):
  handshake:no-response:key:b64-17bytes, handshake:no-response:key:b64-18bytes
      Sec-WebSocket-Key of 24 base64 characters with fewer than two '=' (decodes to 17/18 bytes): isValidChallengeKey
      decodes into a 16 byte buffer, encoding/base64 panics (index out of range); net/http recovers, the client gets
      no HTTP response at all instead of 400 (RFC 6455 4.2.1 last paragraph / 4.2.2 item 1).
  handshake:reject-valid:connection=keep-alive,, Upgrade
      a Connection header with a null list element is refused with 400 although it contains the Upgrade token
      (RFC 2616 2.1 #rule / RFC 7230 7: recipients MUST ignore empty list elements) -- low severity.

Mutation testing (FRAMEWORK rule 3), scratch worktrees /tmp/wswriter-{m,n}* of HEAD e291a3d5, each run through
`VERIF_REPO=... ./check Cxx --seed 1` (quick tier); the C31 mutations were applied on top of the two-line repair of the
known deviations above so that they are not masked by them:
 C30 (all caught, exit 1):
  m1 messageWriter.Write large-write path flushFrame(false,p) -> flushFrame(true,p)   roundtrip-parser:* / wire:*
  m2 flushFrame: `w.compress = false` removed (RSV1 stays on continuations)           wire:rsv1-on-continuation
  m3 WriteControl: client mask bit dropped (`b1 |= maskBit` removed)                  wire:unparsable / client-frame-not-masked
  m4 flushFrame: `w.frameType = continuationFrame` removed                            wire:data-frame-inside-fragmented-message
  m5 WriteControl limit 125 -> 126                                                    wire:control-longer-than-125 / unparsable
  m6 PreparedMessage.frame: cache lookup key ignores `compress`                       wire:rsv1-without-extension
  m7 flushFrame: FIN also set on a non-final fragment that exactly fills the buffer   wire:continuation-without-message
  s1 (seeded) flushFrame: endMessage (pool Put) BEFORE c.write of the final frame      pool:stalled-write-mixed, pool:queued-write-mixed
  s2 (seeded) ReadFrom: bytes returned together with io.EOF not counted                roundtrip-parser:bytes / :count, write:short-count
  s4 (seeded, reader) advanceFrame: 64-bit length form rejected for payload == 65536    roundtrip-reader:count (simedge scripts)
  (a first version of m6 that made prepared messages never compress, and an ncopy off-by-one that only changes the
   fragment sizes, are -- correctly -- reported as drift, exit 2: the property still holds)
 C31 (all caught, exit 1):
  n1 computeAcceptKey/encodeAcceptKey hash GUID+key instead of key+GUID                handshake:accept-key
  n2 tokenListContainsValue compares case-sensitively                                  handshake:reject-valid:connection=upgrade, upgrade=WebSocket, ...
  n3 selectSubprotocol returns the server's first protocol when nothing matches        handshake:subprotocol-not-offered
  n4 compression negotiated whenever enabled (offer not checked)                       handshake:extension-not-offered
  n5 validReceivedCloseCodes: 1005 -> true                                             closecode:accept-forbidden:1005, closereg:*RecvCloseInvalid
  n6 WriteControl limit 125 -> 123 (close reason limit 123 -> 121)                     tclose:no-frame:len=122, len=123
  n7 recordCloseCode: CompareAndSwap(0, v) -> Store(v)                                 closereg:*
  n8 checkSameOrigin / checkSameHost: compare only the host prefix                     handshake:accept-invalid:origin:origin=other-port/default
"""
from lib import vf


def _scripts(behs):
    out = []
    for b in behs:
        s0 = b[0]
        out.append({'side': s0['side'], 'neg': s0['neg'], 'B': s0['B'], 'steps': [st['step'] for st in b]})
    return out


def c30(c):
    quick = c.tier == 'quick'
    # 1. design: exhaustive, online decoder monitor, histories outside the VIEW
    r = c.tlc_exhaustive('WsWriter', 'WsWriter', 'quick.cfg' if quick else 'thorough.cfg', workers=4, timeout=2400)
    c.log('TLC exhaustive: %d distinct / %d generated states, depth %d' % (r['distinct'], r['states'], r['depth']))
    if not quick:
        # the recursive decoder over the complete histories, small exhaustive configuration
        r2 = c.tlc_exhaustive('WsWriter', 'WsWriter', 'hist.cfg', workers=4, timeout=2400)
        c.log('TLC exhaustive (history invariant): %d distinct states' % r2['distinct'])
    # buffer ownership under the blocking assumption (two connections, shared LIFO pool): code order is safe
    rp = c.tlc_exhaustive('WsWriter', 'WsWriterPool', 'pool.cfg', workers=1, timeout=600)
    c.log('TLC exhaustive (shared write buffer pool, pending writes): %d distinct states' % rp['distinct'])
    binp = c.go_build('wswriter')
    # 2a. the schedule of that model forced on two real Conns sharing a pool
    st = c.harness(binp, 'stall', {'rounds': 4 if quick else 40}, timeout=900)
    c.absorb(st)
    c.log('stall probe: %d cases (final-frame Write parked / queued behind the write mutex while the other connection '
          'writes through the same pool), %d completed' % (st['executed'] + len(st.get('drifts') or []), st['completed']))
    c.cov['traces_validated_against_impl'] += st['completed']
    c.cov['evaluations'] += st['executed']
    c.cov['stall_cases'] = st['completed']
    c.cov.setdefault('replay_counters', {}).update({'stall:' + k: v for k, v in st['counters'].items()})
    # 2. spec -> code: simulated scripts (every state checked against Roundtrip by TLC) replayed into a real Conn
    # simedge.cfg: the payload-length encoding boundaries (125/126/127, 65535/65536/65537; buffers 125/126/65536)
    runs = [('sim.cfg', 300), ('simedge.cfg', 90)] if quick else [('sim.cfg', 5000), ('simbig.cfg', 5000), ('simedge.cfg', 1500)]
    ops = 0
    for cfg, n in runs:
        s = c.tlc('WsWriter', 'WsWriterSim', cfg, simulate=n, depth=15, timeout=2400)
        if not s['ok']:
            raise vf.Inconclusive('simulation %s failed (model-level): %s' % (cfg, s['out'][-3000:]))
        behs = c.behaviours(s)
        c.log('TLC simulate %s: %d scripts' % (cfg, len(behs)))
        scripts = _scripts(behs)
        ops += sum(len(x['steps']) - 1 for x in scripts)
        res = c.harness(binp, 'write', scripts, timeout=1800)
        c.absorb(res)
        c.cov['traces_validated_against_impl'] += res['completed']
        c.cov['evaluations'] += res['executed']
        c.cov['distinct_nontrivial'] += res['nontrivial']
        c.cov['samples'] += (res['samples'] or [])[:2]
        c.cov.setdefault('replay_counters', {}).update({cfg + ':' + k: v for k, v in res['counters'].items()})
        if cfg == 'simedge.cfg' and not (res.get('violations') or res.get('drifts')):
            missing = [k for k in ('wire_frames_len_125', 'wire_frames_len_126', 'wire_frames_len_65535', 'wire_frames_len_65536')
                       if res['counters'].get(k, 0) < 3]
            if missing:
                raise vf.Inconclusive('boundary scripts did not put enough boundary-length frames on the wire: %s' % missing)
    c.cov['api_calls_replayed'] = ops
    c.cov['rule'] = ('scripts: TLC -simulate of WsWriterSim (operation by slot, arguments by state hash), 14 API calls each, write buffer sizes '
                     '16/130/1024 (quick) plus 125/126/4096/65535/65536 (thorough), chunk sizes 0,1,B-1,B,B+1,2B,2B+1, the large-write threshold '
                     '2*(B+14) and +1, 125/126/127 and (thorough) 65535/65536/65537; non-trivial = script whose wire contains a fragmented '
                     'message or a control frame between fragments, distinct by operation list and configuration')
    c.assumptions += ['legal API use: one writer at a time (NextWriter/WriteMessage implicitly close an open writer, modelled); WritePreparedMessage only between messages',
                      'compressed messages: frame count and lengths depend on DEFLATE and are not modelled (structure, RSV1 placement and inflated bytes are checked)',
                      'network write errors / deadlines are not modelled (only the sticky ErrCloseSent after a Close frame)',
                      'stall probe: one stalled write at a time, two connections, harness-owned LIFO BufferPool; the mutex variant waits for a pool Put or a 120 ms grace period',
                      'masking-key freshness (RFC 6455 5.3) is not checked: a prepared message reuses its key by design',
                      'UTF-8 validity of text payloads is the application\'s business']


def _rows(c, kinds):
    r = c.tlc_exhaustive('WsHandshake', 'WsHandshake', 'quick.cfg' if c.tier == 'quick' else 'thorough.cfg', dump=True, workers=4, timeout=2400)
    rows = c.dump_states(r)
    return [x for x in rows if x['kind'] in kinds], len(rows)


def c31(c):
    quick = c.tier == 'quick'
    rows, n = _rows(c, ('upgrade', 'closecode', 'reason', 'tclose'))
    c.log('TLC: %d table rows, the RFC properties hold on the decision cascades' % n)
    reg = c.tlc_exhaustive('WsHandshake', 'WsCloseReg', 'reg.cfg' if quick else 'regbig.cfg', dump=True, workers=4, timeout=1200)
    scripts = [s['hist'] for s in c.dump_states(reg) if s['hist']]
    c.log('TLC: %d close-register scripts (%d states), register = first observed close frame on all of them' % (len(scripts), reg['distinct']))
    binp = c.go_build('wswriter')
    parts = [('handshake', [{'row': x['row'], 'res': x['res']} for x in rows if x['kind'] == 'upgrade']),
             ('closecodes', [x for x in rows if x['kind'] in ('closecode', 'reason')]),
             ('transportclose', [x for x in rows if x['kind'] == 'tclose']),
             ('closereg', scripts)]
    for mode, inp in parts:
        res = c.harness(binp, mode, inp, timeout=1800)
        c.absorb(res)
        c.log('%s: %d executed, %d completed, %d non-trivial' % (mode, res['executed'], res['completed'], res['nontrivial']))
        c.cov['traces_validated_against_impl'] += res['completed']
        c.cov['evaluations'] += res['executed']
        c.cov['distinct_nontrivial'] += res['nontrivial']
        c.cov['samples'] += (res['samples'] or [])[:1]
        c.cov.setdefault('replay_counters', {}).update({mode + ':' + k: v for k, v in res['counters'].items()})
        c.cov.setdefault('rows', {})[mode] = res['executed']
    c.cov['exhaustive'] = True
    c.cov['rule'] = ('upgrade rows: every request in which at most two of method/Connection/Upgrade/Version/Key deviate from a valid request (thorough: the full '
                     'cross product) x origin classes x CheckOrigin x offered/configured subprotocols x offered extensions x compression, plus HTTP/2 extended '
                     'CONNECT rows; non-trivial = accepted upgrade; close codes 0..5000 and 65535 (non-trivial = must-accept code); 12 close reason classes; '
                     'transport close 9 codes x 8 reason lengths (non-trivial = frame written); register scripts of <= 3 (thorough 4) steps (non-trivial = >= 2 steps)')
    c.assumptions += ['header classes are rendered into one concrete header text each (harness/wswriter/handshake.go render)',
                      'leniencies of the server that the RFC would let it refuse are not flagged and not in the table: HTTP/1.0 requests, a Sec-WebSocket-Version list such as "13, 8", repeated Sec-WebSocket-Key headers',
                      'close codes 1012-1014 (registered at IANA after RFC 6455) are "open": the model follows the code (1012, 1013 accepted, 1014 rejected), a difference is drift',
                      'DisconnectConnectionClosed (3000) sends no close frame by design (the peer is gone); disconnect codes > 65535 do not fit a close frame and are outside the table',
                      'close frames are only sent through WriteControl (true for centrifuge); Conn.WriteMessage/NextWriter/WritePreparedMessage(CloseMessage) do not record a close code',
                      'HTTP/2 rows call Upgrader.Upgrade directly with a hand-built request (no real HTTP/2 server)']


CHECKS = {'C30': c30, 'C31': c31}

META = {
    'C30': dict(level='model_checking',
                text='WsWriter.tla is an implementation-shaped model of the write path (buffer fill and flush rule, first/continuation opcodes, FIN, RSV1, masking, the server large-write and WriteMessage fast paths, prepared messages on their own 4096 byte buffer, control frames, implicit close, the sticky close-sent error) with real byte counts; the property is an independent RFC 6455/RFC 7692 frame-sequence decoder that must accept the wire and return exactly the written messages. TLC checks it exhaustively on bounded scripts and on every state of thousands of simulated scripts, which are then replayed into a real Conn: the wire bytes are parsed and validated by the harness\'s own parser, reassembled/inflated and compared byte for byte, and read back by a real Conn of the opposite role.',
                note='Bounds: exhaustive 4 API calls, buffers 16/130 (thorough 16/125/130, richer sizes); replay scripts of 14 calls, buffers 16..65536, sizes around B, 2(B+14), 125/126, 4096, 65535/65536. Compressed frame lengths are not modelled. Trusted: TLC, lib/tlaparse.py, the harness parser/validator/comparison code, compress/flate for the independent inflate.',
                technique='TLA+ spec + TLC exhaustive and simulation; behaviour replay into internal/websocket.Conn; independent wire decoder; real reader round trip; forced-schedule stall probe on two Conns sharing a write buffer pool',
                design_ref='DESIGN.md 4.3, 8 (C30)'),
    'C31': dict(level='model_checking',
                text='WsHandshake.tla states the upgrade decision cascade of Upgrader.Upgrade, the close-code and close-reason validity tables and websocketTransport.Close as tables with the RFC 6455 (4.2.1, 4.2.2, 4.4, 7.4, 5.5) properties stated separately and checked by TLC on every row; WsCloseReg.tla is the first-close-wins register with a ghost for the first observed close frame. Every row and every script is replayed into the real code: Upgrader.Upgrade directly and the centrifuge WebsocketHandler behind a real HTTP server, real close frames into server and client connections, the real transport Close, Conn.CloseCode() after every step.',
                note='Bounds: see coverage.rule. Expected statuses other than accept/refuse-with-4xx are compared as drift only. Trusted: TLC, lib/tlaparse.py, harness request rendering and comparison, crypto/sha1 for the independent accept key.',
                technique='TLA+ decision tables + TLC enumeration, function-table replay; small state machine + script replay',
                design_ref='DESIGN.md 4.4, 8 (C31)'),
}
