// Harness binary of the `cluster` family: C27 (control.go), C28 (c28.go), C41 (survey.go).
package main

import "verifharness/vh"

func main() {
	vh.Main(map[string]vh.Mode{
		"c28":   c28,
		"c27":   c27,
		"c41":   c41,
		"repro": repro,
		"c28p":  c28p,
		"c27x":  c27x,
		"c28s":  c28s,
		"c28t":  c28t,
	})
}
