SPECIFICATION FairSpec
CONSTANTS
  Producers = {1, 2}
  Configs <- ConfigsLive
  MaxItems = 3
  ManySizes = {}
  ByteSizes = {1}
  MaxFails = 0
  MaxCloses = 1
PROPERTIES EventuallyWritten CloseReturns
CHECK_DEADLOCK FALSE
