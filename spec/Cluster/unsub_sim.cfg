SPECIFICATION SimSpec
CONSTANTS
  Chans = {"a", "b", "c"}
  PresCh = {"a", "c"}
  JLCh = {"a", "b"}
  Free <- FreeAll
  EmptyMeans = "all"
  ClientArgs = {""}
  SessionArgs = {""}
  LabelArgs = {""}
  NamedArgs = {}
  CustomArgs = {FALSE}
INVARIANTS TypeOK Consistent
PROPERTIES EmptyChannelUnsubscribesAll
CHECK_DEADLOCK FALSE
