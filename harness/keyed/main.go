// Harness of the `keyed` family: C14 (delta encoding reconstructs the published data) and C25 (shared poll).
package main

import "verifharness/vh"

func main() {
	vh.Main(map[string]vh.Mode{
		"delta": deltaMode,
		"probe": probeMode,
		"sharedpoll": sharedPollMode,
		"spfree":     sharedPollFreeMode,
		"trackclose": trackCloseMode,
		"subclose":   subCloseMode,
		"mapdelta":   mapDeltaMode,
	})
}
