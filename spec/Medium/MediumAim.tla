----------------------------- MODULE MediumAim -----------------------------
(* Aimed behaviours of Medium (Timed = TRUE) for the replay: scripted schedules
   that the random generator reaches rarely or, for the staggered clock, never.
   The script supplies the scheduled operations; spawned insufficient-state
   goroutines and the queue writer without delay run as soon as they can, as
   in MediumSim.  Init chooses the scenario, the option set and which of the
   two positioned connections ticks first.

   Scenario 1 (marker first in a delay window, then a publication): two
   publications, the second lost on the wire, the first still withheld; the
   first connection's position check (delay elapsed) detects the loss while the
   queue is empty: with the shared check the sentinel is queued; the withheld
   publication is delivered inside the same broadcast-delay window.  Every
   positioned subscriber must be ended.

   Scenario 2 (staggered ticks, quiet channel): connection A ticks at 50, 100,
   150 ..., connection B 12 s later; check delay 40 s.  A's first check is
   performed, B's request is answered without a check (and must not move the
   medium's timestamp); then a publication is lost on the quiet channel.  A's
   tick at 100 is 50 s after the last PERFORMED check: it must consult the
   stream and end the positioned subscriptions.

   Scenario 3 (queue over its size limit when the shared check detects a loss;
   option sets with a queue and no delay): four publications; the writer is
   held inside the broadcast of the first (WriterTake(park)); the second and
   third are queued (2 bytes > limit 1), the fourth is dropped by the medium:
   a lost publication.  The clock passes the check delay, one connection's
   tick finds its position stale: the sentinel must be queued whatever the
   queue size (only publications are dropped on overflow).  The writer is
   released: with the shared check every positioned subscriber is ended.
   (While the writer is parked it holds the hub's read lock: a spawned
   unsubscribe cannot finish before the release.)                            *)
EXTENDS Medium

VARIABLES k, scen, fst
aimvars == <<vars, k, scen, fst>>

Other(s) == IF s = "p1" THEN "p2" ELSE "p1"

Script ==
  IF scen = 1
    THEN << [a |-> "Publish"], [a |-> "Publish"], [a |-> "Drop", o |-> 2], [a |-> "Adv", d |-> 50],
            [a |-> "TickOne", s |-> fst], [a |-> "Deliver", o |-> 1],
            [a |-> "Flush"], [a |-> "Flush"] >>       \* (no tick after a delivery: the client stamps it with the wall clock)
    ELSE IF scen = 3
    THEN << [a |-> "Publish"], [a |-> "Publish"], [a |-> "Publish"], [a |-> "Publish"],
            [a |-> "Deliver", o |-> 1], [a |-> "Park"], [a |-> "Deliver", o |-> 2], [a |-> "Deliver", o |-> 3], [a |-> "Deliver", o |-> 4],
            [a |-> "Adv", d |-> 50], [a |-> "TickOne", s |-> fst], [a |-> "Done"] >>
    ELSE << [a |-> "Adv", d |-> 50], [a |-> "TickOne", s |-> fst], [a |-> "Adv", d |-> 12], [a |-> "TickOne", s |-> Other(fst)],
            [a |-> "Publish"], [a |-> "Drop", o |-> 1],
            [a |-> "Adv", d |-> 38], [a |-> "TickOne", s |-> fst], [a |-> "Flush"], [a |-> "Flush"],
            [a |-> "Adv", d |-> 12], [a |-> "TickOne", s |-> Other(fst)], [a |-> "Flush"], [a |-> "Flush"] >>

Nop == UNCHANGED <<opts, top, wire, npub, faults, nticks, nresub, med, q, wpc, witem, latest, sub, pend, out, dlv, now, mct, cct>>
       /\ step' = [act |-> "Nop"]

Op(op) ==
  CASE op.a = "Publish" -> Publish
    [] op.a = "Drop"    -> Drop(op.o)
    [] op.a = "Deliver" -> Deliver(op.o)
    [] op.a = "Adv"     -> Advance(op.d)
    [] op.a = "TickOne" -> IF Positioned(op.s) /\ Live(op.s) THEN TickOne(op.s, "ok") ELSE Nop
    [] op.a = "Flush"   -> IF med /\ opts.queue /\ opts.delay /\ q # <<>> THEN WriterTick ELSE Nop
    [] op.a = "Park"    -> Nop                     \* (the writer had nothing to take)
    [] op.a = "Done"    -> IF wpc = "busy" THEN WriterDone ELSE Nop

AimNext ==
  IF wpc # "busy" /\ \E s \in Subs : pend[s] > 0
    THEN (\E s \in Subs : AsyncEnd(s)) /\ UNCHANGED <<k, scen, fst>>
  ELSE IF WriterCanTake
    THEN IF k <= Len(Script) /\ Script[k].a = "Park"
           THEN WriterTake(TRUE) /\ k' = k + 1 /\ UNCHANGED <<scen, fst>>
           ELSE WriterTake(FALSE) /\ UNCHANGED <<k, scen, fst>>
  ELSE /\ k <= Len(Script)
       /\ Op(Script[k])
       /\ k' = k + 1 /\ UNCHANGED <<scen, fst>>

AimInit == Init /\ k = 1 /\ scen \in {1, 2, 3} /\ fst \in {"p1", "p2"}
           /\ (scen = 3 => (opts.queue /\ ~opts.delay))
AimSpec == AimInit /\ [][AimNext]_aimvars
=============================================================================
