// Family `writer` (C12, C40, C42): binds spec/Writer, spec/Dissolve and spec/Pools to the real code.
//
//	ring     (C12, S) TLC-simulated operation sequences of spec/Writer/RingSim.tla replayed into the real
//	         internal/queue; after EVERY operation the returned items and Len/Size/Cap (and head/tail) are
//	         compared with the concrete ring model.
//	writer   (C12, T) the real per-connection writer (all modes) driven by 2 producer goroutines + a closer with
//	         seeded random schedules and a recording transport; the observable-only monitor is evaluated
//	         here, the recorded traces go to TLC (spec/Writer/WriterTrace.tla).
//	dissolve (C40, T) the real dissolve.Dissolver with self-logging jobs; monitor + traces for DissolveTrace.tla.
//	pools    (C42, S) TLC-generated Get/Mutate/Put scripts replayed into internal/bpool and the writer's item
//	         buffer pool; classes: table of the size-class functions.
package main

import "verifharness/vh"

func main() {
	vh.Main(map[string]vh.Mode{
		"ring":     ringReplay,
		"writer":   writerRuns,
		"dissolve": dissolveRuns,
		"pools":    poolsReplay,
		"classes":  classesTable,
	})
}
