---------------------------- MODULE WriterTrace ----------------------------
(* Trace validation (code -> spec) for C12: executions of the REAL writer,
   driven by harness/writer `writer` (2 producer goroutines + a closer, seeded
   random schedules, recording transport), are consumed event by event.

   The harness can log only what happens on its own side of the API: the
   beginning and the end of every enqueue / enqueueMany / close call and every
   call of the transport write functions (those run under w.mu).  Each event
   gets its number from one counter under one mutex, so the log order is
   consistent with real time.  Everything inside the calls -- queue.Add, the
   size check, scheduling the flush, the writer's Wait / drain, the timer --
   is composed as silent steps of Writer.tla between the logged ones; TLC
   searches for an interleaving, i.e. it decides whether the recorded execution
   is linearizable with respect to the specification.  Traces are concatenated;
   each starts with a "Cfg" event that resets the model.                      *)
EXTENDS Writer, Json, IOUtils

Trace == ndJsonDeserialize("trace.ndjson")

VARIABLE l
tvars == <<vars, l>>

Ev == Trace[l]
IsEvent(e) == l <= Len(Trace) /\ Ev.ev = e /\ l' = l + 1

TEnqB == IsEvent("EnqB") /\ P_Begin(Ev.p, Ev.items)
TEnqE == IsEvent("EnqE") /\ P_End(Ev.p) /\ pres[Ev.p] = Ev.res
TWrite ==
  /\ IsEvent("Write")
  /\ W_Write(Ev.ok) \/ F_Write(Ev.ok) \/ C_Write(Ev.ok)
  /\ step'.ids = Ev.ids /\ step'.many = Ev.many
TCloseB == IsEvent("CloseB") /\ C_Begin(Ev.flush)
TCloseE == IsEvent("CloseE") /\ C_End
TSilent == Silent /\ UNCHANGED l

TReset ==
  /\ IsEvent("Cfg")
  /\ cfg' = [mode |-> Ev.mode, frame |-> Ev.frame, maxq |-> Ev.maxq]
  /\ fifo' = <<>> /\ qclosed' = FALSE /\ mu' = "" /\ wclosed' = FALSE /\ closeCh' = FALSE
  /\ wpc' = (IF Ev.mode = "timer" THEN "off" ELSE "wait") /\ wbuf' = 0
  /\ batch' = <<>>
  /\ tsched' = FALSE /\ armed' = FALSE /\ fpc' = "none" /\ fbuf' = 0 /\ fok' = TRUE
  /\ ppc' = [p \in Producers |-> "idle"] /\ pit' = [p \in Producers |-> <<>>]
  /\ pres' = [p \in Producers |-> ""] /\ pn' = [p \in Producers |-> 0]
  /\ cpc' = "idle" /\ cflush' = FALSE /\ crem' = <<>> /\ ncloses' = 0
  /\ written' = <<>> /\ failed' = FALSE /\ nfails' = 0
  /\ enq' = <<>> /\ dropped' = <<>> /\ closeKind' = "" /\ slowSeen' = FALSE
  /\ step' = [act |-> "Init"]

TraceInit == InitWith([mode |-> "plain", frame |-> 1, maxq |-> 0]) /\ l = 1 /\ TLCSet(1, 0)
TraceNext == TEnqB \/ TEnqE \/ TWrite \/ TCloseB \/ TCloseE \/ TSilent \/ TReset
TraceSpec == TraceInit /\ [][TraceNext]_tvars

\* high-water mark of the consumed prefix; -workers 1
HighWater == TLCSet(1, IF TLCGet(1) < l - 1 THEN l - 1 ELSE TLCGet(1))
TraceAccepted ==
  IF TLCGet(1) = Len(Trace) THEN TRUE
  ELSE /\ PrintT(<<"TRACE-PREFIX", TLCGet(1), "of", Len(Trace)>>)
       /\ FALSE

TraceView == <<core, l>>
=============================================================================
