package main

// C34: replay of the spec/RedisKeys table into the real key / channel builders, slots by an
// independent implementation of the Redis Cluster rule (hash tag + CRC16-XMODEM).

import (
	"encoding/json"
	"fmt"
	"strconv"
	"strings"

	"github.com/centrifugal/centrifuge"

	"verifharness/vh"
)

// crc16 is CRC16-XMODEM (poly 0x1021, init 0, no reflection, no xorout) written as plain polynomial
// long division over GF(2): the message followed by 16 zero bits is shifted through a 17-bit register,
// most significant bit first. Deliberately not the byte-wise / table-driven form used by /repo.
func crc16(data []byte) uint16 {
	var reg uint32
	feed := func(bit uint32) {
		reg = (reg << 1) | bit
		if reg&0x10000 != 0 {
			reg ^= 0x11021
		}
	}
	for _, b := range data {
		for i := 7; i >= 0; i-- {
			feed(uint32(b>>uint(i)) & 1)
		}
	}
	for i := 0; i < 16; i++ {
		feed(0)
	}
	return uint16(reg)
}

// hashTag: Redis cluster spec, "Hash tags": first '{', first '}' to its right, at least one character between.
func hashTag(key string) string {
	o := strings.IndexByte(key, '{')
	if o < 0 {
		return key
	}
	c := strings.IndexByte(key[o+1:], '}')
	if c <= 0 {
		return key
	}
	return key[o+1 : o+1+c]
}

func slotOf(key string) int { return int(crc16([]byte(hashTag(key))) % 16384) }

// selfTest checks the independent slot function against the published vectors (Redis cluster
// specification: CRC16("123456789") = 0x31C3; hash tag examples of the spec; CLUSTER KEYSLOT values).
func selfTest() error {
	if c := crc16([]byte("123456789")); c != 0x31C3 {
		return fmt.Errorf("crc16 self test: %#x", c)
	}
	for k, s := range map[string]int{"": 0, "foo": 12182, "bar": 5061, "123": 5970, "123456789": 12739} {
		if slotOf(k) != s {
			return fmt.Errorf("slot self test %q: %d want %d", k, slotOf(k), s)
		}
	}
	for k, t := range map[string]string{"{user1000}.following": "user1000", "foo{}{bar}": "foo{}{bar}", "foo{{bar}}zap": "{bar", "foo{bar}{zap}": "bar", "a}b{c": "a}b{c", "{}": "{}"} {
		if hashTag(k) != t {
			return fmt.Errorf("hash tag self test %q: %q want %q", k, hashTag(k), t)
		}
	}
	return nil
}

type keysIn struct {
	Partitions int     `json:"partitions"`
	Ops        [][]any `json:"ops"`  // ["ops", mode, lists, [[name, [[COMMAND, [keys], channel]...]]...]]
	Rows       [][]any `json:"rows"` // [mode, prefix, lists, ch, class, [indices of bad invocations], [bad trips], [[name, shape]...]]
	Capture    bool    `json:"capture"`
	// channels of at most this length run EVERY invocation variant for real; longer ones the base set
	FullVariantsMaxLen int `json:"full_variants_max_len"`
}

// one command of an invocation: KEYS by position (builder names, "" = empty key) and the channel's builder name
type cmdDef struct {
	cmd  string
	keys []string
	ch   string
}

// invDef is one invocation of the spec: "<engine>.<Operation>[:flags]" and the commands it sends
type invDef struct {
	name string
	cmds []cmdDef
}

// opSig names an invocation in a signature: <Operation>:<variant>
func (d invDef) opSig() string {
	op, variant, _ := strings.Cut(d.name, ":")
	if variant == "" {
		variant = "-"
	}
	return "op:" + op + ":" + variant
}

func modeCfg(mode, prefix string, lists bool, parts int) centrifuge.VerifKeyConfig {
	c := centrifuge.VerifKeyConfig{Prefix: prefix, UseLists: lists}
	switch mode {
	case "cluster":
		c.Cluster = true
	case "sharded":
		c.Cluster, c.Partitions = true, parts
	case "precomp":
		c.Cluster, c.Partitions, c.Precomputed = true, parts, true
	}
	return c
}

func contains(l []string, s string) bool {
	for _, x := range l {
		if x == s {
			return true
		}
	}
	return false
}

func keysMode(in json.RawMessage, res *vh.Result) error {
	if err := selfTest(); err != nil {
		return err
	}
	var inp keysIn
	if err := json.Unmarshal(in, &inp); err != nil {
		return err
	}
	ops := map[string][]invDef{}
	for _, o := range inp.Ops {
		key := vh.Str(o[1]) + "|" + fmt.Sprint(vh.Bool(o[2]))
		for _, d := range vh.List(o[3]) {
			dd := vh.List(d)
			inv := invDef{name: vh.Str(dd[0])}
			for _, c := range vh.List(dd[1]) {
				cc := vh.List(c)
				cd := cmdDef{cmd: vh.Str(cc[0]), ch: vh.Str(cc[2])}
				for _, n := range vh.List(cc[1]) {
					cd.keys = append(cd.keys, vh.Str(n))
				}
				inv.cmds = append(inv.cmds, cd)
			}
			ops[key] = append(ops[key], inv)
		}
	}
	builders := map[string]*centrifuge.VerifKeys{}
	scanKeys := map[string][]string{}
	specBadRealEqual := 0
	for _, r := range inp.Rows {
		mode, prefix, lists, ch, class := vh.Str(r[0]), vh.Str(r[1]), vh.Bool(r[2]), vh.Str(r[3]), vh.Str(r[4])
		specBad := map[int]bool{} // indices (1-based, into the invocation list) the spec expects to fail
		var specTrips []string
		for _, b := range vh.List(r[5]) {
			specBad[vh.Int(b)] = true
		}
		for _, b := range vh.List(r[6]) {
			specTrips = append(specTrips, vh.Str(b))
		}
		ck := fmt.Sprintf("%s|%s|%v", mode, prefix, lists)
		kb := builders[ck]
		if kb == nil {
			var err error
			kb, err = centrifuge.VerifNewKeys(modeCfg(mode, prefix, lists, inp.Partitions))
			if err != nil {
				return fmt.Errorf("building engines for %s: %w", ck, err)
			}
			builders[ck] = kb
			scanKeys[ck] = kb.CleanupScanKeys()
		}
		input := map[string]any{"mode": mode, "prefix": prefix, "lists": lists, "channel": ch, "class": class}
		desc := fmt.Sprintf("mode=%s prefix=%q channel=%q", mode, prefix, ch)
		var real map[string]string
		var pan any
		func() {
			defer func() { pan = recover() }()
			real = kb.Keys(ch, "i")
		}()
		res.Done(1, 1)
		if pan != nil {
			res.Drift("C34", fmt.Sprintf("key builders panicked for %s: %v", desc, pan), input)
			continue
		}
		tag, idx := real["broker.partitionTag"], real["broker.partitionIndex"]
		if mt, ok := real["map.partitionTag"]; ok && (mt != tag || real["map.partitionIndex"] != idx) {
			res.Violate("C34", mode+":partition-tag:broker-vs-map", fmt.Sprintf("%s: stream broker uses partition %s tag %q, map broker partition %s tag %q", desc, idx, tag, real["map.partitionIndex"], mt), input)
		}
		if strings.ContainsAny(tag, "{}.") {
			res.Violate("C34", mode+":partition-tag:charset", fmt.Sprintf("%s: partition tag %q contains a brace or a dot", desc, tag), input)
		}
		subst := func(shape string) string {
			return strings.ReplaceAll(strings.ReplaceAll(shape, "T", tag), "N", idx)
		}

		// the cleanup worker's scan key of this channel's partition, from the real worker
		if reg, ok := real["map.cleanupRegistrationKey"]; ok {
			sk := scanKeys[ck]
			switch {
			case contains(sk, reg):
				real["map.cleanupScanKey"] = reg
			case idx != "" && contains(sk, kb.DefaultPrefix()+":cleanup:channels:{"+idx+"}"):
				real["map.cleanupScanKey"] = kb.DefaultPrefix() + ":cleanup:channels:{" + idx + "}"
			case len(sk) > 0:
				real["map.cleanupScanKey"] = sk[0]
			}
			if !contains(sk, reg) {
				res.Violate("C34", mode+":map.cleanup:registration-key-not-scanned",
					fmt.Sprintf("%s: the channel registers for expiry cleanup in %q (slot %d) but the cleanup worker scans %v - the partition's scan key %q is in slot %d; the batch-remove script would receive it as KEYS[5] next to keys of slot %d, and the registered channel is never cleaned",
						desc, reg, slotOf(reg), sample(sk, 3), real["map.cleanupScanKey"], slotOf(real["map.cleanupScanKey"]), slotOf(real["map.stateHashKey"])), input)
			}
		}

		// 1. key strings as the spec's shapes (drift: the builders changed shape, the spec must follow)
		shapes := map[string]string{}
		for _, b := range vh.List(r[7]) {
			bb := vh.List(b)
			name, shape := vh.Str(bb[0]), subst(vh.Str(bb[1]))
			shapes[name] = shape
			got, ok := real[name]
			if !ok {
				res.Drift("C34", fmt.Sprintf("%s: builder %s missing in the code (map broker: %s)", desc, name, kb.MapErr), input)
				continue
			}
			if got != shape && name != "map.cleanupScanKey" {
				res.Drift("C34", fmt.Sprintf("%s: %s = %q, spec shape %q", desc, name, got, shape), input)
			}
		}
		// the KEYS lists of the presence scripts, as the real functions return them
		for op, want := range map[string][]string{
			"presence.add":    {"presence.setKey", "presence.hashKey", "presence.userSetKey", "presence.userHashKey"},
			"presence.remove": {"presence.setKey", "presence.hashKey", "presence.userSetKey", "presence.userHashKey"},
			"presence.get":    {"presence.setKey", "presence.hashKey"},
			"presence.stats":  {"presence.setKey", "presence.hashKey", "presence.userSetKey", "presence.userHashKey"},
		} {
			for i, n := range want {
				if real[fmt.Sprintf("%s.%d", op, i)] != real[n] {
					res.Drift("C34", fmt.Sprintf("%s: KEYS[%d] of %s is %q, expected %s = %q", desc, i+1, op, real[fmt.Sprintf("%s.%d", op, i)], n, real[n]), input)
				}
			}
		}

		// 2. the package's own slot function agrees with the Redis rule
		for name, key := range real {
			if strings.HasSuffix(name, "Key") || strings.HasSuffix(name, "ChannelID") {
				if s := centrifuge.VerifRedisSlot(key); s != slotOf(key) {
					res.Violate("C34", "redisSlot:"+class, fmt.Sprintf("redisSlot(%q) = %d, Redis rule gives %d (tag %q)", key, s, slotOf(key), hashTag(key)), input)
				}
			}
		}

		// 3. per invocation and command: all KEYS (by the builders) and the channel in one slot (cluster modes)
		invs := ops[mode+"|"+fmt.Sprint(lists)]
		if mode != "plain" {
			for j, inv := range invs {
				for _, cd := range inv.cmds {
					slots := map[int]bool{}
					var parts []string
					for i, n := range cd.keys {
						k := real[n] // "" -> ""
						slots[slotOf(k)] = true
						parts = append(parts, fmt.Sprintf("KEYS[%d]=%q->%d", i+1, k, slotOf(k)))
					}
					if cd.ch != "" {
						slots[slotOf(real[cd.ch])] = true
						parts = append(parts, fmt.Sprintf("channel=%q->%d", real[cd.ch], slotOf(real[cd.ch])))
					}
					inSpec := specBad[j+1]
					if len(slots) > 1 {
						// signature = input class of the spec; an invocation failing outside the spec's classes
						// carries its own name so that no known-finding pattern can swallow it
						sig := mode + ":" + class
						if !inSpec {
							sig = mode + ":" + inv.opSig() + ":UNEXPECTED(" + class + ")"
						}
						if strings.HasPrefix(inv.name, "map.cleanupBatchRemove") && !inSpec && real["map.cleanupScanKey"] != real["map.cleanupRegistrationKey"] {
							continue // reported above as registration-key-not-scanned
						}
						res.Violate("C34", sig,
							fmt.Sprintf("%s (class %s): %s of %s touches %d different cluster slots: %s", desc, class, cd.cmd, inv.name, len(slots), strings.Join(parts, " ")), input)
					} else if inSpec && len(inv.cmds) == 1 {
						specBadRealEqual++
					}
				}
			}
		}

		// 4. channel round trip
		for _, eng := range []string{"broker", "map"} {
			id, ok := real[eng+".messageChannelID"]
			if !ok {
				continue
			}
			back := real[eng+".extractChannel"]
			inSpec := contains(specTrips, eng+".extractChannel")
			if back != ch {
				sig := mode + ":" + class
				if !inSpec {
					sig = mode + ":" + eng + ".extractChannel:UNEXPECTED(" + class + ")"
				}
				res.Violate("C34", sig, fmt.Sprintf("%s: extractChannel(messageChannelID(ch) = %q) = %q", desc, id, back), input)
			} else if inSpec {
				res.Drift("C34", fmt.Sprintf("%s: spec says the channel round trip fails, the code returns %q", desc, back), input)
			}
		}

		// 5. the real operations against the recording client: their KEYS (+ the channel argument) are
		//    the op's key set of the spec, and rueidis' cluster builders do not panic on them
		if inp.Capture {
			captureRow(res, kb, mode, ch, class, desc, real, invs, specBad, len(ch) <= inp.FullVariantsMaxLen, input)
		}

		if mode != "plain" && strings.ContainsAny(ch, "{}") {
			res.Distinct(ck + "|" + ch)
		}
		if len(res.Samples) < 3 && mode == "cluster" && strings.ContainsAny(ch, "{}") && class == "sound" {
			res.Sample(map[string]any{"input": input, "keys": real})
		}
	}
	res.Extra["spec_bad_but_real_slots_equal"] = specBadRealEqual
	return nil
}

func sample(l []string, n int) []string {
	if len(l) > n {
		return append(append([]string{}, l[:n]...), "...")
	}
	return l
}

// baseInv: the invocations every channel runs for real (one per script); the other variants differ
// only in which KEYS positions are unused, which does not depend on the channel name.
func baseInv(name string) bool {
	switch name {
	case "broker.Publish:history,idem", "broker.Publish:idem", "broker.Publish", "broker.History", "broker.RemoveHistory",
		"presence.Add", "presence.Remove", "presence.Get", "presence.Stats",
		"map.Publish:recoverable,keyed,idem", "map.Publish:ephemeral,keyed", "map.Remove:recoverable,idem", "map.Remove:ephemeral",
		"map.ReadState:recoverable", "map.ReadState:recoverable,ordered", "map.ReadStream:recoverable", "map.Clear:recoverable",
		"map.cleanupBatchRemove:recoverable", "map.cleanupFind:recoverable":
		return true
	}
	return false
}

// keyArgs splits a recorded command into its key arguments and the PUB/SUB channel it names.
// ok=false: a command this harness does not know how to read.
func keyArgs(cmd []string, channels map[string]bool) (keys []string, channel string, ok bool) {
	if len(cmd) == 0 {
		return nil, "", false
	}
	switch cmd[0] {
	case "EVALSHA", "EVAL":
		if len(cmd) < 3 {
			return nil, "", false
		}
		nk, err := strconv.Atoi(cmd[2])
		if err != nil || nk < 0 || len(cmd) < 3+nk {
			return nil, "", false
		}
		keys = append([]string{}, cmd[3:3+nk]...)
		for _, a := range cmd[3+nk:] { // the channel travels in ARGV, the script (S)PUBLISHes on it
			if a != "" && channels[a] {
				channel = a
			}
		}
		return keys, channel, true
	case "PUBLISH", "SPUBLISH":
		if len(cmd) < 2 {
			return nil, "", false
		}
		return nil, cmd[1], true
	case "DEL":
		return append([]string{}, cmd[1:]...), "", true
	case "HGET", "HMGET", "ZREM", "ZRANGEBYSCORE", "ZRANGE", "XRANGE", "XREVRANGE", "HGETALL", "ZADD", "EXPIRE":
		if len(cmd) < 2 {
			return nil, "", false
		}
		return []string{cmd[1]}, "", true
	}
	return nil, "", false
}

func captureRow(res *vh.Result, kb *centrifuge.VerifKeys, mode, ch, class, desc string, real map[string]string, invs []invDef, specBad map[int]bool, full bool, input any) {
	channels := map[string]bool{real["broker.messageChannelID"]: true}
	if m, ok := real["map.messageChannelID"]; ok {
		channels[m] = true
	}
	scanMismatch := real["map.cleanupScanKey"] != real["map.cleanupRegistrationKey"]
	for j, inv := range invs {
		if !full && !baseInv(inv.name) {
			continue
		}
		if strings.HasPrefix(inv.name, "map.cleanupBatchRemove") && scanMismatch {
			continue // already reported as registration-key-not-scanned; the worker's call would mix slots
		}
		inSpec := specBad[j+1]
		for _, clusterSlots := range []bool{false, true} {
			if clusterSlots && (mode == "plain" || !full) {
				continue // rueidis' cluster-builder guard is exercised on the short channels only (it is a consequence, not the verdict)
			}
			c, ok := kb.Invoke(inv.name, ch, "i", real["map.cleanupScanKey"], clusterSlots)
			if !ok {
				if !clusterSlots && inv.name != "broker.subscribe.sharded" {
					res.Drift("C34", fmt.Sprintf("%s: invocation %s of the spec cannot be executed by the shim", desc, inv.name), input)
				}
				continue
			}
			res.Count("invocations_executed", 1)
			if c.Panic != "" {
				if clusterSlots && strings.Contains(c.Panic, "different key slots") {
					// rueidis' own guard fired: consequence of keys in different slots (reported by the standalone pass)
					res.Count("rueidis_cross_slot_panics", 1)
					if class != "sound" || !inSpec {
						res.Extra["rueidis_cross_slot_panic_example"] = fmt.Sprintf("%s: %s panics inside rueidis' cluster command builder: %s", desc, inv.name, c.Panic)
					}
					if !inSpec {
						res.Violate("C34", mode+":"+inv.opSig()+":rueidis-cross-slot-panic", fmt.Sprintf("%s (class %s): %s panics in rueidis' cluster command builder: %s", desc, class, inv.name, c.Panic), input)
					}
				} else {
					res.Drift("C34", fmt.Sprintf("%s: %s panicked against the recording client: %s", desc, inv.name, c.Panic), input)
				}
				continue
			}
			if clusterSlots {
				continue // the command list is that of the standalone pass; only rueidis' guard matters here
			}
			if len(c.Cmds) != len(inv.cmds) {
				res.Drift("C34", fmt.Sprintf("%s: %s sent %d commands %v, the spec lists %d", desc, inv.name, len(c.Cmds), c.Cmds, len(inv.cmds)), input)
			}
			for x, cmd := range c.Cmds {
				keys, channel, ok := keyArgs(cmd, channels)
				if !ok {
					res.Drift("C34", fmt.Sprintf("%s: %s sent a command the harness cannot read: %v", desc, inv.name, cmd), input)
					continue
				}
				// (a) the property, on what was really sent: every key (an empty key is a key) and the channel in one slot
				type ent struct {
					what string
					val  string
				}
				var ents []ent
				for i, k := range keys {
					ents = append(ents, ent{fmt.Sprintf("key-%d", i+1), k})
				}
				if channel != "" {
					ents = append(ents, ent{"channel", channel})
				}
				count := map[int]int{}
				for _, e := range ents {
					count[slotOf(e.val)]++
				}
				if len(count) > 1 && mode != "plain" {
					ref, best := -1, 0
					for _, e := range ents { // reference slot: the most frequent one, first wins
						if s := slotOf(e.val); count[s] > best {
							ref, best = s, count[s]
						}
					}
					odd := ""
					var parts []string
					for _, e := range ents {
						if slotOf(e.val) != ref && odd == "" {
							odd = e.what
						}
						parts = append(parts, fmt.Sprintf("%s=%q->%d", e.what, e.val, slotOf(e.val)))
					}
					sig := mode + ":" + class
					if !inSpec {
						sig = fmt.Sprintf("%s:%s:%s-other-slot", mode, inv.opSig(), odd)
					}
					res.Violate("C34", sig, fmt.Sprintf("%s (class %s): the real %s sends %s with keys of %d different cluster slots: %s", desc, class, inv.name, cmd[0], len(count), strings.Join(parts, " ")), input)
				}
				// (b) the spec's command list is the code's (drift otherwise: the spec must follow the code)
				if x >= len(inv.cmds) {
					continue
				}
				cd := inv.cmds[x]
				name := cmd[0]
				if name == "SPUBLISH" {
					name = "PUBLISH"
				}
				if name == "EVAL" {
					name = "EVALSHA"
				}
				if name != cd.cmd {
					res.Drift("C34", fmt.Sprintf("%s: command %d of %s is %s, the spec says %s", desc, x+1, inv.name, cmd[0], cd.cmd), input)
					continue
				}
				if len(keys) != len(cd.keys) {
					res.Drift("C34", fmt.Sprintf("%s: %s of %s has %d keys %q, the spec lists %d %v", desc, cmd[0], inv.name, len(keys), keys, len(cd.keys), cd.keys), input)
					continue
				}
				for i, k := range keys {
					if want := real[cd.keys[i]]; k != want {
						res.Drift("C34", fmt.Sprintf("%s: KEYS[%d] of %s (%s) is %q, the spec says %s = %q", desc, i+1, inv.name, cmd[0], k, cd.keys[i], want), input)
					}
				}
				if want := real[cd.ch]; channel != want {
					res.Drift("C34", fmt.Sprintf("%s: %s of %s publishes to %q, the spec says %q (%s)", desc, cmd[0], inv.name, channel, want, cd.ch), input)
				}
			}
		}
	}
}
