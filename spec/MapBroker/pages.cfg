SPECIFICATION PSpec
CONSTANTS
  KeySeq <- KeySeq4
  Configs <- ConfigsPer
  KeyModes = {""}
  CasOffs = {}
  CasEps = {}
  Versions = {0}
  VerEpochs = {""}
  IdemKeys = {""}
  IdemTTLs = {1}
  Scores <- ScoresPagesQuick
  Limits <- LimitsSmall
  PageSizes = {1, 2, 3, 4, 5}
  MaxNow = 0
  MaxPubs = 0
  MaxOps = 0
  Deterministic = FALSE
  Manual = TRUE
INVARIANTS PaginationEnumerates ProbesAreRefPages WalksEnumerate
CHECK_DEADLOCK FALSE
