----------------------------- MODULE MediumAim -----------------------------
(* Aimed behaviours of Medium (Timed = TRUE) for the replay: scripted schedules
   that the random generator reaches rarely or, for the staggered clock, never.
   The script supplies the scheduled operations; spawned insufficient-state
   goroutines and the queue writer without delay run as soon as they can, as
   in MediumSim.  Init chooses the scenario, the option set and which of the
   two positioned connections ticks first.

   Scenario 1 (marker first in a delay window, then a publication): two
   publications, the second lost on the wire, the first still withheld; the
   first connection's position check (delay elapsed) detects the loss while the
   queue is empty: with the shared check the sentinel is queued; the withheld
   publication is delivered inside the same broadcast-delay window.  Every
   positioned subscriber must be ended.

   Scenario 2 (staggered ticks, quiet channel): connection A ticks at 50, 100,
   150 ..., connection B 12 s later; check delay 40 s.  A's first check is
   performed, B's request is answered without a check (and must not move the
   medium's timestamp); then a publication is lost on the quiet channel.  A's
   tick at 100 is 50 s after the last PERFORMED check: it must consult the
   stream and end the positioned subscriptions.                              *)
EXTENDS Medium

VARIABLES k, scen, fst
aimvars == <<vars, k, scen, fst>>

Other(s) == IF s = "p1" THEN "p2" ELSE "p1"

Script ==
  IF scen = 1
    THEN << [a |-> "Publish"], [a |-> "Publish"], [a |-> "Drop", o |-> 2], [a |-> "Adv", d |-> 50],
            [a |-> "TickOne", s |-> fst], [a |-> "Deliver", o |-> 1],
            [a |-> "Flush"], [a |-> "Flush"] >>       \* (no tick after a delivery: the client stamps it with the wall clock)
    ELSE << [a |-> "Adv", d |-> 50], [a |-> "TickOne", s |-> fst], [a |-> "Adv", d |-> 12], [a |-> "TickOne", s |-> Other(fst)],
            [a |-> "Publish"], [a |-> "Drop", o |-> 1],
            [a |-> "Adv", d |-> 38], [a |-> "TickOne", s |-> fst], [a |-> "Flush"], [a |-> "Flush"],
            [a |-> "Adv", d |-> 12], [a |-> "TickOne", s |-> Other(fst)], [a |-> "Flush"], [a |-> "Flush"] >>

Nop == UNCHANGED <<opts, top, wire, npub, faults, nticks, nresub, med, q, wpc, witem, latest, sub, pend, out, dlv, now, mct, cct>>
       /\ step' = [act |-> "Nop"]

Op(op) ==
  CASE op.a = "Publish" -> Publish
    [] op.a = "Drop"    -> Drop(op.o)
    [] op.a = "Deliver" -> Deliver(op.o)
    [] op.a = "Adv"     -> Advance(op.d)
    [] op.a = "TickOne" -> IF Positioned(op.s) /\ Live(op.s) THEN TickOne(op.s, "ok") ELSE Nop
    [] op.a = "Flush"   -> IF med /\ opts.queue /\ opts.delay /\ q # <<>> THEN WriterTick ELSE Nop

AimNext ==
  IF \E s \in Subs : pend[s] > 0
    THEN (\E s \in Subs : AsyncEnd(s)) /\ UNCHANGED <<k, scen, fst>>
  ELSE IF WriterCanTake
    THEN WriterTake(FALSE) /\ UNCHANGED <<k, scen, fst>>
  ELSE /\ k <= Len(Script)
       /\ Op(Script[k])
       /\ k' = k + 1 /\ UNCHANGED <<scen, fst>>

AimInit == Init /\ k = 1 /\ scen \in {1, 2} /\ fst \in {"p1", "p2"}
AimSpec == AimInit /\ [][AimNext]_aimvars
=============================================================================
