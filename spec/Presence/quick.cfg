SPECIFICATION Spec
CONSTANTS
  Chans = {"p", "q"}
  Clients = {"c1", "c2", "c3"}
  Users = {"u1", "u2"}
  MaxOps = 5
VIEW View
PROPERTIES StatsExact
CHECK_DEADLOCK FALSE
