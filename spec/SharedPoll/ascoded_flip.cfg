SPECIFICATION Spec
CONSTANTS
  Conns = {"c1"}
  Keys = {"k1"}
  MaxChg = 1
  MaxFlips = 1
  MaxOps = 4
  Versioned = TRUE
  Timer = FALSE
  AllowRevoke = FALSE
  AllowPublish = TRUE
  SplitTrack = FALSE
  AsCoded = {"flip-trackers-only"}
  Replay = TRUE
VIEW View
INVARIANTS TypeOK VersionConsistent C25_Epoch
PROPERTIES C25_Frames
CHECK_DEADLOCK FALSE
