package main

import (
	"encoding/json"
	"fmt"
	"math/rand"
	"sort"
	"strings"
	"sync"
	"time"

	"github.com/centrifugal/centrifuge"

	"verifharness/vh"
)

// pages (C21): every state of the TLC table is built on the real broker (keys published in a seeded random
// order, some of them twice so that the stored score is a replacement) and read back page by page.
func pages(in json.RawMessage, res *vh.Result) error {
	var states []map[string]any
	if err := json.Unmarshal(in, &states); err != nil {
		return err
	}
	reg := &registry{}
	b, _, closeFn := newBroker(reg, false)
	defer closeFn()
	sem := make(chan struct{}, 16)
	var wg sync.WaitGroup
	for si, st := range states {
		wg.Add(1)
		sem <- struct{}{}
		go func(si int, st map[string]any) {
			defer wg.Done()
			defer func() { <-sem }()
			onePageState(b, reg, si, st, res)
		}(si, st)
	}
	wg.Wait()
	return nil
}

func keysOfPage(p map[string]any) []string {
	out := []string{}
	for _, k := range vh.List(p["keys"]) {
		out = append(out, vh.Str(k))
	}
	return out
}

func onePageState(b *centrifuge.MemoryMapBroker, reg *registry, si int, st map[string]any, res *vh.Result) {
	cfg := cfgOf(vh.Map(st["cf"]))
	ch := fmt.Sprintf("pg%d_%d", vh.Seed(), si)
	reg.set(ch, cfg.options(time.Second))
	mst := vh.Map(st["st"])
	keys := make([]string, 0, len(mst))
	for k := range mst {
		keys = append(keys, k)
	}
	sort.Strings(keys)
	rng := rand.New(rand.NewSource(vh.Seed()*7919 + int64(si)))
	rng.Shuffle(len(keys), func(i, j int) { keys[i], keys[j] = keys[j], keys[i] })
	desc := map[string]any{"ordered": cfg.Ord, "state": mst}
	fail := func(sig, what string) {
		res.Violate("C21", sig, fmt.Sprintf("%s (state %d: ordered=%v %s; channel built by: %v)", what, si, cfg.Ord, vh.J(mst), desc["built"]), desc)
	}
	// how the channel object comes to exist before the keys are published: 0 = by the first publish; 1 = by a ReadState
	// of the still empty channel (a subscriber arrives first); 2 = by a ReadStream; 3 = the channel held keys, was cleared
	// and is read again; 4 = all its keys were removed, it is read, then filled
	variant := (si + int(vh.Seed())) % 5
	desc["built"] = []string{"publish first", "ReadState before the first publish", "ReadStream before the first publish",
		"publish, Clear, ReadState, publish", "publish, Remove, ReadState, publish"}[variant]
	switch variant {
	case 1:
		_, _ = b.ReadState(bg, ch, centrifuge.MapReadStateOptions{Limit: 2})
	case 2:
		_, _ = b.ReadStream(bg, ch, centrifuge.MapReadStreamOptions{Filter: centrifuge.StreamFilter{Limit: -1}})
	case 3:
		_, _ = b.Publish(bg, ch, "q", centrifuge.VerifMapScore(centrifuge.MapPublishOptions{Data: []byte("0")}, 5))
		_ = b.Clear(bg, ch, centrifuge.MapClearOptions{})
		_, _ = b.ReadState(bg, ch, centrifuge.MapReadStateOptions{Limit: -1, Asc: true})
	case 4:
		_, _ = b.Publish(bg, ch, "q", centrifuge.VerifMapScore(centrifuge.MapPublishOptions{Data: []byte("0")}, 5))
		_, _ = b.Remove(bg, ch, "q", centrifuge.MapRemoveOptions{})
		_, _ = b.ReadState(bg, ch, centrifuge.MapReadStateOptions{Limit: 1})
	}
	stored := map[string]statePub{}
	id := 0
	pub := func(k string, sc int64) bool {
		id++
		o := centrifuge.VerifMapScore(centrifuge.MapPublishOptions{Data: []byte(fmt.Sprint(id))}, sc)
		r, err := b.Publish(bg, ch, k, o)
		if err != nil || r.Suppressed {
			res.Drift("C21", fmt.Sprintf("building state %d: publish %s: %v suppressed=%v", si, k, err, r.Suppressed), nil)
			return false
		}
		stored[k] = statePub{Key: k, Off: int(r.Position.Offset), ID: id, Sc: sc}
		return true
	}
	for _, k := range keys {
		sc := scoreOf(vh.Int(vh.Map(mst[k])["sc"]))
		if rng.Intn(3) == 0 { // first another score, then the final one: the index must follow the replacement
			if !pub(k, sc/2+7) {
				return
			}
		}
		if !pub(k, sc) {
			return
		}
	}
	// a key that was removed again must not show up
	if rng.Intn(2) == 0 {
		if pub("zz", scoreOf(0)) {
			if r, err := b.Remove(bg, ch, "zz", centrifuge.MapRemoveOptions{}); err != nil || r.Suppressed {
				res.Drift("C21", fmt.Sprintf("building state %d: remove zz: %v", si, err), nil)
				return
			}
			delete(stored, "zz")
		}
	}
	tbl := vh.Map(st["tbl"])
	sorted := vh.Map(tbl["sorted"])
	ok := true
	for _, wv := range vh.List(tbl["walks"]) {
		w := vh.Map(wv)
		limit, asc := vh.Int(w["limit"]), vh.Bool(w["asc"])
		ref := []string{}
		for _, k := range vh.List(sorted[map[bool]string{true: "asc", false: "desc"}[asc]]) {
			ref = append(ref, vh.Str(k))
		}
		mpages := vh.List(w["pages"])
		var all []string
		cursor := ""
		seen := map[string]bool{}
		for pi := 0; ; pi++ {
			if pi > len(keys)+1 {
				fail(fmt.Sprintf("pages:no-progress:ord=%v", cfg.Ord), fmt.Sprintf("walk with page size %d asc=%v did not terminate within %d pages", limit, asc, len(keys)+1))
				ok = false
				break
			}
			got := readState(b, ch, centrifuge.MapReadStateOptions{Cursor: cursor, Limit: limit, Asc: asc})
			if got.Err != "" {
				fail("pages:error", "ReadState: "+got.Err)
				ok = false
				break
			}
			var pk []string
			for _, p := range got.Pubs {
				pk = append(pk, p.Key)
				if s := stored[p.Key]; s != p {
					fail("pages:entry", fmt.Sprintf("page entry %s differs from the stored entry %s", vh.J(p), vh.J(s)))
					ok = false
				}
				if seen[p.Key] {
					fail(fmt.Sprintf("pages:duplicate:ord=%v:asc=%v", cfg.Ord, asc), fmt.Sprintf("walk with page size %d asc=%v returned key %s twice (pages so far %v + %v)", limit, asc, p.Key, all, pk))
					ok = false
				}
				seen[p.Key] = true
			}
			if pi < len(mpages) {
				mp := vh.Map(mpages[pi])
				if mk := keysOfPage(mp); strings.Join(mk, ",") != strings.Join(pk, ",") {
					fail(fmt.Sprintf("pages:page:ord=%v:asc=%v", cfg.Ord, asc), fmt.Sprintf("page %d of the walk with page size %d asc=%v (cursor %q) is %v, reference %v", pi+1, limit, asc, cursor, pk, mk))
					ok = false
				}
				if want := cursorStr(vh.Map(mp["next"]), cfg.Ord); want != got.Next {
					fail(fmt.Sprintf("pages:cursor:ord=%v:asc=%v", cfg.Ord, asc), fmt.Sprintf("page %d of the walk with page size %d asc=%v returned cursor %q, reference %q", pi+1, limit, asc, got.Next, want))
					ok = false
				}
			}
			all = append(all, pk...)
			if got.Next == "" {
				break
			}
			if len(got.Pubs) == 0 || got.Next == cursor {
				fail(fmt.Sprintf("pages:no-progress:ord=%v", cfg.Ord), fmt.Sprintf("walk with page size %d asc=%v: page %d has %d entries and cursor %q after cursor %q", limit, asc, pi+1, len(got.Pubs), got.Next, cursor))
				ok = false
				break
			}
			cursor = got.Next
			if !ok {
				break
			}
		}
		if ok && strings.Join(all, ",") != strings.Join(ref, ",") {
			fail(fmt.Sprintf("pages:enumeration:ord=%v:asc=%v", cfg.Ord, asc), fmt.Sprintf("walk with page size %d asc=%v enumerated %v, sort order is %v", limit, asc, all, ref))
			ok = false
		}
		res.Count("walks", 1)
		if !ok {
			break
		}
	}
	if ok {
		for _, pv := range vh.List(tbl["probes"]) {
			p := vh.Map(pv)
			c := vh.Map(p["cur"])
			asc := vh.Bool(p["asc"])
			got := readState(b, ch, centrifuge.MapReadStateOptions{Cursor: cursorStr(c, cfg.Ord), Limit: vh.Int(p["limit"]), Asc: asc})
			var pk []string
			for _, x := range got.Pubs {
				pk = append(pk, x.Key)
			}
			mp := vh.Map(p["page"])
			if mk := keysOfPage(mp); got.Err != "" || strings.Join(mk, ",") != strings.Join(pk, ",") {
				fail(fmt.Sprintf("pages:probe:ord=%v:asc=%v", cfg.Ord, asc), fmt.Sprintf("page after cursor %s asc=%v is %v (err %q), reference %v", vh.J(c), asc, pk, got.Err, mk))
				ok = false
				break
			}
			if want := cursorStr(vh.Map(mp["next"]), cfg.Ord); want != got.Next {
				fail(fmt.Sprintf("pages:probe-cursor:ord=%v:asc=%v", cfg.Ord, asc), fmt.Sprintf("page after cursor %s asc=%v returned cursor %q, reference %q", vh.J(c), asc, got.Next, want))
				ok = false
				break
			}
			res.Count("probes", 1)
		}
	}
	if ok {
		for _, k := range []string{"a", "b", "c", "d", "zz"} {
			got := readState(b, ch, centrifuge.MapReadStateOptions{Key: k, Cursor: "x", Limit: 1})
			s, has := stored[k]
			if got.Err != "" || (has && (len(got.Pubs) != 1 || got.Pubs[0] != s)) || (!has && len(got.Pubs) != 0) || got.Next != "" {
				fail("pages:single-key", fmt.Sprintf("single-key read of %s returned %s cursor %q (err %q), stored entry %s (present %v)", k, vh.J(got.Pubs), got.Next, got.Err, vh.J(s), has))
				ok = false
				break
			}
			res.Count("single_key_reads", 1)
		}
	}
	if ok {
		ok = writeWriteRead(b, ch, cfg, tbl, stored, rng, pub, fail, res)
	}
	c := 0
	if ok {
		c = 1
		if len(keys) >= 2 {
			res.Distinct(fmt.Sprintf("%v|%s", cfg.Ord, vh.J(mst)))
		}
	}
	if si < 2 {
		res.Sample(desc)
	}
	res.Count(fmt.Sprintf("built_variant_%d", variant), 1)
	res.Done(1, c)
	_ = b.Clear(bg, ch, centrifuge.MapClearOptions{})
}

// walkAll reads the whole state in one direction: in one piece (limit -1) and page by page.
func walkAll(b *centrifuge.MemoryMapBroker, ch string, asc bool, limit, maxPages int) ([]string, string) {
	var all []string
	cursor := ""
	for pi := 0; pi <= maxPages; pi++ {
		got := readState(b, ch, centrifuge.MapReadStateOptions{Cursor: cursor, Limit: limit, Asc: asc})
		if got.Err != "" {
			return all, got.Err
		}
		for _, p := range got.Pubs {
			all = append(all, p.Key)
		}
		if got.Next == "" {
			return all, ""
		}
		if got.Next == cursor || len(got.Pubs) == 0 {
			return all, "no progress"
		}
		cursor = got.Next
	}
	return all, "no termination"
}

// writeWriteRead (C21): the channel's sorted view was built by the reads before. Now a write that changes the order (key a gets
// another score; or key rm is removed and a new key added) is followed by a write that changes nothing (key b re-published
// with its score), with NO read in between; the next reads, in the direction of the cached view and in the other one, must
// show the order of the new state (table: rescores / swaps).
func writeWriteRead(b *centrifuge.MemoryMapBroker, ch string, cfg chanCfg, tbl map[string]any, stored map[string]statePub, rng *rand.Rand,
	pub func(string, int64) bool, fail func(string, string), res *vh.Result) bool {
	type seqT struct {
		kind string
		m    map[string]any
	}
	var cands []seqT
	for _, x := range vh.List(tbl["rescores"]) {
		cands = append(cands, seqT{"rescore", vh.Map(x)})
	}
	for _, x := range vh.List(tbl["swaps"]) {
		cands = append(cands, seqT{"swap", vh.Map(x)})
	}
	if len(cands) == 0 {
		return true
	}
	sq := cands[rng.Intn(len(cands))]
	cachedAsc := rng.Intn(2) == 0
	// the cached view: a full read in one direction
	if _, e := walkAll(b, ch, cachedAsc, -1, 1); e != "" {
		fail("pages:error", "ReadState: "+e)
		return false
	}
	bk := vh.Str(sq.m["b"])
	what := ""
	if sq.kind == "rescore" {
		a := vh.Str(sq.m["a"])
		what = fmt.Sprintf("after [read asc=%v; publish %s with score %d; publish %s unchanged]", cachedAsc, a, scoreOf(vh.Int(sq.m["sc"])), bk)
		if !pub(a, scoreOf(vh.Int(sq.m["sc"]))) {
			return false
		}
	} else {
		rm, add := vh.Str(sq.m["rm"]), vh.Str(sq.m["add"])
		what = fmt.Sprintf("after [read asc=%v; remove %s; publish new key %s; publish %s unchanged]", cachedAsc, rm, add, bk)
		sc := stored[rm].Sc
		if r, err := b.Remove(bg, ch, rm, centrifuge.MapRemoveOptions{}); err != nil || r.Suppressed {
			res.Drift("C21", fmt.Sprintf("write-write-read: remove %s: %v", rm, err), nil)
			return false
		}
		delete(stored, rm)
		if !pub(add, sc) {
			return false
		}
	}
	if !pub(bk, stored[bk].Sc) {
		return false
	}
	for _, asc := range []bool{cachedAsc, !cachedAsc} {
		var ref []string
		for _, k := range vh.List(sq.m[map[bool]string{true: "asc", false: "desc"}[asc]]) {
			ref = append(ref, vh.Str(k))
		}
		for _, limit := range []int{-1, 1, 2} {
			got, e := walkAll(b, ch, asc, limit, len(ref)+1)
			if e != "" || strings.Join(got, ",") != strings.Join(ref, ",") {
				fail(fmt.Sprintf("pages:stale-sorted-view:%s:ord=%v", sq.kind, cfg.Ord),
					fmt.Sprintf("%s a walk with page size %d asc=%v enumerated %v (error %q), the sort order of the state is %v", what, limit, asc, got, e, ref))
				return false
			}
		}
	}
	res.Count("write_write_read_"+sq.kind, 1)
	return true
}
