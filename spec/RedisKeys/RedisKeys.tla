----------------------------- MODULE RedisKeys -----------------------------
(* C34  Redis cluster keys for one operation share a hash slot.

   A key is a sequence of TOKENS: the characters '{' and '}' are always single tokens, channel and
   prefix characters are single tokens, the literal infixes of the Go builders (".stream.", ":state:", ...)
   are one token each (they contain no brace).  Str renders a token sequence.

   Redis Cluster hash-tag rule (cluster spec, "Hash tags"; the same rule is implemented by
   rueidis internal/cmds/slot.go and by /repo/redis_cluster_slot.go redisSlot):
     if the key contains a '{', and there is a '}' to the right of the FIRST '{', and there is at least
     one character between them, only that substring is hashed; otherwise the whole key.
   Two keys with equal Tag hash to the same slot.

   The builders are transcribed from broker_redis.go (messageChannelID, historyStreamKey, historyListKey,
   historyMetaKey, resultCacheKey, pubSubShardChannelID, extractChannel), presence_redis.go
   (presenceHashKey, presenceSetKey, userSetKey, userHashKey) and map_broker_redis.go (buildKey,
   resultCacheKey, cleanupRegistrationKeyForChannel, messageChannelID, extractChannel, and the scan key
   of cleanupShard) for the four deployment modes:
     "plain"    no cluster                       (no slots: only the channel round trip matters)
     "cluster"  Redis Cluster, NumShardedPubSubPartitions = 0        keys are  prefix infix {ch}
     "sharded"  Redis Cluster, partitions > 0, numeric tags           keys are  prefix infix {N}.ch
     "precomp"  Redis Cluster, partitions > 0, UsePrecomputedPartitionTags   prefix infix {T}.ch
   N is the decimal partition index consistentIndex(ch, partitions), T the precomputed tag of that
   index; both are PLACEHOLDER tokens here ("N", "T": brace-free, checked for the real tags by C35 and
   by the harness), substituted by the harness with the real values before comparing key strings.

   The OPERATIONS are modelled as invocations (section "operations" below): every script-invoking or
   multi-key operation of the three engines, per variant (broker Publish: history x delta x idempotency
   key x version; map Publish: ephemeral/recoverable/persistent x keyed x ordered x idempotency key; map
   Remove: mode x idempotency key; ReadState paged ordered/unordered and by key; ReadStream, Stats, Clear,
   cleanup find / batch-remove per mode; presence Add/Remove/Get/Stats), as the list of commands it
   sends with the KEYS BY POSITION (an unused position is the ":nil:" placeholder in cluster mode - an
   empty key would be a key of slot 0) and the PUB/SUB channel the command publishes to.

   Property: for every operation all its keys have the same Tag (SameSlot), and
   extractChannel(messageChannelID(ch)) = ch (RoundTrip).  TLC evaluates it for every bounded
   (mode, prefix, channel) and the spec CLASSIFIES the inputs for which the design is unsound
   (Class); invariant Classified says that no operation fails outside those classes, Tight that
   every classified input really fails.  The rows are replayed into the real builders, and every
   invocation is EXECUTED: the real operation runs against a recording rueidis client, the recorded
   KEYS / channel must be the spec's, position by position, and lie in one slot.                  *)
EXTENDS Integers, Sequences, FiniteSets

CONSTANTS ChanChars, MaxChan,     \* channel names: every sequence over ChanChars of length 1..MaxChan (the
                                  \* empty string is not a channel name: every client command rejects it)
          Modes                   \* subset of {"plain", "cluster", "sharded", "precomp"}

LB == "{"
RB == "}"

RECURSIVE Str(_)
Str(q) == IF q = <<>> THEN "" ELSE Head(q) \o Str(Tail(q))

RECURSIVE FirstIdx(_, _, _)
FirstIdx(q, ch, from) == IF from > Len(q) THEN 0 ELSE IF q[from] = ch THEN from ELSE FirstIdx(q, ch, from + 1)

Tag(key) ==
  LET o == FirstIdx(key, LB, 1) IN
  IF o = 0 THEN key
  ELSE LET c == FirstIdx(key, RB, o + 1) IN
       IF c = 0 \/ c = o + 1 THEN key ELSE SubSeq(key, o + 1, c - 1)

---------------------------------------------------------------------------
(* --- configuration ------------------------------------------------------ *)
\* configured prefixes (token sequences); <<>> = not configured -> the constructors' default
Prefixes == {<<>>, <<"p">>, <<"p", LB>>, <<"p", RB>>, <<LB, "p", RB>>, <<"a", LB, RB, "b">>}
Pfx(p) == IF p = <<>> THEN <<"centrifuge">> ELSE p

IsCluster(m) == m # "plain"
Sharded(m)   == m \in {"sharded", "precomp"}
T(m) == IF m = "precomp" THEN <<"T">> ELSE <<"N">>     \* pubSubPartitionHashTag(idx)
N    == <<"N">>                                        \* strconv.Itoa(idx)
Idem == <<"i">>                                        \* the idempotency key

---------------------------------------------------------------------------
(* --- RedisBroker builders (broker_redis.go) ------------------------------ *)
BMsgPrefix(p) == Pfx(p) \o <<".client.">>

BMsgChan(m, p, ch) ==
  IF Sharded(m) THEN BMsgPrefix(p) \o <<LB>> \o T(m) \o <<RB, ".">> \o ch
  ELSE IF IsCluster(m) THEN BMsgPrefix(p) \o <<LB>> \o ch \o <<RB>>
  ELSE BMsgPrefix(p) \o ch

\* historyStreamKey / historyListKey / historyMetaKey share one shape with different infixes
BHist(m, p, ch, infix) ==
  IF ~IsCluster(m) THEN Pfx(p) \o <<infix>> \o ch
  ELSE IF Sharded(m) THEN Pfx(p) \o <<infix, LB>> \o T(m) \o <<RB, ".">> \o ch
  ELSE Pfx(p) \o <<infix, LB>> \o ch \o <<RB>>

BStream(m, p, ch)      == BHist(m, p, ch, ".stream.")
BList(m, p, ch)        == BHist(m, p, ch, ".list.")
BMeta(m, p, ch, lists) == BHist(m, p, ch, IF lists THEN ".list.meta." ELSE ".stream.meta.")

BResult(m, p, ch, idem) ==
  IF ~IsCluster(m) THEN Pfx(p) \o <<".result.">> \o ch \o <<".">> \o idem
  ELSE IF Sharded(m) THEN Pfx(p) \o <<".result.", LB>> \o T(m) \o <<RB, ".">> \o ch \o <<".">> \o idem
  ELSE Pfx(p) \o <<".result.", LB>> \o ch \o <<RB, ".">> \o idem

\* pubSubShardChannelID(idx, 0, TRUE): shardChannel "." psShard ".{" tag "}"
BShardChan(m, p) == Pfx(p) \o <<".shard", ".", "0", ".", LB>> \o T(m) \o <<RB>>

\* extractChannel(isCluster, chID): total; "" (= <<>>) means "unsupported channel"
DropN(q, n) == SubSeq(q, n + 1, Len(q))
HasPrefix(q, pre) == Len(q) >= Len(pre) /\ SubSeq(q, 1, Len(pre)) = pre
TrimPrefix(q, pre) == IF HasPrefix(q, pre) THEN DropN(q, Len(pre)) ELSE q

\* strings.Index(ch, "."): the dot may be a token of its own or the last character of a literal
\* token; in the channel ids built above the first "." after "{tag}" is the single token "." of the
\* builder, and tag placeholders contain none.
BExtract(m, p, chid) ==
  LET c == TrimPrefix(chid, BMsgPrefix(p)) IN
  IF Sharded(m)
    THEN IF ~HasPrefix(c, <<LB>>) THEN <<>>
         ELSE LET i == FirstIdx(c, ".", 1) IN IF i > 1 THEN DropN(c, i) ELSE <<>>
  ELSE IF IsCluster(m)
    THEN IF Len(c) < 2 \/ c[1] # LB \/ c[Len(c)] # RB THEN <<>> ELSE SubSeq(c, 2, Len(c) - 1)
  ELSE c

---------------------------------------------------------------------------
(* --- RedisPresenceManager builders (presence_redis.go): only isCluster matters *)
PKey(m, p, ch, infix) ==
  IF ~IsCluster(m) THEN Pfx(p) \o <<infix>> \o ch ELSE Pfx(p) \o <<infix, LB>> \o ch \o <<RB>>
PHash(m, p, ch)     == PKey(m, p, ch, ".presence.data.")
PSet(m, p, ch)      == PKey(m, p, ch, ".presence.expire.")
PUserSet(m, p, ch)  == PKey(m, p, ch, ".presence.user.expire.")
PUserHash(m, p, ch) == PKey(m, p, ch, ".presence.user.clients.")

---------------------------------------------------------------------------
(* --- RedisMapBroker builders (map_broker_redis.go); the constructor refuses "cluster" *)
MapApplies(m) == m # "cluster"
MKey(m, p, ch, infix) ==
  IF ~IsCluster(m) THEN Pfx(p) \o <<infix>> \o ch
  ELSE Pfx(p) \o <<infix, LB>> \o T(m) \o <<RB, ".">> \o ch
MMsgChan(m, p, ch) ==
  IF Sharded(m) THEN BMsgPrefix(p) \o <<LB>> \o T(m) \o <<RB, ".">> \o ch ELSE BMsgPrefix(p) \o ch
MResult(m, p, ch) ==
  IF ~IsCluster(m) THEN Pfx(p) \o <<".result.">> \o ch \o <<".">> \o Idem
  ELSE Pfx(p) \o <<".result.", LB>> \o T(m) \o <<RB, ".">> \o ch \o <<".">> \o Idem
MCleanupReg(m, p) ==
  IF ~IsCluster(m) THEN Pfx(p) \o <<":cleanup:channels">>
  ELSE Pfx(p) \o <<":cleanup:channels:", LB>> \o T(m) \o <<RB>>
\* The cleanup worker (cleanupShard -> cleanupPartition -> cleanupChannel -> batchRemoveExpired) scans one
\* registration ZSET per partition and hands that key to the batch-remove script as KEYS[5], next to the
\* channel's own keys.  DESIGN INTENT transcribed here: the scanned key of a channel's partition IS the key
\* the channel registered in (cleanupRegistrationKeyForChannel).  At the pinned commit the worker builds
\* it as  Prefix + ":cleanup:channels:{" + strconv.Itoa(i) + "}"  - equal to the registration key only
\* with numeric tags; the harness takes the scanned keys from the real worker and reports the difference.
MCleanupScan(m, p) == MCleanupReg(m, p)
MExtract(m, p, chid) ==
  LET c == TrimPrefix(chid, BMsgPrefix(p)) IN
  IF Sharded(m)
    THEN IF ~HasPrefix(c, <<LB>>) THEN <<>>
         ELSE LET i == FirstIdx(c, ".", 1) IN IF i > 1 THEN DropN(c, i) ELSE <<>>
  ELSE c

---------------------------------------------------------------------------
(* --- all builder outputs of one input, by the names the shim uses ------- *)
Builders(m, p, ch, lists) ==
  <<
    <<"broker.messageChannelID", BMsgChan(m, p, ch)>>,
    <<"broker.historyStreamKey", BStream(m, p, ch)>>,
    <<"broker.historyListKey", BList(m, p, ch)>>,
    <<"broker.historyMetaKey", BMeta(m, p, ch, lists)>>,
    <<"broker.resultCacheKey", BResult(m, p, ch, Idem)>>,
    <<"broker.resultCacheKeyNoIdem", BResult(m, p, ch, <<>>)>>,
    <<"presence.setKey", PSet(m, p, ch)>>,
    <<"presence.hashKey", PHash(m, p, ch)>>,
    <<"presence.userSetKey", PUserSet(m, p, ch)>>,
    <<"presence.userHashKey", PUserHash(m, p, ch)>>
  >>
  \o (IF Sharded(m) THEN << <<"broker.pubSubShardChannelID", BShardChan(m, p)>> >> ELSE <<>>)
  \o (IF MapApplies(m) THEN
       <<
         <<"map.messageChannelID", MMsgChan(m, p, ch)>>,
         <<"map.streamKey", MKey(m, p, ch, ":stream:")>>,
         <<"map.metaKey", MKey(m, p, ch, ":meta:")>>,
         <<"map.stateHashKey", MKey(m, p, ch, ":state:")>>,
         <<"map.stateOrderKey", MKey(m, p, ch, ":state:order:")>>,
         <<"map.stateExpireKey", MKey(m, p, ch, ":state:expire:")>>,
         <<"map.stateMetaKey", MKey(m, p, ch, ":state:meta:")>>,
         <<"map.nilKey", MKey(m, p, ch, ":nil:")>>,
         <<"map.resultCacheKey", MResult(m, p, ch)>>,
         <<"map.cleanupRegistrationKey", MCleanupReg(m, p)>>,
         <<"map.cleanupScanKey", MCleanupScan(m, p)>>
       >>
      ELSE <<>>)

---------------------------------------------------------------------------
(* --- operations: which commands an operation sends, with which KEYS ------ *)
\* An INVOCATION is  <<name, <<command, ...>>>>,  a command is  <<COMMAND, <<KEYS by position>>, channel>>:
\* KEYS are builder names ("" = an empty key, which IS a key: it hashes to slot 0), channel is the builder
\* name of the PUB/SUB channel the command publishes to ("" = none; for EVALSHA it travels in ARGV and
\* the script calls PUBLISH / SPUBLISH on it).  The name is  <engine>.<Operation>[:flag,flag,...] ; the
\* harness runs the real operation selected by the name against a recording rueidis client and
\* compares command by command, position by position.  Read from the call sites:
\*   broker_redis.go  publish (:793-975), publishJoin/Leave, historyStream/historyList, removeHistory
\*   presence_redis.go  add/remove/presence/presenceStats ScriptKeysArgs
\*   map_broker_redis.go  Publish (:529-750), Remove (:752-905), ReadState (readSingleKeyWithOpts,
\*                        readOrderedState, readUnorderedState), ReadStream, Stats, Clear, findExpiredKeys,
\*                        batchRemoveExpired
Cmd(c, keys, chan) == <<c, keys, chan>>
Fl(b, s) == IF b THEN <<s>> ELSE <<>>
RECURSIVE Join(_)
Join(fs) == IF Len(fs) = 1 THEN fs[1] ELSE fs[1] \o "," \o Join(Tail(fs))
Name(op, fs) == IF fs = <<>> THEN op ELSE op \o ":" \o Join(fs)

SetToSeq(S) == LET RECURSIVE F(_)
                   F(X) == IF X = {} THEN <<>> ELSE LET x == CHOOSE y \in X : TRUE IN <<x>> \o F(X \ {x})
               IN F(S)

BMC == "broker.messageChannelID"
MMC == "map.messageChannelID"

BrokerInvs(m, lists) ==
  LET hk == IF lists THEN "broker.historyListKey" ELSE "broker.historyStreamKey"
      \* the result key is computed (and passed as KEYS[3]) even without an idempotency key
      Pub(h, d, i, v) ==
        <<Name("broker.Publish", Fl(h, "history") \o Fl(d, "delta") \o Fl(i, "idem") \o Fl(v, "version")),
          IF h THEN <<Cmd("EVALSHA", <<hk, "broker.historyMetaKey",
                                       IF i THEN "broker.resultCacheKey" ELSE "broker.resultCacheKeyNoIdem">>, BMC)>>
          ELSE IF i THEN <<Cmd("EVALSHA", <<"broker.resultCacheKey">>, BMC)>>
          ELSE <<Cmd("PUBLISH", <<>>, BMC)>> >>
  IN SetToSeq({Pub(h, d, i, v) : h \in BOOLEAN, d \in BOOLEAN, i \in BOOLEAN, v \in BOOLEAN})
     \o << <<"broker.PublishJoin", <<Cmd("PUBLISH", <<>>, BMC)>> >>,
           <<"broker.PublishLeave", <<Cmd("PUBLISH", <<>>, BMC)>> >>,
           <<"broker.History", <<Cmd("EVALSHA", <<hk, "broker.historyMetaKey">>, "")>> >>,
           <<"broker.RemoveHistory", <<Cmd("DEL", <<hk>>, "")>> >> >>
     \* one SSUBSCRIBE connection per partition carries the shard channel and the message channels
     \o (IF Sharded(m) THEN << <<"broker.subscribe.sharded", <<Cmd("SSUBSCRIBE", <<"broker.pubSubShardChannelID">>, BMC)>> >> >>
         ELSE <<>>)

PresenceInvs ==
  LET four == <<"presence.setKey", "presence.hashKey", "presence.userSetKey", "presence.userHashKey">> IN
  << <<"presence.Add", <<Cmd("EVALSHA", four, "")>> >>,
     <<"presence.Remove", <<Cmd("EVALSHA", four, "")>> >>,
     <<"presence.Stats", <<Cmd("EVALSHA", four, "")>> >>,
     <<"presence.Get", <<Cmd("EVALSHA", <<"presence.setKey", "presence.hashKey">>, "")>> >> >>

MapModes == {"ephemeral", "recoverable", "persistent"}
HasStream(mm) == mm # "ephemeral"
HasExpiry(mm) == mm # "persistent"       \* KeyTTL > 0 exactly in these modes (ResolveAndValidateMapChannelOptions)
\* an unused KEYS position of the add/remove script: the slot-aligned ":nil:" key in cluster mode
\* ("Empty string keys hash to slot 0, which differs from the hash-tagged real keys"), empty otherwise
U(m) == IF IsCluster(m) THEN "map.nilKey" ELSE ""
If(c, n, m) == IF c THEN n ELSE U(m)

MapInvs(m) ==
  LET Publish(mm, keyed, ordered, idem) ==
        <<Name("map.Publish", <<mm>> \o Fl(keyed, "keyed") \o Fl(ordered, "ordered") \o Fl(idem, "idem")),
          IF mm = "ephemeral" /\ ~idem /\ ~keyed THEN <<Cmd("PUBLISH", <<>>, MMC)>>      \* fast path
          ELSE <<Cmd("EVALSHA",
                     << If(HasStream(mm), "map.streamKey", m), If(HasStream(mm), "map.metaKey", m),
                        If(idem, "map.resultCacheKey", m), If(keyed, "map.stateHashKey", m),
                        If(keyed /\ ordered, "map.stateOrderKey", m), If(keyed, "map.stateExpireKey", m),
                        If(keyed /\ HasStream(mm), "map.stateMetaKey", m),
                        If(keyed /\ HasExpiry(mm), "map.cleanupRegistrationKey", m) >>, MMC)>> >>
      Remove(mm, idem) ==
        <<Name("map.Remove", <<mm>> \o Fl(idem, "idem")),
          <<Cmd("EVALSHA",
                << If(HasStream(mm), "map.streamKey", m), If(HasStream(mm), "map.metaKey", m),
                   If(idem, "map.resultCacheKey", m), "map.stateHashKey", U(m), "map.stateExpireKey",
                   If(HasStream(mm), "map.stateMetaKey", m), U(m) >>, MMC)>> >>
      ReadPaged(mm, ordered) ==
        <<Name("map.ReadState", <<mm>> \o Fl(ordered, "ordered")),
          IF ordered
            THEN <<Cmd("EVALSHA", <<"map.stateHashKey", "map.stateOrderKey", "map.stateExpireKey", "map.metaKey", "map.stateMetaKey">>, "")>>
            ELSE <<Cmd("EVALSHA", <<"map.stateHashKey", "map.stateExpireKey", "map.metaKey", "map.stateMetaKey">>, "")>> >>
      ReadKey(mm) ==
        <<Name("map.ReadState", <<mm, "key">>),
          IF mm = "ephemeral" THEN <<Cmd("HGET", <<"map.stateHashKey">>, "")>>
          ELSE <<Cmd("HGET", <<"map.stateHashKey">>, ""), Cmd("HMGET", <<"map.metaKey">>, "")>> >>
      PerMode(mm) ==
        << <<Name("map.ReadStream", <<mm>>), <<Cmd("EVALSHA", <<"map.streamKey", "map.metaKey">>, "")>> >>,
           <<Name("map.Stats", <<mm>>), <<Cmd("EVALSHA", <<"map.stateHashKey">>, "")>> >>,
           <<Name("map.Clear", <<mm>>),
             <<Cmd("DEL", <<"map.streamKey", "map.metaKey", "map.stateHashKey", "map.stateOrderKey", "map.stateExpireKey",
                            "map.stateMetaKey">>, ""),
               Cmd("ZREM", <<"map.cleanupRegistrationKey">>, "")>> >>,
           <<Name("map.cleanupFind", <<mm>>), <<Cmd("EVALSHA", <<"map.stateHashKey", "map.stateExpireKey">>, "")>> >>,
           <<Name("map.cleanupBatchRemove", <<mm>>),
             <<Cmd("EVALSHA", <<"map.stateHashKey", "map.stateExpireKey", "map.streamKey", "map.metaKey", "map.cleanupScanKey",
                                "map.stateOrderKey", "map.stateMetaKey">>, MMC)>> >> >>
  IN SetToSeq({Publish(mm, k, o, i) : mm \in MapModes, k \in BOOLEAN, o \in BOOLEAN, i \in BOOLEAN})
     \o SetToSeq({Remove(mm, i) : mm \in MapModes, i \in BOOLEAN})
     \o SetToSeq({ReadPaged(mm, o) : mm \in MapModes, o \in BOOLEAN})
     \o SetToSeq({ReadKey(mm) : mm \in MapModes})
     \o PerMode("ephemeral") \o PerMode("recoverable") \o PerMode("persistent")

Invs(m, lists) == BrokerInvs(m, lists) \o PresenceInvs \o (IF MapApplies(m) THEN MapInvs(m) ELSE <<>>)

\* constant level (evaluated once): the invocations and their distinct commands per (mode, lists)
AllModes == {"plain", "cluster", "sharded", "precomp"}
InvsOf == [m \in AllModes, l \in BOOLEAN |-> Invs(m, l)]
CmdsOf == [m \in AllModes, l \in BOOLEAN |->
             UNION {{InvsOf[m, l][j][2][x] : x \in 1..Len(InvsOf[m, l][j][2])} : j \in 1..Len(InvsOf[m, l])}]

\* indices (into InvsOf) of the invocations with a command whose keys / channel do not all carry the same hash tag
BadOps(m, p, ch, lists) ==
  LET bs    == Builders(m, p, ch, lists)
      tagOf == [n \in {bs[i][1] : i \in 1..Len(bs)} |-> Str(Tag(bs[CHOOSE i \in 1..Len(bs) : bs[i][1] = n][2]))]
      TagN(n) == IF n = "" THEN "" ELSE tagOf[n]
      invs  == InvsOf[m, lists]
      bad   == {c \in CmdsOf[m, lists] :
                  Cardinality({TagN(c[2][i]) : i \in 1..Len(c[2])} \cup (IF c[3] = "" THEN {} ELSE {TagN(c[3])})) > 1}
  IN {j \in 1..Len(invs) : \E x \in 1..Len(invs[j][2]) : invs[j][2][x] \in bad}

\* channel round trips (by engine)
BadTrips(m, p, ch) ==
     (IF BExtract(m, p, BMsgChan(m, p, ch)) # ch THEN {"broker.extractChannel"} ELSE {})
  \cup (IF MapApplies(m) /\ MExtract(m, p, MMsgChan(m, p, ch)) # ch THEN {"map.extractChannel"} ELSE {})

---------------------------------------------------------------------------
(* --- for which inputs is the design unsound? ---------------------------- *)
\* prefix: the first '{' of the prefix decides the tag of EVERY key
PrefixClass(p) ==
  LET o == FirstIdx(p, LB, 1) IN
  IF o = 0 THEN "ok"                                    \* no '{' in the prefix
  ELSE LET c == FirstIdx(p, RB, o + 1) IN
       IF c = 0 THEN "prefix-unclosed-brace"            \* the tag swallows the builder's infix
       ELSE IF c = o + 1 THEN "prefix-empty-braces"     \* "{}" first: the whole key is hashed
       ELSE "prefix-tag"                                \* a complete {tag} in the prefix: one slot for all
ChanClass(ch) == IF ch[1] = RB THEN "channel-starts-with-}" ELSE "ok"     \* "{" ++ "}..." : empty tag

\* the classes; "sound" = the property must hold for every operation
Class(m, p, ch) ==
  IF ~IsCluster(m) THEN "sound"
  ELSE IF PrefixClass(p) \in {"prefix-unclosed-brace", "prefix-empty-braces"} THEN PrefixClass(p)
  ELSE IF PrefixClass(p) = "prefix-tag" THEN "sound"
  ELSE IF ChanClass(ch) = "ok" THEN "sound"
  ELSE ChanClass(ch)      \* "{ch}" keys: broker in "cluster" mode, presence in every cluster mode

---------------------------------------------------------------------------
(* --- the table ---------------------------------------------------------- *)
\* rows:  <<"ops", mode, lists, <<name, <<COMMAND, <<KEYS>>, channel>>* >>* >>       one per (mode, lists)
\*        <<mode, prefix, lists, channel, class, <<indices of bad invocations>>, <<bad round trips>>, <<name, key shape>>* >>
VARIABLE row
vars == <<row>>

SetToSeqStr(S) == SetToSeq(S)

MkRow(m, p, ch, lists) ==
  LET bs == Builders(m, p, ch, lists)
  IN <<m, Str(p), lists, Str(ch), Class(m, p, ch),
       SetToSeqStr(IF IsCluster(m) THEN BadOps(m, p, ch, lists) ELSE {}), SetToSeqStr(BadTrips(m, p, ch)),
       [i \in 1..Len(bs) |-> <<bs[i][1], Str(bs[i][2])>>]>>

OpsRow(m, lists) == <<"ops", m, lists, InvsOf[m, lists]>>

Seeds == {<<"seed", m, p, l>> : m \in Modes, p \in Prefixes, l \in BOOLEAN}
Init == row \in Seeds
Next == /\ row[1] = "seed"
        /\ \/ \E n \in 1..MaxChan : \E ch \in [1..n -> ChanChars] : row' = MkRow(row[2], row[3], ch, row[4])
           \/ row' = OpsRow(row[2], row[4])
Spec == Init /\ [][Next]_vars

IsRow == row[1] \notin {"seed", "ops"}
Bad == {row[6][i] : i \in 1..Len(row[6])}
Trips == {row[7][i] : i \in 1..Len(row[7])}

\* every failure lies in a named input class (or is the mode-wide known one)
Classified == IsRow => (row[5] = "sound" => Bad = {} /\ Trips = {})
\* and the classes are exact: a classified cluster-mode input does fail somewhere
Tight == IsRow => (row[5] # "sound" => Bad # {} \/ Trips # {})
=============================================================================
