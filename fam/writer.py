"""C12, C40, C42 -- family `writer`: spec/Writer (Ring, Writer, WriterTrace), spec/Dissolve, spec/Pools bound to
internal/queue, writer.go, internal/dissolve, internal/bpool through harness/writer + overlay/writer.
(docstring completed at the end of the file's development: see MUTATIONS below)"""
import json
import os

from lib import vf

# development aid (mutation testing): skip the exhaustive design runs, which do not depend on the code under test
_FAST = os.environ.get('VERIF_WRITER_FAST') == '1'


# ------------------------------------------------------------------------------------------------ C12
def _ring_states(beh):
    out = []
    for st in beh:
        nodes = st['nodes']
        cap = len(nodes) if isinstance(nodes, (dict, list)) else 0
        out.append({'step': st['step'], 'head': st['head'], 'tail': st['tail'], 'cnt': st['cnt'], 'size': st['size'],
                    'cap': cap, 'closed': st['closed'], 'initCap': st['initCap']})
    return out


def _validate_traces(c, family, module, cfg, traces, on_reject, reset=None, timeout=900):
    """Validates many traces in one TLC run (concatenated); on rejection isolates the rejected trace, reports it
    through on_reject(trace_index, trace, matched_prefix, info) and continues with the rest. Returns #accepted."""
    accepted = 0
    base = 0
    remaining = list(traces)
    for _round in range(8):
        events, bounds = [], []
        for t in remaining:
            events += t
            if reset is not None:
                events.append(reset)
            bounds.append(len(events))
        if not events:
            break
        ok, info = c.validate_trace(family, module, cfg, events, timeout=timeout)
        if ok:
            accepted += len(remaining)
            remaining = []
            break
        pref = info.get('matched_prefix', 0)
        bad_i = next((i for i, b in enumerate(bounds) if pref < b), len(remaining) - 1)
        t = remaining[bad_i]
        ok1, info1 = c.validate_trace(family, module, cfg, t + ([reset] if reset is not None else []), timeout=300)
        if ok1:
            raise vf.Inconclusive('batch of traces rejected but the single trace is accepted: %s' % info)
        on_reject(base + bad_i, t, info1.get('matched_prefix', 0), info1)
        accepted += bad_i
        base += bad_i + 1
        remaining = remaining[bad_i + 1:]
    if remaining:
        c.notes.append('more than 8 rejected traces; %d traces left unvalidated' % len(remaining))
    return accepted


def c12(c):
    quick = c.tier == 'quick'
    # 1. design: the concrete ring refines the FIFO (exhaustive), the writer over the FIFO delivers exactly
    if not _FAST:
        r = c.tlc_exhaustive('Writer', 'Ring', 'ring_quick.cfg' if quick else 'ring_thorough.cfg', workers=8, timeout=1500)
        c.log('Ring: %d distinct / %d generated states' % (r['distinct'], r['states']))
        r = c.tlc_exhaustive('Writer', 'Writer', 'writer_quick.cfg' if quick else 'writer_thorough.cfg', workers=8, timeout=2400)
        c.log('Writer: %d distinct / %d generated states, depth %d' % (r['distinct'], r['states'], r['depth']))
    if not quick and not _FAST:
        r = c.tlc_exhaustive('Writer', 'Writer', 'writer_live.cfg', workers=8, timeout=2400)
        c.log('Writer liveness (FairSpec): %d distinct states' % r['distinct'])
    binp = c.go_build('writer')
    # 2. S: simulated operation sequences of the ring replayed into internal/queue
    nb = 150 if quick else 1500
    s = c.tlc('Writer', 'RingSim', 'ring_sim.cfg', simulate=nb, depth=50, timeout=900)
    if not s['ok']:
        raise vf.Inconclusive('RingSim simulation failed: %s' % s['out'][-2000:])
    behs = [_ring_states(b) for b in c.behaviours(s)]
    c.log('RingSim: %d behaviours' % len(behs))
    res = c.harness(binp, 'ring', behs, timeout=600)
    c.absorb(res)
    c.cov['traces_validated_against_impl'] += res['completed']
    c.cov['evaluations'] += res['counters'].get('ring_ops', 0)
    c.cov['distinct_nontrivial'] += res['nontrivial']
    c.cov['samples'] += res['samples'][:1]
    c.cov['ring_replay'] = {'behaviours': res['executed'], 'completed': res['completed'], 'ops': res['counters'].get('ring_ops', 0),
                            'nontrivial': res['nontrivial']}
    # 3. T: the real writer under 2 producers + closer; monitor in the harness, traces to TLC
    nruns = 1500 if quick else 12000
    ntr = 60 if quick else 400
    wr = c.harness(binp, 'writer', {'n': nruns, 'traces': ntr, 'parallel': 8}, timeout=900)
    c.absorb(wr)
    c.cov['evaluations'] += wr['executed']
    c.cov['distinct_nontrivial'] += wr['nontrivial']
    c.cov['writer_runs'] = {'runs': wr['executed'], 'clean': wr['completed'], 'counters': wr['counters'], 'nontrivial': wr['nontrivial']}
    traces = wr['extra']['traces']
    scen = wr['extra']['trace_scenarios']

    def rejected(i, t, k, info):
        ev = t[k] if k < len(t) else None
        if 'violated' in (info.get('error') or ''):
            what = 'recorded execution of the writer violates %s at event %d: %s' % (info['error'], k, ev)
        else:
            what = ('recorded execution of the writer is not a behaviour of spec/Writer: event %d %s cannot follow the matched prefix '
                    '(scenario %s)' % (k, json.dumps(ev), json.dumps(scen[i])))
        c.violation('trace:%s:%s' % (ev.get('ev') if ev else '?', scen[i]['mode']), what, {'scenario': scen[i], 'trace': t, 'matched_prefix': k})

    acc = _validate_traces(c, 'Writer', 'WriterTrace', 'writer_trace.cfg', traces, rejected)
    c.log('WriterTrace: %d of %d recorded traces accepted' % (acc, len(traces)))
    c.cov['traces_validated_against_impl'] += acc
    c.cov['trace_events'] = sum(len(t) for t in traces)
    if traces:
        c.cov['samples'].append({'recorded_trace': traces[0][:14]})
    c.cov['rule'] = ('ring: TLC -simulate of RingSim (ops/args by state hash) replayed into internal/queue, every op compared (items, ok, Len, Size; Cap/head/tail as drift); '
                     'non-trivial = behaviour with a grow while head>0 and a shrink with items left, distinct by operation list. '
                     'writer: seeded random scenarios (mode x delay x frame x maxq x initCap x shrink x close kind x transport fault), observable monitor on every run, '
                     'first N traces validated by TLC against WriterTrace; non-trivial = both producers interleaved in the delivered order and a batched frame, distinct by trace')
    c.assumptions += ['transport write functions are called with the items they must send; what the transport does with them is outside (C30/C32)',
                      'time is not modelled: sleeps/timers may end at any moment (the real executions are a subset)',
                      'ring: initial capacity >= 1 (newWriter maps 0 to 2); item payload sizes 0..5 bytes',
                      'a panic of the queue/writer is reported as a violation: the model prescribes a normal return with specific items']


# ------------------------------------------------------------------------------------------------ registry
CHECKS = {'C12': c12}

META = {
    'C12': dict(level='model_checking',
                text='placeholder', note='placeholder', technique='placeholder'),
}
