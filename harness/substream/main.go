// C01 / C02 / C10 / C16(live, stream recovery): gate replay of spec/SubStream behaviours on real clients.
//
// The subscriber command runs on its own goroutine and is parked, exactly where the model's pc says, inside calls
// through public interfaces the harness implements (cl.GateBroker: Broker.Subscribe = "g1", before Broker.History =
// "g2", after it = "g3"). Publications are withheld by the broker wrapper and enter the node only when the model
// delivers them (in order, reordered, duplicated, dropped, with a foreign epoch or lagged). After every step at
// which the subscriber is not parked the frames written to the recording transport are projected to the model's
// `out` and compared; the observable-only monitors of the properties are evaluated on the REAL frames and decide
// the verdict (mismatch with all monitors true = drift, not a violation).
package main

import (
	"encoding/json"
	"fmt"
	"strconv"
	"sync"
	"sync/atomic"
	"time"

	"github.com/centrifugal/centrifuge"
	"github.com/centrifugal/protocol"

	"verifharness/cl"
	"verifharness/vh"
)

const gateTimeout = 3 * time.Second

type delivery struct {
	pub *centrifuge.Publication
	sp  centrifuge.StreamPosition
}

type runner struct {
	w    *worker
	ch   string
	cfg  map[string]any
	kind string
	filt bool
	sf   bool
	auto bool
	noep bool
	neg  bool // negative tags filter (t neq drop): admits untagged publications
	server bool  // server-side Client.Subscribe instead of a subscribe command
	subErr error // what Client.Subscribe returned
	winAtRead []int // offsets retained in history when it was read

	mu         sync.Mutex
	deliveries map[int]delivery
	curID      int
	tags       []string // tags[off-1]
	topAtRead  int

	g1, g2, g3 *cl.Gate
	async      []*cl.Gate // handleInsufficientState goroutines parked at the insufficient:enter hook
	cg2, cg3   *cl.Gate   // periodic position check parked before / after its Broker.History call
	pop        bool       // the cache-empty handler populates the channel (publishes from inside the handler)
	gp, g4     *cl.Gate   // subscriber parked inside the cache-empty handler / after the second cache read
	popTag     string
	popID      int
	reads      int // Broker.History calls of the subscribe command seen so far
	bufWin     []int // offsets handed to the node (in epoch, not lagged) while the subscribe was in its window
	tickDone   chan struct{}
	tickEnd    chan struct{} // signalled by the tick:done hook
	subDone    chan struct{}
	subID      uint32
	conn       *cl.Conn
}

type worker struct {
	env     *cl.Env
	gb      *cl.GateBroker
	runners sync.Map // ch -> *runner
	hist    int
	timers  *cl.ManualTimers // client timers never fire by themselves: the model's CheckStart fires the presence tick
	clock   atomic.Int64     // seconds the node clock is ahead of the wall clock (each position check moves it on)
}

// allRunners: ch -> *runner over all workers (the verif gate function is process-global)
var allRunners sync.Map

// asyncGate parks a spawned handleInsufficientState goroutine at its entry until the behaviour's AsyncEnd step
// (or the end of the behaviour) releases it.
// runnersByClient: client id -> *runner (hook points without a channel)
var runnersByClient sync.Map

func asyncGate(point, clientID string, ch string) {
	if point == "tick:done" {
		// end of a presence tick that actually ran (the client's timer callback may hand the tick to another goroutine,
		// so the return of the timer callback does not mean the tick is over)
		if v, ok := runnersByClient.Load(clientID); ok {
			select {
			case v.(*runner).tickEnd <- struct{}{}:
			default:
			}
		}
		return
	}
	if point != "insufficient:enter" {
		return
	}
	v, ok := allRunners.Load(ch)
	if !ok {
		return
	}
	r := v.(*runner)
	g := cl.NewGate()
	r.mu.Lock()
	r.async = append(r.async, g)
	r.mu.Unlock()
	g.Arrive(60 * time.Second)
}

// waitAsync waits until at least n insufficient-state goroutines are parked.
func (r *runner) waitAsync(n int, timeout time.Duration) bool {
	deadline := time.Now().Add(timeout)
	for {
		r.mu.Lock()
		k := len(r.async)
		r.mu.Unlock()
		if k >= n {
			return true
		}
		if time.Now().After(deadline) {
			return false
		}
		time.Sleep(time.Millisecond)
	}
}

// releaseAsync lets the oldest parked insufficient-state goroutine run (all = every one of them).
func (r *runner) releaseAsync(all bool) bool {
	r.mu.Lock()
	defer r.mu.Unlock()
	if len(r.async) == 0 {
		return false
	}
	if all {
		for _, g := range r.async {
			g.Release()
		}
		r.async = nil
		return true
	}
	r.async[0].Release()
	r.async = r.async[1:]
	return true
}

func (w *worker) runner(ch string) *runner {
	if v, ok := w.runners.Load(ch); ok {
		return v.(*runner)
	}
	return nil
}

func newWorker(histSize, recLimit int) (*worker, error) {
	timers := &cl.ManualTimers{}
	env, err := cl.NewEnv(centrifuge.Config{
		ClientChannelPositionMaxTimeLag: 5 * time.Second,
		ClientChannelPositionCheckDelay: time.Millisecond, // every presence tick checks the position of positioned channels
		ClientTimerScheduler:            timers,
		RecoveryMaxPublicationLimit:     recLimit,
		LogLevel:                        centrifuge.LogLevelNone,
	})
	if err != nil {
		return nil, err
	}
	w := &worker{env: env, hist: histSize, timers: timers}
	centrifuge.VerifMSetNodeClock(env.Node, func() time.Time { return time.Now().Add(time.Duration(w.clock.Load()) * time.Second) })
	gb, err := cl.NewGateBroker(env.Node)
	if err != nil {
		return nil, err
	}
	w.gb = gb
	gb.OnSubscribe = func(ch string) {
		if r := w.runner(ch); r != nil && r.g1 != nil {
			r.g1.Arrive(gateTimeout)
		}
	}
	gb.BeforeHistory = func(ch string, _ centrifuge.HistoryOptions) {
		r := w.runner(ch)
		if r == nil {
			return
		}
		r.mu.Lock()
		cg := r.cg2
		r.mu.Unlock()
		if cg != nil { // the stream-top read of a periodic position check
			cg.Arrive(30 * time.Second)
			return
		}
		if r.g2 != nil {
			r.g2.Arrive(gateTimeout)
		}
	}
	gb.AfterHistory = func(ch string, _ centrifuge.HistoryOptions, _ []*centrifuge.Publication, sp centrifuge.StreamPosition) {
		if r := w.runner(ch); r != nil {
			r.mu.Lock()
			cg := r.cg3
			r.mu.Unlock()
			if cg != nil {
				cg.Arrive(30 * time.Second)
				return
			}
		}
		if r := w.runner(ch); r != nil && r.g3 != nil {
			r.mu.Lock()
			r.reads++
			second := r.reads == 2 && r.g4 != nil
			r.mu.Unlock()
			// what the stream retained at this moment (independent full read; the subscriber is parked, nothing moves)
			all, _, _ := w.gb.Inner.History(ch, centrifuge.HistoryOptions{Filter: centrifuge.HistoryFilter{Limit: -1}})
			r.mu.Lock()
			r.topAtRead = int(sp.Offset)
			r.winAtRead = r.winAtRead[:0]
			for _, p := range all {
				r.winAtRead = append(r.winAtRead, int(p.Offset))
			}
			r.mu.Unlock()
			if second {
				r.g4.Arrive(gateTimeout) // the read after the cache-empty handler populated the channel
			} else {
				r.g3.Arrive(gateTimeout)
			}
		}
	}
	gb.RewritePosition = func(ch string, sp centrifuge.StreamPosition) centrifuge.StreamPosition {
		if r := w.runner(ch); r != nil && r.noep {
			sp.Epoch = "" // the broker has no stream meta yet (lagging replica): the subscription starts without an epoch
		}
		return sp
	}
	gb.Intercept = func(ch string, pub *centrifuge.Publication, sp centrifuge.StreamPosition, _ bool, _ *centrifuge.Publication) bool {
		r := w.runner(ch)
		if r == nil {
			return true
		}
		r.mu.Lock()
		r.deliveries[r.curID] = delivery{pub, sp}
		r.mu.Unlock()
		return false
	}
	env.Node.SetBroker(gb)
	env.Node.OnCacheEmpty(func(e centrifuge.CacheEmptyEvent) (centrifuge.CacheEmptyReply, error) {
		r := w.runner(e.Channel)
		if r == nil || !r.pop || r.gp == nil {
			return centrifuge.CacheEmptyReply{}, nil
		}
		// the model parks the subscriber here only when the first read found nothing and did not recover
		since := vh.Map(r.cfg["since"])
		r.mu.Lock()
		same := vh.Int(since["off"]) > 0 && vh.Int(since["off"]) == r.topAtRead && vh.Str(since["ep"]) == "e1"
		r.mu.Unlock()
		if same {
			return centrifuge.CacheEmptyReply{}, nil
		}
		r.gp.Arrive(gateTimeout)
		r.mu.Lock()
		tag, id := r.popTag, r.popID
		r.mu.Unlock()
		if id == 0 {
			return centrifuge.CacheEmptyReply{}, nil
		}
		r.mu.Lock()
		r.curID = id
		r.mu.Unlock()
		opts := []centrifuge.PublishOption{centrifuge.WithHistory(w.hist, time.Minute)}
		if tag != "none" {
			opts = append(opts, centrifuge.WithTags(map[string]string{"t": tag}))
		}
		if _, err := w.env.Node.Publish(e.Channel, []byte(strconv.Itoa(id)), opts...); err != nil {
			return centrifuge.CacheEmptyReply{}, nil
		}
		return centrifuge.CacheEmptyReply{Populated: true}, nil
	})
	env.OnSubscribe = func(_ *centrifuge.Client, e centrifuge.SubscribeEvent, cb centrifuge.SubscribeCallback) {
		r := w.runner(e.Channel)
		opts := centrifuge.SubscribeOptions{}
		if r != nil {
			switch r.kind {
			case "pos":
				opts.EnablePositioning = true
			case "rec":
				opts.EnableRecovery = true
			case "cache":
				opts.EnableRecovery = true
				opts.RecoveryMode = centrifuge.RecoveryModeCache
				opts.AutoCacheRecover = r.auto
			}
			opts.AllowTagsFilter = true
			if r.filt && r.sf {
				opts.ServerTagsFilter = r.filterNode()
			}
		}
		cb(centrifuge.SubscribeReply{Options: opts}, nil)
	}
	if err := env.Run(); err != nil {
		return nil, err
	}
	return w, nil
}

// ---------------------------------------------------------------- projection of real frames to the model's `out`

type frame struct {
	T         string `json:"t"`
	Off       int    `json:"off,omitempty"`
	ID        int    `json:"id,omitempty"`
	Recovered bool   `json:"recovered,omitempty"`
	Pubs      []int  `json:"pubs,omitempty"`
	Code      int    `json:"code,omitempty"`
}

func (r *runner) project() []frame {
	var out []frame
	for _, rep := range r.conn.Frames() {
		switch {
		case rep.Connect != nil:
		case rep.Id != 0 && rep.Id == r.subID && rep.Subscribe != nil:
			f := frame{T: "reply", Off: int(rep.Subscribe.Offset), Recovered: rep.Subscribe.Recovered, Pubs: []int{}}
			for _, p := range rep.Subscribe.Publications {
				f.Pubs = append(f.Pubs, int(p.Offset))
			}
			out = append(out, f)
		case rep.Id != 0 && rep.Error != nil:
			out = append(out, frame{T: "error", Code: int(rep.Error.Code)})
		case rep.Push != nil && rep.Push.Channel == r.ch && rep.Push.Pub != nil:
			id, _ := strconv.Atoi(string(rep.Push.Pub.Data))
			out = append(out, frame{T: "pub", Off: int(rep.Push.Pub.Offset), ID: id})
		case rep.Push != nil && rep.Push.Channel == r.ch && rep.Push.Unsubscribe != nil:
			out = append(out, frame{T: "unsub", Code: int(rep.Push.Unsubscribe.Code)})
		case r.server && rep.Push != nil && rep.Push.Channel == r.ch && rep.Push.Subscribe != nil:
			// server-side subscription: the subscribe push takes the place of the reply (it cannot carry publications)
			out = append(out, frame{T: "reply", Off: int(rep.Push.Subscribe.Offset), Pubs: []int{}})
		case rep.Push != nil && rep.Push.Disconnect != nil:
			// written before the transport close; the close itself is projected below
		default:
			out = append(out, frame{T: "other:" + cl.Describe(rep)})
		}
	}
	if closed, d := r.conn.T.Closed(); closed {
		out = append(out, frame{T: "disc", Code: int(d.Code)})
	}
	return out
}

func modelOut(st map[string]any) []frame {
	var out []frame
	for _, x := range vh.List(st["out"]) {
		m := vh.Map(x)
		f := frame{T: vh.Str(m["t"])}
		switch f.T {
		case "reply":
			f.Off = vh.Int(m["off"])
			f.Recovered = vh.Bool(m["recovered"])
			f.Pubs = []int{}
			for _, p := range vh.List(m["pubs"]) {
				f.Pubs = append(f.Pubs, vh.Int(p))
			}
		case "pub":
			f.Off = vh.Int(m["off"])
			f.ID = vh.Int(m["id"])
		case "unsub", "disc":
			f.Code = vh.Int(m["code"])
		}
		out = append(out, f)
	}
	return out
}

func sameFrames(a, b []frame) bool {
	if len(a) != len(b) {
		return false
	}
	for i := range a {
		x, y := a[i], b[i]
		if x.T != y.T || x.Off != y.Off || x.Recovered != y.Recovered || x.Code != y.Code {
			return false
		}
		if x.T == "pub" && x.ID != y.ID {
			return false
		}
		if len(x.Pubs) != len(y.Pubs) {
			return false
		}
		for j := range x.Pubs {
			if x.Pubs[j] != y.Pubs[j] {
				return false
			}
		}
	}
	return true
}

// ---------------------------------------------------------------- observable-only monitors (same formulas as SubStream.tla)

// excluded: the subscription's tags filter withholds a publication with this tag ("none" = untagged)
func (r *runner) excluded(tag string) bool {
	if !r.filt {
		return false
	}
	if r.neg {
		return tag == "drop"
	}
	return tag != "keep"
}

func (r *runner) filtered(off int) bool {
	return off >= 1 && off <= len(r.tags) && r.excluded(r.tags[off-1])
}

// filterNode is the subscription's tags filter: positive (t eq keep) or negative (t neq drop)
func (r *runner) filterNode() *protocol.FilterNode {
	if r.neg {
		return &protocol.FilterNode{Key: "t", Cmp: "neq", Val: "drop"}
	}
	return &protocol.FilterNode{Key: "t", Cmp: "eq", Val: "keep"}
}

type verdict struct{ prop, sig, what string }

func (r *runner) monitors(out []frame) []verdict {
	var vs []verdict
	positioned := r.kind == "pos" || r.kind == "rec" || r.kind == "cache"
	stream := r.kind == "pos" || r.kind == "rec"
	replyIdx, endIdx := -1, -1
	for i, f := range out {
		if f.T == "reply" && replyIdx < 0 {
			replyIdx = i
		}
		if (f.T == "unsub" || f.T == "disc") && endIdx < 0 {
			endIdx = i
		}
	}
	since := vh.Map(r.cfg["since"])
	sinceOff := vh.Int(since["off"])
	var seen []int
	subPos := 0
	if replyIdx >= 0 {
		subPos = out[replyIdx].Off
		seen = append(seen, out[replyIdx].Pubs...)
		for _, f := range out {
			if f.T == "pub" {
				seen = append(seen, f.Off)
			}
		}
	}
	if positioned {
		for i := 0; i+1 < len(seen); i++ {
			if seen[i] >= seen[i+1] {
				vs = append(vs, verdict{"C01", "order", fmt.Sprintf("offsets not strictly increasing: %v", seen)})
				break
			}
		}
		if len(seen) > 0 && stream {
			have := map[int]bool{}
			for _, o := range seen {
				have[o] = true
			}
			for o := subPos + 1; o <= seen[len(seen)-1]; o++ {
				if !have[o] && !r.filtered(o) {
					vs = append(vs, verdict{"C01", "gap", fmt.Sprintf("offset %d between subscribe position %d and last delivered %d was neither delivered nor filtered: %v", o, subPos, seen[len(seen)-1], seen)})
					break
				}
			}
			for _, o := range seen {
				if o <= subPos {
					vs = append(vs, verdict{"C01", "dup-before-position", fmt.Sprintf("offset %d delivered although the subscribe position is %d: %v", o, subPos, seen)})
					break
				}
			}
		}
	}
	for i, f := range out {
		if f.T != "pub" {
			continue
		}
		if replyIdx < 0 || i < replyIdx {
			vs = append(vs, verdict{"C10", "pub-before-reply:" + r.kind, fmt.Sprintf("publication push (offset %d) before the subscribe reply", f.Off)})
			break
		}
		if endIdx >= 0 && i > endIdx {
			vs = append(vs, verdict{"C10", "pub-after-end:" + r.kind, fmt.Sprintf("publication push (offset %d) after the subscription ended", f.Off)})
			break
		}
	}
	for _, f := range out {
		if f.T == "pub" && f.Off != 0 && r.filtered(f.Off) {
			vs = append(vs, verdict{"C16", "live-filtered", fmt.Sprintf("publication offset %d excluded by the tags filter was pushed", f.Off)})
		}
		if f.T == "pub" && f.Off == 0 && r.filt {
			// offset-less publications: identify by payload id
			if f.ID >= 1 && f.ID <= len(r.tags) && r.excluded(r.tags[f.ID-1]) {
				vs = append(vs, verdict{"C16", "live-filtered-nooffset", fmt.Sprintf("publication #%d excluded by the tags filter was pushed", f.ID)})
			}
		}
	}
	if replyIdx >= 0 {
		rep := out[replyIdx]
		for _, o := range rep.Pubs {
			if r.filtered(o) {
				vs = append(vs, verdict{"C16", "recovery-filtered", fmt.Sprintf("recovered publication offset %d is excluded by the tags filter", o)})
			}
		}
		if r.kind == "cache" {
			if len(rep.Pubs) > 1 {
				vs = append(vs, verdict{"C03", "more-than-one", fmt.Sprintf("cache recovery delivered %v", rep.Pubs)})
			}
			newestVisible, newest := 0, 0
			for _, o := range r.winAtRead {
				if o > newest {
					newest = o
				}
				if !r.filtered(o) && o > newestVisible {
					newestVisible = o
				}
			}
			for _, o := range rep.Pubs {
				if o < newestVisible {
					vs = append(vs, verdict{"C03", "not-newest-visible", fmt.Sprintf("cache recovery delivered offset %d while the newest visible publication in history is %d", o, newestVisible)})
				}
				if r.filtered(o) {
					vs = append(vs, verdict{"C03", "excluded-delivered", fmt.Sprintf("cache recovery delivered offset %d, which the subscription's tags filter excludes", o)})
				}
			}
			// publications that reached the node inside the subscribe window (buffered) and are newer than the history top
			// are part of what the reply chooses from
			if rep.Recovered && len(rep.Pubs) == 1 {
				for _, b := range r.bufWin {
					if b > r.topAtRead && !r.filtered(b) && rep.Pubs[0] < b {
						vs = append(vs, verdict{"C03", "not-newest-visible:buffered", fmt.Sprintf("cache recovery delivered offset %d although the visible publication %d had reached the node inside the subscribe window", rep.Pubs[0], b)})
						break
					}
				}
			}
			newestPresent := len(r.winAtRead) > 0 && newest == r.topAtRead
			holdsCurrent := sinceOff > 0 && sinceOff == r.topAtRead && vh.Str(since["ep"]) == "e1"
			if rep.Recovered != (newestPresent || holdsCurrent) {
				vs = append(vs, verdict{"C03", fmt.Sprintf("recovered-flag:%v", rep.Recovered), fmt.Sprintf("cache recovery reported recovered=%v; newest publication present in history=%v (window %v, top %d), client holds current position=%v", rep.Recovered, newestPresent, r.winAtRead, r.topAtRead, holdsCurrent)})
			}
		}
		if r.kind != "cache" && !rep.Recovered && len(rep.Pubs) > 0 {
			vs = append(vs, verdict{"C02", "unrecovered-with-pubs", fmt.Sprintf("recovered=false with publications %v", rep.Pubs)})
		}
		if r.kind != "cache" && rep.Recovered {
			ep := vh.Str(since["ep"])
			if r.kind != "rec" || (ep != "" && ep != "e1") {
				vs = append(vs, verdict{"C02", "recovered-wrong-epoch", fmt.Sprintf("recovered=true for kind %s epoch %q", r.kind, ep)})
			}
			have := map[int]bool{}
			for _, o := range rep.Pubs {
				have[o] = true
				if o <= sinceOff {
					vs = append(vs, verdict{"C02", "recovered-not-after-offset", fmt.Sprintf("recovered publication offset %d is not after the requested offset %d", o, sinceOff)})
				}
			}
			last := r.topAtRead
			if len(rep.Pubs) > 0 && rep.Pubs[len(rep.Pubs)-1] > last {
				last = rep.Pubs[len(rep.Pubs)-1]
			}
			for o := sinceOff + 1; o <= last; o++ {
				if !have[o] && !r.filtered(o) {
					vs = append(vs, verdict{"C02", "recovered-missing", fmt.Sprintf("recovered=true but offset %d (after requested %d, top at read %d) is missing from %v", o, sinceOff, r.topAtRead, rep.Pubs)})
					break
				}
			}
		}
	}
	return vs
}

// ---------------------------------------------------------------- one behaviour

func (r *runner) settle(parked bool) {
	if parked {
		return
	}
	if closed, _ := r.conn.T.Closed(); closed {
		return
	}
	r.conn.Barrier(2 * time.Second)
}

func tagsFilter() *protocol.FilterNode {
	return &protocol.FilterNode{Key: "t", Cmp: "eq", Val: "keep"}
}

func (w *worker) run(bi int, beh []map[string]any, res *vh.Result) {
	cfg := vh.Map(beh[0]["cfg"])
	r := &runner{w: w, ch: fmt.Sprintf("ss%d_%d", vh.Seed(), bi), cfg: cfg, kind: vh.Str(cfg["kind"]), filt: vh.Bool(cfg["filt"]), sf: vh.Bool(cfg["sf"]), auto: vh.Bool(cfg["auto"]), noep: vh.Bool(cfg["noep"]), neg: vh.Bool(cfg["neg"]), pop: vh.Bool(cfg["pop"]), server: vh.Bool(cfg["server"]),
		deliveries: map[int]delivery{}, g1: cl.NewGate()}
	if r.kind == "pos" || r.kind == "rec" || r.kind == "cache" {
		r.g2, r.g3 = cl.NewGate(), cl.NewGate()
	}
	if r.pop {
		r.gp, r.g4 = cl.NewGate(), cl.NewGate()
	}
	w.runners.Store(r.ch, r)
	defer w.runners.Delete(r.ch)
	allRunners.Store(r.ch, r)
	defer allRunners.Delete(r.ch)
	defer r.releaseAsync(true)
	conn, err := w.env.NewConn("u", centrifuge.ProtocolTypeJSON)
	if err != nil {
		res.Drift("", "NewConn: "+err.Error(), nil)
		res.Done(1, 0)
		return
	}
	r.conn = conn
	r.tickEnd = make(chan struct{}, 8)
	runnersByClient.Store(conn.Client.ID(), r)
	defer runnersByClient.Delete(conn.Client.ID())
	defer func() { conn.Client.Disconnect(); conn.Cancel() }()
	if conn.Connect() == nil {
		res.Drift("", "connect failed", nil)
		res.Done(1, 0)
		return
	}
	var steps []any
	completed := 1
	drift := func(what string) {
		res.Drift("", fmt.Sprintf("%s (behaviour %d, cfg %s)", what, bi, vh.J(cfg)), map[string]any{"cfg": cfg, "steps": steps})
		completed = 0
	}
	nontrivial := false
	// diverged: the real frames left the model's `out` while every monitor still held. The remaining steps are then
	// executed blindly (same operations, no comparison) and the monitors keep judging the real frames: a property
	// broken later is a violation; if none breaks, the divergence is reported as drift.
	diverged := ""
	for si := 1; si < len(beh) && completed == 1; si++ {
		st := beh[si]
		step := vh.Map(st["step"])
		act := vh.Str(step["act"])
		steps = append(steps, step)
		switch act {
		case "Publish":
			id := vh.Int(step["id"])
			tag := vh.Str(step["tag"])
			r.mu.Lock()
			r.curID = id
			r.mu.Unlock()
			var opts []centrifuge.PublishOption
			if tag != "none" {
				opts = append(opts, centrifuge.WithTags(map[string]string{"t": tag}))
			}
			if r.kind != "nohist" {
				opts = append(opts, centrifuge.WithHistory(w.hist, time.Minute))
			}
			pr, err := w.env.Node.Publish(r.ch, []byte(strconv.Itoa(id)), opts...)
			if err != nil {
				drift("publish: " + err.Error())
				break
			}
			if r.kind != "nohist" {
				if int(pr.Offset) != len(r.tags)+1 {
					drift(fmt.Sprintf("publish offset %d, expected %d", pr.Offset, len(r.tags)+1))
					break
				}
				r.tags = append(r.tags, tag)
			} else {
				r.tags = append(r.tags, tag) // indexed by id for offset-less publications
			}
		case "ClearHistory":
			if err := w.env.Node.RemoveHistory(r.ch); err != nil {
				drift("remove history: " + err.Error())
			}
		case "Drop":
			r.mu.Lock()
			delete(r.deliveries, vh.Int(step["id"]))
			r.mu.Unlock()
		case "Deliver":
			id := vh.Int(step["id"])
			r.mu.Lock()
			d, ok := r.deliveries[id]
			if !vh.Bool(step["keep"]) {
				delete(r.deliveries, id)
			}
			r.mu.Unlock()
			if !ok {
				drift(fmt.Sprintf("delivery %d not captured", id))
				break
			}
			pub := *d.pub
			sp := d.sp
			if vh.Bool(step["foreign"]) {
				sp.Epoch = "e2-foreign"
				nontrivial = true
			}
			if vh.Bool(step["lagged"]) {
				pub.Time = time.Now().Add(-time.Minute).UnixMilli()
				nontrivial = true
			}
			if err := w.gb.Deliver(r.ch, &pub, sp, false, nil); err != nil {
				drift("deliver: " + err.Error())
			}
			if ppc := vh.Str(beh[si-1]["pc"]); (ppc == "g1" || ppc == "g2" || ppc == "g3" || ppc == "gp" || ppc == "g4") && !vh.Bool(step["foreign"]) && !vh.Bool(step["lagged"]) {
				r.bufWin = append(r.bufWin, int(d.pub.Offset))
			}
			if diverged == "" {
				// goroutines the model spawned in this step: wait until the real ones are parked (a missing one is judged at AsyncEnd)
				r.waitAsync(vh.Int(st["pend"]), 500*time.Millisecond)
			}
		case "SubStart":
			id := conn.NextID()
			r.subID = id
			req := &protocol.SubscribeRequest{Channel: r.ch}
			if r.filt && !r.sf {
				req.Tf = r.filterNode()
			}
			if r.kind == "rec" || (r.kind == "cache" && !r.auto) {
				since := vh.Map(cfg["since"])
				req.Recover = true
				req.Offset = uint64(vh.Int(since["off"]))
				switch vh.Str(since["ep"]) {
				case "e1":
					// the stream's real epoch: learn it through a history call that also creates the stream like a client that was subscribed before
					_, sp, err := w.gb.Inner.History(r.ch, centrifuge.HistoryOptions{Filter: centrifuge.HistoryFilter{Limit: 0}})
					if err != nil {
						drift("history for epoch: " + err.Error())
					}
					req.Epoch = sp.Epoch
				case "e2":
					req.Epoch = "e2-foreign"
				}
			}
			r.subDone = make(chan struct{})
			if r.server {
				var opts []centrifuge.SubscribeOption
				switch r.kind {
				case "pos":
					opts = append(opts, centrifuge.WithPositioning(true))
				case "rec":
					opts = append(opts, centrifuge.WithRecovery(true), centrifuge.WithRecoverSince(&centrifuge.StreamPosition{Offset: req.Offset, Epoch: req.Epoch}))
				}
				if r.filt {
					opts = append(opts, func(o *centrifuge.SubscribeOptions) {
						o.ServerTagsFilter = r.filterNode()
					})
				}
				go func() {
					defer close(r.subDone)
					r.subErr = conn.Client.Subscribe(r.ch, opts...)
				}()
			} else {
				go func() {
					defer close(r.subDone)
					conn.Do(&protocol.Command{Id: id, Subscribe: req})
				}()
			}
			if !r.g1.WaitArrived(gateTimeout) {
				drift("subscriber did not reach Broker.Subscribe")
			}
		case "SubToHistory":
			r.g1.Release()
			if !r.g2.WaitArrived(gateTimeout) {
				drift("subscriber did not reach Broker.History")
			}
		case "SubHistRead":
			r.g2.Release()
			if !r.g3.WaitArrived(gateTimeout) {
				drift("subscriber did not return from Broker.History")
			}
		case "SubToHandler":
			r.g3.Release()
			if !r.gp.WaitArrived(gateTimeout) {
				drift("subscriber did not reach the cache-empty handler")
			}
		case "SubPopulate":
			r.mu.Lock()
			r.popTag, r.popID = vh.Str(step["tag"]), vh.Int(step["id"])
			r.mu.Unlock()
			r.tags = append(r.tags, vh.Str(step["tag"]))
			r.gp.Release()
			if !r.g4.WaitArrived(gateTimeout) {
				drift("no second cache read after the handler populated the channel")
			}
			nontrivial = true
		case "SubNoPopulate":
			r.gp.Release() // popID == 0: the handler answers not populated; the subscriber goes on without a second read
		case "SubFinish":
			if r.g4 != nil {
				r.g4.Release()
			}
			if r.g3 != nil {
				r.g3.Release()
			} else {
				r.g1.Release()
			}
			select {
			case <-r.subDone:
			case <-time.After(gateTimeout):
				drift("subscribe command did not finish")
			}
			mo := modelOut(st)
			if len(mo) > 0 && mo[len(mo)-1].T == "disc" {
				conn.T.WaitFor(2*time.Second, func(_ []*protocol.Reply, closed bool) bool { return closed })
			}
			nontrivial = true
		case "CheckStart":
			w.clock.Add(1000)
			r.mu.Lock()
			r.cg2, r.cg3 = cl.NewGate(), cl.NewGate()
			r.mu.Unlock()
			r.tickDone = make(chan struct{})
			go func(done chan struct{}) {
				defer close(done)
				w.timers.Fire()
			}(r.tickDone)
			if !r.cg2.WaitArrived(gateTimeout) {
				drift("the presence tick did not start a position check (Broker.History not called)")
			}
			res.Count("position_checks", 1)
		case "CheckRead":
			r.cg2.Release()
			if !r.cg3.WaitArrived(gateTimeout) {
				drift("position check did not return from Broker.History")
			}
		case "CheckEnd":
			r.mu.Lock()
			g3 := r.cg3
			r.cg2, r.cg3 = nil, nil
			r.mu.Unlock()
			for len(r.tickEnd) > 0 {
				<-r.tickEnd
			}
			g3.Release()
			select {
			case <-r.tickEnd: // hook tick:done: the tick (position check included) is over
			case <-time.After(gateTimeout):
				drift("presence tick did not finish")
			}
			select {
			case <-r.tickDone:
			case <-time.After(gateTimeout):
			}
			if !vh.Bool(step["valid"]) && diverged == "" {
				// the insufficient-state end comes from a goroutine the tick spawned: wait for what the model expects
				want := 0
				mo := modelOut(st)
				for _, f := range mo {
					if f.T == "unsub" {
						want++
					}
				}
				wantDisc := len(mo) > 0 && mo[len(mo)-1].T == "disc"
				conn.T.WaitFor(2*time.Second, func(rs []*protocol.Reply, closed bool) bool {
					if wantDisc {
						return closed
					}
					n := 0
					for _, rep := range rs {
						if rep.Push != nil && rep.Push.Channel == r.ch && rep.Push.Unsubscribe != nil {
							n++
						}
					}
					return n >= want || closed
				})
				nontrivial = true
			}
		case "AsyncEnd":
			if diverged != "" {
				r.releaseAsync(false)
				time.Sleep(20 * time.Millisecond)
				break
			}
			// the goroutine the model runs now is parked at the entry of handleInsufficientState (if the code spawned it)
			r.waitAsync(1, 2*time.Second)
			if r.releaseAsync(false) {
				if mo := modelOut(st); r.server && len(mo) > 0 && mo[len(mo)-1].T == "disc" {
					conn.T.WaitFor(2*time.Second, func(_ []*protocol.Reply, closed bool) bool { return closed })
				}
				res.Count("async_released_from_gate", 1)
				if vh.Int(beh[si-1]["pend"]) > 0 && vh.Str(vh.Map(beh[si-1]["step"])["act"]) != "Deliver" {
					res.Count("async_delayed_past_other_steps", 1)
				}
			}
			want := 0
			for _, f := range modelOut(st) {
				if f.T == "unsub" {
					want++
				}
			}
			ok := conn.T.WaitFor(2*time.Second, func(rs []*protocol.Reply, closed bool) bool {
				n := 0
				for _, rep := range rs {
					if rep.Push != nil && rep.Push.Channel == r.ch && rep.Push.Unsubscribe != nil {
						n++
					}
				}
				return n >= want || closed
			})
			if !ok {
				// the model expects an insufficient-state end that the real code did not produce
				out := r.project()
				vs := r.monitors(out)
				if len(vs) == 0 {
					res.Violate("C01", "no-insufficient-state-end:"+r.kind, fmt.Sprintf("the reference ends the subscription with insufficient state here, the connection got %s (behaviour %d cfg %s)", vh.J(out), bi, vh.J(cfg)), map[string]any{"cfg": cfg, "steps": steps, "frames": out})
				}
				for _, v := range vs {
					res.Violate(v.prop, v.sig, v.what+fmt.Sprintf(" (behaviour %d cfg %s)", bi, vh.J(cfg)), map[string]any{"cfg": cfg, "steps": steps, "frames": out})
				}
				completed = 0
			}
		default:
			drift("unknown action " + act)
		}
		if completed == 0 {
			break
		}
		pc := vh.Str(st["pc"])
		parked := pc == "g1" || pc == "g2" || pc == "g3" || pc == "gp" || pc == "g4"
		if parked {
			continue
		}
		r.settle(false)
		real := r.project()
		mo := modelOut(st)
		vs := r.monitors(real)
		if len(vs) > 0 {
			for _, v := range vs {
				res.Violate(v.prop, v.sig, v.what+fmt.Sprintf(" (behaviour %d cfg %s)", bi, vh.J(cfg)), map[string]any{"cfg": cfg, "steps": steps, "frames": real, "model_out": mo})
			}
			completed = 0
			break
		}
		if diverged != "" {
			continue
		}
		if !sameFrames(real, mo) {
			// pending async ends may already have run on the real side: let them finish and compare again later
			if vh.Int(st["pend"]) > 0 && len(real) > len(mo) {
				continue
			}
			// the real code delivered/ended differently than the reference although every monitor holds on what was seen:
			// decide whether the reference ended the subscription where the code kept delivering
			endedInModel := false
			for _, f := range mo {
				if f.T == "unsub" || f.T == "disc" {
					endedInModel = true
				}
			}
			endedInReal := false
			for _, f := range real {
				if f.T == "unsub" || f.T == "disc" {
					endedInReal = true
				}
			}
			if endedInModel && !endedInReal && (r.kind == "pos" || r.kind == "rec") {
				res.Violate("C01", "no-insufficient-state-end:"+r.kind, fmt.Sprintf("the reference ends the subscription (insufficient state), the real connection was not told: got %s, reference %s (behaviour %d cfg %s)", vh.J(real), vh.J(mo), bi, vh.J(cfg)), map[string]any{"cfg": cfg, "steps": steps, "frames": real, "model_out": mo})
				completed = 0
			} else {
				diverged = fmt.Sprintf("frames differ after %s: real %s, model %s", act, vh.J(real), vh.J(mo))
			}
		}
	}
	if diverged != "" && completed == 1 {
		time.Sleep(20 * time.Millisecond)
		if vs := r.monitors(r.project()); len(vs) > 0 {
			for _, v := range vs {
				res.Violate(v.prop, v.sig, v.what+fmt.Sprintf(" (behaviour %d cfg %s; first divergence: %s)", bi, vh.J(cfg), diverged), map[string]any{"cfg": cfg, "steps": steps, "frames": r.project()})
			}
		} else {
			drift(diverged)
		}
		completed = 0
	}
	// make sure a parked subscriber / position check is released before leaving
	r.mu.Lock()
	c2, c3 := r.cg2, r.cg3
	r.cg2, r.cg3 = nil, nil
	r.mu.Unlock()
	if c2 != nil {
		c2.Release()
	}
	if c3 != nil {
		c3.Release()
	}
	if r.tickDone != nil {
		select {
		case <-r.tickDone:
		case <-time.After(gateTimeout):
		}
	}
	r.g1.Release()
	if r.g2 != nil {
		r.g2.Release()
		r.g3.Release()
	}
	if r.gp != nil {
		r.gp.Release()
		r.g4.Release()
	}
	if r.subDone != nil {
		select {
		case <-r.subDone:
		case <-time.After(gateTimeout):
		}
	}
	if completed == 1 && nontrivial {
		res.Distinct(vh.J(cfg) + vh.J(steps))
	}
	if bi < 2 {
		res.Sample(map[string]any{"cfg": cfg, "steps": steps, "frames": r.project()})
	}
	res.Done(1, completed)
}

type replayIn struct {
	HistSize   int                `json:"hist_size"`
	RecLimit   int                `json:"rec_limit"`
	Behaviours [][]map[string]any `json:"behaviours"`
}

func replay(in json.RawMessage, res *vh.Result) error {
	var ri replayIn
	if err := json.Unmarshal(in, &ri); err != nil {
		return err
	}
	const nw = 8
	centrifuge.VerifSetGate(asyncGate)
	defer centrifuge.VerifSetGate(nil)
	var wg sync.WaitGroup
	jobs := make(chan int)
	for i := 0; i < nw; i++ {
		w, err := newWorker(ri.HistSize, ri.RecLimit)
		if err != nil {
			return err
		}
		wg.Add(1)
		go func() {
			defer wg.Done()
			defer w.env.Close()
			for bi := range jobs {
				w.run(bi, ri.Behaviours[bi], res)
			}
		}()
	}
	for bi := range ri.Behaviours {
		jobs <- bi
	}
	close(jobs)
	wg.Wait()
	return nil
}

// ---------------------------------------------------------------- probes of the spec's blocking assumptions
//
// SubStream.tla (and SubLifecycle.tla) take some code sections as atomic because a lock makes a concurrent
// delivery or unsubscribe WAIT there. A probe parks the real goroutine inside such a section, starts the
// operation that must wait, and judges the frames the connection received with the C10 monitor:
//   ssub-positioned : server-side positioned Client.Subscribe parked between commit and subscribe push (hook
//                     ssub:committed); a publication delivered now must not be pushed before the subscribe push
//                     (the recovery buffer stays locked until the deferred StopBuffering)
//   ssub-plain      : the same for a non-positioned server-side subscription (nothing holds publications back)
//   unsub-broadcast : a broadcast parked inside the hub (Transport.Unidirectional is called while the shard lock is
//                     held); the client unsubscribes; the publication must not follow the unsubscribe reply
type probeGate struct {
	mu    sync.Mutex
	gates map[string]*cl.Gate // client id + ":" + point
}

func (p *probeGate) arm(key string) *cl.Gate {
	p.mu.Lock()
	defer p.mu.Unlock()
	g := cl.NewGate()
	p.gates[key] = g
	return g
}

func (p *probeGate) hook(point, clientID, _ string) {
	p.mu.Lock()
	g := p.gates[clientID+":"+point]
	delete(p.gates, clientID+":"+point)
	p.mu.Unlock()
	if g != nil {
		g.Arrive(5 * time.Second)
	}
}

func kinds(rs []*protocol.Reply, ch string) []string {
	var out []string
	for _, r := range rs {
		switch {
		case r.Push != nil && r.Push.Channel == ch && r.Push.Pub != nil:
			out = append(out, "pub")
		case r.Push != nil && r.Push.Channel == ch && r.Push.Subscribe != nil:
			out = append(out, "subpush")
		case r.Push != nil && r.Push.Channel == ch && r.Push.Unsubscribe != nil:
			out = append(out, "unsubpush")
		case r.Subscribe != nil:
			out = append(out, "subreply")
		case r.Unsubscribe != nil:
			out = append(out, "unsubreply")
		}
	}
	return out
}

func probes(in json.RawMessage, res *vh.Result) error {
	var cfg struct {
		N int `json:"n"`
	}
	_ = json.Unmarshal(in, &cfg)
	if cfg.N == 0 {
		cfg.N = 3
	}
	pg := &probeGate{gates: map[string]*cl.Gate{}}
	centrifuge.VerifSetGate(pg.hook)
	defer centrifuge.VerifSetGate(nil)
	env, err := cl.NewEnv(centrifuge.Config{LogLevel: centrifuge.LogLevelNone})
	if err != nil {
		return err
	}
	if err := env.Run(); err != nil {
		return err
	}
	defer env.Close()
	for i := 0; i < cfg.N; i++ {
		for _, positioned := range []bool{true, false} {
			name := "ssub-plain"
			if positioned {
				name = "ssub-positioned"
			}
			ch := fmt.Sprintf("pr%d_%d_%v", vh.Seed(), i, positioned)
			conn, _ := env.NewConn("u", centrifuge.ProtocolTypeJSON)
			conn.Connect()
			g := pg.arm(conn.Client.ID() + ":ssub:committed")
			done := make(chan error, 1)
			go func() {
				if positioned {
					done <- conn.Client.Subscribe(ch, centrifuge.WithPositioning(true))
				} else {
					done <- conn.Client.Subscribe(ch)
				}
			}()
			if !g.WaitArrived(3 * time.Second) {
				res.Drift("C10", name+": subscribe did not reach the commit", nil)
				res.Done(1, 0)
				continue
			}
			pubDone := make(chan struct{})
			go func() {
				_, _ = env.Node.Publish(ch, []byte(`{"p":1}`), centrifuge.WithHistory(10, time.Minute))
				close(pubDone)
			}()
			blocked := true
			select {
			case <-pubDone:
				blocked = false
			case <-time.After(120 * time.Millisecond):
			}
			g.Release()
			<-done
			<-pubDone
			conn.Barrier(2 * time.Second)
			ks := kinds(conn.Frames(), ch)
			replay := map[string]any{"probe": name, "frames": ks, "delivery_blocked_until_push": blocked}
			bad := false
			seenPush := false
			for _, k := range ks {
				if k == "subpush" {
					seenPush = true
				}
				if k == "pub" && !seenPush {
					bad = true
				}
			}
			if bad {
				res.Violate("C10", "pub-before-subscribe-push:"+name, fmt.Sprintf("a publication was pushed before the subscribe push of a server-side subscription (%s): frames %v", name, ks), replay)
			}
			res.Distinct(name)
			res.Sample(replay)
			res.Done(1, 1)
			conn.Client.Disconnect()
		}
		// unsubscribe racing an in-flight broadcast
		{
			name := "unsub-broadcast"
			ch := fmt.Sprintf("pu%d_%d", vh.Seed(), i)
			t := cl.NewTransport(centrifuge.ProtocolTypeJSON)
			var armed atomic.Bool
			g := cl.NewGate()
			t.OnUnidirectional = func() {
				if armed.CompareAndSwap(true, false) {
					g.Arrive(5 * time.Second)
				}
			}
			conn, _ := env.NewConnT("u", t)
			conn.Connect()
			sid := conn.NextID()
			conn.Do(&protocol.Command{Id: sid, Subscribe: &protocol.SubscribeRequest{Channel: ch}})
			conn.WaitReply(sid, 2*time.Second)
			armed.Store(true)
			pubDone := make(chan struct{})
			go func() {
				_, _ = env.Node.Publish(ch, []byte(`{"p":1}`))
				close(pubDone)
			}()
			if !g.WaitArrived(2 * time.Second) {
				// the hub does not call Unidirectional() inside this broadcast: the probe does not apply to this tree
				armed.Store(false)
				<-pubDone
				res.Count("unsub-broadcast-not-applicable", 1)
				conn.Client.Disconnect()
				continue
			}
			uid := conn.NextID()
			unsubDone := make(chan struct{})
			go func() {
				conn.Do(&protocol.Command{Id: uid, Unsubscribe: &protocol.UnsubscribeRequest{Channel: ch}})
				close(unsubDone)
			}()
			blocked := true
			select {
			case <-unsubDone:
				blocked = false
			case <-time.After(120 * time.Millisecond):
			}
			g.Release()
			<-pubDone
			<-unsubDone
			conn.Barrier(2 * time.Second)
			ks := kinds(conn.Frames(), ch)
			replay := map[string]any{"probe": name, "frames": ks, "unsubscribe_waited_for_broadcast": blocked}
			ended := false
			bad := false
			for _, k := range ks {
				if k == "unsubreply" {
					ended = true
				}
				if k == "pub" && ended {
					bad = true
				}
			}
			if bad {
				res.Violate("C10", "pub-after-unsubscribe-reply:"+name, fmt.Sprintf("a publication was pushed after the unsubscribe reply: frames %v", ks), replay)
			}
			res.Distinct(name)
			res.Sample(replay)
			res.Done(1, 1)
			conn.Client.Disconnect()
		}
	}
	return nil
}

// sfprobes: history reads of different requests must not share results (Config.UseSingleFlight): a read parked
// inside the broker must not be joined by a recovery with another epoch (C02) or by a read of the other direction (C03).
func sfprobes(in json.RawMessage, res *vh.Result) error {
	var cfg struct {
		N int `json:"n"`
	}
	_ = json.Unmarshal(in, &cfg)
	if cfg.N == 0 {
		cfg.N = 2
	}
	for i := 0; i < cfg.N; i++ {
		for _, probe := range []string{"sf-epoch", "sf-reverse"} {
			env, err := cl.NewEnv(centrifuge.Config{LogLevel: centrifuge.LogLevelNone, UseSingleFlight: true})
			if err != nil {
				return err
			}
			gb, err := cl.NewGateBroker(env.Node)
			if err != nil {
				return err
			}
			env.Node.SetBroker(gb)
			ch := fmt.Sprintf("%s%d_%d", probe, vh.Seed(), i)
			var armed atomic.Bool
			gate := cl.NewGate()
			gb.BeforeHistory = func(c string, _ centrifuge.HistoryOptions) {
				if c == ch && armed.CompareAndSwap(true, false) {
					gate.Arrive(5 * time.Second)
				}
			}
			mode := centrifuge.RecoveryModeStream
			if probe == "sf-reverse" {
				mode = centrifuge.RecoveryModeCache
			}
			env.OnSubscribe = func(_ *centrifuge.Client, _ centrifuge.SubscribeEvent, cb centrifuge.SubscribeCallback) {
				cb(centrifuge.SubscribeReply{Options: centrifuge.SubscribeOptions{EnableRecovery: true, RecoveryMode: mode}}, nil)
			}
			if err := env.Run(); err != nil {
				return err
			}
			var epoch string
			for k := 1; k <= 2; k++ {
				pr, _ := env.Node.Publish(ch, []byte(strconv.Itoa(k)), centrifuge.WithHistory(10, time.Minute))
				epoch = pr.Epoch
			}
			b, _ := env.NewConn("b", centrifuge.ProtocolTypeJSON)
			b.Connect()
			armed.Store(true)
			leaderDone := make(chan struct{})
			if probe == "sf-epoch" {
				a, _ := env.NewConn("a", centrifuge.ProtocolTypeJSON)
				a.Connect()
				go func() {
					a.Do(&protocol.Command{Id: a.NextID(), Subscribe: &protocol.SubscribeRequest{Channel: ch, Recover: true, Offset: 0, Epoch: epoch}})
					close(leaderDone)
				}()
			} else {
				go func() {
					_, _ = env.Node.History(ch, centrifuge.WithHistoryFilter(centrifuge.HistoryFilter{Limit: 1}))
					close(leaderDone)
				}()
			}
			if !gate.WaitArrived(2 * time.Second) {
				res.Drift("", probe+": leader read did not reach the broker", nil)
				env.Close()
				continue
			}
			id := b.NextID()
			req := &protocol.SubscribeRequest{Channel: ch, Recover: true, Offset: 0, Epoch: epoch}
			if probe == "sf-epoch" {
				req.Epoch = "foreign-epoch"
			}
			bDone := make(chan struct{})
			go func() {
				b.Do(&protocol.Command{Id: id, Subscribe: req})
				close(bDone)
			}()
			select {
			case <-bDone:
			case <-time.After(400 * time.Millisecond):
			}
			gate.Release()
			<-leaderDone
			<-bDone
			rep := b.WaitReply(id, 2*time.Second)
			replay := map[string]any{"probe": probe}
			if rep == nil || rep.Subscribe == nil {
				code := uint32(0)
				if rep != nil && rep.Error != nil {
					code = rep.Error.Code
				}
				if probe == "sf-epoch" && code == centrifuge.ErrorUnrecoverablePosition.Code {
					// refused explicitly: fine
				} else {
					res.Drift("", fmt.Sprintf("%s: no subscribe reply (error code %d)", probe, code), replay)
				}
			} else {
				var offs []uint64
				for _, p := range rep.Subscribe.Publications {
					offs = append(offs, p.Offset)
				}
				replay["recovered"] = rep.Subscribe.Recovered
				replay["pubs"] = offs
				if probe == "sf-epoch" && (rep.Subscribe.Recovered || len(offs) > 0) {
					res.Violate("C02", "recovered-wrong-epoch:concurrent-read", fmt.Sprintf("recovery with a foreign epoch reported recovered=%v with publications %v while another recovery of the same position was in flight", rep.Subscribe.Recovered, offs), replay)
				}
				if probe == "sf-reverse" {
					if !rep.Subscribe.Recovered {
						res.Violate("C03", "recovered-flag:false:concurrent-read", fmt.Sprintf("cache recovery reported recovered=false although the newest publication (offset 2) is in history, while a forward history read was in flight (publications %v)", offs), replay)
					} else if len(offs) != 1 || offs[0] != 2 {
						res.Violate("C03", "not-newest-visible:concurrent-read", fmt.Sprintf("cache recovery delivered %v, the newest publication is offset 2", offs), replay)
					}
				}
			}
			res.Distinct(probe)
			res.Sample(replay)
			res.Done(1, 1)
			env.Close()
		}
	}
	return nil
}

// ssrecover: a server-side subscription asked to recover from a position (WithRecoverSince). The subscribe push has no
// publications field, so whatever offset it announces is the subscribe position: every offset after it up to the
// last delivered one must be delivered (C01).
func ssrecover(in json.RawMessage, res *vh.Result) error {
	env, err := cl.NewEnv(centrifuge.Config{LogLevel: centrifuge.LogLevelNone})
	if err != nil {
		return err
	}
	if err := env.Run(); err != nil {
		return err
	}
	defer env.Close()
	for since := 0; since <= 3; since++ {
		ch := fmt.Sprintf("sr%d_%d", vh.Seed(), since)
		var epoch string
		for k := 1; k <= 3; k++ {
			pr, _ := env.Node.Publish(ch, []byte(strconv.Itoa(k)), centrifuge.WithHistory(10, time.Minute))
			epoch = pr.Epoch
		}
		conn, _ := env.NewConn("u", centrifuge.ProtocolTypeJSON)
		conn.Connect()
		if err := conn.Client.Subscribe(ch, centrifuge.WithRecovery(true), centrifuge.WithRecoverSince(&centrifuge.StreamPosition{Offset: uint64(since), Epoch: epoch})); err != nil {
			res.Drift("C01", "server-side recover subscribe: "+err.Error(), nil)
			continue
		}
		_, _ = env.Node.Publish(ch, []byte("4"), centrifuge.WithHistory(10, time.Minute))
		conn.Barrier(2 * time.Second)
		pos := -1
		var offs []int
		for _, r := range conn.Frames() {
			if r.Push != nil && r.Push.Channel == ch {
				if r.Push.Subscribe != nil {
					pos = int(r.Push.Subscribe.Offset)
				}
				if r.Push.Pub != nil {
					offs = append(offs, int(r.Push.Pub.Offset))
				}
			}
		}
		replay := map[string]any{"probe": "server-side subscribe with RecoverSince", "since": since, "push_offset": pos, "delivered": offs}
		if pos >= 0 && len(offs) > 0 {
			have := map[int]bool{}
			for _, o := range offs {
				have[o] = true
			}
			for o := pos + 1; o <= offs[len(offs)-1]; o++ {
				if !have[o] {
					res.Violate("C01", "gap:server-side-recover-since", fmt.Sprintf("server-side subscribe recovering since offset %d: the subscribe push announces offset %d, then offset(s) %v are pushed; offset %d was never delivered", since, pos, offs, o), replay)
					break
				}
			}
		}
		res.Distinct(fmt.Sprintf("ssrecover-%d", since))
		res.Sample(replay)
		res.Done(1, 1)
		conn.Client.Disconnect()
	}
	return nil
}

func main() {
	vh.Main(map[string]vh.Mode{"replay": replay, "probes": probes, "sfprobes": sfprobes, "ssrecover": ssrecover, "refresh": refresh, "peersprobe": peersprobe})
}
