SPECIFICATION Spec
CONSTANTS
  MaxNow = 4
  MaxActs = 5
  CfgSet <- CfgExp
  ServerZeroRearms = FALSE
INVARIANTS WitHandlerZero
CHECK_DEADLOCK FALSE
