---------------------------- MODULE WsWriterSim ----------------------------
(* Script generator for the replay (TLC -simulate): the actions of WsWriter,
   every operation class contributing a fixed number of successor states (slot
   variable `w`), arguments derived from a hash of the slot and the state
   (see spec/MemBroker/MemBrokerSim.tla for why).  Every state of every
   generated behaviour is checked against the history invariant Roundtrip.   *)
EXTENDS WsWriter, SequencesExt

VARIABLE w
simvars == <<vars, w>>

H(s) == s * 7919 + nops * 104729 + (pos % 1009) * 12979 + (acc % 1013) * 154853 + (Len(wire) % 211) * 324523
        + Len(sent) * 499787 + nwr * 678679 + (B % 97) * 860281
Sel(q, hh, d) == q[((hh \div d) % Len(q)) + 1]

WSz == SetToSeq(Sizes(B))
OSz == SetToSeq(OneCallSizes(B))
PSz == SetToSeq(PreparedSizes(B))
CSz == <<0, 1, 125, 126, 2, 124>>
BoolQ == <<FALSE, TRUE>>
StreamTypes == <<Text, Binary, Text, Binary, Text, Binary, Ping, Pong, Close, BadType>>
MsgTypes    == <<Text, Binary, Text, Binary, Text, Binary, Text, Binary, Ping, Pong, BadType, Close>>
CtlKinds    == <<Ping, Pong, Ping, Pong, Ping, Close>>
Z(hh, d) == neg /\ Sel(BoolQ, hh, d)
Jh(hh, d) == (hh \div d) % 2
\* a Close frame ends a script (everything after it fails): keep most of them for the second half
Late(t, hh) == IF t = Close /\ nops < 9 /\ (hh \div 37) % 4 # 0 THEN Pong ELSE t

SimNextWriter(s) == LET hh == H(s) IN ANextWriter(Late(Sel(StreamTypes, hh, 3), hh), Z(hh, 11), IF h = "open" /\ cmp THEN Jh(hh, 13) ELSE 0)
SimWrite(s) ==
  LET hh == H(s + 20)  n == Sel(WSz, hh, 1)
  IN AWrite(n, IF h = "open" /\ cmp /\ n > 0 THEN Jh(hh, 17) ELSE 0,
            IF h = "open" THEN Sel(<<"w", "re", "s", "r", "w", "rce", "rc", "re", "w", "r", "rce">>, hh, 41) ELSE "w")
SimClose(s) == AClose(IF h = "open" /\ cmp THEN Jh(H(s + 40), 5) ELSE 0)
SimWriteMessage(s) ==
  LET hh == H(s + 60)  t == Late(Sel(MsgTypes, hh, 7), hh)  z == Z(hh, 19)
      n == IF IsControl(t) THEN Sel(CSz, hh, 1) ELSE Sel(OSz, hh, 1)
  IN AWriteMessage(t, n, z, IF h = "open" /\ cmp THEN Jh(hh, 23) ELSE 0,
                   IF neg /\ z /\ IsData(t) /\ n > 0 THEN Jh(hh, 29) ELSE 0)
SimPrepared(s) ==
  LET hh == H(s + 80)  t == Late(Sel(<<Text, Binary, Text, Binary, Ping, Pong, Text, Binary, Close>>, hh, 7), hh)  z == Z(hh, 19)
      n == IF IsControl(t) THEN Sel(CSz, hh, 1) ELSE Sel(PSz, hh, 1)
  IN APrepared(t, n, z, IF neg /\ z /\ IsData(t) /\ n > 0 THEN Jh(hh, 29) ELSE 0)
SimControl(s) == LET hh == H(s + 100) IN AControl(Late(Sel(CtlKinds, hh, 7), hh), Sel(CSz, hh, 1))

SimNext ==
  \/ \E s \in 1..2 : SimNextWriter(s) /\ w' = s
  \/ \E s \in 1..8 : SimWrite(s) /\ w' = s
  \/ \E s \in 1..2 : SimClose(s) /\ w' = s
  \/ \E s \in 1..3 : SimWriteMessage(s) /\ w' = s
  \/ \E s \in 1..2 : SimPrepared(s) /\ w' = s
  \/ \E s \in 1..2 : SimControl(s) /\ w' = s
  \/ \E s \in 3..5 : h = "open" /\ nfl > 0 /\ SimControl(s) /\ w' = s     \* control frames between fragments

SimSpec == Init /\ w = 0 /\ [][SimNext]_simvars
=============================================================================
