SPECIFICATION Spec
CONSTANTS
  Conns = {"c1"}
  Keys = {"k1"}
  MaxChg = 1
  MaxFlips = 0
  MaxOps = 6
  Versioned = TRUE
  Timer = FALSE
  AllowRevoke = FALSE
  AllowPublish = TRUE
  SplitTrack = TRUE
  AsCoded = {"warm-class-only"}
  Replay = TRUE
VIEW View
INVARIANTS TypeOK VersionConsistent C25_Epoch NotScnTrackWindowSame
PROPERTIES C25_Frames 
CHECK_DEADLOCK FALSE
