---------------------------- MODULE SubRefresh ----------------------------
(* Client-side subscription refresh (client.go handleSubRefresh) racing with
   unsubscribe / resubscribe of the same channel.  The SubRefreshHandler is an
   application callback answered asynchronously: the command validates the
   subscription (generation) when it arrives, the write-back of expiration,
   info and the SERVER TAGS FILTER happens when the application answers.  In
   between the client may unsubscribe and subscribe again; the hub keeps one
   entry per (channel, client), so a write-back that is not generation-matched
   lands on whatever subscription exists then.

   C16 part decided here: a subscription never receives a publication excluded
   by ITS server tags filter - the filter the application gave when that
   subscription was made, or by a refresh that was issued for that very
   subscription.

   Filters are abstracted to "admits exactly the publications tagged f".    *)
EXTENDS Naturals, Sequences, FiniteSets

CONSTANTS
  Filters,     \* tag values; filter f admits the publications tagged f
  MaxGen,      \* subscriptions per behaviour
  MaxRefresh,  \* refresh commands per behaviour
  MaxPub,      \* publications per behaviour
  GenMatch     \* TRUE: the write-back is applied only to the generation the refresh was validated against (as coded)

VARIABLES
  gen,         \* generations used so far; the current subscription (if any) is generation `gen`
  sub,         \* a subscription exists
  hubf,        \* server tags filter of the hub entry
  want,        \* what the application configured for the current subscription
  pend,        \* refresh commands whose handler callback is not answered yet: [g, f]
  nref, npub,
  out,         \* deliveries: [tag, gen]
  step

vars == <<gen, sub, hubf, want, pend, nref, npub, out, step>>

Init ==
  /\ gen = 0 /\ sub = FALSE /\ hubf = "none" /\ want = "none" /\ pend = {} /\ nref = 0 /\ npub = 0 /\ out = <<>>
  /\ step = [act |-> "Init"]

Subscribe(f) ==
  /\ ~sub /\ gen < MaxGen
  /\ gen' = gen + 1 /\ sub' = TRUE /\ hubf' = f /\ want' = f
  /\ UNCHANGED <<pend, nref, npub, out>>
  /\ step' = [act |-> "Subscribe", f |-> f]

Unsubscribe ==
  /\ sub
  /\ sub' = FALSE /\ hubf' = "none" /\ want' = "none"
  /\ UNCHANGED <<gen, pend, nref, npub, out>>
  /\ step' = [act |-> "Unsubscribe"]

\* the command arrives: validated against the current generation, the handler is called (and does not answer yet)
RefreshStart(f) ==
  /\ sub /\ nref < MaxRefresh
  /\ [g |-> gen, f |-> f] \notin pend
  /\ pend' = pend \cup {[g |-> gen, f |-> f]}
  /\ nref' = nref + 1
  /\ UNCHANGED <<gen, sub, hubf, want, npub, out>>
  /\ step' = [act |-> "RefreshStart", f |-> f]

\* the application answers with filter r.f
RefreshDone(r) ==
  /\ r \in pend
  /\ pend' = pend \ {r}
  /\ LET same == sub /\ r.g = gen
     IN /\ hubf' = IF sub /\ (same \/ ~GenMatch) THEN r.f ELSE hubf
        /\ want' = IF same THEN r.f ELSE want
  /\ UNCHANGED <<gen, sub, nref, npub, out>>
  /\ step' = [act |-> "RefreshDone", g |-> r.g, f |-> r.f]

Publish(t) ==
  /\ npub < MaxPub
  /\ npub' = npub + 1
  /\ out' = IF sub /\ hubf = t THEN Append(out, [tag |-> t, gen |-> gen, id |-> npub + 1]) ELSE out
  /\ UNCHANGED <<gen, sub, hubf, want, pend, nref>>
  /\ step' = [act |-> "Publish", tag |-> t, id |-> npub + 1]

Next ==
  \/ \E f \in Filters : Subscribe(f) \/ RefreshStart(f) \/ Publish(f)
  \/ Unsubscribe
  \/ \E r \in pend : RefreshDone(r)

Spec == Init /\ [][Next]_vars

---------------------------------------------------------------------------
\* the hub entry carries the filter the application configured for the current subscription
FilterIsConfigured == sub => hubf = want

\* C16 (observable form): whatever is delivered was admitted by the configured filter at that moment
C16_Refresh == [][\A i \in (Len(out) + 1)..Len(out') : out'[i].tag = want]_vars

TypeOK == gen \in 0..MaxGen /\ nref \in 0..MaxRefresh /\ npub \in 0..MaxPub

\* witness search: "a stale refresh never changes the filter of a newer subscription"
W_StaleRefreshApplied == ~(sub /\ hubf # want)

View == <<gen, sub, hubf, want, pend, nref, npub, out>>
=============================================================================
