SPECIFICATION SimSpec
CONSTANTS
  WP = 8
  WD = 8
  WU = 3
  NK = 2
  MaxOps = 4
  MaxLag = 2
  MaxResub = 1
  LiveLimit = 3
  Modes = {"rec", "per"}
  Kinds = {"fresh", "rlive", "rstream"}
  Pages = {1, 2}
  SSizes = {1, 2}
  Filts = {"none", "client"}
  Ops = {"pub", "rem", "exp", "sexp"}
  MaxJumps = 0
  EpochCheck = TRUE
  Pres = {0, 1}
  N0s = {0, 1, 2}
  Contig = TRUE
  DropStale = TRUE
INVARIANTS TypeOK C22
PROPERTIES C22R C16M
CHECK_DEADLOCK FALSE
