// Family `redisfuncs` (C33, C34, C35): replays TLC-generated function tables into the pure-function
// parts of the Redis integration. No Redis server, no Lua: only Go code of /repo runs here.
//
//	pushframe  C33  rows (string -> Decode(string)) from spec/PushFrame into extractPushData
//	keys       C34  rows (mode, prefix, channel -> key shapes, per-operation tag equality) from
//	                spec/RedisKeys into the real key / channel builders; slots by an independent CRC16
//	dumptags   C35  dumps FindTags/PrecomputedSizes (the code's data) for the generated TLA+ data module
//	partition  C35  compares TLC's slot / node / balance tables with the code's TagSlot / SlotToNode
package main

import (
	"encoding/json"
	"fmt"
	"regexp"
	"strings"

	"github.com/centrifugal/centrifuge"

	"verifharness/vh"
)

// ------------------------------------------------------------------------------------------------ C33

type pushIn struct {
	// each row: [family, class, s, ok, kind, off, epoch, delta, payload, prev]
	Rows [][]any `json:"rows"`
}

var digits = regexp.MustCompile(`-?\d+`)

func kindName(k int) string {
	switch k {
	case 0:
		return "pub"
	case 1:
		return "join"
	case 2:
		return "leave"
	}
	return fmt.Sprintf("kind%d", k)
}

// frameType names the frame family of an input by its header ("p", "d", "j", "l", "?" ...).
func frameType(s string) string {
	if len(s) < 3 {
		return "short"
	}
	switch s[2] {
	case 'p', 'd', 'j', 'l':
		return string(s[2])
	}
	return "other"
}

func pushframe(in json.RawMessage, res *vh.Result) error {
	var inp pushIn
	if err := json.Unmarshal(in, &inp); err != nil {
		return err
	}
	caps := centrifuge.VerifPrefixCaps()
	if caps[0] != caps[1] || caps[2] != caps[3] {
		res.Violate("C33", "prefix-cap", fmt.Sprintf("joinTypePrefix/leaveTypePrefix have spare capacity (len,cap = %v): append() in publishJoin/publishLeave would write into the shared array", caps), nil)
	}
	lenient := map[string]int{}
	var keys *centrifuge.VerifKeys
	for _, r := range inp.Rows {
		fam, cls, s := vh.Str(r[0]), vh.Str(r[1]), vh.Str(r[2])
		var got centrifuge.VerifPush
		var pan any
		func() {
			defer func() { pan = recover() }()
			got = centrifuge.VerifExtractPushData([]byte(s))
		}()
		res.Done(1, 1)
		if pan != nil {
			msg := digits.ReplaceAllString(fmt.Sprint(pan), "N")
			// does the caller contain it? (it does not: handleRedisClientMessage has no recover and runs on
			// a bare PUB/SUB processor goroutine, so the process dies)
			through := "not checked"
			if keys == nil {
				keys, _ = centrifuge.VerifNewKeys(centrifuge.VerifKeyConfig{})
			}
			if keys != nil {
				func() {
					defer func() {
						if p := recover(); p != nil {
							through = "panic escapes handleRedisClientMessage too"
						}
					}()
					err := keys.VerifHandleClientMessage("ch", []byte(s))
					through = fmt.Sprintf("handleRedisClientMessage returned %v", err)
				}()
			}
			res.Violate("C33", "panic:"+frameType(s)+":"+msg,
				fmt.Sprintf("extractPushData(%q) panicked: %v (%s); spec class %q: decoding an arbitrary PUB/SUB payload must never crash the node", s, pan, through, cls),
				map[string]any{"input": s, "class": cls, "family": fam})
			res.Count("panics", 1)
			res.Distinct("panic|" + s)
			continue
		}
		gotDesc := fmt.Sprintf("ok=%v kind=%s off=%d epoch=%q delta=%v payload=%q prev=%q", got.OK, kindName(got.Kind), got.Offset, got.Epoch, got.Delta, got.Payload, got.Prev)
		switch cls {
		case "plain", "frame":
			wKind, wOff, wEpoch, wDelta, wPay, wPrev := vh.Str(r[4]), vh.Int(r[5]), vh.Str(r[6]), vh.Bool(r[7]), vh.Str(r[8]), vh.Str(r[9])
			field := ""
			switch {
			case !got.OK:
				field = "ok"
			case kindName(got.Kind) != wKind:
				field = "kind"
			case int(got.Offset) != wOff:
				field = "offset"
			case got.Epoch != wEpoch:
				field = "epoch"
			case got.Delta != wDelta:
				field = "delta"
			case string(got.Payload) != wPay:
				field = "payload"
			case string(got.Prev) != wPrev:
				field = "prev"
			}
			if field != "" {
				ft := frameType(s)
				if cls == "plain" {
					ft = "plain"
				}
				res.Violate("C33", "decode:"+ft+":"+field,
					fmt.Sprintf("extractPushData(%q): %s; the grammar (Lua/Go encoders) says kind=%s off=%d epoch=%q delta=%v payload=%q prev=%q",
						s, gotDesc, wKind, wOff, wEpoch, wDelta, wPay, wPrev),
					map[string]any{"input": s, "row": r})
			}
			// the Go-side encoders of join / leave frames, executed
			if cls == "frame" && (wKind == "join" || wKind == "leave") {
				var enc []byte
				if wKind == "join" {
					enc = centrifuge.VerifJoinFrame([]byte(wPay))
				} else {
					enc = centrifuge.VerifLeaveFrame([]byte(wPay))
				}
				if string(enc) != s {
					res.Violate("C33", "encode:"+wKind, fmt.Sprintf("publish%s framing of %q is %q, grammar says %q", wKind, wPay, enc, s), map[string]any{"row": r})
				}
			}
			if cls == "frame" {
				res.Distinct("frame|" + s)
				res.Count("frames", 1)
				if wDelta {
					res.Count("frames_delta", 1)
				}
			} else {
				res.Count("plain", 1)
			}
		case "reject":
			// not produced by any encoder: the property only demands that it does not crash the node
			if got.OK {
				lenient[frameType(s)]++
				res.Count("reject_accepted_leniently", 1)
				if len(res.Samples) < 3 && strings.HasPrefix(s, "__") {
					res.Sample(map[string]any{"input": s, "class": "not a frame of the grammar, accepted leniently by the code", "got": gotDesc})
				}
			} else {
				res.Count("reject_refused", 1)
			}
			res.Distinct("reject|" + s)
		default:
			return fmt.Errorf("unknown class %q", cls)
		}
	}
	res.Extra["lenient_accepts_by_frame_type"] = lenient
	return nil
}

func main() {
	vh.Main(map[string]vh.Mode{"pushframe": pushframe, "keys": keysMode, "dumptags": dumptags, "partition": partition})
}
