SPECIFICATION Spec
CONSTANTS
  MaxTop = 5
  Limits <- SFLimits
  Maxes = {0, 2}
  MaxConns = 0
  SinceOffs = {0, 2}
  KeyMode = "full"
INVARIANTS FlightSequential FlightBound FlightMergedSame FlightMerges
CHECK_DEADLOCK FALSE
