"""C29 -- spec/WsReader: the RFC 6455 / RFC 7692 conforming frame decoder as a TLA+ state machine; TLC enumerates
every frame sequence of the bounded abstract alphabet with the decoder's outcome and checks the declarative
restatement of the property on it; the (input, expected) table is replayed into a real internal/websocket Conn
(server side and client side, ReadMessage and NextReader, whole stream and 1..3-byte chunks) by harness/wsreader,
which has its own frame writer, deflate writer and frame parser.

Genuine defects found on the unchanged tree (each reproduced standalone; fixes in the builder's report):
  proto[close-1byte]   Close frame with a 1-byte body answered with a normal Close and reported as 1005 (RFC 6455 5.5.1)
  proto[rsv1-cont]     with permessage-deflate negotiated a CONTINUATION frame carrying RSV1 is accepted (RFC 7692 6)
  proto[rsv1-ctl]      ... a PING/PONG/CLOSE carrying RSV1 is accepted (and the ping ponged) (RFC 7692 6)
  proto[len-nonmin]    a data frame whose length is not minimally encoded (5 bytes in the 16-/64-bit form) is accepted (RFC 6455 5.2)
  proto[len-msb]       a 64-bit length with the most significant bit set fails with ErrReadLimit but no Close frame is sent (RFC 6455 5.2)
  (the five above are repaired in /repo by e291a3d5)
  toobig[len-max63]:close-frame   read limit set, a fragment + a CONTINUATION announcing 2^63-1 bytes (msb clear): the per-message
                       counter overflows, the overflow guard returns ErrReadLimit WITHOUT the 1009 Close the limit path sends
                       (first position does send it); one-line repair in spec/WsReader/conn.go.fix.diff

Mutation testing (FRAMEWORK rule 3): scratch worktree /tmp/wsreader-wt = HEAD + the fixes of the defects above (baseline
green, exit 0), one hand mutation of internal/websocket/conn.go at a time, `VERIF_REPO=/tmp/wsreader-wt ./check C29`.
All 19 were caught (exit 1 + VIOLATION):
  M1  control frame length check 125 -> 126                     M10 RSV2 check dropped
  M2  "continuation after FIN" check dropped                    M11 "data before FIN" (new message inside a fragmented one) dropped
  M3  unmasked frames accepted by the server                    M12 close code 1005 accepted in a received Close
  M4  FIN check for control frames dropped                      M13 UTF-8 check of the close reason dropped
  M5  read limit off by one (> -> >=)                           M14 mask position not reset at a new frame
  M6  decompressed limit off by one (+1 -> +2)                  M15 read limit applied per frame instead of per message
  M7  reserved-opcode check dropped                             M16 decompressed limit not applied
  M8  protocol error answered with Close 1008 instead of 1002   M17 no Close 1009 when the read limit is exceeded
  M9  pong does not echo the ping payload                       M18 received Close not answered
  M19 overflow guard `if c.readLength < 0` removed (counter wraps, read limit bypassed by a 2^63-1 continuation frame):
      signature toobig[len-max63]:kind (needs the "max63" length class; was missed before it existed)
"""
import json
import os
import re

from lib import vf, tlaparse

_STATE = re.compile(r'^State \d+:.*$', re.M)
_VAR = re.compile(r'^/\\ (\w+) = ', re.M)


def _to_json(txt):
    """TLC value text -> JSON text for the value shapes of this spec (records, sequences, sets of
    atoms, strings without special characters, integers, booleans)."""
    t = txt.replace('{', '\x01').replace('}', '\x02')
    t = re.sub(r'(\w+) \|->', r'"\1":', t)
    t = t.replace('[', '{').replace(']', '}').replace('<<', '[').replace('>>', ']')
    t = t.replace('\x01', '[').replace('\x02', ']')
    t = t.replace('TRUE', 'true').replace('FALSE', 'false')
    return t


def _rows(dump_file):
    """Decoded states of the dump as [{'inp':..,'res':..}]; the fast converter is cross-checked against
    lib/tlaparse on a sample."""
    text = open(dump_file).read()
    parts = _STATE.split(text)[1:]
    rows = []
    for k, part in enumerate(parts):
        if '"pending"' in part:
            continue
        ms = list(_VAR.finditer(part))
        st = {}
        for i, m in enumerate(ms):
            end = ms[i + 1].start() if i + 1 < len(ms) else len(part)
            st[m.group(1)] = json.loads(_to_json(part[m.end():end]))
        for f in ('alt', 'codes', 'why'):
            st['res'][f] = sorted(st['res'][f])
        if len(rows) % 5000 == 0:
            ref = tlaparse.parse_state(part.strip())
            if ref != st:
                raise vf.Inconclusive('dump converter disagrees with lib/tlaparse on state %d' % k)
        rows.append(st)
    return rows


def c29(c):
    quick = c.tier == 'quick'
    cfg = 'quick.cfg' if quick else 'thorough.cfg'
    r = c.tlc_exhaustive('WsReader', 'WsReader', cfg, dump=True, timeout=2400,
                         workers=int(os.environ.get('VERIF_TLC_WORKERS') or 8))
    rows = _rows(r['dump_file'])
    if 2 * len(rows) != r['distinct']:
        raise vf.Inconclusive('dump has %d decoded rows, TLC reports %d distinct states' % (len(rows), r['distinct']))
    c.log('TLC: %d inputs enumerated and decoded; invariants (ViolationsFail, DeliveredAreReassemblies, PingsAnswered, '
          'LimitsEnforced, CloseHandshake) hold on every one' % len(rows))
    binp = c.go_build('wsreader')
    c.log('harness built')
    res = c.harness(binp, 'table', rows, timeout=2400)
    c.absorb(res)
    cnt = res['counters']
    c.log('replayed %d rows (%d runs of a real Conn): %s' % (res['executed'], cnt.get('runs', 0),
          ', '.join('%s=%d' % (k, v) for k, v in sorted(cnt.items()) if k.startswith('exp:'))))
    c.cov['traces_validated_against_impl'] = res['completed']
    c.cov['evaluations'] = cnt.get('runs', 0)
    c.cov['distinct_nontrivial'] = res['nontrivial']
    c.cov['exhaustive'] = True
    c.cov['expected_outcomes'] = {k[4:]: v for k, v in cnt.items() if k.startswith('exp:')}
    c.cov['rows_with_alternatives'] = cnt.get('rows_with_alternatives', 0)
    c.cov['bit_flipped_streams_no_panic'] = cnt.get('noise_runs', 0)
    c.cov['rule'] = ('every frame sequence of the blocks of spec/WsReader/WsReader.tla Init%s (%s) x connection parameters '
                     '(compression negotiated, read limit, decompressed limit) x truncation of the last frame, each run on a '
                     'server-side and a client-side Conn in two read modes; non-trivial = at least one frame'
                     % ('Quick' if quick else 'Thorough', cfg))
    c.cov['samples'] = res['samples']
    c.assumptions += [
        'abstract alphabet: one representative per class (lengths 0/5/125/126/65536 and 2^63-1 announced, RSV2/RSV3 rotated, reserved opcodes rotated, '
        'close codes of TestCodes); sequences of <= 3 (quick) / <= 4 (thorough) frames',
        'UTF-8 validity of text payloads is not part of the statement (payloads are ASCII)',
        'outcomes the RFCs leave open are compared as a set (res.alt) or by prefix only (kind "unspec"): truncated violating frame, '
        'violation + limit in one frame, zero-length compressed message, limit reached inside an unfinished compressed message',
        'close codes registered after RFC 6455 (1012-1014) and >= 5000 are not in the alphabet',
        'in-memory net.Conn (no deadlines, no concurrent writer)']


CHECKS = {'C29': c29}

META = {'C29': dict(
    level='model_checking',
    text='WsReader.tla is the conforming decoder written as a state machine whose failing branches are the clauses of RFC 6455 '
         '(5.1 masking, 5.2 RSV/opcode/length encoding, 5.4 fragmentation, 5.5 control frames, 5.5.1/7.4 close payload) and RFC 7692 '
         '(section 6 RSV1 placement) plus the two read limits; TLC enumerates every sequence of the bounded abstract alphabet, checks '
         'that the decoder satisfies the declarative property (rule table, FIN-delimited reassembly, pings answered, limits, close '
         'handshake), and every row (input, expected outcome) is serialised by an independent frame/deflate writer and replayed into '
         'a real server-side and client-side Conn, comparing delivered messages, bytes written back and the error class; panics are '
         'violations. Exhaustive within the alphabet and length bound.',
    note='Bounds: sequences of <=3 frames (quick) / <=4 (thorough) over alphabets of 23 / 78 / ~340 abstract frames, 5 parameter '
         'settings, truncation of the last frame. Trusted: TLC, the dump converter (cross-checked against lib/tlaparse), the '
         'harness frame writer/parser and deflate writer (self-tested against compress/flate).',
    technique='TLA+ reference decoder + TLC exhaustive enumeration; function-table replay into internal/websocket.Conn',
    design_ref='DESIGN.md 4.4, 8 (C29), 10 item 11')}
