SPECIFICATION Spec
CONSTANTS
  Conns = {"c1"}
  Keys = {"k1"}
  MaxChg = 1
  MaxFlips = 0
  MaxOps = 4
  Versioned = TRUE
  Timer = FALSE
  AllowRevoke = TRUE
  AllowPublish = FALSE
  SplitTrack = TRUE
  AsCoded = {"revoke-ignores-pending"}
  Replay = TRUE
VIEW View
INVARIANTS HubHasEntry
PROPERTIES C25_Frames
CHECK_DEADLOCK FALSE
