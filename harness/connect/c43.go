// C43: function-table replay of spec/Connect/ConnHistory.tla. Every row (history request parameters x channel
// history x HistoryMaxPublicationLimit, presence rows) is executed through the client command path of a real node
// (memory broker, memory presence manager) and compared with (a) the row's expectation, (b) the node-level result
// (Node.History with the effective filter / Node.Presence / Node.PresenceStats) obtained on the same node.
package main

import (
	"encoding/json"
	"fmt"
	"sort"
	"sync"
	"time"

	"github.com/centrifugal/centrifuge"
	"github.com/centrifugal/protocol"

	"verifharness/cl"
	"verifharness/vh"
)

type in43 struct {
	Protos []string         `json:"protos"`
	Rows   []map[string]any `json:"rows"`
}

func newEnv43(max int) (*cl.Env, error) {
	env, err := cl.NewEnv(centrifuge.Config{LogLevel: centrifuge.LogLevelNone, HistoryMaxPublicationLimit: max})
	if err != nil {
		return nil, err
	}
	env.OnSubscribe = func(_ *centrifuge.Client, _ centrifuge.SubscribeEvent, cb centrifuge.SubscribeCallback) {
		cb(centrifuge.SubscribeReply{Options: centrifuge.SubscribeOptions{EmitPresence: true}}, nil)
	}
	env.Setup = func(c *centrifuge.Client) {
		c.OnHistory(func(_ centrifuge.HistoryEvent, cb centrifuge.HistoryCallback) { cb(centrifuge.HistoryReply{}, nil) })
		c.OnPresence(func(_ centrifuge.PresenceEvent, cb centrifuge.PresenceCallback) { cb(centrifuge.PresenceReply{}, nil) })
		c.OnPresenceStats(func(_ centrifuge.PresenceStatsEvent, cb centrifuge.PresenceStatsCallback) {
			cb(centrifuge.PresenceStatsReply{}, nil)
		})
	}
	if err := env.Run(); err != nil {
		return nil, err
	}
	return env, nil
}

func refLimit(limit, max int) int {
	if max == 0 {
		return limit
	}
	if limit < 0 || limit > max {
		return max
	}
	return limit
}

type pubRec struct {
	Off  uint64 `json:"off"`
	Data string `json:"data"`
}

func errCode(err error) int {
	if err == nil {
		return 0
	}
	if e, ok := err.(*centrifuge.Error); ok {
		return int(e.Code)
	}
	return 100
}

func protoOf(p string) centrifuge.ProtocolType {
	if p == "protobuf" {
		return centrifuge.ProtocolTypeProtobuf
	}
	return centrifuge.ProtocolTypeJSON
}

func histRow(env *cl.Env, idx int, row map[string]any, proto string, res *vh.Result) {
	inp, exp := vh.Map(row["inp"]), vh.Map(row["res"])
	top, limit, max := vh.Int(inp["top"]), vh.Int(inp["limit"]), vh.Int(inp["max"])
	since := vh.Map(inp["since"])
	reverse := vh.Bool(inp["reverse"])
	ch := fmt.Sprintf("h43_%d_%d_%s", vh.Seed(), idx, proto)
	replay := map[string]any{"inp": inp, "proto": proto}
	drift := func(what string) {
		res.Drift("C43", fmt.Sprintf("%s (row %s, %s)", what, vh.J(inp), proto), replay)
		res.Done(1, 0)
	}
	for i := 1; i <= top; i++ {
		if _, err := env.Node.Publish(ch, []byte(fmt.Sprintf(`{"n":%d}`, i)), centrifuge.WithHistory(32, time.Minute)); err != nil {
			drift("publish: " + err.Error())
			return
		}
	}
	// learn the epoch like a client that read the stream before (also creates the stream for top = 0)
	h0, err := env.Node.History(ch, centrifuge.WithHistoryFilter(centrifuge.HistoryFilter{Limit: 0}))
	if err != nil {
		drift("history for epoch: " + err.Error())
		return
	}
	if int(h0.Offset) != top {
		drift(fmt.Sprintf("stream top %d, expected %d", h0.Offset, top))
		return
	}
	var sp *centrifuge.StreamPosition
	var psp *protocol.StreamPosition
	if vh.Bool(since["has"]) {
		ep := ""
		switch vh.Str(since["ep"]) {
		case "same":
			ep = h0.Epoch
		case "other":
			ep = "other-" + h0.Epoch
		}
		sp = &centrifuge.StreamPosition{Offset: uint64(vh.Int(since["off"])), Epoch: ep}
		psp = &protocol.StreamPosition{Offset: sp.Offset, Epoch: ep}
	}
	conn, err := env.NewConn("u", protoOf(proto))
	if err != nil {
		drift("NewConn: " + err.Error())
		return
	}
	defer func() { conn.Client.Disconnect(); conn.Cancel() }()
	if conn.Connect() == nil {
		drift("connect failed")
		return
	}
	id := conn.NextID()
	conn.Do(&protocol.Command{Id: id, History: &protocol.HistoryRequest{Channel: ch, Limit: int32(limit), Since: psp, Reverse: reverse}})
	rep := conn.WaitReply(id, 3*time.Second)
	if rep == nil {
		res.Violate("C43", "history:no-reply", fmt.Sprintf("history command got no reply (row %s, %s)", vh.J(inp), proto), replay)
		res.Done(1, 0)
		return
	}
	// the client's view
	gotCode := 0
	var got []pubRec
	var gotOff uint64
	var gotEpoch string
	if rep.Error != nil {
		gotCode = int(rep.Error.Code)
	} else if rep.History != nil {
		for _, p := range rep.History.Publications {
			got = append(got, pubRec{p.Offset, string(p.Data)})
		}
		gotOff, gotEpoch = rep.History.Offset, rep.History.Epoch
	}
	// the node-level result for the filter the client is entitled to
	eff := refLimit(limit, max)
	nres, nerr := env.Node.History(ch, centrifuge.WithHistoryFilter(centrifuge.HistoryFilter{Limit: eff, Since: sp, Reverse: reverse}))
	nodeCode := errCode(nerr)
	var want []pubRec
	if nerr == nil {
		for _, p := range nres.Publications {
			want = append(want, pubRec{p.Offset, string(p.Data)})
		}
	}
	replay["reply"] = map[string]any{"code": gotCode, "pubs": got, "offset": gotOff}
	replay["node"] = map[string]any{"code": nodeCode, "pubs": want, "offset": nres.Offset, "effective_limit": eff}
	class := fmt.Sprintf("limit%s:max%d:rev%v:since%v", sign(limit), max, reverse, vh.Bool(since["has"]))
	bad := false
	violate := func(sig, what string) {
		res.Violate("C43", sig, fmt.Sprintf("%s (row %s, %s; reply %s; node-level %s)", what, vh.J(inp), proto, vh.J(replay["reply"]), vh.J(replay["node"])), replay)
		bad = true
	}
	if max > 0 && len(got) > max {
		violate("history:limit-exceeded:"+class, fmt.Sprintf("history reply carries %d publications, HistoryMaxPublicationLimit is %d", len(got), max))
	}
	revSince0 := reverse && vh.Bool(since["has"]) && vh.Int(since["off"]) == 0
	if revSince0 && gotCode != 107 {
		violate("history:reverse-since-zero-accepted", fmt.Sprintf("reverse history since offset 0 was answered with code %d instead of bad request (107)", gotCode))
	}
	if gotCode != nodeCode {
		violate("history:differs-from-node:code:"+class, fmt.Sprintf("history reply has error code %d, Node.History for the effective filter gives %d", gotCode, nodeCode))
	} else if gotCode == 0 {
		if !samePubs(got, want) {
			violate("history:differs-from-node:pubs:"+class, "history reply differs from Node.History for the effective filter")
		} else if gotOff != nres.Offset || gotEpoch != nres.Epoch {
			violate("history:differs-from-node:position:"+class, fmt.Sprintf("history reply position %d/%s differs from Node.History %d/%s", gotOff, gotEpoch, nres.Offset, nres.Epoch))
		}
	}
	if bad {
		res.Done(1, 0)
		return
	}
	// the row: what the reference of ConnHistory.tla says (model agreement; broker semantics are MemBroker's business)
	if vh.Int(exp["eff"]) != eff {
		drift(fmt.Sprintf("effective limit of the table %d differs from the harness reference %d", vh.Int(exp["eff"]), eff))
		return
	}
	if vh.Int(exp["code"]) != gotCode {
		drift(fmt.Sprintf("reply code %d, table says %d", gotCode, vh.Int(exp["code"])))
		return
	}
	if vh.Bool(exp["defined"]) && gotCode == 0 {
		var offs []int
		for _, p := range got {
			offs = append(offs, int(p.Off))
		}
		var eo []int
		for _, x := range vh.List(exp["pubs"]) {
			eo = append(eo, vh.Int(x))
		}
		if fmt.Sprint(offs) != fmt.Sprint(eo) {
			drift(fmt.Sprintf("reply offsets %v, table says %v", offs, eo))
			return
		}
		for _, p := range got {
			if p.Data != fmt.Sprintf(`{"n":%d}`, p.Off) {
				res.Violate("C43", "history:wrong-payload", fmt.Sprintf("publication offset %d carries %s (row %s, %s)", p.Off, p.Data, vh.J(inp), proto), replay)
				res.Done(1, 0)
				return
			}
		}
	}
	if len(got) > 0 || gotCode != 0 || max > 0 {
		res.Distinct(proto + vh.J(inp))
	}
	if idx < 2 {
		res.Sample(replay)
	}
	res.Done(1, 1)
}

func sign(n int) string {
	switch {
	case n < 0:
		return "<0"
	case n == 0:
		return "=0"
	}
	return ">0"
}

func samePubs(a, b []pubRec) bool {
	if len(a) != len(b) {
		return false
	}
	for i := range a {
		if a[i] != b[i] {
			return false
		}
	}
	return true
}

// presRow: `users` connections subscribe with presence; a further connection asks presence / presence_stats; then one
// subscriber leaves and it asks again (a reply served from anything but the current node-level state shows).
func presRow(env *cl.Env, idx int, row map[string]any, proto string, res *vh.Result) {
	inp := vh.Map(row["inp"])
	kind := vh.Str(inp["kind"])
	ch := fmt.Sprintf("p43_%d_%d_%s", vh.Seed(), idx, proto)
	replay := map[string]any{"inp": inp, "proto": proto}
	drift := func(what string) {
		res.Drift("C43", fmt.Sprintf("%s (row %s, %s)", what, vh.J(inp), proto), replay)
		res.Done(1, 0)
	}
	type member struct {
		conn *cl.Conn
		user string
	}
	var members []member
	defer func() {
		for _, m := range members {
			m.conn.Client.Disconnect()
			m.conn.Cancel()
		}
	}()
	for _, u := range vh.List(inp["users"]) {
		c, err := env.NewConn(vh.Str(u), protoOf(proto))
		if err != nil || c.Connect() == nil {
			drift("member connect failed")
			return
		}
		members = append(members, member{c, vh.Str(u)})
		id := c.NextID()
		c.Do(&protocol.Command{Id: id, Subscribe: &protocol.SubscribeRequest{Channel: ch}})
		if r := c.WaitReply(id, 3*time.Second); r == nil || r.Subscribe == nil {
			drift("member subscribe failed")
			return
		}
	}
	asker, err := env.NewConn("asker", protoOf(proto))
	if err != nil || asker.Connect() == nil {
		drift("asker connect failed")
		return
	}
	defer func() { asker.Client.Disconnect(); asker.Cancel() }()
	ok := true
	ask := func(phase string, live []member) {
		wantClients := map[string]string{}
		users := map[string]bool{}
		for _, m := range live {
			wantClients[m.conn.Client.ID()] = m.user
			users[m.user] = true
		}
		id := asker.NextID()
		violate := func(sig, what string) {
			res.Violate("C43", sig, fmt.Sprintf("%s (%s, row %s, %s)", what, phase, vh.J(inp), proto), replay)
			ok = false
		}
		if kind == "presence" {
			asker.Do(&protocol.Command{Id: id, Presence: &protocol.PresenceRequest{Channel: ch}})
			rep := asker.WaitReply(id, 3*time.Second)
			if rep == nil || rep.Presence == nil {
				violate("presence:no-reply", fmt.Sprintf("presence command got %v", rep))
				return
			}
			nres, nerr := env.Node.Presence(ch)
			if nerr != nil {
				violate("presence:node-error", nerr.Error())
				return
			}
			got := map[string]string{}
			for k, v := range rep.Presence.Presence {
				got[k] = v.GetUser() + "/" + v.GetClient()
			}
			node := map[string]string{}
			for k, v := range nres.Presence {
				node[k] = v.UserID + "/" + v.ClientID
			}
			if vh.J(got) != vh.J(node) {
				violate("presence:differs-from-node", fmt.Sprintf("presence reply %s differs from Node.Presence %s", vh.J(got), vh.J(node)))
				return
			}
			truth := map[string]string{}
			for k, u := range wantClients {
				truth[k] = u + "/" + k
			}
			if vh.J(got) != vh.J(truth) {
				violate("presence:differs-from-subscribers", fmt.Sprintf("presence reply %s, subscribed connections %s", vh.J(got), vh.J(truth)))
			}
			return
		}
		asker.Do(&protocol.Command{Id: id, PresenceStats: &protocol.PresenceStatsRequest{Channel: ch}})
		rep := asker.WaitReply(id, 3*time.Second)
		if rep == nil || rep.PresenceStats == nil {
			violate("presence_stats:no-reply", fmt.Sprintf("presence stats command got %v", rep))
			return
		}
		nres, nerr := env.Node.PresenceStats(ch)
		if nerr != nil {
			violate("presence_stats:node-error", nerr.Error())
			return
		}
		gc, gu := int(rep.PresenceStats.NumClients), int(rep.PresenceStats.NumUsers)
		if gc != nres.NumClients || gu != nres.NumUsers {
			violate("presence_stats:differs-from-node", fmt.Sprintf("presence stats reply %d clients / %d users, Node.PresenceStats %d / %d", gc, gu, nres.NumClients, nres.NumUsers))
			return
		}
		if gc != len(wantClients) || gu != len(users) {
			violate("presence_stats:differs-from-subscribers", fmt.Sprintf("presence stats reply %d clients / %d users, subscribed: %d / %d", gc, gu, len(wantClients), len(users)))
		}
	}
	exp := vh.Map(row["res"])
	if vh.Int(exp["clients"]) != len(members) {
		drift("table row and harness disagree on the number of members")
		return
	}
	ask("all subscribed", members)
	if ok && len(members) > 0 {
		// the first member unsubscribes
		m := members[0]
		id := m.conn.NextID()
		m.conn.Do(&protocol.Command{Id: id, Unsubscribe: &protocol.UnsubscribeRequest{Channel: ch}})
		if r := m.conn.WaitReply(id, 3*time.Second); r == nil {
			drift("member unsubscribe failed")
			return
		}
		ask("after one unsubscribed", members[1:])
	}
	if !ok {
		res.Done(1, 0)
		return
	}
	if len(members) > 0 {
		res.Distinct(proto + vh.J(inp))
	}
	res.Done(1, 1)
}

func c43(in json.RawMessage, res *vh.Result) error {
	var ri in43
	if err := json.Unmarshal(in, &ri); err != nil {
		return err
	}
	// one node per HistoryMaxPublicationLimit value
	maxes := map[int]bool{0: true}
	for _, r := range ri.Rows {
		inp := vh.Map(r["inp"])
		if vh.Str(inp["kind"]) == "history" {
			maxes[vh.Int(inp["max"])] = true
		}
	}
	var ms []int
	for m := range maxes {
		ms = append(ms, m)
	}
	sort.Ints(ms)
	envs := map[int]*cl.Env{}
	for _, m := range ms {
		e, err := newEnv43(m)
		if err != nil {
			return err
		}
		envs[m] = e
		defer e.Close()
	}
	type job struct {
		idx   int
		proto string
	}
	jobs := make(chan job)
	var wg sync.WaitGroup
	for i := 0; i < 8; i++ {
		wg.Add(1)
		go func() {
			defer wg.Done()
			for j := range jobs {
				row := ri.Rows[j.idx]
				inp := vh.Map(row["inp"])
				if vh.Str(inp["kind"]) == "history" {
					histRow(envs[vh.Int(inp["max"])], j.idx, row, j.proto, res)
				} else {
					presRow(envs[0], j.idx, row, j.proto, res)
				}
			}
		}()
	}
	for i := range ri.Rows {
		for _, p := range ri.Protos {
			jobs <- job{i, p}
		}
	}
	close(jobs)
	wg.Wait()
	return nil
}
