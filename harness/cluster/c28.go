// C28: replay of spec/Cluster/UnsubAll behaviours on a two-node cluster of real nodes.
//
// The four connections of the model (c1 on A with a session, c2 on B, c3 on A other user, c4 on B anonymous) are real
// clients on recording transports. Subscribe steps are client subscribe commands ("cs") or Client.Subscribe ("ss")
// with presence / join-leave options taken from the channel's class; NodeUnsubscribe steps are Node.Unsubscribe on
// the node the model names (so each connection is reached by the local hub call in some steps and through the
// control message in others). After every step every connection is flushed with a barrier and the observable state
// (Client.Channels, presence manager, hub subscriber counts) and the effects of the step (OnUnsubscribe callbacks,
// leave publications seen by the Broker, unsubscribe pushes) are compared with the model.
// A mismatch on a step with an empty channel argument is a C28 violation; any other mismatch is drift.
package main

import (
	"encoding/json"
	"fmt"
	"sort"
	"strings"
	"sync"
	"time"

	"github.com/centrifugal/centrifuge"
	"github.com/centrifugal/protocol"

	"verifharness/vh"
)

type c28In struct {
	PresCh     []string           `json:"pres_ch"`
	JLCh       []string           `json:"jl_ch"`
	Behaviours [][]map[string]any `json:"behaviours"`
	Workers    int                `json:"workers"`
}

var c28Conns = []connSpec{
	{Name: "c1", User: "u", Session: true, Label: "pro"},
	{Name: "c2", User: "u", Session: false, Label: "free"},
	{Name: "c3", User: "v", Session: true, Label: "pro"},
	{Name: "c4", User: "", Session: false, Label: "pro"},
}

var c28NodeOf = map[string]int{"c1": 0, "c2": 1, "c3": 0, "c4": 1}

type c28Worker struct {
	cl     *cluster
	presCh map[string]bool
	jlCh   map[string]bool
}

func modelChan(real string) string {
	if i := strings.IndexByte(real, '_'); i >= 0 {
		return real[:i]
	}
	return real
}

func newC28Worker(in *c28In) (*c28Worker, error) {
	w := &c28Worker{presCh: map[string]bool{}, jlCh: map[string]bool{}}
	for _, x := range in.PresCh {
		w.presCh[x] = true
	}
	for _, x := range in.JLCh {
		w.jlCh[x] = true
	}
	c, err := newCluster(2, true, func(_ int, nd *cnode) {
		nd.env.OnSubscribe = func(_ *centrifuge.Client, e centrifuge.SubscribeEvent, cb centrifuge.SubscribeCallback) {
			m := modelChan(e.Channel)
			cb(centrifuge.SubscribeReply{Options: centrifuge.SubscribeOptions{EmitPresence: w.presCh[m], EmitJoinLeave: w.jlCh[m]}}, nil)
		}
	})
	if err != nil {
		return nil, err
	}
	w.cl = c
	return w, nil
}

func pairKey(x, c string) string { return x + "@" + c }

func modelPairs(v any) []string {
	var out []string
	for _, p := range vh.List(v) {
		l := vh.List(p)
		out = append(out, pairKey(vh.Str(l[0]), vh.Str(l[1])))
	}
	sort.Strings(out)
	return out
}

func diffLists(want, got []string) (missing, extra []string) {
	cnt := map[string]int{}
	for _, w := range want {
		cnt[w]++
	}
	for _, g := range got {
		cnt[g]--
	}
	for k, v := range cnt {
		for ; v > 0; v-- {
			missing = append(missing, k)
		}
		for ; v < 0; v++ {
			extra = append(extra, k)
		}
	}
	sort.Strings(missing)
	sort.Strings(extra)
	return
}

type c28Mismatch struct {
	aspect string // channels | callback | leave | presence | hub | push | frames
	conn   string // model connection concerned ("" if not attributable)
	what   string
}

func (w *c28Worker) run(bi int, beh []map[string]any, res *vh.Result) {
	suffix := fmt.Sprintf("_%d_%d", vh.Seed(), bi)
	real := func(x string) string {
		if x == "" {
			return ""
		}
		return x + suffix
	}
	userOf := func(u string) string {
		if u == "" {
			return ""
		}
		return u + suffix
	}
	conns := map[string]*hconn{}
	var order []string
	var steps []any
	completed := 1
	defer func() {
		for _, h := range conns {
			h.drop()
		}
		// the next behaviour must not see these connections in the hubs
		deadline := time.Now().Add(3 * time.Second)
		for _, nd := range w.cl.nodes {
			for nd.env.Node.Hub().NumClients() > 0 && time.Now().Before(deadline) {
				time.Sleep(200 * time.Microsecond)
			}
		}
		res.Done(1, completed)
	}()
	drift := func(what string) {
		res.Drift("C28", fmt.Sprintf("%s (behaviour %d)", what, bi), map[string]any{"steps": steps})
		completed = 0
	}
	for _, sp := range c28Conns {
		s := sp
		s.User = userOf(sp.User)
		h, err := w.cl.nodes[c28NodeOf[sp.Name]].connect(s)
		if err != nil {
			drift("connect: " + err.Error())
			return
		}
		conns[sp.Name] = h
		order = append(order, sp.Name)
	}
	byID := map[string]string{}
	for name, h := range conns {
		byID[h.id] = name
	}
	chans := sortedKeys(vh.Map(vh.Map(beh[0]["subs"])["c1"]))

	for si := 1; si < len(beh); si++ {
		st := beh[si]
		prev := beh[si-1]
		step := vh.Map(st["step"])
		act := vh.Str(step["act"])
		steps = append(steps, step)
		// marks
		fm := map[string]int{}
		for name, h := range conns {
			fm[name] = h.frameMark()
		}
		evMark := []int{w.cl.nodes[0].evMark(), w.cl.nodes[1].evMark()}
		jlMark := []int{w.cl.nodes[0].jlMark(), w.cl.nodes[1].jlMark()}

		var subID uint32
		var subConn string
		switch act {
		case "Subscribe":
			c, x, k := vh.Str(step["c"]), vh.Str(step["ch"]), vh.Str(step["k"])
			h := conns[c]
			if k == "cs" {
				subID = h.c.NextID()
				subConn = c
				h.c.Do(&protocol.Command{Id: subID, Subscribe: &protocol.SubscribeRequest{Channel: real(x)}})
				if r := h.c.WaitReply(subID, 2*time.Second); r == nil || r.Subscribe == nil {
					drift(fmt.Sprintf("client-side subscribe of %s to %s failed: %v", c, x, r))
					return
				}
			} else {
				if err := h.c.Client.Subscribe(real(x), centrifuge.WithEmitPresence(w.presCh[x]), centrifuge.WithEmitJoinLeave(w.jlCh[x])); err != nil {
					drift(fmt.Sprintf("Client.Subscribe of %s to %s: %v", c, x, err))
					return
				}
			}
		case "NodeUnsubscribe":
			origin := 0
			if vh.Str(step["origin"]) == "B" {
				origin = 1
			}
			var opts []centrifuge.UnsubscribeOption
			if cid := vh.Str(step["client"]); cid != "" {
				opts = append(opts, centrifuge.WithUnsubscribeClient(conns[cid].id))
			}
			if s := vh.Str(step["session"]); s != "" {
				owner := map[string]string{"s1": "c1", "s3": "c3"}[s]
				opts = append(opts, centrifuge.WithUnsubscribeSession(conns[owner].session))
			}
			if l := vh.Str(step["label"]); l != "" {
				opts = append(opts, centrifuge.WithUnsubscribeLabelFilter(tierFilter(l)))
			}
			if vh.Bool(step["all"]) {
				opts = append(opts, centrifuge.WithUnsubscribeAllUsers(true))
			}
			if vh.Bool(step["custom"]) {
				opts = append(opts, centrifuge.WithCustomUnsubscribe(centrifuge.Unsubscribe{Code: uint32(vh.Int(step["code"])), Reason: "custom"}))
			}
			if err := w.cl.nodes[origin].env.Node.Unsubscribe(userOf(vh.Str(step["user"])), real(vh.Str(step["ch"])), opts...); err != nil {
				drift("Node.Unsubscribe: " + err.Error())
				return
			}
		default:
			drift("unknown action " + act)
			return
		}
		// quiescent point: everything enqueued for a connection has been written
		for _, name := range order {
			if !conns[name].c.Barrier(3 * time.Second) {
				drift(fmt.Sprintf("barrier on %s failed after %s", name, act))
				return
			}
		}

		// ---------------------------------------------------------------- observe and compare
		var mm []c28Mismatch
		msubs := vh.Map(st["subs"])
		for _, name := range order {
			var want []string
			for _, x := range chans {
				if vh.Str(vh.Map(msubs[name])[x]) != "none" {
					want = append(want, x)
				}
			}
			var got []string
			for _, rc := range conns[name].channels() {
				got = append(got, modelChan(rc))
			}
			sort.Strings(got)
			if strings.Join(want, ",") != strings.Join(got, ",") {
				mm = append(mm, c28Mismatch{"channels", name, fmt.Sprintf("Channels() of %s = %v, expected %v", name, got, want)})
			}
		}
		// presence and hub
		wantPres := modelPairs(st["pres"])
		var gotPres []string
		hubWant := map[string]int{}
		for _, p := range vh.List(st["hub"]) {
			l := vh.List(p)
			hubWant[fmt.Sprintf("%s@%d", vh.Str(l[0]), c28NodeOf[vh.Str(l[1])])]++
		}
		for ni, nd := range w.cl.nodes {
			for _, x := range chans {
				pr, err := nd.env.Node.Presence(real(x))
				if err != nil {
					drift("presence: " + err.Error())
					return
				}
				for id := range pr.Presence {
					if name, ok := byID[id]; ok {
						gotPres = append(gotPres, pairKey(x, name))
					} else {
						gotPres = append(gotPres, pairKey(x, "?"+id))
					}
				}
				if n := nd.env.Node.Hub().NumSubscribers(real(x)); n != hubWant[fmt.Sprintf("%s@%d", x, ni)] {
					mm = append(mm, c28Mismatch{"hub", "", fmt.Sprintf("node %s has %d subscribers of %s, expected %d", nd.name, n, x, hubWant[fmt.Sprintf("%s@%d", x, ni)])})
				}
			}
		}
		sort.Strings(gotPres)
		if miss, extra := diffLists(wantPres, gotPres); len(miss)+len(extra) > 0 {
			for _, e := range extra {
				mm = append(mm, c28Mismatch{"presence", e[strings.IndexByte(e, '@')+1:], fmt.Sprintf("presence entry %s still present", e)})
			}
			for _, e := range miss {
				mm = append(mm, c28Mismatch{"presence", e[strings.IndexByte(e, '@')+1:], fmt.Sprintf("presence entry %s missing", e)})
			}
		}
		// effects
		var wantCb, wantLeave, wantPush, wantJoin []string
		if act == "NodeUnsubscribe" {
			code := vh.Int(step["code"])
			ss := map[string]bool{}
			for _, p := range modelPairs(step["cbss"]) {
				ss[p] = true
			}
			for _, p := range modelPairs(step["cbs"]) {
				wantCb = append(wantCb, fmt.Sprintf("%s code=%d server_side=%v", p, code, ss[p]))
			}
			wantLeave = modelPairs(step["leaves"])
			for _, p := range modelPairs(step["pushes"]) {
				wantPush = append(wantPush, fmt.Sprintf("%s code=%d", p, code))
			}
		} else if vh.Bool(step["join"]) {
			wantJoin = []string{pairKey(vh.Str(step["ch"]), vh.Str(step["c"]))}
		}
		var gotCb, gotLeave, gotPush, gotJoin []string
		for ni, nd := range w.cl.nodes {
			for _, ev := range nd.evSince(evMark[ni]) {
				name, ok := byID[ev.Client]
				if !ok {
					continue
				}
				switch ev.Kind {
				case "unsubscribe":
					ssv := strings.Contains(ev.Extra, "server_side=true")
					gotCb = append(gotCb, fmt.Sprintf("%s code=%d server_side=%v", pairKey(modelChan(ev.Ch), name), ev.Code, ssv))
				case "subscribe", "rpc":
				default:
					mm = append(mm, c28Mismatch{"frames", name, fmt.Sprintf("unexpected callback %s on %s", ev.Kind, name)})
				}
			}
			for _, e := range nd.jlSince(jlMark[ni]) {
				if !strings.HasSuffix(e.Ch, suffix) {
					// a leave of the previous behaviour's connections (their close() may still be publishing)
					continue
				}
				name, ok := byID[e.Client]
				if !ok {
					name = "?" + e.Client
				}
				if e.Kind == "leave" {
					gotLeave = append(gotLeave, pairKey(modelChan(e.Ch), name))
				} else {
					gotJoin = append(gotJoin, pairKey(modelChan(e.Ch), name))
				}
			}
		}
		for _, name := range order {
			for _, r := range conns[name].framesSince(fm[name]) {
				switch {
				case r.Push != nil && r.Push.Unsubscribe != nil:
					gotPush = append(gotPush, fmt.Sprintf("%s code=%d", pairKey(modelChan(r.Push.Channel), name), r.Push.Unsubscribe.Code))
				case r.Push != nil && r.Push.Subscribe != nil && act == "Subscribe" && name == vh.Str(step["c"]) && vh.Str(step["k"]) == "ss":
				case r.Id != 0 && r.Id == subID && name == subConn && r.Subscribe != nil:
				default:
					mm = append(mm, c28Mismatch{"frames", name, fmt.Sprintf("unexpected frame on %s: %s", name, describe(r))})
				}
			}
		}
		connOf := func(e string) string {
			c := e[strings.IndexByte(e, '@')+1:]
			if i := strings.IndexByte(c, ' '); i >= 0 {
				c = c[:i]
			}
			return c
		}
		cmp := func(aspect string, want, got []string) {
			miss, extra := diffLists(want, got)
			for _, e := range miss {
				mm = append(mm, c28Mismatch{aspect, connOf(e), fmt.Sprintf("%s %q expected, not observed", aspect, e)})
			}
			for _, e := range extra {
				mm = append(mm, c28Mismatch{aspect, connOf(e), fmt.Sprintf("%s %q observed, not expected", aspect, e)})
			}
		}
		cmp("callback", wantCb, gotCb)
		cmp("leave", wantLeave, gotLeave)
		cmp("push", wantPush, gotPush)
		cmp("join", wantJoin, gotJoin)

		emptyCh := act == "NodeUnsubscribe" && vh.Str(step["ch"]) == ""
		if emptyCh {
			// class of the case: what the selected connections held before the call
			sel := map[string]bool{}
			for _, c := range vh.List(step["sel"]) {
				sel[vh.Str(c)] = true
			}
			var pre []string
			psubs := vh.Map(prev["subs"])
			nonEmpty := false
			for _, name := range order {
				if !sel[name] {
					continue
				}
				var row []string
				for _, x := range chans {
					v := vh.Str(vh.Map(psubs[name])[x])
					row = append(row, v)
					if v != "none" {
						nonEmpty = true
					}
				}
				pre = append(pre, name+":"+strings.Join(row, "/"))
			}
			args := fmt.Sprintf("origin=%s user=%q client=%q session=%q label=%q all=%v custom=%v", vh.Str(step["origin"]), vh.Str(step["user"]), vh.Str(step["client"]), vh.Str(step["session"]), vh.Str(step["label"]), vh.Bool(step["all"]), vh.Bool(step["custom"]))
			if len(mm) == 0 {
				res.Count("emptych_steps", 1)
				if nonEmpty {
					res.Distinct(args + " " + strings.Join(pre, " "))
				}
				if nonEmpty {
					res.Sample(map[string]any{"call": args, "before": pre, "callbacks": gotCb, "leaves": gotLeave, "pushes": gotPush})
				}
			} else {
				origin := 0
				if vh.Str(step["origin"]) == "B" {
					origin = 1
				}
				for _, m := range mm {
					if m.aspect == "join" || m.aspect == "frames" {
						res.Drift("C28", fmt.Sprintf("%s (behaviour %d, empty-channel step)", m.what, bi), map[string]any{"steps": steps})
						continue
					}
					path := "any"
					subj := "selected"
					if m.conn != "" && !strings.HasPrefix(m.conn, "?") {
						path = "remote"
						if c28NodeOf[m.conn] == origin {
							path = "local"
						}
						if !sel[m.conn] {
							subj = "other-connection"
						}
					}
					res.Violate("C28", fmt.Sprintf("emptych:%s:%s:%s", subj, m.aspect, path),
						fmt.Sprintf("Node.Unsubscribe(%s, channel \"\") on node %s: %s; connections before the call: %v (behaviour %d)", args, vh.Str(step["origin"]), m.what, pre, bi),
						map[string]any{"steps": steps, "mismatches": mmStrings(mm), "before": pre})
				}
				completed = 0
				return
			}
		} else if len(mm) > 0 {
			drift(fmt.Sprintf("after %s %s: %v", act, vh.J(step), mmStrings(mm)))
			return
		}
	}
}

func mmStrings(mm []c28Mismatch) []string {
	var out []string
	for _, m := range mm {
		out = append(out, m.aspect+": "+m.what)
	}
	return out
}

func describe(r *protocol.Reply) string {
	b, _ := json.Marshal(r)
	if len(b) > 200 {
		b = b[:200]
	}
	return string(b)
}

func c28(in json.RawMessage, res *vh.Result) error {
	var ci c28In
	if err := json.Unmarshal(in, &ci); err != nil {
		return err
	}
	nw := ci.Workers
	if nw <= 0 {
		nw = 4
	}
	var wg sync.WaitGroup
	jobs := make(chan int)
	for i := 0; i < nw; i++ {
		w, err := newC28Worker(&ci)
		if err != nil {
			return err
		}
		wg.Add(1)
		go func() {
			defer wg.Done()
			defer w.cl.close()
			for bi := range jobs {
				w.run(bi, ci.Behaviours[bi], res)
			}
		}()
	}
	for bi := range ci.Behaviours {
		jobs <- bi
	}
	close(jobs)
	wg.Wait()
	return nil
}
