SPECIFICATION Spec
CONSTANTS Full = TRUE
INVARIANTS UpgradeProperty CloseCodeProperty TCloseProperty
CHECK_DEADLOCK FALSE
