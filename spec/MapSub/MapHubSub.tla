------------------------------ MODULE MapHubSub ------------------------------
(* C26 on the map path ("broker subscription tracks local interest"): node-level bookkeeping of a map channel.
   Node.addSubscription (under subLock): hub.addSub -> first?; for the FIRST local subscriber MapBroker.Subscribe, which
   may FAIL: the hub entry just added is rolled back and the error returned (the map live transition relies on
   "addSubscription failed, so there is no hub entry to remove").  Node.removeSubscription: hub.removeSub; when the
   channel became empty a dissolver job is queued which (>= 1 s later, under subLock) calls MapBroker.Unsubscribe if
   the channel still has no subscribers.  hub.addSub for a connection that already has an entry overwrites it
   (first = FALSE).

   RollbackOnFail = TRUE: the code as it is.  FALSE = witness: the entry of the failed first subscriber stays, every
   later addSub reports first = FALSE and MapBroker.Subscribe is never called again.                              *)
EXTENDS Naturals, FiniteSets

CONSTANTS Clients, MaxFails, MaxOps, RollbackOnFail

VARIABLES
  hub,      \* connections with a hub entry for the channel
  live,     \* connections whose map subscription is established (c.channels)
  bsub,     \* the node is subscribed to the channel in the map broker
  jobs,     \* queued dissolver jobs
  fails, nops, failed, step

vars == <<hub, live, bsub, jobs, fails, nops, failed, step>>

Init == hub = {} /\ live = {} /\ bsub = FALSE /\ jobs = 0 /\ fails = 0 /\ nops = 0 /\ failed = FALSE /\ step = [act |-> "Init"]

\* a map subscribe of connection c that reaches the live transition; fail = MapBroker.Subscribe returns an error
Subscribe(c, fail) ==
  /\ c \notin live /\ nops < MaxOps
  /\ nops' = nops + 1
  /\ LET first == hub = {} IN
     IF first /\ fail
       THEN /\ fails < MaxFails /\ fails' = fails + 1 /\ failed' = TRUE
            /\ hub' = IF RollbackOnFail THEN hub ELSE hub \cup {c}
            /\ UNCHANGED <<live, bsub>>
            /\ step' = [act |-> "Subscribe", c |-> c, fail |-> TRUE, ok |-> FALSE]
       ELSE /\ ~fail
            /\ hub' = hub \cup {c} /\ live' = live \cup {c}
            /\ bsub' = (bsub \/ first)
            /\ UNCHANGED <<fails, failed>>
            /\ step' = [act |-> "Subscribe", c |-> c, fail |-> FALSE, ok |-> TRUE]
  /\ UNCHANGED jobs

Unsubscribe(c) ==
  /\ c \in live /\ nops < MaxOps
  /\ nops' = nops + 1
  /\ live' = live \ {c} /\ hub' = hub \ {c}
  /\ jobs' = IF hub' = {} THEN jobs + 1 ELSE jobs
  /\ UNCHANGED <<bsub, fails, failed>>
  /\ step' = [act |-> "Unsubscribe", c |-> c]

\* all queued dissolver jobs have run (the harness waits for them)
JobsDrain ==
  /\ jobs > 0
  /\ jobs' = 0
  /\ bsub' = IF hub = {} THEN FALSE ELSE bsub
  /\ UNCHANGED <<hub, live, fails, nops, failed>>
  /\ step' = [act |-> "JobsDrain"]

\* a live publication: reaches the node only if the node is subscribed in the broker (PUB/SUB)
Publish ==
  /\ live # {} /\ nops < MaxOps
  /\ nops' = nops + 1
  /\ UNCHANGED <<hub, live, bsub, jobs, fails, failed>>
  /\ step' = [act |-> "Publish", reaches |-> bsub]

Next == (\E c \in Clients, f \in BOOLEAN : Subscribe(c, f)) \/ (\E c \in Clients : Unsubscribe(c)) \/ JobsDrain \/ Publish
Spec == Init /\ [][Next]_vars

\* C26: local subscribers => subscribed in the broker; after the deferred jobs drained: subscribed <=> local subscribers;
\* the hub holds exactly the established subscriptions
C26M == /\ (hub # {} => bsub)
        /\ (jobs = 0 => (bsub <=> hub # {}))
        /\ hub = live
Delivered == [][step'.act = "Publish" => step'.reaches]_vars
TypeOK == hub \subseteq Clients /\ live \subseteq Clients /\ nops <= MaxOps
View == <<hub, live, bsub, jobs, fails, nops, failed>>
=============================================================================
