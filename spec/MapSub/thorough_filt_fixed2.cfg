SPECIFICATION Spec
CONSTANTS
  NK = 2
  MaxOps = 3
  MaxLag = 1
  MaxResub = 1
  LiveLimit = 3
  Modes = {"rec"}
  Kinds = {"fresh", "rlive", "rstream"}
  Pages = {1}
  SSizes = {1, 2}
  Filts = {"client", "server"}
  Ops = {"pub", "rem", "exp", "sexp", "clear", "refresh", "poscheck"}
  MaxJumps = 0
  EpochCheck = TRUE
  Pres = {3}
  N0s = {0}
  Contig = TRUE
  DropStale = TRUE
VIEW View
INVARIANTS TypeOK C22
PROPERTIES C22R C16M
CHECK_DEADLOCK FALSE
