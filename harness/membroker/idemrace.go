// C19: probe of an assumption of spec/MemBroker (and MapBroker): Publish is ONE action - the idempotency-cache lookup,
// the append and the save of the result happen under the channel's publish lock, so two concurrent publishes with the
// same idempotency key are serialized and exactly one of them takes effect. The probe parks an unrelated publish of
// the channel inside the (harness-implemented) event handler, i.e. while the channel's publish lock is held, starts
// two publishes with one idempotency key, releases, and judges by the results, the history and what reached the handler.
package main

import (
	"encoding/json"
	"fmt"
	"strconv"
	"sync"
	"time"

	"github.com/centrifugal/centrifuge"

	"verifharness/vh"
)

type gateHandler struct {
	mu      sync.Mutex
	parkOn  string
	entered chan struct{}
	release chan struct{}
	seen    map[string][]string // channel -> payloads handed over
}

func (g *gateHandler) HandlePublication(ch string, pub *centrifuge.Publication, _ centrifuge.StreamPosition, _ bool, _ *centrifuge.Publication) error {
	g.mu.Lock()
	g.seen[ch] = append(g.seen[ch], string(pub.Data))
	park := g.parkOn != "" && string(pub.Data) == g.parkOn
	g.mu.Unlock()
	if park {
		close(g.entered)
		<-g.release
	}
	return nil
}
func (g *gateHandler) HandleJoin(string, *centrifuge.ClientInfo) error  { return nil }
func (g *gateHandler) HandleLeave(string, *centrifuge.ClientInfo) error { return nil }

func idemrace(in json.RawMessage, res *vh.Result) error {
	var cfg struct {
		N int `json:"n"`
	}
	_ = json.Unmarshal(in, &cfg)
	if cfg.N == 0 {
		cfg.N = 5
	}
	for i := 0; i < cfg.N; i++ {
		node, err := centrifuge.New(centrifuge.Config{})
		if err != nil {
			return err
		}
		b, err := centrifuge.NewMemoryBroker(node, centrifuge.MemoryBrokerConfig{})
		if err != nil {
			return err
		}
		g := &gateHandler{parkOn: "park", entered: make(chan struct{}), release: make(chan struct{}), seen: map[string][]string{}}
		if err := b.RegisterBrokerEventHandler(g); err != nil {
			return err
		}
		ch := fmt.Sprintf("ir%d_%d", vh.Seed(), i)
		hist := centrifuge.PublishOptions{HistorySize: 10, HistoryTTL: time.Minute}
		parked := make(chan struct{})
		go func() {
			defer close(parked)
			_, _ = b.Publish(ch, []byte("park"), hist)
		}()
		select {
		case <-g.entered:
		case <-time.After(3 * time.Second):
			res.Drift("C19", "idemrace: the first publish did not reach the event handler", nil)
			res.Done(1, 0)
			continue
		}
		// two retries of one logical publish, concurrently, while the channel's publish lock is held
		type out struct {
			r   centrifuge.PublishResult
			err error
		}
		outs := make([]out, 2)
		var wg sync.WaitGroup
		for k := 0; k < 2; k++ {
			wg.Add(1)
			go func(k int) {
				defer wg.Done()
				o := hist
				o.IdempotencyKey = "key-" + strconv.Itoa(i)
				o.IdempotentResultTTL = time.Minute
				r, err := b.Publish(ch, []byte("dup"), o)
				outs[k] = out{r, err}
			}(k)
		}
		time.Sleep(150 * time.Millisecond) // both are now past whatever they do before taking the lock
		close(g.release)
		wg.Wait()
		<-parked
		pubs, _, _ := b.History(ch, centrifuge.HistoryOptions{Filter: centrifuge.HistoryFilter{Limit: -1}})
		ndup := 0
		for _, p := range pubs {
			if string(p.Data) == "dup" {
				ndup++
			}
		}
		g.mu.Lock()
		handed := 0
		for _, d := range g.seen[ch] {
			if d == "dup" {
				handed++
			}
		}
		g.mu.Unlock()
		supp := 0
		for _, o := range outs {
			if o.r.Suppressed {
				supp++
			}
		}
		replay := map[string]any{"probe": "two concurrent publishes with one idempotency key while the channel's publish lock is held",
			"suppressed": supp, "in_history": ndup, "handed_to_handler": handed,
			"positions": []uint64{outs[0].r.Offset, outs[1].r.Offset}}
		if outs[0].err != nil || outs[1].err != nil {
			res.Drift("C19", fmt.Sprintf("idemrace: publish errors %v %v", outs[0].err, outs[1].err), replay)
			res.Done(1, 0)
			_ = b.Close(nil)
			continue
		}
		if supp != 1 || ndup != 1 || handed != 1 || outs[0].r.Offset != outs[1].r.Offset {
			res.Violate("C19", "idempotency:concurrent-same-key:not-serialized", fmt.Sprintf("two concurrent publishes with the same idempotency key: %d suppressed (want 1), %d entries in history (want 1), %d handed to the event handler (want 1), positions %d / %d (want equal)", supp, ndup, handed, outs[0].r.Offset, outs[1].r.Offset), replay)
		}
		res.Distinct("idemrace")
		if i == 0 {
			res.Sample(replay)
		}
		res.Done(1, 1)
		_ = b.Close(nil)
	}
	return nil
}
