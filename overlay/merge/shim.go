//go:build verif

package centrifuge

// Overlay-injected (never committed to /repo): read-only accessors and re-exports of internal
// packages for the /verif harness module. See /verif/DESIGN.md section 5.

import (
	"github.com/centrifugal/centrifuge/internal/recovery"
	"github.com/centrifugal/protocol"
)

func VerifMergePublications(rec, buf []*protocol.Publication) ([]*protocol.Publication, uint64, bool) {
	return recovery.MergePublications(rec, buf)
}
