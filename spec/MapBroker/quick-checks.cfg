SPECIFICATION Spec
CONSTANTS
  KeySeq <- KeySeq2
  Configs <- ConfigsChecks
  KeyModes = {"", "if_new", "if_new_refresh", "if_exists"}
  CasOffs = {1, 2}
  CasEps = {1}
  Versions = {0, 1, 2}
  VerEpochs = {"", "va"}
  IdemKeys = {""}
  IdemTTLs = {1}
  Scores = {0}
  Limits <- LimitsSmall
  ReadEps <- ReadEpsSmall
  SinceOffs <- SinceOffsSmall
  PageSizes = {1, 2}
  MaxNow = 0
  MaxPubs = 3
  MaxOps = 3
  Deterministic = FALSE
  Manual = FALSE
VIEW View
INVARIANTS TypeOK ReadStreamIsRetainedSuffix ReadStateIsRefPage PaginationEnumerates PageAfterCursor OrderedFlagFollowsOptions OverdueKeysGone SweeperArmed SubscriberConverges
PROPERTIES FoldPublish FoldRemove OnlyWritesChangeState CheckOrder RemoveReason SuppressedChangesNothing AppliedAppendsAndBroadcastsOnce BroadcastOnlyByChange EpochStable EpochFresh SingleKeyExact ExpiryRemovesOnce ExpiryDeliversQueued RefreshedSurvive ExpiryNoopChangesNothing NeverLostNeverTwice VersionExact UnversionedKeepsVersion VersionedStoresVersion IdemReturnsOriginal IdemSavedOnApply IdemExact IdemSweepKeepsValid HandlerInOffsetOrder WritersWaitForSweeper
CHECK_DEADLOCK FALSE
