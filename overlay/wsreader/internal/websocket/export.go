//go:build verif

package websocket

// Overlay-injected (never committed to /repo): exports the unexported Conn constructor for the
// /verif wsreader harness (C29). Compression is wired exactly as Upgrader.Upgrade / Dialer do.

import "net"

func VerifNewConn(nc net.Conn, isServer bool, readBufferSize, writeBufferSize int, compression bool) *Conn {
	c := newConn(nc, isServer, readBufferSize, writeBufferSize, nil, nil, nil)
	if compression {
		c.newCompressionWriter = compressNoContextTakeover
		c.newDecompressionReader = decompressNoContextTakeover
	}
	return c
}
