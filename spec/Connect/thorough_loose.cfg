SPECIFICATION Spec
CONSTANTS
  MaxCmds = 2
  MaxAsync = 1
  MaxFires = 2
  MaxEnv = 1
  UrgentClose = FALSE
  AfterClose = FALSE
  WithHist = FALSE
  CfgSet <- CfgLoose
  Reduced = FALSE
  GenericKinds = {"rpc"}
VIEW View
INVARIANTS TypeOK C09 OneClose NothingAfterClose
CHECK_DEADLOCK FALSE
