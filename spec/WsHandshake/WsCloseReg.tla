----------------------------- MODULE WsCloseReg -----------------------------
(* C31 (d)  "the first close frame observed determines the recorded close code".

   The close-code register of internal/websocket/conn.go: Conn.closeCode is
   written by recordCloseCode (CompareAndSwap(0, v): set once) from
     WriteControl(CloseMessage, payload)       -- before the frame is written:
         the application's close (websocketTransport.Close), the echo of the
         default close handler, handleProtocolError (1002), the read limit (1009)
     advanceFrame, on an ACCEPTED incoming close frame (valid code, UTF-8 reason)
   and read by Conn.CloseCode() -> (code, incoming).
   Only the calls reachable from centrifuge are modelled (close frames are only
   ever sent through WriteControl; see handler_websocket.go).

   `first` is a ghost: the first close frame that really was observed -- the
   first one put on the wire by this endpoint or the first ACCEPTED one from
   the peer (a rejected close frame is answered with 1002, which then is the
   first).  Property: reg = first at all times, and reg never changes once set.
   The harness replays every script (TLC -dump) into a real Conn and compares
   Conn.CloseCode() and the close frames written after every step.           *)
EXTENDS Integers, Sequences

CONSTANTS MaxOps

NoneR == [code |-> 0, inc |-> FALSE]

VARIABLES reg,      \* Conn.closeCode: NoneR or [code, inc]
          cs,       \* Conn.writeErr = ErrCloseSent
          rdead,    \* Conn.readErr set: the read side is finished
          first,    \* ghost
          hist      \* the script: [op, arg, out (close codes written in this step), reg (after it)]
vars == <<reg, cs, rdead, first, hist>>

Record(r, code, inc) == IF r = NoneR /\ code > 0 /\ code <= 65535 THEN [code |-> code, inc |-> inc] ELSE r

\* WriteControl(CloseMessage, payload): code = 1005 for a payload shorter than 2 bytes
\* returns [reg, cs, out, first]
SendClose(r, c, f, code) ==
  [reg |-> Record(r, code, FALSE), cs |-> TRUE, out |-> IF c THEN <<>> ELSE <<code>>,
   first |-> IF f = NoneR /\ ~c THEN [code |-> code, inc |-> FALSE] ELSE f]

Step(op, arg, s) ==
  /\ reg' = s.reg /\ cs' = s.cs /\ first' = s.first
  /\ hist' = Append(hist, [op |-> op, arg |-> arg, out |-> s.out, reg |-> s.reg])

AppCodes == {1000, 3001, 4000, 4999, 1005}     \* 1005 stands for "payload without a status" (empty payload)
\* websocketTransport.Close / any WriteControl(CloseMessage, FormatCloseMessage(code, reason))
AppClose(code, fits) ==
  /\ Len(hist) < MaxOps
  /\ IF fits THEN Step("AppClose", code, SendClose(reg, cs, first, code))
     ELSE Step("AppCloseTooLong", code, [reg |-> reg, cs |-> cs, out |-> <<>>, first |-> first])   \* errInvalidControlFrame: nothing happens
  /\ UNCHANGED rdead

ValidIn   == {1000, 1001, 3000, 4000}
InvalidIn == {999, 1004, 1005, 1006, 1015, 2999, 5000}
\* an incoming close frame with a valid code and reason: recorded, echoed (default close handler), CloseError
RecvValid(code) ==
  /\ Len(hist) < MaxOps /\ ~rdead
  /\ LET r1 == Record(reg, code, TRUE)
         f1 == IF first = NoneR THEN [code |-> code, inc |-> TRUE] ELSE first
     IN Step("RecvClose", code, SendClose(r1, cs, f1, code))
  /\ rdead' = TRUE
\* ... without payload: "no status" 1005 incoming; the echo is an empty close frame (FormatCloseMessage(1005) = empty)
RecvEmpty ==
  /\ Len(hist) < MaxOps /\ ~rdead
  /\ LET r1 == Record(reg, 1005, TRUE)
         f1 == IF first = NoneR THEN [code |-> 1005, inc |-> TRUE] ELSE first
     IN Step("RecvCloseEmpty", 0, SendClose(r1, cs, f1, 1005))
  /\ rdead' = TRUE
\* ... with a forbidden code or a reason that is not UTF-8: rejected, handleProtocolError sends 1002
RecvInvalid(code) ==
  /\ Len(hist) < MaxOps /\ ~rdead
  /\ Step("RecvCloseInvalid", code, SendClose(reg, cs, first, 1002))
  /\ rdead' = TRUE
RecvBadUtf8 ==
  /\ Len(hist) < MaxOps /\ ~rdead
  /\ Step("RecvCloseBadUtf8", 1000, SendClose(reg, cs, first, 1002))
  /\ rdead' = TRUE
\* a data message larger than the read limit: close 1009 sent, ErrReadLimit
RecvTooBig ==
  /\ Len(hist) < MaxOps /\ ~rdead
  /\ Step("RecvTooBig", 0, SendClose(reg, cs, first, 1009))
  /\ rdead' = TRUE
\* a ping followed by a small text message: pong (dropped silently after a close was sent), nothing recorded
RecvPing ==
  /\ Len(hist) < MaxOps /\ ~rdead
  /\ Step("RecvPing", 0, [reg |-> reg, cs |-> cs, out |-> <<>>, first |-> first])
  /\ UNCHANGED rdead

Next ==
  \/ \E c \in AppCodes, fits \in BOOLEAN : AppClose(c, fits)
  \/ \E c \in ValidIn : RecvValid(c)
  \/ RecvEmpty
  \/ \E c \in InvalidIn : RecvInvalid(c)
  \/ RecvBadUtf8 \/ RecvTooBig \/ RecvPing

Init == reg = NoneR /\ cs = FALSE /\ rdead = FALSE /\ first = NoneR /\ hist = <<>>
Spec == Init /\ [][Next]_vars

RegIsFirstObserved == reg = first
SentImpliesRecorded == cs => reg # NoneR
FirstWins == [][reg # NoneR => reg' = reg]_vars
=============================================================================
