------------------------------ MODULE Presence ------------------------------
(* C06, statistics clause: presence_memory.go presenceHub (add / remove / get / getStats) as a reference
   map channel -> (client -> user).  "Presence statistics always count exactly the distinct clients and
   users of the presence set."  Every operation is replayed on the real MemoryPresenceManager. *)
EXTENDS Integers, Sequences, FiniteSets, TLC
CONSTANTS Chans, Clients, Users, MaxOps
VARIABLES pres, nops, step
vars == <<pres, nops, step>>
Init == pres = [c \in Chans |-> [x \in {} |-> ""]] /\ nops = 0 /\ step = [act |-> "Init"]

UsersOf(ch) == {pres[ch][cl] : cl \in DOMAIN pres[ch]}
Stats(ch)   == [clients |-> Cardinality(DOMAIN pres[ch]), users |-> Cardinality(UsersOf(ch))]
Tick        == nops < MaxOps /\ nops' = nops + 1

Add(ch, cl, u) ==
  /\ Tick
  /\ pres' = [pres EXCEPT ![ch] = [x \in DOMAIN pres[ch] \cup {cl} |-> IF x = cl THEN u ELSE pres[ch][x]]]
  /\ step' = [act |-> "Add", ch |-> ch, cl |-> cl, u |-> u]
Remove(ch, cl) ==
  /\ Tick
  /\ pres' = [pres EXCEPT ![ch] = [x \in DOMAIN pres[ch] \ {cl} |-> pres[ch][x]]]
  /\ step' = [act |-> "Remove", ch |-> ch, cl |-> cl]
Read(ch) ==
  /\ Tick /\ UNCHANGED pres
  /\ step' = [act |-> "Read", ch |-> ch, stats |-> Stats(ch), members |-> pres[ch]]

Next == \E ch \in Chans : \/ \E cl \in Clients : (Remove(ch, cl) \/ \E u \in Users : Add(ch, cl, u))
                          \/ Read(ch)
Spec == Init /\ [][Next]_vars

StatsExact == [][ step'.act = "Read" =>
                   /\ step'.stats.clients = Cardinality(DOMAIN pres[step'.ch])
                   /\ step'.stats.users = Cardinality({pres[step'.ch][cl] : cl \in DOMAIN pres[step'.ch]})
                   /\ step'.stats.users <= step'.stats.clients ]_vars
View == <<pres, nops>>
=============================================================================
