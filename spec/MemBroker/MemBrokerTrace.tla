--------------------------- MODULE MemBrokerTrace ---------------------------
(* Trace validation (code -> spec): events recorded from the real MemoryBroker
   by harness/membroker `trace` are consumed one per step by the actions of
   MemBroker, with the logged results bound to the primed variables.  The
   sweepers are not logged (they run on the broker's own goroutines): they are
   composed as silent steps, bounded by the model's own deadlines.  Many traces
   are concatenated, separated by a "Reset" event.  Every invariant and action
   property of MemBroker is evaluated on the way. *)
EXTENDS MemBroker, Json, IOUtils

Trace == ndJsonDeserialize("trace.ndjson")

VARIABLE l
tvars == <<vars, l>>

Ev == Trace[l]
IsEvent(e) == l <= Len(Trace) /\ Ev.ev = e /\ l' = l + 1

TTick == IsEvent("Tick") /\ Tick /\ now' = Ev.now

TPublish ==
  /\ IsEvent("Publish")
  /\ LET a == Ev.args IN
       /\ a.id = npub + 1
       /\ Publish(a.size, a.ttl, a.mttl, a.v, a.ve, a.k, a.kttl)
  /\ step'.res = [off |-> Ev.res.off, ep |-> Ev.res.ep, sup |-> Ev.res.sup]
  /\ handed' = Ev.handed

THistory ==
  /\ IsEvent("History")
  /\ LET a == Ev.args IN
       History([has |-> a.since.has, off |-> a.since.off, ep |-> a.since.ep], a.limit, a.reverse, a.mttl)
  /\ step'.res = [pubs |-> Ev.res.pubs, off |-> Ev.res.off, ep |-> Ev.res.ep]

TRemove == IsEvent("RemoveHistory") /\ RemoveHistory

TSilent == (SweepExpire \/ SweepRemove) /\ UNCHANGED l

TReset ==
  /\ IsEvent("Reset")
  /\ ex' = FALSE /\ top' = 0 /\ win' = <<>> /\ ep' = 0 /\ epc' = 0
  /\ ver' = [v |-> 0, e |-> ""]
  /\ expAt' = 0 /\ expQ' = 0 /\ remAt' = 0 /\ remQ' = 0
  /\ idem' = [k \in {} |-> 0]
  /\ now' = 0 /\ npub' = 0 /\ nops' = 0 /\ handed' = <<>>
  /\ step' = [act |-> "Init"]

TraceInit == Init /\ l = 1 /\ TLCSet(1, 0)
TraceNext == TTick \/ TPublish \/ THistory \/ TRemove \/ TSilent \/ TReset
TraceSpec == TraceInit /\ [][TraceNext]_tvars

\* high-water mark of the consumed prefix (silent steps make the diameter useless); -workers 1
HighWater == TLCSet(1, IF TLCGet(1) < l - 1 THEN l - 1 ELSE TLCGet(1))
TraceAccepted ==
  IF TLCGet(1) = Len(Trace) THEN TRUE
  ELSE /\ PrintT(<<"TRACE-PREFIX", TLCGet(1), "of", Len(Trace)>>)
       /\ FALSE

TraceView == <<core, npub, nops, l>>

\* the reset step is exempt from the step-to-step properties
NotReset == step'.act # "Init"
T_OffsetsDense == [][NotReset => (step'.act = "Publish" /\ step'.res.sup = "" =>
      /\ step'.res.off = (IF ex THEN top ELSE 0) + 1 /\ top' = step'.res.off)]_tvars
T_EpochStable == [][NotReset => ((ex /\ ex') => (ep' = ep /\ top' >= top))]_tvars
T_ClearKeepsPosition == [][NotReset => (step'.act \in {"RemoveHistory", "SweepExpire"} => (top' = top /\ ep' = ep /\ ex' = ex))]_tvars
T_SuppressedChangesNothing == [][NotReset => (step'.act = "Publish" /\ step'.res.sup # "" =>
      /\ <<ex, top, win, ep, ver, idem>>' = <<ex, top, win, ep, ver, idem>> /\ handed' = <<>>)]_tvars
=============================================================================
