SPECIFICATION Spec
CONSTANTS
  MaxTop = 3
  Limits <- SFLimits
  Maxes = {2}
  MaxConns = 0
  SinceOffs = {1}
  KeyMode = "full"
INVARIANTS FlightSequential FlightBound FlightMergedSame FlightMerges
CHECK_DEADLOCK FALSE
