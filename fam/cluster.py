"""C27, C28, C41 -- family `cluster`: node-level server-side operations issued on the node that holds the connection and
on another node (control channel), and surveys.  Specs: spec/Cluster/{Control,UnsubAll,UnsubAllSim,Survey}.tla;
harness: harness/cluster (real nodes joined by a harness centrifuge.Controller that forwards PublishControl bytes to
the peers' Node.HandleControl); overlay/cluster/shim.go: read-only accessors (ChannelContext fields, session id,
survey channel len/cap, node registry size) and a codec for control messages (internal/controlpb).

C28  UnsubAll.tla is the documented semantics of Node.Unsubscribe (doc comment: empty channel = all channels) with the
     property EmptyChannelUnsubscribesAll as an action property stated from the docs (Addressed) independently of the
     transcription (Selected/TornDown/Pushed); EmptyMeans="literal" (unsub_pinned.cfg, not run) transcribes the pinned
     code and TLC reports the property violated.  TLC exhaustive (quick 243 states / 24k transitions, thorough 729 /
     711k and 3 channels 2187 / 430k) + UnsubAllSim -simulate behaviours (250 / 3000, depth 13: subscribes client- and
     server-side, Node.Unsubscribe with user / client / session / label filter / all-users / custom code, half of them
     with channel "", called on node A or B with the four connections spread over both nodes) replayed on two real
     nodes; compared after a barrier: Client.Channels, presence, hub subscriber counts, OnUnsubscribe callbacks (code,
     ServerSide), leave publications at the Broker, unsubscribe pushes (channel, code), multiplicities included.
     Signatures emptych:<selected|other-connection>:<channels|callback|leave|presence|hub|push>:<local|remote>.
     FINDING (unchanged tree, all seeds): Node.Unsubscribe(user, "") leaves Channels() unchanged, runs no callback,
     publishes no leave, keeps presence and writes ONE unsubscribe push with channel "" -- locally and across nodes.
     Fix: spec/Cluster/c28.fix.diff (Client.Unsubscribe iterates the connection's channels when the name is empty);
     with it the check is green for seeds 1..5 (250/250 behaviours, ~170 distinct non-trivial; thorough 3000/3000, 1486) and
     `go test -run 'Unsubscribe|Hub|Survey' .` passes.
     Mutations (on top of the fix, scratch worktrees /tmp/cluster-m*), all caught (exit 1):
       m1 empty channel also reaches other users' connections (hub shard)      -> other-connection:channels
       m2 server-side subscriptions skipped                                    -> selected:channels
       m3 no unsubscribe push for the removed channels                         -> selected:push
       m4 off by one: third channel left                                        -> selected:channels
       m5 cross-node path ignores the empty channel (handleControl)            -> selected:channels:remote
       m6 custom unsubscribe code lost for the empty channel                   -> selected:callback / push
       m7 label filter not applied when the channel is empty                   -> other-connection:channels
       m8 presence not removed for server-side subscriptions                   -> selected:presence

     Second part, UnsubPhase.tla + harness mode c28p (added after seeded change C28-1 passed): "any set of
     subscriptions" includes subscriptions still being established when the unsubscribe-all arrives.  Phases held
     through public interfaces: cb (OnSubscribe callback unanswered), csbr / ssbr (client command / Client.Subscribe
     parked in Broker.Subscribe by cl.GateBroker).  Model: phase variable per (connection, channel), the call =
     snapshot of the connection's channels in every phase + per-channel wait (UnsubAllStart .. Release/Refuse ..
     UnsubAllDone); property UnsubscribeAllCoversEveryPhase (action property).  TLC exhaustive quick 10.7k states,
     thorough 376k; 150 / 3000 simulated behaviours replayed with Node.Unsubscribe(user, "") on A or B or
     Client.Unsubscribe("") directly; judged only when the model says the call is done: the call has returned and
     Channels(), hub counts, presence, callbacks, leaves, pushes are the per-channel reference's.  Signatures
     emptych:selected:<aspect>:<node|direct>[:in-progress], emptych:call-does-not-return.  /repo HEAD: green seeds
     1-3 and thorough (3000/3000, 2968 calls that had to wait); seeded C28-1 (empty-channel branch iterates
     c.Channels()): exit 1 with ...:in-progress signatures.  Map subscriptions still loading are not exercised (the
     per-channel reference waits 5 s for them and then disconnects).  Modelling note: refusing a held subscribe needs
     the channel's subscription lock (onSubscribeErrorGen -> removeSubscription), hence LockFree in Refuse.

     Third part, UnsubScale.tla + mode c28s (after seeded C28-4): the number n of matching connections of one user (all
     in one hub connection shard) is a parameter: every matching connection is worked on for every n (quick n in
     {8, 11, 13}, thorough up to 33), all four operations, per user and AllUsers, named and empty channel, called on A
     and on B, judged per connection.  Signature scale:<op>:<user|allusers>:<named|emptych>:connections-untouched.
     Seeded C28-4 (fan-out over 8 workers drops len%8 connections): exit 1, the four scale:unsubscribe:* signatures.
     Fourth part, UnsubTick.tla + mode c28t (after seeded C28-3): tick thread (check / AddPresence lands / compensation
     pass) racing the unsubscribe-all's per-channel delete + RemovePresence, both iteration orders arbitrary; invariant
     NoPresenceLeft (1874 states; Compensate="first" = tick_pinned.cfg violates it).  Driver on a real node (manual
     TimerScheduler, cl.GatePresence, OnUnsubscribe callback as the gate between two channels of the unsubscribe):
     for as many channels as the code's two iteration orders allow the tick's add lands after the removal (runs with
     >= 2 raced channels are required, 4 per check); monitor = NoPresenceLeft on the real presence manager.  The
     schedules are driver-generated (the code chooses the orders), not TLC behaviours.  Signature
     emptych:presence-readded-by-tick:<n>-channels.  Seeded C28-3: exit 1 (3 channels raced, 2 entries left).
     /repo HEAD e7a1e325: green seeds 1-3 with all four parts.

C27  Control.tla transcribes control.proto (Proto), pubSubscribe/pubUnsubscribe/pubDisconnect/pubRefresh (EncodeMap),
     handleControl (DecodeMap) and an abstract effect of an option set (hub selection + Client.Subscribe/subscribeCmd,
     Unsubscribe, Disconnect, Refresh); it STATES Lost(subscribe) = {RecoveryMode, AutoCacheRecover, HistoryMetaTTL,
     ServerTagsFilter}, Lost(other) = {} (ASSUME checked against the maps) and TLC checks RemoteIsLocalMinusLost,
     AgreeUnlessLost, CulpritsAreLost on every enumerated row (quick 872 rows: pairwise-complete + all subsets of the
     recovery options for subscribe, full 2^6 / 2^7 / 2^8 for unsubscribe / disconnect / refresh; thorough 5127 rows).
     Every row is executed on two real nodes with the connections on A: call on A vs call on B; the verdict is the
     difference of the REAL effects (subscribe push, ChannelContext, presence + info, join at the Broker, join and
     publication probes, Broker.History call shape and MetaTTL, Source; unsubscribe push + event; transport close +
     OnDisconnect; refresh push / Info / exp / expired close).  Attribution by re-running locally without one option
     (rule = Control.tla Culprits).  Signatures <op>:option:<Option>, subscribe:field:ServerTagsFilter,
     <op>:unattributed:<components>.
     FINDINGS (unchanged tree, need regenerated protobuf code => known findings, exact signatures):
       subscribe:option:RecoveryMode  subscribe:option:AutoCacheRecover  subscribe:option:HistoryMetaTTL
       subscribe:field:ServerTagsFilter   (no With... constructor; a custom SubscribeOption closure sets the field)
     Mutations: see MUTATIONS_C27 below.
     Extension (after the seeded changes C27-1 / C27-2 passed):
     * Control.tla: unsubscribe has the pseudo-option EmptyChannel (channel argument ""); the harness subscribes every
       connection to two channels, component `rest` = what became of the second (kept / gone); signature
       unsubscribe:emptych:remote-dropped when the remote call touches nobody.  (The first version excluded "" as
       "C28's domain"; C28 covers it with the four connections spread over both nodes, C27 now compares it local/remote.)
     * ControlX.tla + harness mode c27x: (1) the label filter as a parameter over the filter grammar: 13 leaves (eq neq
       in nin ex nex sw ew ct gt gte lt lte, values chosen so that every operand matters on the connections T {tier: pro,
       lvl: 10}, D {tier: free, lvl: 5}, U {} - ASSUME OperandMatters), not / and / or with two children and two
       three-level shapes (quick 146 trees, thorough 412) x 4 operations; reference: Dec(Enc(f)) = f
       (controlpbFilterFromProto / protoFilterFromControlpb copy all six fields) hence the same connections are touched;
       replay: call on A vs call on B, touched sets compared (IsSubscribed / refresh push / transport close), the tree
       found in the control message and the model's touched set are conformance checks; signature
       <op>:filter:<comparators>:remote-differs.  (2) phase rows: Node.Unsubscribe(user, ch | "") issued on A or B while
       the target's subscription is live / cb / csbr / ssbr (holds as in C28 phases); outcome after release compared
       local vs remote; signature unsubscribe:in-progress:<phase>:<named|emptych>:remote-differs.
       /repo HEAD: green seeds 1-3 and thorough.  Seeded C27-1 (Vals copied only for "in" on decode): exit 1,
       {subscribe,unsubscribe,refresh,disconnect}:filter:nin:remote-differs (88 rows).  Seeded C27-2 (handleControl
       drops an unsubscribe when NumSubscribers(channel) == 0): exit 1, unsubscribe:emptych:remote-dropped,
       unsubscribe:in-progress:cb:named:remote-differs and the four ...:emptych:remote-differs.

C41  Survey.tla: registry, response channel of capacity numNodes, eager collector, deadline, the window between the
     collector's end and the registry delete, sync / async / absent local answer, responses in any order with
     duplicates, late, foreign ids, unknown nodes, two overlapping surveys.  LocalSend="nonblocking" is the reference;
     "blocking" (survey_pinned.cfg, not run) transcribes the pinned code: TLC reports NoBlockedCallback violated.
     TLC exhaustive (quick 39k states, 2 nodes; thorough 15.8M states, 3 nodes + unknown responder, ~9 min) + simulated behaviours + two
     witness schedules (late local answer / late remote answer dropped) gate-replayed on a real node: OnSurvey handler
     parks the surveying goroutine, Controller sees the request, responses injected through Node.HandleControl under
     a watchdog, deadline = Done() of a harness context, ctx.Err() parks Survey between collector end and registry
     delete; shim reads len/cap of the response channel after every step.
     The registry is an explicit variable (each survey registers / unregisters ITS OWN id, answers routed by id):
     RegistryIsInFlight, RegistryEmptyAfterAll, HeardAreReturned (every node whose answer arrived while the survey
     waited is in what it returns), 3 overlapping surveys in thorough (survey_three.cfg, 236k states), witness
     WitOverlap (older survey returns while the newer one is in flight, then the newer one gets its last answer).
     A registry difference seen through the shim alone is not a verdict: the behaviour continues and observable
     consequences decide (overlap:newer-survey-loses-answers, no-return:*, result:*); without any it is drift
     (a leaked registry entry is not covered by the property text: drift).  Seeded C41-2 (cleanup deletes
     registry[n.surveyID]): exit 1, overlap:newer-survey-loses-answers + result:missing; /repo HEAD green seeds 1-3.
     FINDING (tree before c41.fix.diff): late-local-reply-blocks -- deadline passes, two late/duplicated remote answers fill the
     channel before the registry entry is deleted, then the asynchronous local SurveyCallback blocks forever (leaked
     application goroutine; no effect on the control reader or other surveys).  Fix: spec/Cluster/c41.fix.diff
     (non-blocking send in the local callback, as handleSurveyResponse already does).
     Mutations: see MUTATIONS_C41 below.

MUTATIONS_C27 (scratch worktrees /tmp/cluster-n*, from /repo HEAD; "caught" = exit 1 with a signature other than the
four known ones), all 12 caught:
  n1  pubSubscribe drops ChannelInfo                          -> subscribe:option:ChannelInfo
  n2  pubSubscribe drops ExpireAt                             -> subscribe:option:ExpireAt
  n3  pubSubscribe drops Session                              -> subscribe:option:Session
  n4  handleControl swaps client / session id (subscribe)     -> subscribe:unattributed:touched+... (options [Client])
  n5  remote disconnect loses the custom reason               -> disconnect:unattributed:custom (code 4100 / "force disconnect")
  n6  remote refresh ignores Expired                          -> refresh:option:Expired
  n7  pubUnsubscribe drops the label filter                   -> unsubscribe:option:LabelFilter
  n8  pubDisconnect drops the whitelist                       -> disconnect:option:Whitelist
  n9  handleControl builds PushJoinLeave from emit_join_leave -> subscribe:option:PushJoinLeave / EmitJoinLeave (pushjl)
  n10 pubRefresh drops all_users                              -> refresh:option:AllUsers
  n11 remote unsubscribe always uses the default code         -> unsubscribe:unattributed:custom
  n12 Source loses its lowest bit on decode                   -> subscribe:option:Source
  (first version of the harness returned on the wire-field drift before comparing local/remote and missed n1-n3, n7,
   n8, n10: the verdict is now computed first.)
MUTATIONS_C41 (on top of c41.fix.diff, /tmp/cluster-k*), all 7 caught (exit 1):
  k1 a duplicate answer counts as a new node (counter instead of len(results))   -> early-return
  k2 blocking send in handleSurveyResponse (default case removed)                 -> handle-control-blocks:dropped
  k3 results keyed by the receiving node's uid                                    -> result:missing
  k4 a response with an unknown id is handed to any in-flight survey              -> result:extra
  k5 deadline ignored while nothing was collected                                 -> no-return:deadline
  k6 off by one: complete with numNodes-1 answers                                 -> early-return
  k7 registry entry deleted before collecting                                     -> no-return:complete / result:missing
Not detectable with the chosen values (documented limit): a lost / altered epoch of RecoverSince.
"""
import re

from lib import tlaparse, vf


def c28(c):
    quick = c.tier == 'quick'
    for cfg in (['unsub_quick.cfg'] if quick else ['unsub_thorough.cfg', 'unsub_thorough3.cfg']):
        r = c.tlc_exhaustive('Cluster', 'UnsubAll', cfg, workers=4, timeout=3000)
        c.log('TLC exhaustive %s: %d distinct / %d generated, depth %d, %.0fs' % (cfg, r['distinct'], r['states'], r['depth'], r['wall_s']))
    s = c.tlc('Cluster', 'UnsubAllSim', 'unsub_sim.cfg', simulate=200 if quick else 3000, depth=13, timeout=2400)
    if not s['ok']:
        raise vf.Inconclusive('simulation failed: %s\n%s' % (s['error'], s['out'][-3000:]))
    behs = c.behaviours(s)
    c.log('TLC simulate: %d behaviours (%.0fs)' % (len(behs), s['wall_s']))
    binp = c.go_build('cluster')
    res = c.harness(binp, 'c28', {'pres_ch': ['a', 'c'], 'jl_ch': ['a', 'b'], 'behaviours': behs, 'workers': 4}, timeout=2400)
    c.absorb(res)
    c.log('replayed %d behaviours, %d completed, %d empty-channel calls conform, %d distinct non-trivial' % (
        res['executed'], res['completed'], res['counters'].get('emptych_steps', 0), res['nontrivial']))
    # second part: every PHASE of a subscription (in flight when the unsubscribe-all arrives), spec/Cluster/UnsubPhase.tla
    r = c.tlc_exhaustive('Cluster', 'UnsubPhase', 'phase_quick.cfg' if quick else 'phase_thorough.cfg', workers=4, timeout=3000)
    c.log('TLC exhaustive UnsubPhase: %d distinct / %d generated, depth %d, %.0fs' % (r['distinct'], r['states'], r['depth'], r['wall_s']))
    s = c.tlc('Cluster', 'UnsubPhase', 'phase_sim.cfg', simulate=150 if quick else 3000, depth=12, timeout=2400)
    if not s['ok']:
        raise vf.Inconclusive('simulation failed: %s\n%s' % (s['error'], s['out'][-3000:]))
    res2 = c.harness(binp, 'c28p', {'behaviours': c.behaviours(s), 'workers': 4}, timeout=2400)
    c.absorb(res2)
    c.log('phases: replayed %d behaviours, %d completed, %d unsubscribe-all calls judged, %d of them arrived while a subscribe was in flight' % (
        res2['executed'], res2['completed'], res2['counters'].get('judged_calls', 0), res2['counters'].get('waited_calls', 0)))
    # third part: the number of matching connections as a parameter, spec/Cluster/UnsubScale.tla
    r3 = c.tlc_exhaustive('Cluster', 'UnsubScale', 'scale_quick.cfg' if quick else 'scale_thorough.cfg', workers=2, dump=True, timeout=1200)
    srows = [w['row'] for w in c.dump_states(r3)]
    srows.sort(key=lambda w: (w['n'], w['op'], w['path'], w['emptych']))
    res3 = c.harness(binp, 'c28s', {'rows': srows, 'workers': 4}, timeout=2400)
    c.absorb(res3)
    c.log('scale: %d rows (operation x targeting x channel x number of matching connections %s), each on A and on B: %d complete' % (
        len(srows), sorted({w['n'] for w in srows}), res3['completed']))
    # fourth part: the unsubscribe-all overlapping a presence tick, spec/Cluster/UnsubTick.tla
    r4 = c.tlc_exhaustive('Cluster', 'UnsubTick', 'tick_quick.cfg', workers=2, timeout=1200)
    res4 = c.harness(binp, 'c28t', {}, timeout=1200)
    c.absorb(res4)
    c.log('presence tick: UnsubTick %d states; %d overlapping runs on a real node, raced channels per run: %s' % (
        r4['distinct'], res4['executed'], {k: v for k, v in res4['counters'].items() if k.startswith('raced_')}))
    c.cov['traces_validated_against_impl'] = res['completed'] + res2['completed'] + res3['completed'] + res4['completed']
    c.cov['evaluations'] = res['executed'] + res2['executed'] + 2 * res3['executed']
    c.cov['distinct_nontrivial'] = res['nontrivial'] + res2['nontrivial']
    c.cov['samples'] = (res['samples'] or []) + (res2['samples'] or [])[:1]
    c.cov['rule'] = ('behaviours of UnsubAllSim.tla (TLC -simulate): Subscribe / NodeUnsubscribe steps on four connections over two real nodes; '
                     'non-trivial = Node.Unsubscribe with an empty channel selecting at least one connection that holds a subscription and conforming to '
                     'the model, distinct by (arguments, subscriptions of the selected connections before the call); plus behaviours of UnsubPhase.tla '
                     '(subscribes held in the phases cb / csbr / ssbr while the unsubscribe-all arrives): non-trivial = completed behaviour with a call that '
                     'had to wait for a subscribe in flight, distinct by schedule')
    c.assumptions += ['JSON protocol, stream subscriptions (no map / shared-poll subscriptions); UnsubAll: no subscribe in flight during the call; UnsubPhase: no new subscribe starts while the call is blocked, map subscriptions still loading not exercised',
                      'the per-connection work of one Node.Unsubscribe call is compared at the quiescent point after the call (barrier on every connection)',
                      'presence / join-leave enabled per channel class (a,c presence; a,b join-leave)']


def c27(c):
    quick = c.tier == 'quick'
    cfg = 'control_quick.cfg' if quick else 'control_thorough.cfg'
    r = c.tlc_exhaustive('Cluster', 'Control', cfg, workers=4, dump=True, timeout=3000)
    rows = c.dump_states(r)
    rows.sort(key=lambda w: (w['op'], len(w['x']), sorted(w['x'])))
    nd = sum(1 for w in rows if w['differs'])
    c.log('TLC %s: %d rows (operation x option set), the transcribed projection loses an effect in %d of them, %.0fs' % (cfg, len(rows), nd, r['wall_s']))
    binp = c.go_build('cluster')
    res = c.harness(binp, 'c27', {'rows': rows, 'workers': 4}, timeout=3000)
    c.absorb(res)
    c.log('replayed %d rows on two real nodes (%d runs): %d agree, %d differ; %d rows conform to the model' % (
        res['executed'], res['extra'].get('runs', 0), res['counters'].get('agree', 0), res['counters'].get('differ', 0), res['completed']))
    # second part: the label filter over the whole filter grammar, and the remote unsubscribe of a subscription in progress
    r2 = c.tlc_exhaustive('Cluster', 'ControlX', 'controlx_quick.cfg' if quick else 'controlx_thorough.cfg', workers=4, dump=True, timeout=3000)
    xrows = [w['row'] for w in c.dump_states(r2)]
    xrows.sort(key=lambda w: (w['kind'], len(str(w.get('f', ''))), str(w.get('f', '')), w.get('op', ''), str(w.get('phase', '')), str(w.get('emptych', ''))))
    resx = c.harness(binp, 'c27x', {'rows': xrows, 'workers': 4}, timeout=3000)
    c.absorb(resx)
    c.log('ControlX: %d rows (%d filter trees x 4 operations, 8 phase rows), %.0fs; replayed: filters %d agree / %d differ, phases %d agree / %d differ; %d rows conform' % (
        len(xrows), sum(1 for w in xrows if w['kind'] == 'filter') // 4, r2['wall_s'], resx['counters'].get('filter_agree', 0), resx['counters'].get('filter_differ', 0),
        resx['counters'].get('phase_agree', 0), resx['counters'].get('phase_differ', 0), resx['completed']))
    if res['counters'].get('culprit_mismatch'):
        c.notes.append('attribution differs from the model in %d rows, e.g. %s' % (res['counters']['culprit_mismatch'], res['extra'].get('culprit_mismatch_example')))
    c.cov['traces_validated_against_impl'] = res['completed'] + resx['completed']
    c.cov['evaluations'] = res['extra'].get('runs', 0) + 2 * resx['executed']
    c.cov['distinct_nontrivial'] = res['nontrivial'] + resx['nontrivial']
    c.cov['samples'] = res['samples'] or []
    c.cov['exhaustive'] = True
    c.cov['rule'] = ('rows (operation, option set) enumerated by TLC from Control.tla (%s), each executed on two real nodes with the call issued on the '
                     'node holding the connections and on the other node; non-trivial = non-empty option set whose real local effect and wire fields '
                     'conform to the model' % cfg)
    c.assumptions += ['each option is absent or set to one distinguished non-default value (listed in Control.tla)',
                      'the epoch of RecoverSince is the stream\'s epoch: a lost or altered epoch is not observable with these values',
                      'Disconnect / Refresh(expired) close connections asynchronously: the harness waits for the closures the model predicts plus 15 ms',
                      'map / shared-poll subscription fields of SubscribeOptions are not exercised']


def _witness(c, cfg):
    """A schedule TLC produces as the counterexample of a negated scenario property."""
    r = c.tlc('Cluster', 'Survey', cfg, workers=4, expect_violation=True, timeout=1200)
    if r['ok'] or 'State 1:' not in r['out']:
        raise vf.Inconclusive('no witness from %s: %s' % (cfg, r['error']))
    txt = re.split(r'\n\d+ states generated', r['out'][r['out'].index('State 1:'):])[0]
    return tlaparse.parse_states_file(txt)


def c41(c):
    quick = c.tier == 'quick'
    for cfg in (['survey_quick.cfg'] if quick else ['survey_quick.cfg', 'survey_three.cfg', 'survey_thorough.cfg']):
        r = c.tlc_exhaustive('Cluster', 'Survey', cfg, workers=4, timeout=3000)
        c.log('TLC exhaustive %s: %d distinct / %d generated, depth %d, %.0fs' % (cfg, r['distinct'], r['states'], r['depth'], r['wall_s']))
    wits = [_witness(c, 'survey_wit1.cfg'), _witness(c, 'survey_wit2.cfg'), _witness(c, 'survey_wit3.cfg')]
    c.log('witness schedules: %s' % ' | '.join('; '.join(s['step']['act'] for s in w[1:]) for w in wits))
    binp = c.go_build('cluster')
    tot = {'executed': 0, 'completed': 0}
    for cfg, nodes, extra in (('survey_sim2.cfg', ['n2'], ['x']), ('survey_sim3.cfg', ['n2', 'n3'], [])):
        s = c.tlc('Cluster', 'Survey', cfg, simulate=120 if quick else 2500, depth=18, timeout=2400)
        if not s['ok']:
            raise vf.Inconclusive('simulation failed: %s\n%s' % (s['error'], s['out'][-3000:]))
        behs = c.behaviours(s)
        if nodes == ['n2']:
            behs = wits + behs
        res = c.harness(binp, 'c41', {'nodes': nodes, 'extra': extra, 'behaviours': behs, 'workers': 4}, timeout=2400)
        c.absorb(res)
        c.log('%s: %d behaviours replayed on a real node expecting %d answers, %d completed, %d distinct non-trivial' % (
            cfg, res['executed'], 1 + len(nodes), res['completed'], res['nontrivial']))
        tot['executed'] += res['executed']
        tot['completed'] += res['completed']
        c.cov['distinct_nontrivial'] += res['nontrivial']
        c.cov['samples'] += (res['samples'] or [])[:1]
    c.cov['traces_validated_against_impl'] = tot['completed']
    c.cov['evaluations'] = tot['executed']
    c.cov['rule'] = ('behaviours of Survey.tla (TLC -simulate, 2 and 3 expected nodes) plus two witness schedules, gate-replayed on a real node; '
                     'non-trivial = completed behaviour with at least one response delivered to a registered survey or a late local answer, distinct by schedule')
    c.assumptions += ['the collector goroutine is eager (a starved collector during >= numNodes deliveries is not modelled)',
                      'the deadline fires only while the collector waits with an empty channel',
                      'no response for a survey arrives before its request was published (Causal)',
                      '"expected nodes" = numNodes distinct responders, as the code counts them',
                      'Survey with toNodeID set is not exercised']


CHECKS = {'C27': c27, 'C28': c28, 'C41': c41}

_trusted = ' Trusted: TLC, lib/tlaparse.py, the harness comparison / rendering code, the overlay accessors (read-only).'
META = {
    'C27': dict(
        level='model_checking',
        text='Control.tla transcribes control.proto, the four pub* encoders and handleControl as option->field->option maps and an abstract effect of every option; TLC checks for every enumerated option set that the remote effect equals the local effect of the option set minus the options the spec states as lost. Every row is then executed on two real nodes joined by a harness Controller, once with the call on the node holding the connections and once on the other node, and the real effects are compared component by component (pushes, callbacks, presence, join, history-call shape, probes, ChannelContext); a difference is attributed to options by re-running locally without one option.',
        note='Bounds: every option absent or one distinguished value; subscribe: pairwise-complete option sets + all subsets of the six recovery-related options (quick 446 sets, thorough 4701), unsubscribe/disconnect/refresh: all option sets (128/128/256, unsubscribe with named and empty channel); four connections (target, same-user decoy, other user, anonymous); label filters: 146 (thorough 412) trees over all 13 comparators and and/or/not x 4 operations; remote unsubscribe in 4 subscription phases x named/empty channel.' + _trusted,
        technique='TLA+ transcription of the wire projection + TLC enumeration (function table via -dump); table replay on two real nodes, local vs remote',
        design_ref='DESIGN.md 4.3/4.4, 8 (C27), 10 item 7'),
    'C28': dict(
        level='model_checking',
        text='UnsubAll.tla models subscriptions of four connections on two nodes and Node.Unsubscribe with all targeting options; the documented post-state for an empty channel (no subscriptions left on every addressed connection, one callback / leave / presence removal / push per former channel, other connections untouched) is an action property TLC checks on every transition; simulated behaviours are replayed on two real nodes (call issued on either node) and Channels(), presence, hub counts, callbacks, leaves and pushes are compared after every step.',
        note='Bounds: exhaustive 2 channels (thorough also 3) x 4 connections x all option values; replay 250 (quick) / 3000 (thorough) behaviours of 13 steps over 3 channels.' + _trusted,
        technique='TLA+ spec + TLC exhaustive (action property); sequential replay of TLC behaviours on real nodes',
        design_ref='DESIGN.md 4.3, 8 (C28), 10 item 6'),
    'C41': dict(
        level='model_checking',
        text='Survey.tla models the survey registry, the bounded response channel, the collector, the deadline and the window before the registry delete, with responses in any order, duplicated, late, with foreign ids or from unknown nodes, for two overlapping surveys; TLC checks result integrity, termination conditions and absence of blocking exhaustively. Behaviours are gate-replayed on a real node through public interfaces only (OnSurvey handler, Controller, HandleControl, a harness context), with watchdogs on HandleControl and on the local callback and the channel occupancy read after every step.',
        note='Bounds: exhaustive 2 surveys, <=4-5 responses, 2 (thorough 3 + unknown responder) nodes; replay 2 x 120 (quick) / 2 x 2500 behaviours of <=18 steps + 2 witness schedules.' + _trusted,
        technique='TLA+ spec + TLC exhaustive; gate replay of TLC behaviours on a real node; watchdog monitors',
        design_ref='DESIGN.md 4.1, 8 (C41)'),
}
