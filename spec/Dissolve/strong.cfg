SPECIFICATION FairSpecR
CONSTANTS
  Workers = {1, 2}
  Jobs = {1, 2, 3}
  MaxFail = 2
  AllowClose = TRUE
PROPERTIES StrongLiveness
CHECK_DEADLOCK FALSE
