// C29: replays the (input, expected) table enumerated by TLC from spec/WsReader/WsReader.tla into a real
// internal/websocket Conn (function-table replay, DESIGN 4.4).
//
// Every row is an abstract frame sequence + connection parameters + the outcome of the conforming decoder.
// The harness serialises the frames to bytes with its OWN frame writer and deflate writer (nothing of the
// package under test is used to produce input or to parse output), feeds them through an in-memory net.Conn
// to a server-side and to a client-side Conn, reads with ReadMessage (whole stream available) and with
// NextReader + small reads (stream delivered in 1..3 byte chunks), parses what the Conn wrote back with its
// own frame parser and compares: delivered messages (type + bytes), pongs (payload), close frame (code),
// error class. A panic of the reader is a violation ("never panics").
package main

import (
	"bytes"
	"compress/flate"
	"encoding/binary"
	"encoding/json"
	"fmt"
	"io"
	"math/rand"
	"net"
	"runtime"
	"sort"
	"strings"
	"sync"
	"time"

	"github.com/centrifugal/centrifuge"

	"verifharness/vh"
)

const prop = "C29"

// ---------------------------------------------------------------------------------------------- rows

type frame struct {
	Op  string `json:"op"`
	Fin bool   `json:"fin"`
	Rsv string `json:"rsv"`
	Mok bool   `json:"mok"`
	Len string `json:"len"`
	Pc  string `json:"pc"`
	Cc  int    `json:"cc"`
}

type params struct {
	Comp bool `json:"comp"`
	Rl   int  `json:"rl"`
	Dl   int  `json:"dl"`
}

type input struct {
	Fr []frame `json:"fr"`
	Tr string  `json:"tr"`
	P  params  `json:"p"`
}

type msg struct {
	Typ   string `json:"typ"`
	Parts []int  `json:"parts"`
	Comp  bool   `json:"comp"`
}

type outcome struct {
	Kind      string   `json:"kind"`
	Alt       []string `json:"alt"`
	At        int      `json:"at"`
	Codes     []int    `json:"codes"`
	Rcode     int      `json:"rcode"`
	Why       []string `json:"why"`
	Delivered []msg    `json:"delivered"`
	Pongs     []int    `json:"pongs"`
}

type row struct {
	Inp input   `json:"inp"`
	Res outcome `json:"res"`
}

// ---------------------------------------------------------------------------------------------- own deflate writer

type bitw struct {
	b   []byte
	acc uint64
	n   uint
}

// bits writes the n low bits of v, least significant first (RFC 1951 3.1.1: data elements).
func (w *bitw) bits(v uint32, n uint) {
	w.acc |= uint64(v) << w.n
	w.n += n
	for w.n >= 8 {
		w.b = append(w.b, byte(w.acc))
		w.acc >>= 8
		w.n -= 8
	}
}

// huff writes an n-bit Huffman code, most significant bit first (RFC 1951 3.1.1: Huffman codes).
func (w *bitw) huff(code uint32, n uint) {
	var r uint32
	for i := uint(0); i < n; i++ {
		r = r<<1 | (code>>i)&1
	}
	w.bits(r, n)
}

func (w *bitw) flush() []byte {
	if w.n > 0 {
		w.b = append(w.b, byte(w.acc))
		w.acc, w.n = 0, 0
	}
	return w.b
}

// literal with the fixed Huffman code (RFC 1951 3.2.6): 0..143 -> 8 bits 00110000 + v
func (w *bitw) lit(v byte) { w.huff(0x30+uint32(v), 8) }

// end writes end-of-block (256 -> 0000000) and the 3 header bits of the empty stored block that ends a
// permessage-deflate message; its 00 00 ff ff is what RFC 7692 7.2.1 removes.
func (w *bitw) end() []byte {
	w.huff(0, 7)
	w.bits(0, 3)
	return w.flush()
}

// deflateMsg builds the payload of a compressed message of exactly n wire bytes for payload class pc and
// returns it with the plain text it inflates to (nil stream for n == 0; ok=false if the class has no valid stream).
func deflateMsg(pc string, n int, rng *rand.Rand) (stream, plain []byte, valid bool) {
	switch {
	case n == 0:
		return nil, nil, false
	case pc == "bad":
		s := bytes.Repeat([]byte{0xff}, n)
		s[0] = 0x07 // BFINAL=1, BTYPE=11 (reserved, RFC 1951 3.2.3)
		return s, nil, false
	case n == 1:
		return []byte{0x00}, []byte{}, true // RFC 7692 7.2.3.6: the empty message
	case pc == "bomb" && n >= 5:
		m := (8*n - 21) / 13
		q := (8*n - 21 - 13*m) / 8
		w := &bitw{}
		w.bits(0, 1)
		w.bits(1, 2)
		w.lit('a')
		for i := 0; i < m; i++ {
			w.huff(0xC5, 8) // length code 285 = 258, no extra bits
			w.huff(0, 5)    // distance code 0 = 1
		}
		for i := 0; i < q; i++ {
			w.lit('a')
		}
		return w.end(), bytes.Repeat([]byte{'a'}, 1+258*m+q), true
	default: // "lit"
		plain = asciiBytes(n-2, rng)
		w := &bitw{}
		w.bits(0, 1) // BFINAL=0
		w.bits(1, 2) // BTYPE=01 fixed Huffman
		for _, c := range plain {
			w.lit(c)
		}
		return w.end(), plain, true
	}
}

func asciiBytes(n int, rng *rand.Rand) []byte {
	b := make([]byte, n)
	for i := range b {
		b[i] = byte('a' + rng.Intn(26))
	}
	return b
}

// selfTest checks the deflate writer against the standard library inflater, with the RFC 7692 7.2.2 tail.
func selfTest() error {
	rng := rand.New(rand.NewSource(7))
	for _, pc := range []string{"lit", "bomb"} {
		for _, n := range []int{1, 2, 3, 5, 6, 10, 125, 126, 130, 131, 255, 65536, 65541} {
			s, plain, ok := deflateMsg(pc, n, rng)
			if !ok || len(s) != n {
				return fmt.Errorf("deflate writer: class %s n=%d produced %d bytes ok=%v", pc, n, len(s), ok)
			}
			r := flate.NewReader(io.MultiReader(bytes.NewReader(s), strings.NewReader("\x00\x00\xff\xff\x01\x00\x00\xff\xff")))
			got, err := io.ReadAll(r)
			if err != nil || !bytes.Equal(got, plain) {
				return fmt.Errorf("deflate writer: class %s n=%d does not inflate to its plain text (%d/%d bytes, err %v)", pc, n, len(got), len(plain), err)
			}
		}
	}
	s, _, _ := deflateMsg("bad", 5, rng)
	if _, err := io.ReadAll(flate.NewReader(bytes.NewReader(s))); err == nil {
		return fmt.Errorf("deflate writer: class bad inflates")
	}
	return nil
}

// ---------------------------------------------------------------------------------------------- own frame writer

func wireLen(f frame) int {
	if f.Op == "close" {
		return map[string]int{"empty": 0, "one": 1, "code": 2, "reason": 7, "max125": 125, "badutf8": 4, "long": 126}[f.Pc]
	}
	return map[string]int{"0": 0, "S": 5, "125": 125, "126": 126, "64k": 65536, "nm16": 5, "nm64": 5, "msb": 5, "max63": 5}[f.Len] // msb, max63: bytes actually sent after the header
}

func isData(f frame) bool { return f.Op == "text" || f.Op == "bin" || f.Op == "cont" }

type built struct {
	wire     []byte         // the byte stream (after truncation)
	payload  [][]byte       // per frame: the unmasked payload bytes
	plain    map[int][]byte // first frame index (1-based) of a compressed message -> its plain text
	group    map[int][]int  // first frame index -> data frame indices of the message as sent
	frameOff []int          // offset of each frame in wire (before truncation)
	hdrLen   []int
}

// serialise turns the abstract frames into bytes. rot selects the concrete representative of the
// abstract classes (which RSV2/3 bits, which reserved opcode, which invalid byte sequences).
func serialise(in input, isServer bool, rot int, rng *rand.Rand) *built {
	b := &built{plain: map[int][]byte{}, group: map[int][]int{}}
	n := len(in.Fr)
	b.payload = make([][]byte, n)
	// 1. message groups as sent: a text/binary frame and the continuation frames after it up to FIN
	open := 0
	for i, f := range in.Fr {
		switch f.Op {
		case "text", "bin":
			open = i + 1
			b.group[open] = []int{i + 1}
			if f.Fin {
				open = 0
			}
		case "cont":
			if open != 0 {
				b.group[open] = append(b.group[open], i+1)
				if f.Fin {
					open = 0
				}
			}
		}
	}
	// 2. payloads
	starts := make([]int, 0, len(b.group))
	for start := range b.group {
		starts = append(starts, start)
	}
	sort.Ints(starts)
	for _, start := range starts {
		idx := b.group[start]
		f0 := in.Fr[start-1]
		if f0.Rsv != "r1" {
			continue
		}
		total := 0
		for _, i := range idx {
			total += wireLen(in.Fr[i-1])
		}
		stream, plain, ok := deflateMsg(f0.Pc, total, rng)
		if ok {
			b.plain[start] = plain
		}
		off := 0
		for _, i := range idx {
			l := wireLen(in.Fr[i-1])
			b.payload[i-1] = stream[off : off+l]
			off += l
		}
	}
	for i, f := range in.Fr {
		if b.payload[i] != nil {
			continue
		}
		l := wireLen(f)
		if f.Op != "close" {
			b.payload[i] = asciiBytes(l, rng)
			continue
		}
		p := make([]byte, 0, l)
		if f.Pc == "one" {
			p = append(p, []byte{0x03, 0x00, 0xe8}[rot%3])
		} else if f.Pc != "empty" {
			p = binary.BigEndian.AppendUint16(p, uint16(f.Cc))
			switch f.Pc {
			case "reason":
				p = append(p, "bye!!"...)
			case "max125":
				p = append(p, bytes.Repeat([]byte{'r'}, 123)...)
			case "long":
				p = append(p, bytes.Repeat([]byte{'r'}, 124)...)
			case "badutf8":
				p = append(p, [][]byte{{0xff, 0xfe}, {0xc0, 0xaf}, {0xc3, 0x28}, {0x80, 'a'}}[rot%4]...)
			}
		}
		if len(p) != l {
			panic(fmt.Sprintf("close payload class %s: %d bytes, spec says %d", f.Pc, len(p), l))
		}
		b.payload[i] = p
	}
	// 3. frames
	for i, f := range in.Fr {
		b.frameOff = append(b.frameOff, len(b.wire))
		var b0 byte
		switch f.Op {
		case "cont":
			b0 = 0
		case "text":
			b0 = 1
		case "bin":
			b0 = 2
		case "close":
			b0 = 8
		case "ping":
			b0 = 9
		case "pong":
			b0 = 10
		case "rsvd":
			b0 = byte(3 + (rot+i)%5)
		case "rsvc":
			b0 = byte(11 + (rot+i)%5)
		}
		if f.Fin {
			b0 |= 0x80
		}
		switch f.Rsv {
		case "r1":
			b0 |= 0x40
		case "rx":
			b0 |= []byte{0x20, 0x10, 0x30}[(rot+i)%3]
		}
		masked := f.Mok == isServer // RFC 6455 5.1: frames to a server are masked, frames to a client are not
		var b1 byte
		if masked {
			b1 = 0x80
		}
		l := len(b.payload[i])
		hdr := []byte{b0, 0}
		enc := f.Len
		if f.Op == "close" {
			enc = "7"
			if l > 125 {
				enc = "126"
			}
		}
		switch enc {
		case "126", "nm16":
			b1 |= 126
			hdr = binary.BigEndian.AppendUint16(hdr, uint16(l))
		case "64k", "nm64":
			b1 |= 127
			hdr = binary.BigEndian.AppendUint64(hdr, uint64(l))
		case "msb":
			b1 |= 127
			hdr = binary.BigEndian.AppendUint64(hdr, uint64(l)|1<<63)
		case "max63": // announces 2^63-1 bytes (msb clear); always the last frame: the stream ends after l payload bytes
			b1 |= 127
			hdr = binary.BigEndian.AppendUint64(hdr, 1<<63-1)
		default:
			b1 |= byte(l)
		}
		hdr[1] = b1
		pl := append([]byte(nil), b.payload[i]...)
		if masked {
			var key [4]byte
			rng.Read(key[:])
			hdr = append(hdr, key[:]...)
			for j := range pl {
				pl[j] ^= key[j&3]
			}
		}
		b.hdrLen = append(b.hdrLen, len(hdr))
		b.wire = append(b.wire, hdr...)
		b.wire = append(b.wire, pl...)
	}
	// 4. truncation of the last frame
	if in.Tr != "none" && n > 0 {
		off, hl := b.frameOff[n-1], b.hdrLen[n-1]
		switch in.Tr {
		case "hdr":
			b.wire = b.wire[:off+1+rot%(hl-1)] // 1 .. hl-1 bytes of the header
		case "pay":
			b.wire = b.wire[:off+hl+len(b.payload[n-1])/2]
		}
	}
	return b
}

// ---------------------------------------------------------------------------------------------- in-memory net.Conn

type memConn struct {
	in    []byte
	pos   int
	chunk int // 0: everything available at once; k: 1..k bytes per Read
	rng   *rand.Rand
	out   bytes.Buffer
}

func (m *memConn) Read(p []byte) (int, error) {
	if m.pos >= len(m.in) {
		return 0, io.EOF
	}
	n := len(m.in) - m.pos
	if n > len(p) {
		n = len(p)
	}
	if m.chunk > 0 {
		if k := 1 + m.rng.Intn(m.chunk); n > k {
			n = k
		}
	}
	copy(p, m.in[m.pos:m.pos+n])
	m.pos += n
	return n, nil
}
func (m *memConn) Write(p []byte) (int, error)      { return m.out.Write(p) }
func (m *memConn) Close() error                     { return nil }
func (m *memConn) LocalAddr() net.Addr              { return addr("local") }
func (m *memConn) RemoteAddr() net.Addr             { return addr("remote") }
func (m *memConn) SetDeadline(time.Time) error      { return nil }
func (m *memConn) SetReadDeadline(time.Time) error  { return nil }
func (m *memConn) SetWriteDeadline(time.Time) error { return nil }

type addr string

func (a addr) Network() string { return "mem" }
func (a addr) String() string  { return string(a) }

// ---------------------------------------------------------------------------------------------- observation

type gotMsg struct {
	typ  int
	data []byte
}

type wframe struct {
	op      int
	payload []byte
}

type observed struct {
	msgs    []gotMsg
	class   string // error class of the terminal error (shim)
	code    int
	errText string
	written []wframe
	badW    string // malformed output
	panicV  any
}

// parseWritten parses what the Conn wrote with an independent parser; frames a reader may write are
// final, unfragmented control frames without RSV bits, masked iff the Conn is a client (RFC 6455 5.1, 5.5).
func parseWritten(b []byte, isServer bool) ([]wframe, string) {
	var out []wframe
	for len(b) > 0 {
		if len(b) < 2 {
			return out, "truncated frame header written"
		}
		b0, b1 := b[0], b[1]
		op := int(b0 & 0x0f)
		l := int(b1 & 0x7f)
		if b0&0x80 == 0 || b0&0x70 != 0 {
			return out, fmt.Sprintf("written frame has FIN clear or RSV set: %#x", b0)
		}
		if op != 8 && op != 9 && op != 10 {
			return out, fmt.Sprintf("written frame has opcode %d", op)
		}
		if l > 125 {
			return out, "written control frame longer than 125"
		}
		masked := b1&0x80 != 0
		if masked == isServer {
			return out, fmt.Sprintf("written frame masked=%v by a conn with isServer=%v", masked, isServer)
		}
		b = b[2:]
		var key []byte
		if masked {
			if len(b) < 4 {
				return out, "truncated mask key written"
			}
			key, b = b[:4], b[4:]
		}
		if len(b) < l {
			return out, "truncated payload written"
		}
		p := append([]byte(nil), b[:l]...)
		for i := range p {
			if masked {
				p[i] ^= key[i&3]
			}
		}
		b = b[l:]
		out = append(out, wframe{op, p})
	}
	return out, ""
}

func runConn(in input, wire []byte, isServer bool, mode int, nframes int, rng *rand.Rand) (o observed) {
	mc := &memConn{in: wire, rng: rng}
	readBuf := 1024
	if mode == 1 {
		mc.chunk = 3
		readBuf = 125
	}
	defer func() {
		if p := recover(); p != nil {
			o.panicV = p
		}
		o.written, o.badW = parseWritten(mc.out.Bytes(), isServer)
	}()
	c := centrifuge.VerifNewWSConn(mc, isServer, readBuf, 512, in.P.Comp, int64(in.P.Rl), int64(in.P.Dl))
	var err error
	for i := 0; i < nframes+2; i++ {
		var mt int
		var p []byte
		if mode == 0 {
			mt, p, err = c.ReadMessage()
		} else {
			var r io.Reader
			mt, r, err = c.NextReader()
			if err == nil {
				buf := make([]byte, 7)
				for {
					var n int
					n, err = r.Read(buf)
					p = append(p, buf[:n]...)
					if err != nil {
						break
					}
				}
				if err == io.EOF {
					err = nil
				}
			}
		}
		if err != nil {
			break
		}
		o.msgs = append(o.msgs, gotMsg{mt, p})
	}
	if err == nil {
		o.class, o.errText = "none", "reader still returns messages after the end of the stream"
		return
	}
	o.class, o.code = centrifuge.VerifWSErrClass(err)
	o.errText = err.Error()
	return
}

// ---------------------------------------------------------------------------------------------- comparison

func has(l []string, s string) bool {
	for _, x := range l {
		if x == s {
			return true
		}
	}
	return false
}

func hasInt(l []int, v int) bool {
	for _, x := range l {
		if x == v {
			return true
		}
	}
	return false
}

// RFC 6455 7.4: codes an endpoint may put into a Close frame
func sendableCode(c int) bool {
	switch c {
	case 1000, 1001, 1002, 1003, 1007, 1008, 1009, 1010, 1011, 1012, 1013, 1014:
		return true
	}
	return c >= 3000 && c <= 4999
}

type verdict struct {
	cat  string // "" ok | category of the mismatch
	what string
	soft bool // disagreement with the model outside of what the RFCs fix: drift
}

func compare(r row, b *built, o observed) verdict {
	exp := r.Res
	if o.panicV != nil {
		return verdict{cat: "panic", what: fmt.Sprintf("reader panicked: %v", o.panicV)}
	}
	if o.badW != "" {
		return verdict{cat: "bad-write", what: o.badW}
	}
	// what was written: pongs, then at most one close, nothing after it
	var pongs [][]byte
	closeCode, nclose := -1, 0 // -1 no close frame, 0 close frame without body
	for _, w := range o.written {
		if nclose > 0 {
			return verdict{cat: "bad-write", what: "frame written after a Close frame (RFC 6455 5.5.1)"}
		}
		switch w.op {
		case 10:
			pongs = append(pongs, w.payload)
		case 8:
			nclose++
			switch {
			case len(w.payload) == 0:
				closeCode = 0
			case len(w.payload) == 1:
				return verdict{cat: "bad-write", what: "Close frame with a 1-byte body written"}
			default:
				closeCode = int(binary.BigEndian.Uint16(w.payload))
				if !sendableCode(closeCode) {
					return verdict{cat: "bad-write", what: fmt.Sprintf("Close frame with status %d written (RFC 6455 7.4.1: must not be sent)", closeCode)}
				}
			}
		default:
			return verdict{cat: "bad-write", what: "reader wrote a ping"}
		}
	}
	// observed outcome kind
	kind := o.class
	switch o.class {
	case "close":
		kind = "closed"
	case "other":
		if closeCode == 1002 || closeCode == 1007 {
			kind = "proto"
		}
	}
	prefixOnly := exp.Kind == "unspec" || (kind != exp.Kind && has(exp.Alt, "unspec"))
	// 1. delivered messages
	for i, m := range exp.Delivered {
		var want []byte
		if m.Comp {
			pl, ok := b.plain[m.Parts[0]]
			if !ok || fmt.Sprint(b.group[m.Parts[0]]) != fmt.Sprint(m.Parts) {
				return verdict{cat: "harness", what: fmt.Sprintf("model delivers compressed message %v the harness did not build (%v)", m.Parts, b.group[m.Parts[0]]), soft: true}
			}
			want = pl
		} else {
			for _, p := range m.Parts {
				want = append(want, b.payload[p-1]...)
			}
		}
		if i >= len(o.msgs) {
			return verdict{cat: "delivered", what: fmt.Sprintf("message %d (frames %v, %d bytes) not delivered: got %d messages then %q", i+1, m.Parts, len(want), len(o.msgs), o.errText)}
		}
		g := o.msgs[i]
		wt := 1
		if m.Typ == "bin" {
			wt = 2
		}
		if g.typ != wt {
			return verdict{cat: "delivered", what: fmt.Sprintf("message %d delivered with type %d, expected %d", i+1, g.typ, wt)}
		}
		if !bytes.Equal(g.data, want) {
			return verdict{cat: "delivered", what: fmt.Sprintf("message %d (frames %v): %d bytes delivered, expected %d bytes; content differs", i+1, m.Parts, len(g.data), len(want))}
		}
	}
	if len(o.msgs) > len(exp.Delivered) && !prefixOnly {
		// the decoder stopped at frame exp.At: nothing may be delivered from there on
		return verdict{cat: "kind", what: fmt.Sprintf("%d messages delivered, a conforming decoder delivers %d and stops at frame %d with %s%v; reader ended with %q",
			len(o.msgs), len(exp.Delivered), exp.At, exp.Kind, exp.Why, o.errText)}
	}
	// 2. pongs echo the pings, in order
	for i, ref := range exp.Pongs {
		if i >= len(pongs) {
			return verdict{cat: "pongs", what: fmt.Sprintf("ping in frame %d not answered (RFC 6455 5.5.2)", ref)}
		}
		if !bytes.Equal(pongs[i], b.payload[ref-1]) {
			return verdict{cat: "pongs", what: fmt.Sprintf("pong %d does not echo the ping payload of frame %d (RFC 6455 5.5.3)", i+1, ref)}
		}
	}
	if len(pongs) > len(exp.Pongs) && !prefixOnly {
		return verdict{cat: "kind", what: fmt.Sprintf("%d pongs written, a conforming decoder writes %d and stops at frame %d with %s%v", len(pongs), len(exp.Pongs), exp.At, exp.Kind, exp.Why)}
	}
	if prefixOnly {
		return verdict{}
	}
	// 3. outcome kind
	if kind != exp.Kind && !has(exp.Alt, kind) {
		return verdict{cat: "kind", what: fmt.Sprintf("reader ended with %s (%q, close frame %d), a conforming decoder ends at frame %d with %s%v",
			kind, o.errText, closeCode, exp.At, exp.Kind, exp.Why)}
	}
	// 4. close frame
	switch kind {
	case "proto":
		allowed := []int{1002}
		if kind == exp.Kind {
			allowed = exp.Codes
		}
		if !hasInt(allowed, closeCode) {
			return verdict{cat: "close-frame", what: fmt.Sprintf("protocol error %v answered with close frame %d, expected %v", exp.Why, closeCode, allowed)}
		}
	case "toobig":
		ok := closeCode == 1009 || (has(exp.Why, "len-msb") && closeCode == 1002)
		if !ok {
			return verdict{cat: "close-frame", what: fmt.Sprintf("message too big (%v) answered with close frame %d (-1 = none), expected 1009", exp.Why, closeCode)}
		}
	case "closed":
		if o.code != exp.Rcode {
			return verdict{cat: "close-code", what: fmt.Sprintf("received close reported as %d, expected %d", o.code, exp.Rcode)}
		}
		if closeCode == -1 {
			return verdict{cat: "close-frame", what: "received Close not answered with a Close frame (RFC 6455 5.5.1)"}
		}
		echo := exp.Rcode
		if echo == 1005 {
			echo = 0
		}
		if closeCode != echo {
			return verdict{cat: "close-echo", what: fmt.Sprintf("Close %d answered with Close %d (RFC 6455 5.5.1: typically echoes)", exp.Rcode, closeCode), soft: true}
		}
	case "eof":
		if closeCode != -1 {
			return verdict{cat: "close-on-eof", what: fmt.Sprintf("Close %d written although the stream just ended", closeCode), soft: true}
		}
	case "baddata":
		if closeCode != -1 && closeCode != 1007 && closeCode != 1002 {
			return verdict{cat: "close-frame", what: fmt.Sprintf("invalid deflate data answered with close frame %d", closeCode), soft: true}
		}
	default:
		return verdict{cat: "kind", what: fmt.Sprintf("reader ended with unclassified error %q and close frame %d", o.errText, closeCode)}
	}
	return verdict{}
}

// ---------------------------------------------------------------------------------------------- modes

func describe(r row, b *built, isServer bool, mode int) string {
	var fr []string
	for _, f := range r.Inp.Fr {
		s := f.Op
		if f.Fin {
			s += "+fin"
		}
		if f.Rsv != "none" {
			s += "+" + f.Rsv
		}
		if !f.Mok {
			s += "+badmask"
		}
		if f.Op == "close" {
			s += fmt.Sprintf("(%s %d)", f.Pc, f.Cc)
		} else {
			s += "(" + f.Len
			if f.Pc != "plain" {
				s += " " + f.Pc
			}
			s += ")"
		}
		fr = append(fr, s)
	}
	side := "client"
	if isServer {
		side = "server"
	}
	w := b.wire
	hexs := fmt.Sprintf("% x", w)
	if len(w) > 48 {
		hexs = fmt.Sprintf("% x ... (%d bytes)", w[:48], len(w))
	}
	return fmt.Sprintf("frames [%s] trunc=%s comp=%v readLimit=%d decompressedLimit=%d on a %s-side Conn (read mode %d); wire bytes: %s",
		strings.Join(fr, ", "), r.Inp.Tr, r.Inp.P.Comp, r.Inp.P.Rl, r.Inp.P.Dl, side, mode, hexs)
}

func table(in json.RawMessage, res *vh.Result) error {
	if err := selfTest(); err != nil {
		return err
	}
	var rows []row
	if err := json.Unmarshal(in, &rows); err != nil {
		return err
	}
	seed := vh.Seed()
	workers := runtime.GOMAXPROCS(0)
	if workers > 4 {
		workers = 4
	}
	var wg sync.WaitGroup
	var mu sync.Mutex
	kinds := map[string]int{}
	// one finding per signature: the one with the smallest row index (deterministic for a given seed)
	type finding struct {
		ri     int
		soft   bool
		sig    string
		what   string
		replay any
	}
	found := map[string]finding{}
	keep := func(ri int, soft bool, sig, what string, replay any) {
		mu.Lock()
		defer mu.Unlock()
		k := fmt.Sprint(soft, sig)
		if f, ok := found[k]; !ok || ri < f.ri {
			found[k] = finding{ri, soft, sig, what, replay}
		}
	}
	for w := 0; w < workers; w++ {
		wg.Add(1)
		go func(w int) {
			defer wg.Done()
			local := map[string]int{}
			for ri := w; ri < len(rows); ri += workers {
				r := rows[ri]
				completed := 0
				for _, isServer := range []bool{true, false} {
					for mode := 0; mode < 2; mode++ {
						rot := ri + int(seed) + mode
						rng := rand.New(rand.NewSource(seed*1000003 + int64(ri)*7 + int64(mode)))
						b := serialise(r.Inp, isServer, rot, rng)
						o := runConn(r.Inp, b.wire, isServer, mode, len(r.Inp.Fr), rng)
						v := compare(r, b, o)
						local["runs"]++
						if v.cat == "" {
							completed++
							continue
						}
						what := v.what + " -- " + describe(r, b, isServer, mode)
						sig := r.Res.Kind
						if len(r.Res.Why) > 0 {
							why := append([]string(nil), r.Res.Why...)
							sort.Strings(why)
							sig += "[" + strings.Join(why, ",") + "]"
						}
						sig += ":" + v.cat
						replay := map[string]any{"row": r, "isServer": isServer, "mode": mode, "seed": seed, "row_index": ri, "wire_hex": fmt.Sprintf("%x", b.wire[:min(len(b.wire), 256)])}
						keep(ri, v.soft, sig, what, replay)
					}
				}
				// "for any byte stream ... never panics": the same stream with one bit of the first 16 bytes
				// flipped; no expectation from the model, only: no panic, the reader terminates with an error,
				// what it wrote are well-formed control frames
				if ri%4 == 0 && len(r.Inp.Fr) > 0 {
					rng := rand.New(rand.NewSource(seed*7919 + int64(ri)))
					isServer := ri%8 == 0
					b := serialise(r.Inp, isServer, ri, rng)
					if len(b.wire) > 0 {
						k := rng.Intn(min(len(b.wire), 16))
						b.wire[k] ^= 1 << uint(rng.Intn(8))
						o := runConn(r.Inp, b.wire, isServer, ri/4%2, len(r.Inp.Fr), rng)
						local["noise_runs"]++
						bad := ""
						switch {
						case o.panicV != nil:
							bad = fmt.Sprintf("reader panicked: %v", o.panicV)
						case o.class == "none":
							bad = o.errText
						case o.badW != "":
							bad = o.badW
						}
						if bad != "" {
							sig := "noise:bad-write"
							if o.panicV != nil {
								sig = "noise:panic"
							}
							keep(ri, false, sig, bad+" -- bit-flipped stream "+fmt.Sprintf("% x", b.wire[:min(len(b.wire), 64)])+" derived from "+describe(r, b, isServer, ri/4%2),
								map[string]any{"row": r, "isServer": isServer, "wire_hex": fmt.Sprintf("%x", b.wire[:min(len(b.wire), 256)])})
						}
					}
				}
				local["exp:"+r.Res.Kind]++
				if len(r.Res.Alt) > 0 {
					local["rows_with_alternatives"]++
				}
				if len(r.Inp.Fr) > 0 {
					res.Distinct(fmt.Sprint(ri))
				}
				if ri%9973 == 0 {
					res.Sample(r)
				}
				c := 0
				if completed == 4 {
					c = 1
				}
				res.Done(1, c)
			}
			mu.Lock()
			for k, v := range local {
				kinds[k] += v
			}
			mu.Unlock()
		}(w)
	}
	wg.Wait()
	keys := make([]string, 0, len(found))
	for k := range found {
		keys = append(keys, k)
	}
	sort.Slice(keys, func(i, j int) bool { return found[keys[i]].ri < found[keys[j]].ri })
	for _, k := range keys {
		if f := found[k]; f.soft {
			res.Drift(prop, f.sig+": "+f.what, f.replay)
		} else {
			res.Violate(prop, f.sig, f.what, f.replay)
		}
	}
	for k, v := range kinds {
		res.Count(k, v)
	}
	return nil
}

func main() { vh.Main(map[string]vh.Mode{"table": table}) }
