package main

import (
	"encoding/json"

	"verifharness/vh"
)

func keysMode(in json.RawMessage, res *vh.Result) error  { return nil }
func dumptags(in json.RawMessage, res *vh.Result) error  { return nil }
func partition(in json.RawMessage, res *vh.Result) error { return nil }
