---------------------------- MODULE WsHandshake ----------------------------
(* C31  WebSocket close codes and handshake follow the RFC  -- the three
   decision TABLES (the first-close-wins register is WsCloseReg.tla).

   kind = "upgrade"   Upgrader.Upgrade (internal/websocket/server.go, util.go):
                      request / configuration classes -> response
   kind = "closecode" isValidReceivedCloseCode (conn.go): code -> accept
   kind = "reason"    close reason UTF-8 classes -> accept   (advanceFrame)
   kind = "tclose"    websocketTransport.Close(disconnect) (handler_websocket.go):
                      (code, len(reason)) -> close frame or none

   Init enumerates the inputs, `res` is the result of the code-shaped decision
   cascade (the ORDER of the checks and the statuses are those of server.go),
   Next == UNCHANGED.  TLC dumps every row and the Go harness replays it into
   the real code.  The property is stated separately from the cascade, from
   the RFC text only:
     RFC 6455 4.2.1  what a valid client opening handshake consists of
     RFC 6455 4.2.2  what the server answers (5.1-5.4 accept key, /subprotocol/
                     one of the client's, /extensions/ only offered ones;
                     /version/ mismatch: error + Sec-WebSocket-Version; origin:
                     "appropriate HTTP error code (e.g. 403 Forbidden)")
     RFC 6455 4.4    version negotiation, 9.1 extension negotiation, 10.2 origin
     RFC 2616 2.1 / RFC 7230 7  #rule lists: null elements are allowed
     RFC 6455 7.4.1 / 7.4.2  close code ranges, 5.5 control frames <= 125 bytes
     RFC 8441 4/5    extended CONNECT with :protocol = websocket
   The header CLASSES are abstract; what each class means is defined here by
   the RFC grammar, the harness renders a class into concrete header lines.  *)
EXTENDS Integers, Sequences, FiniteSets

CONSTANTS Full     \* TRUE: larger cross products (thorough tier)

VARIABLES kind, row, res
vars == <<kind, row, res>>

---------------------------------------------------------------------------
(* --- request classes ---------------------------------------------------- *)

\* Connection header: 1#token, case-insensitive (RFC 6455 4.2.1 item 4: "includes the "Upgrade" token")
ConnClasses == {"Upgrade", "upgrade", "UPGRADE", "keep-alive, Upgrade", "Upgrade ,keep-alive", "two-lines",
                "keep-alive,, Upgrade",                 \* null list element (RFC 2616 2.1 / RFC 7230 7): still a list containing Upgrade
                "absent", "keep-alive", "upgradex", "x-upgrade"}
ConnHasUpgrade(c) == c \in {"Upgrade", "upgrade", "UPGRADE", "keep-alive, Upgrade", "Upgrade ,keep-alive", "two-lines", "keep-alive,, Upgrade"}

\* Upgrade header (4.2.1 item 3: "containing the value "websocket", treated as an ASCII case-insensitive value")
UpgClasses == {"websocket", "WebSocket", "WEBSOCKET", "h2c, websocket", "absent", "h2c", "websocketx"}
UpgHasWebsocket(u) == u \in {"websocket", "WebSocket", "WEBSOCKET", "h2c, websocket"}

\* Sec-WebSocket-Version (4.2.1 item 6: "with a value of 13")
VerClasses == {"13", "8", "14", "absent"}

\* Sec-WebSocket-Key (4.2.1 item 5: base64 value that decodes to 16 bytes)
KeyClasses == {"random16", "rfc-sample", "absent", "empty", "b64-15bytes", "b64-17bytes", "b64-18bytes", "badchars24", "raw16"}
KeyValid(k) == k \in {"random16", "rfc-sample"}

MethodClasses == {"GET", "POST", "HEAD"}

\* Origin (4.2.1 item 8, 10.2) x Upgrader.CheckOrigin: "default" = nil (checkSameOrigin), custom allow / deny
OriginClasses == {"absent", "same", "same-upper", "other", "other-port", "null", "unparsable"}
CheckClasses == {"default", "allow", "deny"}
OriginPass(o, chk) ==
  CASE chk = "allow" -> TRUE
    [] chk = "deny"  -> FALSE
    [] OTHER -> o \in {"absent", "same", "same-upper"}     \* absent or scheme://host equal to Host (ASCII case folded)

\* Sec-WebSocket-Protocol offered by the client, in the client's order
OfferClasses == {"absent", "a", "b", "a,b", "b,a", "x", "x,b", "a , b"}
Offered(o) ==
  CASE o = "absent" -> <<>> [] o = "a" -> <<"a">> [] o = "b" -> <<"b">> [] o = "a,b" -> <<"a", "b">>
    [] o = "b,a" -> <<"b", "a">> [] o = "x" -> <<"x">> [] o = "x,b" -> <<"x", "b">> [] o = "a , b" -> <<"a", "b">>
\* Upgrader.Subprotocols
CfgClasses == {"nil", "ab", "b", "empty"}
Configured(c) == CASE c = "nil" -> <<>> [] c = "ab" -> <<"a", "b">> [] c = "b" -> <<"b">> [] c = "empty" -> <<>>
Range(s) == {s[i] : i \in 1..Len(s)}

\* Sec-WebSocket-Extensions offered (9.1; RFC 7692 5: an offer is the extension name plus parameters)
ExtClasses == {"absent", "permessage-deflate", "permessage-deflate; client_max_window_bits",
               "permessage-deflate; server_no_context_takeover; client_no_context_takeover",
               "x-webkit-deflate-frame", "x-webkit-deflate-frame, permessage-deflate", "two-lines", "permessage-deflate junk"}
OffersPmd(e) == e \in {"permessage-deflate", "permessage-deflate; client_max_window_bits",
                       "permessage-deflate; server_no_context_takeover; client_no_context_takeover",
                       "x-webkit-deflate-frame, permessage-deflate", "two-lines"}

---------------------------------------------------------------------------
(* --- the code: Upgrader.Upgrade as a decision cascade --------------------- *)

Reject(st, why) == [status |-> st, why |-> why, accept |-> "", proto |-> "", pmd |-> FALSE, verhdr |-> TRUE]

\* selectSubprotocol: Subprotocols # nil: the first protocol IN THE CLIENT'S LIST that the server supports;
\* Subprotocols = nil: whatever the application put into responseHeader
RECURSIVE FirstIn(_, _)
FirstIn(off, cfgset) == IF off = <<>> THEN "" ELSE IF Head(off) \in cfgset THEN Head(off) ELSE FirstIn(Tail(off), cfgset)
Select(r) == IF r.cfg # "nil" THEN FirstIn(Offered(r.offered), Range(Configured(r.cfg))) ELSE r.respProto

Negotiate(r, okStatus, acc) ==
  IF r.respExt THEN Reject(500, "response-header-extensions")
  ELSE IF ~OriginPass(r.origin, r.check) THEN Reject(403, "origin")
  ELSE [status |-> okStatus, why |-> "", accept |-> acc, proto |-> Select(r), pmd |-> (r.comp /\ OffersPmd(r.ext)), verhdr |-> FALSE]

Upgrade(r) ==
  IF r.proto = "h1" THEN
    IF ~ConnHasUpgrade(r.conn) THEN Reject(400, "connection")
    ELSE IF ~UpgHasWebsocket(r.upg) THEN Reject(400, "upgrade")
    ELSE IF r.method # "GET" THEN Reject(405, "method")
    ELSE IF r.ver # "13" THEN Reject(400, "version")
    ELSE IF ~KeyValid(r.key) THEN Reject(400, "key")
    ELSE Negotiate(r, 101, "b64(sha1(key+GUID))")
  ELSE \* HTTP/2 extended CONNECT (RFC 8441): no key / accept
    IF r.h2proto # "websocket" THEN Reject(400, ":protocol")
    ELSE IF r.method # "CONNECT" THEN Reject(405, "method")
    ELSE IF r.ver # "13" THEN Reject(400, "version")
    ELSE Negotiate(r, 200, "")

---------------------------------------------------------------------------
(* --- rows ----------------------------------------------------------------- *)

Base == [proto |-> "h1", method |-> "GET", conn |-> "Upgrade", upg |-> "websocket", ver |-> "13", key |-> "random16",
         origin |-> "absent", check |-> "default", offered |-> "absent", cfg |-> "ab", ext |-> "absent", comp |-> FALSE,
         respExt |-> FALSE, respProto |-> "", h2proto |-> ""]

B2N(b) == IF b THEN 1 ELSE 0
\* A: the validity part of the handshake.  Full: the whole cross product; otherwise every row in which at most
\*    two of the five parts deviate from the valid base request (enough to pin down the ORDER of the checks)
DevA(r) == B2N(r.method # "GET") + B2N(r.conn # "Upgrade") + B2N(r.upg # "websocket") + B2N(r.ver # "13") + B2N(r.key # "random16")
\* (RowsA is enumerated directly in Init)
\* B: a valid handshake, the negotiation part
RowsBFull == {[Base EXCEPT !.origin = o, !.check = chk, !.offered = off, !.cfg = cf, !.ext = e, !.comp = cp, !.respExt = rx,
                           !.respProto = rp, !.key = k, !.conn = c] :
                o \in OriginClasses, chk \in CheckClasses, off \in OfferClasses, cf \in CfgClasses, e \in ExtClasses,
                cp \in BOOLEAN, rx \in BOOLEAN, rp \in {"", "a"}, k \in {"random16", "rfc-sample"}, c \in {"keep-alive, Upgrade"}}
RowsBQuick ==
  LET V == [Base EXCEPT !.key = "rfc-sample", !.conn = "keep-alive, Upgrade"] IN
       {[V EXCEPT !.origin = o, !.check = chk, !.offered = off, !.ext = e, !.comp = TRUE] :
          o \in OriginClasses, chk \in CheckClasses, off \in {"absent", "b,a"}, e \in {"absent", "permessage-deflate"}}
  \cup {[V EXCEPT !.offered = off, !.cfg = cf, !.respProto = rp, !.ext = e, !.comp = cp] :
          off \in OfferClasses, cf \in CfgClasses, rp \in {"", "a"}, e \in {"absent", "permessage-deflate"}, cp \in BOOLEAN}
  \cup {[V EXCEPT !.ext = e, !.comp = cp, !.origin = o] : e \in ExtClasses, cp \in BOOLEAN, o \in {"absent", "other"}}
  \cup {[V EXCEPT !.respExt = TRUE, !.origin = o] : o \in {"absent", "other"}}
RowsB == IF Full THEN RowsBFull ELSE RowsBQuick
\* C: HTTP/2 extended CONNECT
RowsC == {[Base EXCEPT !.proto = "h2", !.key = "absent", !.conn = "absent", !.upg = "absent", !.method = m, !.h2proto = p,
                       !.ver = v, !.origin = o, !.offered = off, !.ext = e, !.comp = cp] :
            m \in {"CONNECT", "GET"}, p \in {"websocket", "other", "absent"}, v \in {"13", "8", "absent"},
            o \in (IF Full THEN {"absent", "other", "same"} ELSE {"absent", "other"}),
            off \in (IF Full THEN {"absent", "b,a", "x"} ELSE {"b,a", "x"}), e \in {"absent", "permessage-deflate"}, cp \in BOOLEAN}

\* (respProto only means something when Subprotocols = nil: filtered in Init)

(* Close codes, RFC 6455 7.4.1 / 7.4.2 / 11.7:
     0-999      "not used"                                             -> forbidden
     1000-1003, 1007-1011   defined by RFC 6455                        -> must be accepted
     1004       "Reserved", 1005, 1006, 1015  "MUST NOT be set as a status code in a Close control frame
                by an endpoint"                                        -> forbidden
     1012, 1013, 1014   registered at IANA after the RFC (service restart, try again later, bad gateway):
                the RFC itself does not decide                         -> open (model = what the code does)
     1016-2999  reserved for the protocol, none defined                -> forbidden
     3000-3999  libraries / frameworks, 4000-4999 private use          -> must be accepted
     >= 5000    outside every range of 7.4.2                           -> forbidden                       *)
Codes == 0..5000 \cup {65535}
MustAccept(c) == c \in 1000..1003 \/ c \in 1007..1011 \/ c \in 3000..4999
OpenCode(c)   == c \in 1012..1014
Forbidden(c)  == ~MustAccept(c) /\ ~OpenCode(c)
CodeAccept(c) == MustAccept(c) \/ c \in {1012, 1013}          \* validReceivedCloseCodes of conn.go

\* close reason: UTF-8 (RFC 6455 5.5.1 / 7.1.6 "UTF-8-encoded data", 8.1; well-formedness per RFC 3629)
ReasonClasses == {"empty", "ascii", "two-byte", "three-byte", "four-byte", "max-123-bytes",
                  "lone-continuation", "truncated-multibyte", "overlong", "surrogate", "byte-ff", "beyond-10ffff"}
ReasonValid(c) == c \in {"empty", "ascii", "two-byte", "three-byte", "four-byte", "max-123-bytes"}

(* websocketTransport.Close(disconnect): no frame for DisconnectConnectionClosed (3000, the peer is already
   gone); otherwise FormatCloseMessage(code, reason) through WriteControl, which refuses > 125 bytes
   (then the connection is just closed).                                                            *)
TCodes == {3000, 3001, 3005, 3500, 3999, 4000, 4500, 4999, 1000}
TLens  == {0, 1, 2, 122, 123, 124, 125, 200}
TClose(c, n) == [frame |-> (c # 3000 /\ 2 + n <= 125), code |-> c, len |-> n, closed |-> TRUE]

Init ==
  \/ /\ kind = "upgrade"
     /\ \/ \E m \in MethodClasses : \E c \in ConnClasses :
              /\ (Full \/ B2N(m # "GET") + B2N(c # "Upgrade") <= 2)
              /\ \E u \in UpgClasses :
                   /\ (Full \/ B2N(m # "GET") + B2N(c # "Upgrade") + B2N(u # "websocket") <= 2)
                   /\ \E v \in VerClasses :
                        /\ (Full \/ B2N(m # "GET") + B2N(c # "Upgrade") + B2N(u # "websocket") + B2N(v # "13") <= 2)
                        /\ \E k \in KeyClasses, o \in (IF Full THEN {"absent", "other", "same"} ELSE {"absent", "other"}) :
                             /\ row = [Base EXCEPT !.method = m, !.conn = c, !.upg = u, !.ver = v, !.key = k, !.origin = o]
                             /\ (Full \/ DevA(row) <= 2)
        \/ row \in {r \in RowsB \cup RowsC : r.respProto = "" \/ r.cfg = "nil"}
     /\ res = Upgrade(row)
  \/ kind = "closecode" /\ row \in [code : Codes] /\ res = [accept |-> CodeAccept(row.code), must |-> MustAccept(row.code), forbidden |-> Forbidden(row.code)]
  \/ kind = "reason" /\ row \in [reason : ReasonClasses, code : {1000, 4000}] /\ res = [accept |-> ReasonValid(row.reason)]
  \/ kind = "tclose" /\ row \in [code : TCodes, len : TLens] /\ res = TClose(row.code, row.len)
Next == UNCHANGED vars
Spec == Init /\ [][Next]_vars

---------------------------------------------------------------------------
(* --- the property ------------------------------------------------------------ *)

\* RFC 6455 4.2.1: a valid client opening handshake (the parts a server can check)
ValidH1(r) == /\ r.method = "GET"                 \* item 1
              /\ UpgHasWebsocket(r.upg)           \* item 3
              /\ ConnHasUpgrade(r.conn)           \* item 4
              /\ KeyValid(r.key)                  \* item 5
              /\ r.ver = "13"                     \* item 6
\* RFC 8441 4: :protocol = websocket on a CONNECT; version still applies (5)
ValidH2(r) == r.method = "CONNECT" /\ r.h2proto = "websocket" /\ r.ver = "13"
ValidReq(r) == IF r.proto = "h1" THEN ValidH1(r) ELSE ValidH2(r)

UpgradeProperty ==
  kind = "upgrade" /\ ~row.respExt =>
    LET ok == IF row.proto = "h1" THEN 101 ELSE 200 IN
    /\ (res.status = ok) <=> (ValidReq(row) /\ OriginPass(row.origin, row.check))   \* accepts exactly the valid upgrades
    /\ res.status = ok =>
         /\ (row.proto = "h1" => res.accept = "b64(sha1(key+GUID))")                 \* 4.2.2 5.4
         /\ (res.proto # "" /\ row.cfg # "nil" => res.proto \in Range(Offered(row.offered)))   \* 4.2.2 5.5: one the client offered
         /\ (res.pmd => OffersPmd(row.ext) /\ row.comp)                               \* 9.1: only offered (and enabled) extensions
    /\ res.status # ok =>
         /\ res.status \in {400, 403, 405, 426}                                      \* 4.2.2: "appropriate error code"
         /\ (res.why = "version" => res.verhdr)                                       \* 4.2.2 /version/, 4.4
         /\ (res.why = "origin" => res.status = 403)                                  \* 10.2 / 4.2.2 4

CloseCodeProperty ==
  kind = "closecode" => /\ (res.forbidden => ~res.accept)
                        /\ (res.must => res.accept)

TCloseProperty ==
  kind = "tclose" => (res.frame <=> (row.code # 3000 /\ 2 + row.len <= 125))
=============================================================================
