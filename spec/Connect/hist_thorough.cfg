SPECIFICATION Spec
CONSTANTS
  MaxTop = 6
  Limits <- LimitsT
  Maxes = {0, 1, 2, 4}
  MaxConns = 4
INVARIANT C43
CHECK_DEADLOCK FALSE
