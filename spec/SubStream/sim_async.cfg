SPECIFICATION Spec
CONSTANTS
  MaxPub = 4
  HistSize = 2
  MaxFaults = 3
  Kinds = {"pos", "rec"}
  UrgentAsync = FALSE
  RecLimit = 0
  MaxChecks = 1
  Servers = {FALSE, TRUE}
INVARIANTS TypeOK C01 C02 C03 C10 C16 PosConsistent
CHECK_DEADLOCK FALSE
