---------------------------- MODULE FramingWire ----------------------------
(* C32, code -> spec: response bodies recorded from the real SSEHandler / HTTPStreamHandler
   (harness/framing, mode replay) are parsed by the parsers of Framing; the result must be the list of
   messages the server handed to the transport (OnTransportWrite).  JSON transports: equal up to raw
   CR / LF (insignificant whitespace of a JSON text); Protobuf: equal bytes.  The verdict of every body is
   dumped (res) and compared by fam/framing.py with the verdict of the harness's Go parser; it also names
   which framing operator of the spec produced exactly these bytes.

   wire.ndjson: one record per connection  {"id": .., "t": "sse"|"nd"|"pb", "body": [bytes], "msgs": [[bytes]]} *)
EXTENDS Framing, Json, IOUtils

Wires == ndJsonDeserialize("wire.ndjson")

Judge(w) ==
  LET body   == w.body
      ms     == w.msgs
      events == IF w.t = "sse" THEN ESEvents(body) ELSE <<>>
      parsed == CASE w.t = "sse" -> Map(events, LAMBDA e : e.data)
                  [] w.t = "nd"  -> NDParse(body)
                  [] w.t = "pb"  -> PBParse(body)
      plain  == \A i \in 1..Len(events) : events[i].type = S_message /\ events[i].id = <<>>
      ok     == IF w.t = "pb" THEN Exact(parsed, ms) ELSE (SameModEOL(parsed, ms) /\ plain)
      asis   == CASE w.t = "sse" -> body = SSEFrame(ms)
                  [] w.t = "nd"  -> body = NDFrame(ms)
                  [] w.t = "pb"  -> body = PBFrame(ms)
      split  == w.t = "sse" /\ body = SSEFrameSplit(ms)
  IN [id |-> w.id, t |-> w.t, ok |-> ok, nparsed |-> Len(parsed), nmsgs |-> Len(ms),
      variant |-> IF asis /\ split THEN "both" ELSE IF asis THEN "asis" ELSE IF split THEN "split" ELSE
                  IF w.t # "sse" /\ asis THEN "asis" ELSE "neither"]

WInit == msgs = <<>> /\ vec = <<>> /\ res = <<>>
WNext == /\ res = <<>>
         /\ \E i \in 1..Len(Wires) : res' = Judge(Wires[i])
         /\ UNCHANGED <<msgs, vec>>
WSpec == WInit /\ [][WNext]_vars

\* every verdict belongs to a recorded body
WType == res = <<>> \/ \E i \in 1..Len(Wires) : Wires[i].id = res.id
=============================================================================
