"""C27, C28, C41 -- family `cluster`: node-level server-side operations, local and through the control channel, and surveys.
(work in progress)"""
from lib import vf


def c28(c):
    quick = c.tier == 'quick'
    for cfg in (['unsub_quick.cfg'] if quick else ['unsub_thorough.cfg', 'unsub_thorough3.cfg']):
        r = c.tlc_exhaustive('Cluster', 'UnsubAll', cfg, workers=4, timeout=3000)
        c.log('TLC exhaustive %s: %d distinct / %d generated, depth %d, %.0fs' % (cfg, r['distinct'], r['states'], r['depth'], r['wall_s']))
    s = c.tlc('Cluster', 'UnsubAllSim', 'unsub_sim.cfg', simulate=250 if quick else 3000, depth=13, timeout=1500)
    if not s['ok']:
        raise vf.Inconclusive('simulation failed: %s\n%s' % (s['error'], s['out'][-3000:]))
    behs = c.behaviours(s)
    c.log('TLC simulate: %d behaviours (%.0fs)' % (len(behs), s['wall_s']))
    binp = c.go_build('cluster')
    res = c.harness(binp, 'c28', {'pres_ch': ['a', 'c'], 'jl_ch': ['a', 'b'], 'behaviours': behs, 'workers': 4}, timeout=1200)
    c.absorb(res)
    c.log('replayed %d behaviours, %d completed, %d empty-channel calls conform, %d distinct non-trivial' % (
        res['executed'], res['completed'], res['counters'].get('emptych_steps', 0), res['nontrivial']))
    c.cov['traces_validated_against_impl'] = res['completed']
    c.cov['evaluations'] = res['executed']
    c.cov['distinct_nontrivial'] = res['nontrivial']
    c.cov['samples'] = res['samples']


def c27(c):
    quick = c.tier == 'quick'
    cfg = 'control_quick.cfg' if quick else 'control_thorough.cfg'
    r = c.tlc_exhaustive('Cluster', 'Control', cfg, workers=4, dump=True, timeout=3000)
    rows = c.dump_states(r)
    rows.sort(key=lambda w: (w['op'], len(w['x']), sorted(w['x'])))
    nd = sum(1 for w in rows if w['differs'])
    c.log('TLC %s: %d rows (operation x option set), the transcribed projection loses an effect in %d of them, %.0fs' % (cfg, len(rows), nd, r['wall_s']))
    binp = c.go_build('cluster')
    res = c.harness(binp, 'c27', {'rows': rows, 'workers': 4 if quick else 8}, timeout=3000)
    c.absorb(res)
    c.log('replayed %d rows on two real nodes (%d runs): %d agree, %d differ; %d rows conform to the model' % (
        res['executed'], res['extra'].get('runs', 0), res['counters'].get('agree', 0), res['counters'].get('differ', 0), res['completed']))
    if res['counters'].get('culprit_mismatch'):
        c.notes.append('attribution differs from the model in %d rows, e.g. %s' % (res['counters']['culprit_mismatch'], res['extra'].get('culprit_mismatch_example')))
    c.cov['traces_validated_against_impl'] = res['completed']
    c.cov['evaluations'] = res['extra'].get('runs', 0)
    c.cov['distinct_nontrivial'] = res['nontrivial']
    c.cov['samples'] = res['samples']


CHECKS = {'C27': c27, 'C28': c28}
META = {'C28': dict(level='model_checking', text='wip', note='wip', technique='wip'), 'C27': dict(level='model_checking', text='wip', note='wip', technique='wip')}
