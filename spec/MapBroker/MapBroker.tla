----------------------------- MODULE MapBroker -----------------------------
(* In-memory MAP broker: map_broker_memory.go (MemoryMapBroker.Publish/Remove/
   Clear/ReadState/ReadStream, mapHub.add/remove/clear/getState/getStream, the
   three sweepers expireStreams / removeChannels / expireKeys with the two-phase
   expireKeysIteration, the idempotency result cache) and the pagination helpers
   of map_broker.go, for ONE channel (every map of the code is keyed by channel;
   the per-channel pubLock serialises Publish/Remove/Clear/phase 2 of a channel).

   Properties decided here: C20 (map-state specification), C21 memory half
   (pagination), C24 (key expiry exactly once), C19 map half (per-key versions,
   idempotency) as action properties.

   Time.  The code reads time.Now().UnixMilli() directly.  The model has an
   integer clock `now` (ticks) advanced by Tick; every operation happens "in the
   middle of tick now".  The harness configures every TTL as (k - 1/2) ticks, so
   every deadline of the model (k ticks after the operation that set it) is a
   tick BOUNDARY: an operation in tick t sees a deadline D as passed iff D <= t,
   without ambiguity.  The sweepers are goroutines that wake about once a tick
   (one tick = one second when the real sweepers run): a deadline D is processed
   at some moment of [D, D+1+jitter) -- an operation in tick D may or may not see
   the effect, an operation in tick >= D+1 certainly does.
     Manual = TRUE          no sweeper goroutines; the harness calls
                            expireKeysIteration itself (ExpirePhase1 is an explicit
                            operation, a gate sits between the phases): fully
                            deterministic at any tick length.
     Deterministic = TRUE   sweepers run by themselves; the ambiguous ticks (and
                            sweeper pairs whose order would be observable) are
                            excluded: used to generate behaviours for replay.
     both FALSE             every outcome explored, including operations between
                            phase 1 and phase 2 (design check, trace validation). *)
EXTENDS Integers, Sequences, FiniteSets, TLC, SequencesExt

CONSTANTS
  KeySeq,         \* the keys in lexicographic (Go string) order, e.g. <<"a", "b">>
  Configs,        \* channel configurations [mode, ord, kttl, size, sttl, mttl]
  KeyModes,       \* subset of {"", "if_new", "if_new_refresh", "if_exists"}
  CasOffs, CasEps,\* offsets / epoch numbers (0 = "") offered as ExpectedPosition
  Versions,       \* 0 = unversioned
  VerEpochs,      \* "" = unspecified
  IdemKeys,       \* "" = none
  IdemTTLs,
  Scores,
  Limits,         \* ReadState / ReadStream limits (-1 no limit, 0 position only)
  PageSizes,      \* page sizes of the pagination theorem
  MaxNow, MaxPubs, MaxOps,
  Deterministic, Manual

Keys == {KeySeq[i] : i \in 1..Len(KeySeq)}
Rank(k) == CHOOSE i \in 1..Len(KeySeq) : KeySeq[i] = k

NoCas   == [has |-> FALSE, off |-> 0, ep |-> 0]
NoCur   == [has |-> FALSE, sc |-> 0, k |-> ""]
NoSince == [has |-> FALSE, off |-> 0, ep |-> 0]
NoRev   == [has |-> FALSE, ep |-> 0]

VARIABLES
  cf,       \* channel options returned by the resolver for this channel (fixed per behaviour)
  chEx,     \* channel object exists in mapHub.channels
  chOrd,    \* channel.ordered: taken from the options when add() creates the channel, FALSE when a read creates it
            \* (createStreamPosition), upgraded by the next add() of an ordered channel
  st,       \* channel.state: key -> [off, id, sc, exp, ver, vep, seq]   (exp 0 = no deadline; seq orders equal deadlines)
  top,      \* channel.stream.top
  win,      \* retained stream window: sequence of [off, key, rm, id]
  ep,       \* epoch of the channel's stream object (0 = no channel); numbered by creation
  epc,      \* stream objects created so far
  expAt, expQ,   \* mapHub.expires[ch] (0 = absent) and the priority of its live queue item (stream TTL)
  remAt, remQ,   \* mapHub.removes[ch] and its queue item (meta TTL)
  idem,     \* resultCache[ch]: idempotency key -> [off, ep, exp]
  iq,       \* resultExpireQueue: items [k, at] pushed by every save; items of older saves of a key (or from before a
            \* Clear) stay queued and are "stale" -- the cleaner must re-check the CURRENT entry when it pops one
  gidem,    \* ghost (reference): the last result saved per idempotency key since the last Clear, never swept
  nkc,      \* mapHub.nextKeyExpireCheck: the earliest key deadline the key sweeper knows of (0 = idle: the sweeper returns at once)
  pl,       \* the key sweeper holds this channel's publish lock (pubLock) -- between the append of an expiry removal and the
            \* return of the event-handler call for it (SplitDeliver); writers of the channel wait
  hq,       \* expiry removals applied to state + stream whose event-handler call has not happened yet (SplitDeliver)
  sub,      \* ghost: the key set of a subscriber that applies what reaches the event handler in arrival order
  pend,     \* expiredEvents of a sweep that finished phase 1: sequence of [key, exp]
  now,
  npub,     \* payload identities handed out (1..npub)
  nops,
  bc,       \* what the last step handed to the BrokerEventHandler: sequence of [off, key, rm, id]
  step      \* last operation: arguments, result, reference answers

core == <<cf, chEx, chOrd, st, top, win, ep, epc, expAt, expQ, remAt, remQ, idem, iq, gidem, nkc, pl, hq, sub, pend, now>>
vars == <<core, npub, nops, bc, step>>

HasStream == cf.mode \in {"rec", "per"}
IsEph     == cf.mode = "eph"

---------------------------------------------------------------------------
(* ---- small helpers ---- *)
Put(f, k, v) == [x \in (DOMAIN f) \cup {k} |-> IF x = k THEN v ELSE f[x]]
Del(f, k)    == [x \in (DOMAIN f) \ {k} |-> f[x]]
Empty        == [x \in {} |-> 0]
MinOf(S)     == CHOOSE x \in S : \A y \in S : x <= y

Take(s, limit) == IF limit < 0 \/ limit >= Len(s) THEN s ELSE SubSeq(s, 1, limit)
Rev(s) == [i \in 1..Len(s) |-> s[Len(s) + 1 - i]]
Trim(w, size) == IF Len(w) > size THEN SubSeq(w, Len(w) - size + 1, Len(w)) ELSE w

(* ---- memstream.Stream.Get, branch by branch (as in MemBroker.tla) ---- *)
IndexOf(w, o) == IF \E i \in 1..Len(w) : w[i].off = o
                   THEN CHOOSE i \in 1..Len(w) : w[i].off = o ELSE 0

GetImpl(w, t, offset, useOffset, limit, reverse) ==
  IF useOffset /\ offset >= t + 1 THEN <<>>
  ELSE LET start == IF useOffset
                      THEN (IF IndexOf(w, offset) # 0 THEN IndexOf(w, offset)
                            ELSE IF reverse THEN 0 ELSE (IF Len(w) > 0 THEN 1 ELSE 0))
                      ELSE (IF reverse THEN Len(w) ELSE (IF Len(w) > 0 THEN 1 ELSE 0))
       IN IF start = 0 \/ limit = 0 THEN <<>>
          ELSE IF reverse THEN Take(Rev(SubSeq(w, 1, start)), limit)
          ELSE Take(SubSeq(w, start, Len(w)), limit)

Pred(o) == IF o = 0 THEN 1000000 ELSE o - 1      \* uint64 `since.Offset - 1`

\* mapHub.getStream on an existing channel, after the epoch validation
StreamImpl(w, t, since, limit, reverse) ==
  IF ~since.has
    THEN (IF limit = 0 THEN <<>> ELSE GetImpl(w, t, 0, FALSE, limit, reverse))
    ELSE IF ~reverse /\ t = since.off THEN <<>>
    ELSE GetImpl(w, t, IF reverse THEN Pred(since.off) ELSE since.off + 1, TRUE, limit, reverse)

(* reference: "only publications with Offset > Since.Offset (reverse: below it), at most Limit, in the asked direction" *)
RefStream(w, since, limit, reverse) ==
  LET cand == IF ~since.has THEN w
              ELSE IF reverse THEN SelectSeq(w, LAMBDA x : x.off < since.off)
              ELSE SelectSeq(w, LAMBDA x : x.off > since.off)
  IN IF limit = 0 THEN <<>> ELSE Take(IF reverse THEN Rev(cand) ELSE cand, limit)
\* reverse reads from beyond top+1 are outside the documentation (the code returns nothing)
RefStreamDefined(t, since, reverse) == ~(since.has /\ reverse /\ since.off > t + 1)

---------------------------------------------------------------------------
(* ---- state pagination, from mapHub.getState + map_broker.go ---- *)

\* the comparator handed to sort.Slice / sort.Strings
ImplLess(s, ord, asc, x, y) ==
  IF ~ord THEN Rank(x) < Rank(y)
  ELSE IF s[x].sc # s[y].sc THEN (IF asc THEN s[x].sc < s[y].sc ELSE s[x].sc > s[y].sc)
  ELSE (IF asc THEN Rank(x) < Rank(y) ELSE Rank(x) > Rank(y))

SortedImpl(s, ord, asc) == SortSeq(SetToSeq(DOMAIN s), LAMBDA x, y : ImplLess(s, ord, asc, x, y))

\* sort.Search(n, f): binary search for the smallest index in [0, n) with f true (0-based, n if none)
RECURSIVE BinSearch(_, _, _)
BinSearch(i, j, f) ==      \* f: the predicate tabulated over 0..n-1
  IF i >= j THEN i
  ELSE LET h == (i + j) \div 2
       IN IF ~f[h] THEN BinSearch(h + 1, j, f) ELSE BinSearch(i, h, f)

\* findUnorderedCursorPosition / findOrderedCursorPosition (q = sorted keys, 0-based index i -> q[i+1])
CursorPos(s, q, ord, cur, asc) ==
  IF ~ord THEN BinSearch(0, Len(q), [i \in 0..(Len(q) - 1) |-> Rank(q[i + 1]) > Rank(cur.k)])
  ELSE BinSearch(0, Len(q), [i \in 0..(Len(q) - 1) |->
         IF s[q[i + 1]].sc # cur.sc
           THEN (IF asc THEN s[q[i + 1]].sc > cur.sc ELSE s[q[i + 1]].sc < cur.sc)
           ELSE (IF asc THEN Rank(q[i + 1]) > Rank(cur.k) ELSE Rank(q[i + 1]) < Rank(cur.k))])

\* one page: [keys, next]; limit # 0
PageImpl(s, ord, cur, limit, asc) ==
  LET q     == SortedImpl(s, ord, asc)
      n     == Len(q)
      start == IF cur.has THEN CursorPos(s, q, ord, cur, asc) ELSE 0
  IN IF n = 0 \/ start >= n THEN [keys |-> <<>>, next |-> NoCur]
     ELSE LET end == IF limit > 0 /\ start + limit < n THEN start + limit ELSE n
          IN [keys |-> SubSeq(q, start + 1, end),
              next |-> IF limit > 0 /\ end < n
                         THEN [has |-> TRUE, sc |-> IF ord THEN s[q[end]].sc ELSE 0, k |-> q[end]]
                         ELSE NoCur]

(* the reference, written independently: the i-th key of the channel's sort order is the key with
   exactly i-1 keys before it; unordered = by key ascending, ordered = by (score, key), both
   ascending or both descending (MapReadStateOptions.Asc; default descending) *)
RefBefore(s, ord, asc, x, y) ==
  LET kx == <<IF ord THEN s[x].sc ELSE 0, Rank(x)>>
      ky == <<IF ord THEN s[y].sc ELSE 0, Rank(y)>>
      lt == kx[1] < ky[1] \/ (kx[1] = ky[1] /\ kx[2] < ky[2])
      gt == kx[1] > ky[1] \/ (kx[1] = ky[1] /\ kx[2] > ky[2])
  IN IF ~ord \/ asc THEN lt ELSE gt
SortedKeys(s, ord, asc) ==
  [i \in 1..Cardinality(DOMAIN s) |->
     CHOOSE k \in DOMAIN s : Cardinality({j \in DOMAIN s : RefBefore(s, ord, asc, j, k)}) = i - 1]
\* keys strictly after a cursor position in that order (the cursor key need not exist any more)
RefAfter(s, ord, asc, cur) ==
  LET before(k) == LET a == <<IF ord THEN cur.sc ELSE 0, Rank(cur.k)>>
                       b == <<IF ord THEN s[k].sc ELSE 0, Rank(k)>>
                   IN IF ~ord \/ asc THEN a[1] < b[1] \/ (a[1] = b[1] /\ a[2] < b[2])
                      ELSE a[1] > b[1] \/ (a[1] = b[1] /\ a[2] > b[2])
  IN SelectSeq(SortedKeys(s, ord, asc), LAMBDA k : ~cur.has \/ before(k))
RefPage(s, ord, cur, limit, asc) == Take(RefAfter(s, ord, asc, cur), limit)

\* walking the pages with the returned cursor; fuel bounds the number of pages
RECURSIVE Walk(_, _, _, _, _, _)
Walk(s, ord, cur, limit, asc, fuel) ==
  LET r == PageImpl(s, ord, cur, limit, asc)
  IN IF ~r.next.has THEN [keys |-> r.keys, done |-> TRUE, pages |-> 1]
     ELSE IF fuel = 0 THEN [keys |-> r.keys, done |-> FALSE, pages |-> 1]
     ELSE LET w == Walk(s, ord, r.next, limit, asc, fuel - 1)
          IN [keys |-> r.keys \o w.keys, done |-> w.done, pages |-> w.pages + 1]

\* C21 for one state s
PaginationOKFor(s, ordImpl, ord) ==       \* ordImpl: the flag the code sorts by; ord: the channel's configured order
  \A limit \in PageSizes, asc \in BOOLEAN :
    LET n == Cardinality(DOMAIN s)
        w == Walk(s, ordImpl, NoCur, limit, asc, n)
    IN /\ w.done                                         \* progress: terminates within |keys| pages
       /\ w.keys = SortedKeys(s, ord, asc)               \* every key exactly once, in sort order
       /\ w.pages <= (IF n = 0 THEN 1 ELSE n)

Pub(s, k) == [key |-> k, off |-> s[k].off, id |-> s[k].id, sc |-> s[k].sc]

---------------------------------------------------------------------------
Init ==
  /\ cf \in Configs
  /\ chEx = FALSE /\ chOrd = FALSE /\ st = Empty /\ top = 0 /\ win = <<>> /\ ep = 0 /\ epc = 0
  /\ expAt = 0 /\ expQ = 0 /\ remAt = 0 /\ remQ = 0
  /\ idem = Empty /\ iq = {} /\ gidem = Empty /\ nkc = 0 /\ pl = FALSE /\ hq = <<>> /\ sub = {} /\ pend = <<>>
  /\ now = 0 /\ npub = 0 /\ nops = 0 /\ bc = <<>>
  /\ step = [act |-> "Init"]

\* "if _, ok := m[ch]; !ok { push(queue, at) }; m[ch] = at"
TouchQ(at, q, newAt) == IF at = 0 THEN newAt ELSE q

KeyDeadlines == {st[k].exp : k \in {x \in DOMAIN st : st[x].exp # 0}}
KeyQ    == IF KeyDeadlines = {} THEN 0 ELSE MinOf(KeyDeadlines)

ExpDue  == ~Manual /\ expQ # 0 /\ now >= expQ
RemDue  == ~Manual /\ remQ # 0 /\ now >= remQ
KeyDue  == ~Manual /\ KeyQ # 0 /\ now >= KeyQ
(* The event-handler call.  Publish, Remove and Clear take pubLock(ch) on entry and release it on return (defer): state change,
   stream append and HandlePublication form one critical section, so their single step is exact.  Phase 2 of the key sweep does
   the same per candidate -- pubLock -> hub lock -> delete + append -> hub unlock -> HandlePublication -> pubLock unlock.  With
   SplitDeliver the handler call of an expiry removal is a step of its own (ExpireDeliver) and ExpiryHoldsPubLock says whether
   the sweeper keeps pubLock across it (the code does; FALSE is the design that releases it before the call: the design check
   then finds a later publication overtaking the removal at the handler).  Overridden per configuration. *)
SplitDeliver == FALSE
ExpiryHoldsPubLock == TRUE
SweepSlack == 0      \* extra ticks a sweeper may be late (trace validation under load: 1)
ExpMust == ~Manual /\ expQ # 0 /\ now >= expQ + 1 + SweepSlack
RemMust == ~Manual /\ remQ # 0 /\ now >= remQ + 1 + SweepSlack
KeyMust == ~Manual /\ KeyQ # 0 /\ now >= KeyQ + 1 + SweepSlack

\* operations of the API
Settled ==
  IF Manual THEN TRUE
  ELSE /\ ~ExpMust /\ ~RemMust /\ (pend = <<>> => ~KeyMust)
       /\ Deterministic => (~ExpDue /\ ~RemDue /\ ~KeyDue /\ pend = <<>> /\ hq = <<>>)

\* Deterministic: a key sweep and a stream/channel sweep whose windows overlap could run in either
\* order with different observable results -- such behaviours are not generated
KeyFree(q) == Deterministic => (KeyQ = 0 \/ KeyQ >= q + 2)
OthersFree(q) == Deterministic => ((expQ = 0 \/ expQ >= q + 2) /\ (remQ = 0 \/ remQ >= q + 2))

\* "if h.nextKeyExpireCheck == 0 || h.nextKeyExpireCheck > expireAt { h.nextKeyExpireCheck = expireAt }"
Arm(d) == IF nkc = 0 \/ nkc > d THEN d ELSE nkc

MetaTouch == IF cf.mttl > 0
               THEN remAt' = now + cf.mttl /\ remQ' = TouchQ(remAt, remQ, now + cf.mttl)
               ELSE UNCHANGED <<remAt, remQ>>

(* ---- sweepers ---- *)
SweepExpire ==      \* expireStreams: stream TTL
  /\ pend = <<>>
  /\ IF Deterministic THEN ExpMust /\ KeyFree(expQ) ELSE ExpDue
  /\ IF expAt <= expQ
       THEN /\ expAt' = 0 /\ expQ' = 0
            /\ win' = IF chEx THEN <<>> ELSE win           \* stream.Clear(): top and epoch stay
       ELSE /\ expQ' = expAt /\ UNCHANGED <<expAt, win>>    \* deadline was extended: re-queue
  /\ UNCHANGED <<cf, chEx, chOrd, st, top, ep, epc, remAt, remQ, idem, iq, gidem, nkc, pend, now, npub, nops>>
  /\ bc' = <<>>
  /\ step' = [act |-> "SweepExpire"]

SweepRemove ==      \* removeChannels: meta TTL; the channel object goes, state included
  /\ pend = <<>>
  /\ IF Deterministic THEN RemMust /\ KeyFree(remQ) ELSE RemDue
  /\ IF remAt <= remQ
       THEN /\ remAt' = 0 /\ remQ' = 0
            /\ chEx' = FALSE /\ chOrd' = FALSE /\ st' = Empty /\ top' = 0 /\ win' = <<>> /\ ep' = 0
       ELSE /\ remQ' = remAt /\ UNCHANGED <<remAt, chEx, chOrd, st, top, win, ep>>
  /\ UNCHANGED <<cf, epc, expAt, expQ, idem, iq, gidem, nkc, pend, now, npub, nops>>
  /\ bc' = <<>>
  /\ step' = [act |-> "SweepRemove"]

(* expireKeysIteration phase 1 (one critical section under the hub lock): return at once when the sweeper is idle or its
   next check lies in the future (nextKeyExpireCheck); otherwise drain the queue -- collect the candidates, mutate no state --
   and STORE the next check: the first deadline left in the queue, 0 if the queue is empty.  keyExpireQueue / keyExpires are
   bookkeeping for "the keys whose stored deadline has passed": stale queue items are skipped or re-queued at pop time (a
   stale item can only make the real next check EARLIER than the model's).  The candidates come out of the heap by deadline;
   equal model deadlines are ordered by the moment they were set (the real deadlines differ by milliseconds).
   Writers running between this store and the end of phase 2 lower nextKeyExpireCheck for the deadlines they register (Arm);
   nothing may overwrite that afterwards -- SweeperArmed. *)
Candidates(bound) == {k \in DOMAIN st : st[k].exp # 0 /\ st[k].exp <= bound}
ExpirePhase1 ==
  /\ pend = <<>> /\ hq = <<>>
  /\ LET bound == IF Deterministic /\ ~Manual THEN now - 1 ELSE now
         armed == nkc # 0 /\ nkc <= now
         c == IF armed THEN Candidates(bound) ELSE {}
         rest == {st[k].exp : k \in {x \in DOMAIN st : st[x].exp # 0 /\ x \notin c}}
     IN /\ Manual \/ c # {}
        /\ nkc' = IF ~armed THEN nkc ELSE IF rest = {} THEN 0 ELSE MinOf(rest)
        /\ IF Manual THEN nops < MaxOps /\ nops' = nops + 1 ELSE nops' = nops
        /\ (Deterministic /\ ~Manual) => (KeyMust /\ OthersFree(KeyQ))
        /\ pend' = [i \in 1..Cardinality(c) |->
                      LET k == SortSeq(SetToSeq(c), LAMBDA x, y :
                                   st[x].exp < st[y].exp \/ (st[x].exp = st[y].exp /\ st[x].seq < st[y].seq))[i]
                      IN [key |-> k, exp |-> st[k].exp, seq |-> st[k].seq]]
  /\ UNCHANGED <<cf, chEx, chOrd, st, top, win, ep, epc, expAt, expQ, remAt, remQ, idem, iq, gidem, now, npub>>
  /\ bc' = <<>>
  /\ step' = [act |-> "ExpirePhase1", n |-> Len(pend')]

(* phase 2, one candidate (under pubLock -> hub lock): revalidate, then delete state + append the
   removal + dispatch atomically.  The stream TTL / meta TTL deadlines are NOT extended here. *)
ExpirePhase2 ==
  /\ pend # <<>> /\ hq = <<>>            \* one sweeper goroutine: the handler call of the previous candidate has returned
  /\ LET e == Head(pend)
         k == e.key
         hit == chEx /\ k \in DOMAIN st /\ st[k].exp = e.exp /\ st[k].seq = e.seq
     IN /\ pend' = Tail(pend)
        /\ IF hit
             THEN /\ st' = Del(st, k)
                  /\ LET ent == [off |-> IF HasStream THEN top + 1 ELSE top, key |-> k, rm |-> TRUE, id |-> 0]
                     IN /\ IF HasStream
                             THEN top' = top + 1 /\ win' = Trim(Append(win, ent), cf.size)
                             ELSE UNCHANGED <<top, win>>
                        /\ IF SplitDeliver
                             THEN bc' = <<>> /\ hq' = Append(hq, ent) /\ pl' = ExpiryHoldsPubLock
                             ELSE bc' = <<ent>> /\ UNCHANGED <<hq, pl>>
             ELSE /\ UNCHANGED <<st, top, win, hq, pl>> /\ bc' = <<>>
        /\ \* "entry was refreshed between Phase 1 and Phase 2 -- re-queue" (and re-arm)
           nkc' = IF ~hit /\ chEx /\ k \in DOMAIN st /\ st[k].exp > now THEN Arm(st[k].exp) ELSE nkc
        /\ step' = [act |-> "ExpirePhase2", key |-> k, removed |-> hit]
  /\ UNCHANGED <<cf, chEx, chOrd, ep, epc, expAt, expQ, remAt, remQ, idem, iq, gidem, now, npub, nops>>

\* the sweeper's HandlePublication call for the removal it appended; afterwards pubLock (if held) is released
ExpireDeliver ==
  /\ hq # <<>>
  /\ bc' = <<Head(hq)>> /\ hq' = Tail(hq) /\ pl' = FALSE
  /\ UNCHANGED <<cf, chEx, chOrd, st, top, win, ep, epc, expAt, expQ, remAt, remQ, idem, iq, gidem, nkc, pend, now, npub, nops>>
  /\ step' = [act |-> "ExpireDeliver", key |-> Head(hq).key]

(* expireResultCache: the once-a-second cleaner of the idempotency results.  It pops every queue item whose time has
   come and deletes the key's entry only if the CURRENT entry is expired too (the item may stem from an older save).
   Lookups check the deadline themselves, so the cleaner has no observable effect -- as long as it re-checks. *)
IdemDue == ~Manual /\ \E i \in iq : i.at <= now
SweepIdem ==
  /\ IdemDue
  /\ LET popped == {i \in iq : i.at <= now}
         dead   == {k \in DOMAIN idem : idem[k].exp <= now /\ \E i \in popped : i.k = k}
     IN /\ iq' = iq \ popped
        /\ idem' = [k \in (DOMAIN idem) \ dead |-> idem[k]]
  /\ UNCHANGED <<cf, chEx, chOrd, st, top, win, ep, epc, expAt, expQ, remAt, remQ, gidem, nkc, pend, now, npub, nops>>
  /\ bc' = <<>>
  /\ step' = [act |-> "SweepIdem"]

Tick ==
  /\ now < MaxNow
  /\ pend = <<>> /\ hq = <<>>
  /\ ~ExpMust /\ ~RemMust /\ ~KeyMust
  /\ now' = now + 1
  /\ UNCHANGED <<cf, chEx, chOrd, st, top, win, ep, epc, expAt, expQ, remAt, remQ, idem, iq, gidem, nkc, pend, npub, nops>>
  /\ bc' = <<>>
  /\ step' = [act |-> "Tick", now |-> now + 1]

---------------------------------------------------------------------------
(* ---- Publish ---- *)
IdemHit(ik) == ik # "" /\ ik \in DOMAIN idem /\ idem[ik].exp > now

\* the three checks of mapHub.add, each evaluated on its own (used by the action and, separately, by the property)
WouldVersion(k, v, ve) ==
  HasStream /\ v > 0 /\ k \in DOMAIN st /\ (ve = "" \/ ve = st[k].vep) /\ v <= st[k].ver
WouldKeyMode(k, km) ==
  (km \in {"if_new", "if_new_refresh"} /\ k \in DOMAIN st) \/ (km = "if_exists" /\ k \notin DOMAIN st)
WouldCas(k, cas, e1) ==
  cas.has /\ (k \notin DOMAIN st \/ st[k].off # cas.off \/ e1 # cas.ep)

Publish(k, km, cas, v, ve, ik, ittl, sc) ==
  /\ Settled /\ ~pl /\ npub < MaxPubs /\ nops < MaxOps
  /\ npub' = npub + 1 /\ nops' = nops + 1
  /\ LET id   == npub + 1
         args == [key |-> k, km |-> km, cas |-> cas, v |-> v, ve |-> ve, ik |-> ik, ittl |-> ittl, sc |-> sc, id |-> id]
         e1   == IF chEx THEN ep ELSE epc + 1            \* add() creates the channel before any check
         would == [v |-> WouldVersion(k, v, ve), k |-> WouldKeyMode(k, km), c |-> WouldCas(k, cas, e1)]
         Create == /\ chEx' = TRUE /\ ep' = e1 /\ epc' = IF chEx THEN epc ELSE epc + 1
                   /\ chOrd' = IF chEx THEN (chOrd \/ cf.ord) ELSE cf.ord   \* before any check, suppressed or not
         Suppressed(reason, cur) ==
           /\ Create
           /\ UNCHANGED <<top, win, expAt, expQ, idem, iq, gidem, pend, now>>
           /\ bc' = <<>>
           /\ step' = [act |-> "Publish", args |-> args, would |-> would,
                       res |-> [err |-> FALSE, sup |-> reason, off |-> top, ep |-> e1, cur |-> cur]]
     IN
     IF IsEph /\ (cas.has \/ v > 0)
       THEN \* rejected before anything else
            /\ UNCHANGED <<core>> /\ bc' = <<>>
            /\ step' = [act |-> "Publish", args |-> args, would |-> would,
                        res |-> [err |-> TRUE, sup |-> "", off |-> 0, ep |-> 0, cur |-> <<>>]]
     ELSE IF IdemHit(ik)
       THEN \* the cached position; nothing else happens
            /\ UNCHANGED <<core>> /\ bc' = <<>>
            /\ step' = [act |-> "Publish", args |-> args, would |-> would,
                        res |-> [err |-> FALSE, sup |-> "idempotency", off |-> idem[ik].off, ep |-> idem[ik].ep, cur |-> <<>>]]
     ELSE /\ cf' = cf
          /\ \* canonical check order: Version -> KeyMode -> CAS
             IF WouldVersion(k, v, ve)
               THEN Suppressed("version", <<>>) /\ UNCHANGED <<st, remAt, remQ, nkc>>
             ELSE IF km \in {"if_new", "if_new_refresh"} /\ k \in DOMAIN st
               THEN /\ Suppressed("key_exists", <<>>)
                    /\ IF km = "if_new_refresh" /\ cf.kttl > 0
                         THEN \* RefreshTTLOnSuppress: the key's deadline and the meta TTL are extended
                              /\ st' = Put(st, k, [st[k] EXCEPT !.exp = now + cf.kttl, !.seq = nops + 1])
                              /\ MetaTouch
                              /\ nkc' = Arm(now + cf.kttl)
                         ELSE UNCHANGED <<st, remAt, remQ, nkc>>
             ELSE IF km = "if_exists" /\ k \notin DOMAIN st
               THEN Suppressed("key_not_found", <<>>) /\ UNCHANGED <<st, remAt, remQ, nkc>>
             ELSE IF cas.has /\ k \notin DOMAIN st
               THEN Suppressed("position_mismatch", <<>>) /\ UNCHANGED <<st, remAt, remQ, nkc>>
             ELSE IF cas.has /\ (st[k].off # cas.off \/ e1 # cas.ep)
               THEN Suppressed("position_mismatch", <<[off |-> st[k].off, id |-> st[k].id]>>) /\ UNCHANGED <<st, remAt, remQ, nkc>>
             ELSE \* applied
               LET off1 == IF HasStream THEN top + 1 ELSE top
                   old  == IF k \in DOMAIN st THEN st[k] ELSE [ver |-> 0, vep |-> ve]
                   ent  == [off |-> off1, id |-> id, sc |-> sc,
                            exp |-> IF cf.kttl > 0 THEN now + cf.kttl ELSE 0,
                            ver |-> IF v = 0 THEN old.ver ELSE v,        \* unversioned publish keeps the stored version
                            vep |-> IF v = 0 THEN old.vep ELSE ve,
                            seq |-> nops + 1]
                   pubv == [off |-> off1, key |-> k, rm |-> FALSE, id |-> id]
               IN /\ Create
                  /\ IF HasStream
                       THEN /\ expAt' = now + cf.sttl /\ expQ' = TouchQ(expAt, expQ, now + cf.sttl)
                            /\ MetaTouch
                            /\ top' = top + 1
                            /\ win' = Trim(Append(win, pubv), cf.size)
                       ELSE UNCHANGED <<expAt, expQ, remAt, remQ, top, win>>
                  /\ st' = Put(st, k, ent)
                  /\ nkc' = IF cf.kttl > 0 THEN Arm(now + cf.kttl) ELSE nkc
                  /\ idem' = IF ik = "" THEN idem ELSE Put(idem, ik, [off |-> off1, ep |-> e1, exp |-> now + ittl])
                  /\ iq' = IF ik = "" THEN iq ELSE iq \cup {[k |-> ik, at |-> now + ittl]}
                  /\ gidem' = IF ik = "" THEN gidem ELSE Put(gidem, ik, [off |-> off1, ep |-> e1, exp |-> now + ittl])
                  /\ UNCHANGED <<pend, now>>
                  /\ bc' = <<pubv>>
                  /\ step' = [act |-> "Publish", args |-> args, would |-> would,
                              res |-> [err |-> FALSE, sup |-> "", off |-> off1, ep |-> e1, cur |-> <<>>]]

(* ---- Remove ---- *)
RemoveKey(k, cas, ik, ittl) ==
  /\ Settled /\ ~pl /\ nops < MaxOps
  /\ nops' = nops + 1
  /\ UNCHANGED <<cf, npub, nkc, pend, now, epc>>
  /\ LET args == [key |-> k, cas |-> cas, ik |-> ik, ittl |-> ittl]
         Suppressed(reason, o, e, cur) ==
           /\ UNCHANGED <<chEx, chOrd, st, top, win, ep, expAt, expQ, remAt, remQ, idem, iq, gidem>>
           /\ bc' = <<>>
           /\ step' = [act |-> "Remove", args |-> args,
                       res |-> [err |-> FALSE, sup |-> reason, off |-> o, ep |-> e, cur |-> cur]]
     IN
     IF IsEph /\ cas.has
       THEN /\ UNCHANGED <<chEx, chOrd, st, top, win, ep, expAt, expQ, remAt, remQ, idem, iq, gidem>> /\ bc' = <<>>
            /\ step' = [act |-> "Remove", args |-> args,
                        res |-> [err |-> TRUE, sup |-> "", off |-> 0, ep |-> 0, cur |-> <<>>]]
     ELSE IF IdemHit(ik) THEN Suppressed("idempotency", idem[ik].off, idem[ik].ep, <<>>)
     ELSE IF ~chEx THEN Suppressed(IF cas.has THEN "position_mismatch" ELSE "key_not_found", 0, 0, <<>>)   \* no channel is created
     ELSE IF cas.has /\ k \notin DOMAIN st THEN Suppressed("position_mismatch", top, ep, <<>>)          \* CAS before the missing-key shortcut
     ELSE IF cas.has /\ (st[k].off # cas.off \/ ep # cas.ep)
       THEN Suppressed("position_mismatch", top, ep, <<[off |-> st[k].off, id |-> st[k].id]>>)
     ELSE IF k \notin DOMAIN st THEN Suppressed("key_not_found", top, ep, <<>>)
     ELSE LET off1 == IF HasStream THEN top + 1 ELSE top
              pubv == [off |-> off1, key |-> k, rm |-> TRUE, id |-> 0]
          IN /\ st' = Del(st, k)
             /\ UNCHANGED <<chEx, chOrd, ep>>
             /\ IF HasStream
                  THEN /\ expAt' = now + cf.sttl /\ expQ' = TouchQ(expAt, expQ, now + cf.sttl)
                       /\ MetaTouch
                       /\ top' = top + 1
                       /\ win' = Trim(Append(win, pubv), cf.size)
                  ELSE UNCHANGED <<expAt, expQ, remAt, remQ, top, win>>
             /\ idem' = IF ik = "" THEN idem ELSE Put(idem, ik, [off |-> off1, ep |-> ep, exp |-> now + ittl])
             /\ iq' = IF ik = "" THEN iq ELSE iq \cup {[k |-> ik, at |-> now + ittl]}
             /\ gidem' = IF ik = "" THEN gidem ELSE Put(gidem, ik, [off |-> off1, ep |-> ep, exp |-> now + ittl])
             /\ bc' = <<pubv>>
             /\ step' = [act |-> "Remove", args |-> args,
                         res |-> [err |-> FALSE, sup |-> "", off |-> off1, ep |-> ep, cur |-> <<>>]]

(* ---- Clear: the channel object, its TTL entries and the channel's result cache go; nothing is broadcast ---- *)
Clear ==
  /\ Settled /\ ~pl /\ nops < MaxOps
  /\ nops' = nops + 1
  /\ chEx' = FALSE /\ chOrd' = FALSE /\ st' = Empty /\ top' = 0 /\ win' = <<>> /\ ep' = 0
  /\ expAt' = 0 /\ expQ' = 0 /\ remAt' = 0 /\ remQ' = 0
  /\ idem' = Empty /\ gidem' = Empty
  /\ UNCHANGED <<cf, epc, iq, nkc, pend, now, npub>>               \* the queue items stay (stale)
  /\ bc' = <<>>
  /\ step' = [act |-> "Clear"]

(* ---- ReadState ----
   Blocking assumption: a read is atomic with respect to every other read and write of the channel -- its sorted view is ONE
   consistent order of the keys it returns (the code holds channel.mu from the rebuild of the cached sortedKeys slice to the
   last page entry, under the hub's read lock).  The harness mode `readers` probes it: concurrent walks in both directions over
   an unchanging ordered channel must each enumerate the sorted keys exactly once. *)
ReadState(cur, limit, asc, key, rev) ==
  /\ Settled /\ nops < MaxOps
  /\ nops' = nops + 1
  /\ MetaTouch                                   \* updateMetaTTL runs first, channel or not
  /\ UNCHANGED <<cf, st, top, win, expAt, expQ, idem, iq, gidem, nkc, pend, now, npub>>
  /\ bc' = <<>>
  /\ LET args == [cur |-> cur, limit |-> limit, asc |-> asc, key |-> key, rev |-> rev] IN
     IF ~chEx
       THEN \* createStreamPosition: an empty channel with a fresh epoch
            /\ chEx' = TRUE /\ chOrd' = FALSE /\ ep' = epc + 1 /\ epc' = epc + 1
            /\ step' = [act |-> "ReadState", args |-> args,
                        res |-> [err |-> rev.has /\ rev.ep # 0, pubs |-> <<>>, off |-> 0, ep |-> epc + 1, next |-> NoCur],
                        ref |-> <<>>, single |-> <<>>]
       ELSE /\ UNCHANGED <<chEx, chOrd, ep, epc>>
            /\ IF rev.has /\ rev.ep # ep
                 THEN step' = [act |-> "ReadState", args |-> args,
                               res |-> [err |-> TRUE, pubs |-> <<>>, off |-> top, ep |-> ep, next |-> NoCur],
                               ref |-> <<>>, single |-> <<>>]
               ELSE IF key # ""
                 THEN step' = [act |-> "ReadState", args |-> args,
                               res |-> [err |-> FALSE, pubs |-> IF key \in DOMAIN st THEN <<Pub(st, key)>> ELSE <<>>,
                                        off |-> top, ep |-> ep, next |-> NoCur],
                               ref |-> <<>>, single |-> IF key \in DOMAIN st THEN <<Pub(st, key)>> ELSE <<>>]
               ELSE IF limit = 0
                 THEN step' = [act |-> "ReadState", args |-> args,
                               res |-> [err |-> FALSE, pubs |-> <<>>, off |-> top, ep |-> ep, next |-> NoCur],
                               ref |-> <<>>, single |-> <<>>]
               ELSE LET p == PageImpl(st, chOrd, cur, limit, asc)      \* the code sorts by channel.ordered ...
                    IN step' = [act |-> "ReadState", args |-> args,
                                res |-> [err |-> FALSE, pubs |-> [i \in 1..Len(p.keys) |-> Pub(st, p.keys[i])],
                                         off |-> top, ep |-> ep, next |-> p.next],
                                ref |-> RefPage(st, cf.ord, cur, limit, asc), single |-> <<>>]   \* ... the reference by the channel's options

(* ---- ReadStream ---- *)
ReadStream(since, limit, reverse) ==
  /\ Settled /\ nops < MaxOps
  /\ nops' = nops + 1
  /\ MetaTouch
  /\ UNCHANGED <<cf, st, top, win, expAt, expQ, idem, iq, gidem, nkc, pend, now, npub>>
  /\ bc' = <<>>
  /\ LET args == [since |-> since, limit |-> limit, reverse |-> reverse] IN
     IF ~chEx
       THEN /\ chEx' = TRUE /\ chOrd' = FALSE /\ ep' = epc + 1 /\ epc' = epc + 1
            /\ step' = [act |-> "ReadStream", args |-> args,
                        res |-> [err |-> FALSE, pubs |-> <<>>, off |-> 0, ep |-> epc + 1],
                        ref |-> <<>>, refdef |-> TRUE]
       ELSE /\ UNCHANGED <<chEx, chOrd, ep, epc>>
            /\ IF since.has /\ since.ep # 0 /\ since.ep # ep
                 THEN step' = [act |-> "ReadStream", args |-> args,
                               res |-> [err |-> TRUE, pubs |-> <<>>, off |-> 0, ep |-> 0],
                               ref |-> <<>>, refdef |-> FALSE]
                 ELSE step' = [act |-> "ReadStream", args |-> args,
                               res |-> [err |-> FALSE, pubs |-> StreamImpl(win, top, since, limit, reverse), off |-> top, ep |-> ep],
                               ref |-> RefStream(win, since, limit, reverse),
                               refdef |-> RefStreamDefined(top, since, reverse)]

---------------------------------------------------------------------------
Cases == {NoCas} \cup [has : {TRUE}, off : CasOffs, ep : CasEps]
Cursors == {NoCur} \cup [has : {TRUE}, sc : Scores, k : Keys]
\* argument domains of the reads (overridable per configuration)
ReadEps   == {0, 1, 2}
SinceOffs == 0..(MaxPubs + 1)
Sinces == {NoSince} \cup [has : {TRUE}, off : SinceOffs, ep : ReadEps]
Revs == {NoRev} \cup [has : {TRUE}, ep : ReadEps]
AnIdemTTL == CHOOSE x \in IdemTTLs : TRUE
AScore == CHOOSE x \in Scores : TRUE

CanOp == nops < MaxOps /\ Settled      \* hoisted guard (repeated inside the actions)
PublishAny ==
  CanOp /\ npub < MaxPubs /\ \E k \in Keys, km \in KeyModes, cas \in Cases, v \in Versions, ve \in VerEpochs, ik \in IdemKeys, ittl \in IdemTTLs, sc \in Scores :
    /\ (v = 0 => ve = "") /\ (ik = "" => ittl = AnIdemTTL) /\ (~cf.ord => sc = AScore)
    /\ Publish(k, km, cas, v, ve, ik, ittl, sc)
RemoveAny ==
  CanOp /\ \E k \in Keys, cas \in Cases, ik \in IdemKeys, ittl \in IdemTTLs :
    /\ (ik = "" => ittl = AnIdemTTL)
    /\ RemoveKey(k, cas, ik, ittl)
ReadStateAny ==
  CanOp /\
  \/ \E cur \in Cursors, limit \in Limits, asc \in BOOLEAN, rev \in Revs :
       /\ (~cf.ord => (~asc /\ (cur.has => cur.sc = AScore)))
       /\ ReadState(IF cur.has /\ ~cf.ord THEN [cur EXCEPT !.sc = 0] ELSE cur, limit, asc, "", rev)
  \/ \E key \in Keys : ReadState(NoCur, -1, FALSE, key, NoRev)
ReadStreamAny ==
  CanOp /\ \E since \in Sinces, limit \in Limits, reverse \in BOOLEAN : ReadStream(since, limit, reverse)

Sweeps == (~Manual /\ (SweepExpire \/ SweepRemove \/ SweepIdem)) \/ ExpirePhase1 \/ ExpirePhase2 \/ ExpireDeliver

\* frame of every step: only the sweep steps touch pl / hq; the ghost subscriber applies what the step handed to the handler
\* (Clear and the channel's own expiry change the epoch: subscribers resynchronise from scratch)
ApplyBc(sk, b, gone) ==
  IF gone THEN {}
  ELSE IF b = <<>> THEN sk
  ELSE IF b[1].rm THEN sk \ {b[1].key} ELSE sk \cup {b[1].key}
Frame ==
  /\ IF step'.act \in {"ExpirePhase2", "ExpireDeliver"} THEN TRUE ELSE UNCHANGED <<pl, hq>>
  /\ sub' = ApplyBc(sub, bc', (chEx /\ ~chEx') \/ step'.act = "Init")

Next == (Tick \/ Sweeps \/ PublishAny \/ RemoveAny \/ Clear \/ ReadStateAny \/ ReadStreamAny) /\ Frame

Spec == Init /\ [][Next]_vars

---------------------------------------------------------------------------
(* ======== properties ======== *)
TypeOK ==
  /\ top >= 0 /\ Len(win) <= top
  /\ \A i \in 1..Len(win) : win[i].off = top - Len(win) + i     \* the window is the dense suffix ending at top
  /\ ~chEx => (st = Empty /\ top = 0 /\ win = <<>> /\ ep = 0 /\ ~chOrd)
  /\ ~HasStream => (top = 0 /\ win = <<>>)
  /\ DOMAIN st \subseteq Keys
  /\ \A k \in DOMAIN st : (st[k].exp # 0) = (cf.kttl > 0)

IsWrite  == step'.act \in {"Publish", "Remove"}
Applied  == IsWrite /\ ~step'.res.err /\ step'.res.sup = ""
Supp     == IsWrite /\ (step'.res.err \/ step'.res.sup # "")
Key0(f, k) == IF k \in DOMAIN f THEN <<f[k]>> ELSE <<>>

(* ---- C20 ---- *)
\* state is the fold of the unsuppressed operations: an applied publish stores exactly its payload under its key,
\* an applied remove deletes exactly its key, nothing else moves
FoldPublish == [][
  (step'.act = "Publish" /\ Applied) =>
     LET k == step'.args.key IN
     /\ DOMAIN st' = DOMAIN st \cup {k}
     /\ st'[k].id = step'.args.id /\ st'[k].off = step'.res.off /\ st'[k].sc = step'.args.sc
     /\ \A x \in DOMAIN st \ {k} : st'[x] = st[x] ]_vars
FoldRemove == [][
  (step'.act = "Remove" /\ Applied) =>
     LET k == step'.args.key IN
     /\ k \in DOMAIN st /\ DOMAIN st' = DOMAIN st \ {k}
     /\ \A x \in DOMAIN st' : st'[x] = st[x] ]_vars
\* ... and nothing but writes, Clear, channel expiry and key expiry touches the state
OnlyWritesChangeState == [][
  st' # st => step'.act \in {"Publish", "Remove", "Clear", "SweepRemove", "ExpirePhase2"} ]_vars

\* checks apply in the order version, key mode, CAS: the reported reason is that of the FIRST failing check
CheckOrder == [][
  (step'.act = "Publish" /\ ~step'.res.err /\ step'.res.sup # "idempotency") =>
     LET a == step'.args
         e1 == IF chEx THEN ep ELSE epc + 1
         wv == WouldVersion(a.key, a.v, a.ve)
         wk == WouldKeyMode(a.key, a.km)
         wc == WouldCas(a.key, a.cas, e1)
     IN step'.res.sup =
          (IF wv THEN "version"
           ELSE IF wk THEN (IF a.km = "if_exists" THEN "key_not_found" ELSE "key_exists")
           ELSE IF wc THEN "position_mismatch" ELSE "") ]_vars
RemoveReason == [][
  (step'.act = "Remove" /\ ~step'.res.err /\ step'.res.sup # "idempotency") =>
     LET a == step'.args IN
     step'.res.sup =
       (IF a.cas.has /\ (~chEx \/ a.key \notin DOMAIN st \/ st[a.key].off # a.cas.off \/ ep # a.cas.ep) THEN "position_mismatch"
        ELSE IF a.key \notin DOMAIN st THEN "key_not_found" ELSE "") ]_vars

\* a suppressed operation changes nothing, appends nothing, broadcasts nothing
\* (documented exception: RefreshTTLOnSuppress extends the deadline of the existing key, nothing else of it)
SuppressedChangesNothing == [][
  Supp =>
     /\ bc' = <<>>
     /\ <<top, win, idem, expAt, expQ>>' = <<top, win, idem, expAt, expQ>>
     /\ DOMAIN st' = DOMAIN st
     /\ \A x \in DOMAIN st :
          IF step'.act = "Publish" /\ step'.res.sup = "key_exists" /\ step'.args.km = "if_new_refresh" /\ x = step'.args.key
            THEN [st'[x] EXCEPT !.exp = 0, !.seq = 0] = [st[x] EXCEPT !.exp = 0, !.seq = 0] /\ st'[x].exp >= st[x].exp
            ELSE st'[x] = st[x]
     /\ (chEx => ep' = ep) ]_vars

\* each unsuppressed operation of a stream-backed channel appends exactly one entry (offset top+1) and is
\* broadcast once with that offset; without a stream it is broadcast once and nothing is appended
AppliedAppendsAndBroadcastsOnce == [][
  Applied =>
     LET entry == [off |-> step'.res.off, key |-> step'.args.key, rm |-> step'.act = "Remove",
                   id |-> IF step'.act = "Publish" THEN step'.args.id ELSE 0]
     IN /\ bc' = <<entry>>
        /\ IF HasStream
             THEN /\ step'.res.off = top + 1 /\ top' = top + 1
                  /\ win'[Len(win')] = entry
                  /\ Len(win') <= cf.size
                  /\ \A i \in 1..(Len(win') - 1) : \E j \in 1..Len(win) : win[j] = win'[i]
             ELSE top' = top /\ win' = win /\ step'.res.off = top ]_vars

\* nothing is handed to the event handler except by an applied write or an expiry removal
BroadcastOnlyByChange == [][
  bc' # <<>> => (Applied \/ (step'.act = "ExpirePhase2" /\ step'.removed) \/ step'.act = "ExpireDeliver") ]_vars

\* the stream: offsets dense, epoch stable while the channel object lives, fresh otherwise
EpochStable == [][ (chEx /\ chEx') => (ep' = ep /\ top' >= top) ]_vars
EpochFresh  == [][ (ep' # ep /\ ep' # 0) => (~chEx /\ ep' = epc + 1) ]_vars

\* reads
ReadStreamIsRetainedSuffix ==
  (step.act = "ReadStream" /\ step.refdef) => step.res.pubs = step.ref
ReadStateIsRefPage ==
  (step.act = "ReadState" /\ ~step.res.err /\ step.args.key = "" /\ step.args.limit # 0) =>
     [i \in 1..Len(step.res.pubs) |-> step.res.pubs[i].key] = step.ref

(* ---- C21 ---- *)
PaginationEnumerates == PaginationOKFor(st, chOrd, cf.ord)
\* the channel sorts the way its options say as soon as it holds a key, however the channel object came to exist
\* (created by the first publish, or by a ReadState / ReadStream that came before it, or re-created after Clear / expiry)
OrderedFlagFollowsOptions == (DOMAIN st # {}) => (chOrd = cf.ord)
\* single-key reads return exactly the stored entry
SingleKeyExact == [][
  (step'.act = "ReadState" /\ ~step'.res.err /\ step'.args.key # "" /\ chEx) =>
     step'.res.pubs = (IF step'.args.key \in DOMAIN st THEN <<Pub(st, step'.args.key)>> ELSE <<>>) ]_vars
\* every page starts strictly after its cursor: a walk always makes progress
PageAfterCursor ==
  (step.act = "ReadState" /\ ~step.res.err /\ step.args.key = "" /\ step.args.limit # 0 /\ step.args.cur.has) =>
     \A i \in 1..Len(step.res.pubs) :
        LET p == step.res.pubs[i] c == step.args.cur
        IN IF ~cf.ord THEN Rank(p.key) > Rank(c.k)
           ELSE IF step.args.asc THEN p.sc > c.sc \/ (p.sc = c.sc /\ Rank(p.key) > Rank(c.k))
           ELSE p.sc < c.sc \/ (p.sc = c.sc /\ Rank(p.key) < Rank(c.k))

(* ---- C24 ---- *)
\* an expiry removes a key only when its deadline has passed unrefreshed; then exactly one removal entry, one broadcast
ExpiryRemovesOnce == [][
  (step'.act = "ExpirePhase2" /\ step'.removed) =>
     LET k == step'.key IN
     /\ k \in DOMAIN st /\ st[k].exp # 0 /\ st[k].exp <= now
     /\ DOMAIN st' = DOMAIN st \ {k} /\ \A x \in DOMAIN st' : st'[x] = st[x]
     /\ LET ent == [off |-> IF HasStream THEN top + 1 ELSE top, key |-> k, rm |-> TRUE, id |-> 0]
        IN /\ IF HasStream THEN top' = top + 1 /\ win'[Len(win')] = ent ELSE top' = top /\ win' = win
           \* exactly one handler call for it: in this step, or (SplitDeliver) queued once for ExpireDeliver
           /\ IF SplitDeliver THEN bc' = <<>> /\ hq' = Append(hq, ent) ELSE bc' = <<ent>> /\ hq' = hq ]_vars
\* the queued removal is handed over exactly once, unchanged
ExpiryDeliversQueued == [][
  step'.act = "ExpireDeliver" => (hq # <<>> /\ bc' = <<Head(hq)>> /\ hq' = Tail(hq) /\ st' = st /\ top' = top /\ win' = win) ]_vars
\* a key whose deadline lies in the future (refreshed by publish or keep-alive) survives every sweep step untouched
RefreshedSurvive == [][
  step'.act \in {"ExpirePhase1", "ExpirePhase2"} =>
     \A k \in DOMAIN st : (st[k].exp = 0 \/ st[k].exp > now) => (k \in DOMAIN st' /\ st'[k] = st[k]) ]_vars
\* a phase-2 step that does not remove changes nothing
ExpiryNoopChangesNothing == [][
  (step'.act = "ExpirePhase1" \/ (step'.act = "ExpirePhase2" /\ ~step'.removed)) =>
     (<<chEx, st, top, win, ep>>' = <<chEx, st, top, win, ep>> /\ bc' = <<>>) ]_vars
\* neither removed twice nor lost: a key leaves the state only by an applied Remove, an expiry removal (each with
\* its single removal broadcast for that key), Clear or the channel's own expiry; a removal is broadcast only for a
\* key that was in the state
NeverLostNeverTwice == [][
  /\ \A k \in DOMAIN st \ DOMAIN st' :
        \/ step'.act \in {"Clear", "SweepRemove"}
        \/ /\ step'.act \in {"Remove", "ExpirePhase2"}
           /\ \/ Len(bc') = 1 /\ bc'[1].rm /\ bc'[1].key = k
              \/ SplitDeliver /\ step'.act = "ExpirePhase2" /\ Len(hq') = Len(hq) + 1 /\ hq'[Len(hq')].rm /\ hq'[Len(hq')].key = k
  /\ step'.act # "ExpireDeliver" =>
        \A i \in 1..Len(bc') : bc'[i].rm => (bc'[i].key \in DOMAIN st /\ bc'[i].key \notin DOMAIN st') ]_vars
\* no live deadline is forgotten: the sweeper's next check is never later than a deadline of a key in the state (keys
\* collected by the running sweep are in its candidate list) -- so every key whose TTL elapses is reached by a sweeper tick
SweeperArmed ==
  \A k \in DOMAIN st : st[k].exp # 0 =>
     \/ nkc # 0 /\ nkc <= st[k].exp
     \/ \E i \in 1..Len(pend) : pend[i].key = k /\ pend[i].exp = st[k].exp /\ pend[i].seq = st[k].seq
\* a passed deadline is acted upon: by the time the sweeper must have run, no overdue key is left
\* (modelling of the sweeper's period; the harness checks the same on the real broker with slack)
OverdueKeysGone ==
  (~Manual /\ pend = <<>> /\ step.act \in {"Publish", "Remove", "ReadState", "ReadStream", "Clear"}) =>
     \A k \in DOMAIN st : st[k].exp = 0 \/ st[k].exp + 1 + SweepSlack >= now

(* ---- the order at the event handler (C24, premise of C20 / C22) ---- *)
\* events reach the event handler in the order the changes were applied to state and stream: nothing is handed over while an
\* earlier change still waits for its call; on stream-backed channels that is stream-offset order
HandlerInOffsetOrder == [][
  bc' # <<>> =>
     /\ (step'.act # "ExpireDeliver" => hq = <<>>)
     /\ \A i \in 1..Len(hq') : HasStream => hq'[i].off > bc'[1].off ]_vars
\* ... so a subscriber that applies the handler's sequence in arrival order holds exactly the keys of the state whenever no
\* call is outstanding
SubscriberConverges == (hq = <<>>) => (sub = DOMAIN st)
\* a writer of the channel never runs while the sweeper is between its append and the return of the handler call
WritersWaitForSweeper == [][ (pl /\ step'.act \in {"Publish", "Remove", "Clear"}) => FALSE ]_vars

(* ---- C19, map half ---- *)
VersionExact == [][
  (step'.act = "Publish" /\ ~step'.res.err /\ step'.res.sup # "idempotency") =>
     ( (step'.res.sup = "version") <=>
       LET a == step'.args IN
       (HasStream /\ a.v > 0 /\ a.key \in DOMAIN st /\ (a.ve = "" \/ a.ve = st[a.key].vep) /\ a.v <= st[a.key].ver) ) ]_vars
UnversionedKeepsVersion == [][
  (step'.act = "Publish" /\ Applied /\ step'.args.v = 0 /\ step'.args.key \in DOMAIN st) =>
     (st'[step'.args.key].ver = st[step'.args.key].ver /\ st'[step'.args.key].vep = st[step'.args.key].vep) ]_vars
VersionedStoresVersion == [][
  (step'.act = "Publish" /\ Applied /\ step'.args.v > 0) =>
     (st'[step'.args.key].ver = step'.args.v /\ st'[step'.args.key].vep = step'.args.ve) ]_vars
IdemReturnsOriginal == [][
  (IsWrite /\ step'.res.sup = "idempotency") =>
     /\ step'.args.ik \in DOMAIN idem /\ now < idem[step'.args.ik].exp
     /\ step'.res.off = idem[step'.args.ik].off /\ step'.res.ep = idem[step'.args.ik].ep ]_vars
\* suppressed by idempotency exactly while the last result saved under the key (since the last Clear) is inside its TTL,
\* and then with that result's position -- judged against the ghost, which no cleaner touches
GhostHit(ik) == ik # "" /\ ik \in DOMAIN gidem /\ gidem[ik].exp > now
IdemExact == [][
  (IsWrite /\ ~step'.res.err) =>
     /\ (step'.res.sup = "idempotency") <=> GhostHit(step'.args.ik)
     /\ (step'.res.sup = "idempotency") =>
           (step'.res.off = gidem[step'.args.ik].off /\ step'.res.ep = gidem[step'.args.ik].ep) ]_vars
\* the cleaner never removes a result that is still inside its TTL (stale queue items are re-checked)
IdemSweepKeepsValid == [][
  step'.act = "SweepIdem" =>
     \A k \in DOMAIN idem : idem[k].exp > now => (k \in DOMAIN idem' /\ idem'[k] = idem[k]) ]_vars
IdemSavedOnApply == [][
  (Applied /\ step'.args.ik # "") =>
     idem'[step'.args.ik] = [off |-> step'.res.off, ep |-> step'.res.ep, exp |-> now + step'.args.ittl] ]_vars

View == <<core, npub, nops>>

(* ---- configurations ---- *)
Cfg(m, o, k, s, st_, mt) == [mode |-> m, ord |-> o, kttl |-> k, size |-> s, sttl |-> st_, mttl |-> mt]
ConfigsRec    == {Cfg("rec", FALSE, 1, 2, 2, 3)}
ConfigsRecOrd == {Cfg("rec", TRUE, 2, 2, 1, 2)}
ConfigsPer    == {Cfg("per", FALSE, 0, 1, 1, 0), Cfg("per", TRUE, 0, 2, 2, 0)}
ConfigsEph    == {Cfg("eph", FALSE, 1, 0, 0, 0), Cfg("eph", TRUE, 2, 0, 0, 0)}
ConfigsChecks == {Cfg("rec", FALSE, 1, 2, 2, 3), Cfg("per", TRUE, 0, 1, 1, 0)}
ConfigsTime   == {Cfg("rec", FALSE, 1, 2, 2, 3), Cfg("rec", TRUE, 2, 1, 1, 2), Cfg("eph", FALSE, 1, 0, 0, 0)}
ConfigsTimeQ  == {Cfg("rec", FALSE, 1, 2, 2, 3), Cfg("eph", FALSE, 1, 0, 0, 0)}
ConfigsRace   == {Cfg("rec", FALSE, 1, 2, 3, 3), Cfg("rec", TRUE, 1, 1, 1, 1), Cfg("eph", FALSE, 1, 0, 0, 0)}
ConfigsIdemT  == {Cfg("rec", FALSE, 1, 2, 2, 3), Cfg("eph", FALSE, 1, 0, 0, 0)}
ConfigsAll    == ConfigsRec \cup ConfigsRecOrd \cup ConfigsPer \cup ConfigsEph
ConfigsSim    == {Cfg("rec", FALSE, 1, 2, 3, 5), Cfg("rec", TRUE, 3, 3, 1, 5), Cfg("rec", FALSE, 2, 1, 4, 6),
                  Cfg("rec", TRUE, 1, 3, 6, 6), Cfg("rec", FALSE, 2, 2, 2, 4),
                  Cfg("per", FALSE, 0, 2, 1, 0), Cfg("per", TRUE, 0, 3, 2, 0),
                  Cfg("eph", FALSE, 1, 0, 0, 0), Cfg("eph", TRUE, 2, 0, 0, 0)}
ConfigsManual == {Cfg("rec", FALSE, 1, 3, 50, 50), Cfg("rec", TRUE, 2, 2, 50, 50), Cfg("rec", FALSE, 2, 3, 50, 50),
                  Cfg("eph", FALSE, 1, 0, 0, 0), Cfg("eph", TRUE, 2, 0, 0, 0)}
KeySeq1 == <<"a">>
KeySeq2 == <<"a", "b">>
KeySeq3 == <<"a", "b", "c">>
KeySeq4 == <<"a", "b", "c", "d">>
SlackOne == 1
TrueDef == TRUE
FalseDef == FALSE
ConfigsOrder == {Cfg("rec", FALSE, 1, 2, 3, 3), Cfg("eph", FALSE, 1, 0, 0, 0)}
ScoresSim == {-1, 0, 1}
ScoresPages == {-2, -1, 0, 1, 2}     \* the harness maps -2 / 2 to math.MinInt64 / math.MaxInt64
ScoresPagesQuick == {-2, 0, 2}
ReadEpsSmall == {1}
SinceOffsSmall == {0, 1, 3}
LimitsSmall == {-1, 0, 1}
LimitsTiny == {-1, 1}
SinceOffsTiny == {0, 1}
LimitsBig   == {-1, 0, 1, 2, 3}
=============================================================================
