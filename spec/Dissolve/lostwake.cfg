SPECIFICATION SpecR
CONSTANTS
  Workers = {1}
  Jobs = {1, 2}
  MaxFail = 0
  AllowClose = FALSE
  AtomicWait = FALSE
VIEW View
INVARIANTS TypeOK SomeoneWillLook
CHECK_DEADLOCK FALSE
