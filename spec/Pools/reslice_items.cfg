SPECIFICATION Spec
CONSTANTS
  Kinds = {"items"}
  Small = {0, 1, 2, 3, 4, 5}
  Around <- AroundStd
  PoolBound = 1
  Reslice = TRUE
VIEW View
INVARIANTS PoolInv
PROPERTIES GetOK
CHECK_DEADLOCK FALSE
