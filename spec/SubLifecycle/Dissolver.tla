----------------------------- MODULE Dissolver -----------------------------
(* C26, several channels: the deferred broker unsubscribe of node.go removeSubscription on the worker pool of
   internal/dissolve (Dissolver.runWorker / queue) when Broker.Unsubscribe FAILS.

   Every channel starts with a local subscriber and a broker subscription. Leave(c): the last local subscriber of c
   goes (hub removeSub reports "empty") and removeSubscription submits a job for c. A worker takes a job from the
   queue into ITS job variable (cur[w]) and runs it: under the channel's subLock it looks for local subscribers and,
   when there are none, calls Broker.Unsubscribe. A failing call makes the job return its error (after a cool-down),
   and runWorker puts THAT job back at the end of the queue: it is retried until it succeeds. Join(c): a new first
   subscriber (hub addSub "first" + Broker.Subscribe under the same subLock).

   Property: at rest (no job queued, no worker holding one) the node is broker-subscribed to exactly the channels
   with local subscribers; and, with the workers running, rest is always reached again (a failed job is retried).
   Bound to the code by harness/lifecycle jobretryprobe (backlog of jobs > workers, first wave of Unsubscribe calls
   fails) and, for a single job, by the JobRun steps of SubLifecycle.tla replayed with a failing Broker.Unsubscribe. *)
EXTENDS Integers, Sequences, FiniteSets, TLC

CONSTANTS Chans, Workers, MaxFaults, MaxJoins

VARIABLES
  local,    \* channel -> has a local subscriber
  bsub,     \* channel -> node subscribed in the broker
  queue,    \* the dissolver queue: channels whose job waits
  cur,      \* worker -> the job it took ("idle" = waiting in queue.Wait)
  faults,   \* failed Broker.Unsubscribe calls so far
  joins,    \* Join operations so far
  step

vars == <<local, bsub, queue, cur, faults, joins, step>>

Init ==
  /\ local = [c \in Chans |-> TRUE] /\ bsub = [c \in Chans |-> TRUE]
  /\ queue = <<>> /\ cur = [w \in Workers |-> "idle"]
  /\ faults = 0 /\ joins = 0
  /\ step = [act |-> "Init"]

\* the job of channel c is being executed (its worker holds the channel's subLock from the check to the broker call)
Running(c) == \E w \in Workers : cur[w] = c

Leave(c) ==       \* removeSubscription: hub emptied => Submit(job)
  /\ local[c]
  /\ local' = [local EXCEPT ![c] = FALSE]
  /\ queue' = Append(queue, c)
  /\ UNCHANGED <<bsub, cur, faults, joins>>
  /\ step' = [act |-> "Leave", ch |-> c]

Join(c) ==        \* addSubscription: first subscriber => Broker.Subscribe (same subLock as the job)
  /\ ~local[c] /\ joins < MaxJoins
  /\ local' = [local EXCEPT ![c] = TRUE]
  /\ bsub' = [bsub EXCEPT ![c] = TRUE]
  /\ joins' = joins + 1
  /\ UNCHANGED <<queue, cur, faults>>
  /\ step' = [act |-> "Join", ch |-> c]

Take(w) ==        \* job, ok := d.queue.Wait()
  /\ cur[w] = "idle" /\ queue # <<>>
  /\ cur' = [cur EXCEPT ![w] = Head(queue)]
  /\ queue' = Tail(queue)
  /\ UNCHANGED <<local, bsub, faults, joins>>
  /\ step' = [act |-> "Take", w |-> w]

Exec(w) ==        \* err := job(); if err != nil { d.queue.Add(job) }
  /\ cur[w] # "idle"
  /\ LET c == cur[w] IN
     IF local[c]
       THEN /\ UNCHANGED <<bsub, queue, faults>>                      \* subscribers again: nothing to do
            /\ step' = [act |-> "Exec", w |-> w, ch |-> c, res |-> "kept"]
       ELSE \E f \in (IF faults < MaxFaults THEN {FALSE, TRUE} ELSE {FALSE}) :
              IF f THEN /\ faults' = faults + 1
                        /\ queue' = Append(queue, c)                   \* the FAILED job goes back to the end of the queue
                        /\ UNCHANGED bsub
                        /\ step' = [act |-> "Exec", w |-> w, ch |-> c, res |-> "failed"]
                   ELSE /\ bsub' = [bsub EXCEPT ![c] = FALSE]
                        /\ UNCHANGED <<queue, faults>>
                        /\ step' = [act |-> "Exec", w |-> w, ch |-> c, res |-> "unsubscribed"]
  /\ cur' = [cur EXCEPT ![w] = "idle"]
  /\ UNCHANGED <<local, joins>>

Work == \E w \in Workers : Take(w) \/ Exec(w)
Next == (\E c \in Chans : Leave(c) \/ Join(c)) \/ Work

Spec == Init /\ [][Next]_vars /\ WF_vars(Work)

AtRest == queue = <<>> /\ \A w \in Workers : cur[w] = "idle"

TypeOK == faults <= MaxFaults /\ joins <= MaxJoins /\ Len(queue) <= Cardinality(Chans) + MaxJoins + MaxFaults
\* local interest implies a broker subscription, always
C26_Safe    == \A c \in Chans : local[c] => bsub[c]
\* after the jobs drained the node is broker-subscribed to exactly the channels with local subscribers
C26_Drained == AtRest => \A c \in Chans : bsub[c] <=> local[c]
\* every emptied channel that is still broker-subscribed has a job (queued or taken): nothing is ever dropped
C26_JobKept == \A c \in Chans : (bsub[c] /\ ~local[c]) => (Running(c) \/ \E i \in 1..Len(queue) : queue[i] = c)
\* a failed job is retried: rest is reached again and again
C26_Retried == []<>AtRest

View == <<local, bsub, queue, cur, faults, joins>>
=============================================================================
