// Package vh is the common plumbing of the /verif Go harness binaries:
// `<bin> <mode> <in.json> <out.json>`; the input is produced by the Python runner from TLC output
// (behaviours, tables), the output carries violations (real code broke the property), drifts (real code
// disagrees with the model on something the property does not talk about) and coverage counts.
package vh

import (
	"encoding/json"
	"fmt"
	"os"
	"runtime/debug"
	"strconv"
	"sync"
)

type Violation struct {
	Prop   string `json:"prop"`
	Sig    string `json:"sig"`
	What   string `json:"what"`
	Replay any    `json:"replay,omitempty"`
}

type Drift struct {
	Prop   string `json:"prop,omitempty"`
	What   string `json:"what"`
	Replay any    `json:"replay,omitempty"`
}

type Result struct {
	mu         sync.Mutex
	Executed   int            `json:"executed"`
	Completed  int            `json:"completed"`
	Nontrivial int            `json:"nontrivial"`
	Violations []Violation    `json:"violations"`
	Drifts     []Drift        `json:"drifts"`
	Samples    []any          `json:"samples"`
	Counters   map[string]int `json:"counters"`
	Extra      map[string]any `json:"extra,omitempty"`
	distinct   map[string]struct{}
}

func NewResult() *Result {
	return &Result{Counters: map[string]int{}, Extra: map[string]any{}, distinct: map[string]struct{}{}}
}

const maxKept = 40

func (r *Result) Violate(prop, sig, what string, replay any) {
	r.mu.Lock()
	defer r.mu.Unlock()
	for _, v := range r.Violations {
		if v.Prop == prop && v.Sig == sig {
			return
		}
	}
	if len(r.Violations) < maxKept {
		r.Violations = append(r.Violations, Violation{prop, sig, what, replay})
	}
}

func (r *Result) Drift(prop, what string, replay any) {
	r.mu.Lock()
	defer r.mu.Unlock()
	if len(r.Drifts) < maxKept {
		r.Drifts = append(r.Drifts, Drift{prop, what, replay})
	}
}

func (r *Result) Count(name string, n int) {
	r.mu.Lock()
	r.Counters[name] += n
	r.mu.Unlock()
}

// Distinct records a non-trivial case key; Nontrivial is the number of distinct keys.
func (r *Result) Distinct(key string) {
	r.mu.Lock()
	if _, ok := r.distinct[key]; !ok {
		r.distinct[key] = struct{}{}
		r.Nontrivial = len(r.distinct)
	}
	r.mu.Unlock()
}

func (r *Result) Sample(s any) {
	r.mu.Lock()
	if len(r.Samples) < 3 {
		r.Samples = append(r.Samples, s)
	}
	r.mu.Unlock()
}

func (r *Result) Done(executed, completed int) {
	r.mu.Lock()
	r.Executed += executed
	r.Completed += completed
	r.mu.Unlock()
}

type Mode func(in json.RawMessage, res *Result) error

func Seed() int64 {
	s, err := strconv.ParseInt(os.Getenv("VERIF_SEED"), 10, 64)
	if err != nil {
		return 1
	}
	return s
}

func Thorough() bool { return os.Getenv("VERIF_TIER") == "thorough" }

func Main(modes map[string]Mode) {
	if len(os.Args) < 4 {
		fmt.Fprintln(os.Stderr, "usage: <bin> <mode> <in.json> <out.json>")
		os.Exit(3)
	}
	m, ok := modes[os.Args[1]]
	if !ok {
		fmt.Fprintln(os.Stderr, "unknown mode", os.Args[1])
		os.Exit(3)
	}
	in, err := os.ReadFile(os.Args[2])
	if err != nil {
		fmt.Fprintln(os.Stderr, err)
		os.Exit(3)
	}
	res := NewResult()
	func() {
		defer func() {
			if p := recover(); p != nil {
				fmt.Fprintf(os.Stderr, "harness panic: %v\n%s\n", p, debug.Stack())
				os.Exit(4)
			}
		}()
		if err := m(in, res); err != nil {
			fmt.Fprintln(os.Stderr, "harness error:", err)
			os.Exit(5)
		}
	}()
	out, err := json.Marshal(res)
	if err != nil {
		fmt.Fprintln(os.Stderr, err)
		os.Exit(6)
	}
	if err := os.WriteFile(os.Args[3], out, 0o644); err != nil {
		fmt.Fprintln(os.Stderr, err)
		os.Exit(6)
	}
}

// --- helpers for reading parsed TLC values (maps from encoding/json) ---

func Int(v any) int {
	switch x := v.(type) {
	case float64:
		return int(x)
	case int:
		return x
	case json.Number:
		i, _ := x.Int64()
		return int(i)
	}
	panic(fmt.Sprintf("vh.Int: %T %v", v, v))
}

func Str(v any) string {
	if s, ok := v.(string); ok {
		return s
	}
	panic(fmt.Sprintf("vh.Str: %T %v", v, v))
}

func Bool(v any) bool {
	if b, ok := v.(bool); ok {
		return b
	}
	panic(fmt.Sprintf("vh.Bool: %T %v", v, v))
}

func List(v any) []any {
	if v == nil {
		return nil
	}
	if l, ok := v.([]any); ok {
		return l
	}
	panic(fmt.Sprintf("vh.List: %T %v", v, v))
}

func Map(v any) map[string]any {
	if m, ok := v.(map[string]any); ok {
		return m
	}
	// TLC prints an empty function/record as <<>>
	if l, ok := v.([]any); ok && len(l) == 0 {
		return map[string]any{}
	}
	panic(fmt.Sprintf("vh.Map: %T %v", v, v))
}

func J(v any) string {
	b, _ := json.Marshal(v)
	return string(b)
}
