------------------------------ MODULE WsWriter ------------------------------
(* C30  WebSocket messages round-trip through writer and reader.

   Implementation-shaped model of the WRITE path of /repo/internal/websocket
   (conn.go: beginMessage, NextWriter, messageWriter.{Write,ncopy,flushFrame,
   Close,endMessage}, WriteMessage incl. the server fast path, WriteControl,
   Conn.write with the sticky ErrCloseSent; prepared.go: PreparedMessage.frame
   on a fake Conn with the default 4096 byte buffer; compression.go only as
   far as "RSV1 on the first frame, lengths unknown").

   One action per API call.  The output of the model is the sequence of
   abstract frames [op, fin, rsv1, masked, len] put on the wire (`wire`), and
   the sequence of messages the writer API reported as written (`sent`).

   The PROPERTY is stated independently of the writer: `Dec` is a decoder of
   RFC 6455 frame sequences (section 5.2 base framing, 5.4 fragmentation, 5.5
   control frames, 5.1/5.3 masking, RFC 7692 section 6 RSV1 placement); the
   invariant Roundtrip says the wire is accepted by it and decodes to exactly
   the written messages (types, lengths, compressed flag, order).

   Sizes are real byte counts, the buffer size B is the real writeBufferSize
   handed to newConn, so the harness replays the script with the same numbers.
   For compressed messages the byte counts on the wire depend on DEFLATE and
   are not modelled: len = -1, and the number of non-final fragments is
   nondeterministic; the harness compares the structure only (first frame
   opcode + RSV1, continuations without RSV1, FIN on the last) and the
   inflated bytes.                                                        *)
EXTENDS Integers, Sequences, FiniteSets, TLC

CONSTANTS Bs,         \* write buffer sizes (real bytes)
          WClasses,   \* size classes of Write(p) chunks          (see SizeOf)
          OClasses,   \* size classes of WriteMessage data messages
          PClasses,   \* size classes of prepared data messages
          MaxOps,     \* API calls per script
          MaxWrites   \* Write calls per streamed message

PB == 4096            \* defaultWriteBufferSize: the fake Conn of PreparedMessage.frame
Hdr == 14             \* maxFrameHeaderSize
MaxCtl == 125         \* maxControlFramePayloadSize

Text == 1  Binary == 2  Close == 8  Ping == 9  Pong == 10  Cont == 0
BadType == 3          \* reserved non-control opcode: errBadWriteOpCode
IsControl(t) == t \in {Close, Ping, Pong}
IsData(t)    == t \in {Text, Binary}

VARIABLES side,       \* "server" | "client"            (Conn.isServer)
          neg,        \* permessage-deflate negotiated   (newCompressionWriter # nil)
          B,          \* write buffer size               (len(writeBuf) - Hdr)
          h,          \* the application's writer handle: "none" | "open" | "dead"
          wtype,      \* message type of the open writer
          ftype,      \* messageWriter.frameType (type, then continuation)
          pos,        \* messageWriter.pos - Hdr: bytes buffered
          rsv,        \* messageWriter.compress: RSV1 on the next flush
          cmp,        \* the open writer is wrapped by the flate writer
          nfl,        \* frames of the open message flushed so far
          acc,        \* bytes the application wrote into the open message
          nwr,        \* Write calls on the open writer (bound)
          cs,         \* Conn.writeErr = ErrCloseSent
          nops,
          wire,       \* history: frames on the wire
          sent,       \* history: messages reported as written, in wire order
          dcur, dclosed, mon,   \* online run of the reference decoder (see the property below)
          step        \* last API call, arguments, result, frames it emitted, messages it completed

vars == <<side, neg, B, h, wtype, ftype, pos, rsv, cmp, nfl, acc, nwr, cs, nops, wire, sent, dcur, dclosed, mon, step>>

Frame(op, fin, r, len) == [op |-> op, fin |-> fin, rsv1 |-> r, masked |-> (side = "client"), len |-> len]

\* k frames of length b, the first with opcode ft/rsv r, the others continuations
RECURSIVE Fulls(_, _, _, _)
Fulls(k, ft, r, b) == IF k = 0 THEN <<>> ELSE <<Frame(ft, FALSE, r, b)>> \o Fulls(k - 1, Cont, FALSE, b)

---------------------------------------------------------------------------
(* --- the code ---------------------------------------------------------- *)
(* A writer/connection state is the record S; every piece of the code is an
   operator S -> [s, out, claims, res].                                     *)

S == [h |-> h, wtype |-> wtype, ftype |-> ftype, pos |-> pos, rsv |-> rsv, cmp |-> cmp,
      nfl |-> nfl, acc |-> acc, nwr |-> nwr, cs |-> cs]

R(s, out, claims, res) == [s |-> s, out |-> out, claims |-> claims, res |-> res]
Dead(s) == [s EXCEPT !.h = "dead"]           \* endMessage(err): w.err set, c.writer = nil

(* The write API's sequential meaning (what `acc` and the claims state): the message delivered to the peer is the
   concatenation, in call order, of all bytes accepted by the Write / WriteString / ReadFrom (io.Copy) calls
   between NextWriter and Close -- for ReadFrom / io.Copy: every byte the source produced up to and including the
   Read that reports io.EOF (io.Reader contract: a Read may return n > 0 together with io.EOF).

   One streaming call of n bytes on a plain (not flate-wrapped) writer with buffer size b; `via` is the call kind:
     "w"   Write(p); server and n > 2*len(writeBuf): flushFrame(false, p) -- one frame of pos+n bytes
     "s"   WriteString(p)
           "w" / "s": the ncopy loop -- a frame of exactly b bytes is flushed each time the buffer is full AND more
           data is pending (so a message of exactly b bytes is one final frame)
     "r"   io.Copy(w, src) = ReadFrom(src), src returns all its data with a nil error and then (0, io.EOF)
     "re"  ... src returns its last bytes TOGETHER with io.EOF (n > 0, io.EOF), an empty src (0, io.EOF)
     "rc", "rce"  the same two with a src that hands out at most a few bytes per Read
           the ReadFrom loop flushes a full buffer BEFORE asking the reader for more: with "r"/"rc" that is also the
           case when the reader then only reports EOF, with "re"/"rce" only when more data follows (or the call
           starts on a full buffer).  The chunking of the source does not change the frames.
   On a flate-wrapped writer io.Copy / io.WriteString fall back to Write calls (CmpWrite whatever `via`).      *)
Vias    == {"w", "s", "r", "re", "rc", "rce"}
EofSep(via)  == via \in {"r", "rc"}
EofWith(via) == via \in {"re", "rce"}
PlainWrite(s, n, b, server, via) ==
  LET total == s.pos + n
      large == server /\ via = "w" /\ n > 2 * (b + Hdr)
      k     == IF large THEN 1
               ELSE IF EofSep(via) \/ (EofWith(via) /\ n = 0) THEN total \div b
               ELSE IF n = 0 \/ total <= b THEN 0 ELSE (total - 1) \div b
  IN IF k = 0 THEN R([s EXCEPT !.pos = total, !.acc = @ + n], <<>>, <<>>, "ok")
     ELSE IF IsControl(s.ftype) THEN R(Dead(s), <<>>, <<>>, "err")     \* errInvalidControlFrame (!final)
     ELSE IF s.cs THEN R(Dead(s), <<>>, <<>>, "err")                   \* Conn.write: ErrCloseSent
     ELSE IF large
       THEN R([s EXCEPT !.pos = 0, !.ftype = Cont, !.rsv = FALSE, !.nfl = @ + 1, !.acc = @ + n],
              <<Frame(s.ftype, FALSE, s.rsv, total)>>, <<>>, "ok")
       ELSE R([s EXCEPT !.pos = total - k * b, !.ftype = Cont, !.rsv = FALSE, !.nfl = @ + k, !.acc = @ + n],
              Fulls(k, s.ftype, s.rsv, b), <<>>, "ok")

\* messageWriter.Close() = flushFrame(true, nil) on a plain writer
PlainClose(s) ==
  IF IsControl(s.ftype) /\ s.pos > MaxCtl THEN R(Dead(s), <<>>, <<>>, "err")
  ELSE IF s.cs THEN R(Dead(s), <<>>, <<>>, "err")
  ELSE R([Dead(s) EXCEPT !.cs = (s.ftype = Close)],
         <<Frame(s.ftype, TRUE, s.rsv, s.pos)>>, <<[t |-> s.wtype, n |-> s.acc, z |-> FALSE, prev |-> FALSE]>>, "ok")

\* flate-wrapped writer: j = number of non-final frames DEFLATE output happened to fill
CmpFrames(s, j) == IF j = 0 THEN <<>> ELSE <<Frame(s.ftype, FALSE, s.rsv, -1)>>
CmpAfter(s, j)  == IF j = 0 THEN s ELSE [s EXCEPT !.ftype = Cont, !.rsv = FALSE, !.nfl = @ + 1]

\* after a Close frame was sent the flate writer may or may not reach the failing Conn.write (it buffers):
\* the result of Write is unspecified ("any"), nothing is emitted, Close fails for sure
CmpWrite(s, n, j) ==
  IF s.cs THEN R([s EXCEPT !.acc = @ + n], <<>>, <<>>, "any")
  ELSE R([CmpAfter(s, j) EXCEPT !.acc = @ + n], CmpFrames(s, j), <<>>, "ok")

CmpClose(s, j) ==
  IF s.cs THEN R(Dead(s), <<>>, <<>>, "err")
  ELSE LET s1 == CmpAfter(s, j)
       IN R(Dead(s1), CmpFrames(s, j) \o <<Frame(s1.ftype, TRUE, s1.rsv, -1)>>,
            <<[t |-> s.wtype, n |-> s.acc, z |-> TRUE, prev |-> FALSE]>>, "ok")

DoClose(s, j) == IF s.cmp THEN CmpClose(s, j) ELSE PlainClose(s)

\* beginMessage: implicit Close of a writer the application left open (result ignored),
\* type check, sticky write error check; NextWriter: wrap when compression applies
Begin(s, t, z, j) ==
  LET c0 == IF s.h = "open" THEN DoClose(s, j) ELSE R(s, <<>>, <<>>, "ok")
      c  == [c0 EXCEPT !.claims = [k \in 1..Len(c0.claims) |-> [c0.claims[k] EXCEPT !.prev = TRUE]]]   \* completed by the implicit Close
      s0 == [c.s EXCEPT !.h = "none"]
  IN IF ~(IsControl(t) \/ IsData(t)) THEN R(s0, c.out, c.claims, "err")
     ELSE IF s0.cs THEN R(s0, c.out, c.claims, "err")
     ELSE LET on == neg /\ z /\ IsData(t)
          IN R([s0 EXCEPT !.h = "open", !.wtype = t, !.ftype = t, !.pos = 0, !.rsv = on, !.cmp = on,
                          !.nfl = 0, !.acc = 0, !.nwr = 0], c.out, c.claims, "ok")

\* Conn.WriteMessage(t, data), len(data) = n, EnableWriteCompression(z) before
WriteMsg(s, t, n, z, j1, j2, b, server, negd) ==
  IF server /\ ~(negd /\ z)
  THEN \* fast path: beginMessage; copy; flushFrame(true, rest): ONE frame whatever n
       LET bg == Begin(s, t, FALSE, j1)
       IN IF bg.res = "err" THEN bg
          ELSE IF IsControl(t) /\ n > MaxCtl THEN R([bg.s EXCEPT !.h = "none"], bg.out, bg.claims, "err")
          ELSE R([bg.s EXCEPT !.h = "none", !.cs = (t = Close)],
                 bg.out \o <<Frame(t, TRUE, FALSE, n)>>, bg.claims \o <<[t |-> t, n |-> n, z |-> FALSE, prev |-> FALSE]>>, "ok")
  ELSE \* NextWriter; Write; Close
       LET bg == Begin(s, t, z, j1)
       IN IF bg.res = "err" THEN bg
          ELSE LET wr == IF bg.s.cmp THEN CmpWrite(bg.s, n, IF n = 0 THEN 0 ELSE j2) ELSE PlainWrite(bg.s, n, b, server, "w")
               IN IF wr.res = "err" THEN R([wr.s EXCEPT !.h = "none"], bg.out, bg.claims, "err")
                  ELSE LET cl == DoClose(wr.s, 0)
                       IN R([cl.s EXCEPT !.h = "none"], bg.out \o wr.out \o cl.out, bg.claims \o cl.claims, cl.res)

\* Conn.WritePreparedMessage: the frames of WriteMessage on a fresh fake Conn (buffer PB, same role,
\* compression iff negotiated /\ enabled /\ data) written in one piece.  NewPreparedMessage itself
\* prepares the plain server frame, so an invalid message already fails there.
Fresh == [h |-> "none", wtype |-> 0, ftype |-> 0, pos |-> 0, rsv |-> FALSE, cmp |-> FALSE, nfl |-> 0, acc |-> 0, nwr |-> 0, cs |-> FALSE]

Prepared(s, t, n, z, j2) ==
  IF ~(IsControl(t) \/ IsData(t)) \/ (IsControl(t) /\ n > MaxCtl) THEN R(s, <<>>, <<>>, "err")
  ELSE LET on == neg /\ z /\ IsData(t)
           f  == WriteMsg(Fresh, t, n, on, 0, j2, PB, side = "server", on)
       IN IF f.res # "ok" THEN R(s, <<>>, <<>>, "err")
          ELSE IF s.cs THEN R(s, <<>>, <<>>, "err")
          ELSE R([s EXCEPT !.cs = (t = Close)], f.out, f.claims, "ok")

\* Conn.WriteControl(k, data, deadline in the future), len(data) = n
Control(s, k, n) ==
  IF n > MaxCtl THEN R(s, <<>>, <<>>, "err")                 \* errInvalidControlFrame, before anything else
  ELSE IF s.cs THEN R(s, <<>>, <<>>, "err")
  ELSE R([s EXCEPT !.cs = (k = Close)], <<Frame(k, TRUE, FALSE, n)>>, <<[t |-> k, n |-> n, z |-> FALSE, prev |-> FALSE]>>, "ok")

---------------------------------------------------------------------------
(* --- the property: an independent RFC 6455 / RFC 7692 frame decoder ------ *)

None == [t |-> -1, n |-> 0, z |-> FALSE]
Add(a, b) == IF a = -1 \/ b = -1 THEN -1 ELSE a + b

(* Dec(fs, i, cur, closed, dl): decode fs[i..]; cur = the fragmented message in progress, closed = a Close
   frame was seen, dl = deliveries so far.
   RFC 6455 5.2: opcodes 0,1,2,8,9,10 only; 5.1: client frames masked, server frames not;
   5.4: a message is one unfragmented frame (FIN, opcode # 0) or a frame with opcode # 0 and FIN clear,
        then opcode 0 frames, the last with FIN; fragments of different messages are not interleaved;
        control frames MAY appear in the middle of a fragmented message;
   5.5: control frames have length <= 125 and MUST NOT be fragmented;
   5.5.1: nothing is sent after a Close frame;
   RFC 7692 6 / 6.1: RSV1 only on the first fragment of a (compressed) data message, only when the
        extension was negotiated; never on control frames.                                          *)
RECURSIVE Dec(_, _, _, _, _)
Dec(fs, i, cur, closed, dl) ==
  LET Bad == [ok |-> FALSE, dl |-> dl, cur |-> cur, closed |-> closed] IN
  IF i > Len(fs) THEN [ok |-> TRUE, dl |-> dl, cur |-> cur, closed |-> closed]
  ELSE LET f == fs[i] IN
    IF closed \/ f.masked # (side = "client") THEN Bad
    ELSE IF f.op \in {Close, Ping, Pong}
      THEN IF f.fin /\ ~f.rsv1 /\ f.len >= 0 /\ f.len <= MaxCtl
             THEN Dec(fs, i + 1, cur, f.op = Close, Append(dl, [t |-> f.op, n |-> f.len, z |-> FALSE]))
             ELSE Bad
    ELSE IF f.op \in {Text, Binary}
      THEN IF cur = None /\ (f.rsv1 => neg)
             THEN IF f.fin THEN Dec(fs, i + 1, None, closed, Append(dl, [t |-> f.op, n |-> f.len, z |-> f.rsv1]))
                  ELSE Dec(fs, i + 1, [t |-> f.op, n |-> f.len, z |-> f.rsv1], closed, dl)
             ELSE Bad
    ELSE IF f.op = Cont
      THEN IF cur # None /\ ~f.rsv1
             THEN IF f.fin THEN Dec(fs, i + 1, None, closed, Append(dl, [cur EXCEPT !.n = Add(@, f.len)]))
                  ELSE Dec(fs, i + 1, [cur EXCEPT !.n = Add(@, f.len)], closed, dl)
             ELSE Bad
    ELSE Bad

\* what the peer must receive for a message the API reported as written
Expect(m) == [t |-> m.t, n |-> (IF m.z THEN -1 ELSE m.n), z |-> m.z]
Expects(ms) == [k \in 1..Len(ms) |-> Expect(ms[k])]

\* (1) over the whole history, from scratch
Roundtrip ==
  LET d == Dec(wire, 1, None, FALSE, <<>>) IN
  /\ d.ok                                          \* the wire is a valid frame stream
  /\ d.dl = Expects(sent)                          \* and decodes to what was written, in order
  /\ d.cur = dcur /\ d.closed = dclosed

\* (2) the same, incrementally (`mon` is computed by every action from the frames it emitted and the
\*     messages it completed): lets the exhaustive configuration drop the histories from the VIEW
Monitor == mon.ok /\ mon.match

\* a message is left dangling on the wire only while its writer is open, or when a Close frame cut it
Dangling ==
  /\ (dcur # None) => ((h = "open" /\ nfl > 0) \/ cs)
  /\ (h = "open" /\ nfl > 0) => dcur # None
  /\ dclosed = cs

ControlLimit == (step.op = "Control" /\ step.n > MaxCtl) => (step.res = "err" /\ step.out = <<>>)
ErrorsEmitNothing == (step.res = "err" /\ step.op \in {"Control", "Prepared", "Write", "Close"}) => step.out = <<>>

---------------------------------------------------------------------------
(* --- actions ------------------------------------------------------------ *)

\* size classes: relative to the write buffer b (L = 2*len(writeBuf) is the "large write" threshold of
\* messageWriter.Write), to the control frame limit, to the prepared-message buffer and to the 7/16/64 bit
\* payload length encodings
SizeOf(c, b) ==
  CASE c = "0" -> 0 [] c = "1" -> 1 [] c = "B-1" -> b - 1 [] c = "B" -> b [] c = "B+1" -> b + 1
    [] c = "2B" -> 2 * b [] c = "2B+1" -> 2 * b + 1 [] c = "L" -> 2 * (b + Hdr) [] c = "L+1" -> 2 * (b + Hdr) + 1
    [] c = "125" -> 125 [] c = "126" -> 126 [] c = "127" -> 127
    [] c = "PB" -> PB [] c = "PB+1" -> PB + 1 [] c = "2PB+1" -> 2 * PB + 1
    [] c = "65535" -> 65535 [] c = "65536" -> 65536 [] c = "65537" -> 65537
\* (sizes that would take more than MaxFrag buffer fills are left out: they add frames, not cases)
MaxFrag == 40
Fits(S0, b) == {x \in S0 : x <= MaxFrag * b}
Sizes(b) == Fits({SizeOf(c, b) : c \in WClasses}, b)
CtlSizes == {0, 1, 125, 126}
OneCallSizes(b) == Fits({SizeOf(c, b) : c \in OClasses}, b)
PreparedSizes(b) == {SizeOf(c, b) : c \in PClasses}
Types == {Text, Binary, Close, Ping, Pong, BadType}

\* (\E over a singleton set: makes TLC evaluate the result record of the call once instead of once per use)
Apply(r0, st, via) == \E r \in {r0} : \E d \in {Dec(r.out, 1, dcur, dclosed, <<>>)} :
  /\ dcur' = d.cur /\ dclosed' = d.closed
  /\ mon' = [ok |-> d.ok, match |-> (d.dl = Expects(r.claims))]
  /\ h' = r.s.h /\ wtype' = r.s.wtype /\ ftype' = r.s.ftype /\ pos' = r.s.pos /\ rsv' = r.s.rsv
  /\ cmp' = r.s.cmp /\ nfl' = r.s.nfl /\ acc' = r.s.acc /\ nwr' = r.s.nwr /\ cs' = r.s.cs
  /\ wire' = wire \o r.out
  /\ sent' = sent \o r.claims
  /\ nops' = nops + 1
  /\ step' = [op |-> st[1], t |-> st[2], z |-> st[3], n |-> st[4], via |-> via, res |-> r.res, out |-> r.out, claims |-> r.claims]
  /\ UNCHANGED <<side, neg, B>>

J == {0, 1}

ANextWriter(t, z, j) ==
  /\ nops < MaxOps
  /\ Apply(Begin(S, t, z, j), <<"NextWriter", t, z, 0>>, "w")

AWrite(n, j, via) ==
  /\ nops < MaxOps /\ h \in {"open", "dead"} /\ nwr < MaxWrites
  /\ LET s1 == [S EXCEPT !.nwr = @ + 1]
         r  == IF h = "dead" THEN R(s1, <<>>, <<>>, "err")
               ELSE IF cmp THEN CmpWrite(s1, n, j)
               ELSE PlainWrite(s1, n, B, side = "server", via)
     IN Apply(r, <<"Write", 0, FALSE, n>>, via)

AClose(j) ==
  /\ nops < MaxOps /\ h \in {"open", "dead"}
  /\ Apply(IF h = "dead" THEN R(S, <<>>, <<>>, "err") ELSE DoClose(S, j), <<"Close", 0, FALSE, 0>>, "w")

AWriteMessage(t, n, z, j1, j2) ==
  /\ nops < MaxOps
  /\ Apply(WriteMsg(S, t, n, z, j1, j2, B, side = "server", neg), <<"WriteMessage", t, z, n>>, "w")

APrepared(t, n, z, j) ==
  /\ nops < MaxOps /\ h # "open"       \* legal API use only: no data frame inside another message
  /\ Apply(Prepared(S, t, n, z, j), <<"Prepared", t, z, n>>, "w")

AControl(k, n) ==
  /\ nops < MaxOps
  /\ Apply(Control(S, k, n), <<"Control", k, FALSE, n>>, "w")

ZSet == IF neg THEN BOOLEAN ELSE {FALSE}     \* the flag is a no-op when nothing was negotiated
\* the nondeterministic DEFLATE fragment counts only matter when a flate-wrapped writer is involved
JOpen       == IF h = "open" /\ cmp THEN J ELSE {0}
JNew(t, z)  == IF neg /\ z /\ IsData(t) THEN J ELSE {0}
DataSizes(t) == IF IsControl(t) THEN CtlSizes ELSE IF t = BadType THEN {1} ELSE OneCallSizes(B)

Next ==
  \/ \E t \in Types, z \in ZSet, j \in JOpen : ANextWriter(t, z, j)
  \/ \E n \in Sizes(B), j \in JOpen, via \in (IF h = "open" THEN (IF cmp THEN {"w", "r", "re"} ELSE {"w", "s", "r", "re"}) ELSE {"w"}) :
        AWrite(n, IF n = 0 THEN 0 ELSE j, via)
  \/ \E j \in JOpen : AClose(j)
  \/ \E t \in Types, z \in ZSet : \E n \in DataSizes(t), j1 \in JOpen, j2 \in JNew(t, z) :
        AWriteMessage(t, n, z, j1, IF n = 0 THEN 0 ELSE j2)
  \/ \E t \in Types \ {BadType}, z \in ZSet : \E n \in (IF IsControl(t) THEN CtlSizes ELSE PreparedSizes(B)), j \in JNew(t, z) :
        APrepared(t, n, z, IF n = 0 THEN 0 ELSE j)
  \/ \E k \in {Close, Ping, Pong}, n \in CtlSizes : AControl(k, n)

Init ==
  /\ side \in {"server", "client"} /\ neg \in BOOLEAN /\ B \in Bs
  /\ h = "none" /\ wtype = 0 /\ ftype = 0 /\ pos = 0 /\ rsv = FALSE /\ cmp = FALSE /\ nfl = 0 /\ acc = 0 /\ nwr = 0
  /\ cs = FALSE /\ nops = 0 /\ wire = <<>> /\ sent = <<>>
  /\ dcur = None /\ dclosed = FALSE /\ mon = [ok |-> TRUE, match |-> TRUE]
  /\ step = [op |-> "Init", t |-> 0, z |-> FALSE, n |-> 0, via |-> "w", res |-> "ok", out |-> <<>>, claims |-> <<>>]

Spec == Init /\ [][Next]_vars

TypeOK ==
  /\ side \in {"server", "client"} /\ neg \in BOOLEAN /\ B \in Bs
  /\ h \in {"none", "open", "dead"} /\ cs \in BOOLEAN /\ rsv \in BOOLEAN /\ cmp \in BOOLEAN
  /\ pos \in 0..B                                  \* never more than the buffer holds
  /\ (cmp => neg) /\ (rsv => cmp)
  /\ \A i \in 1..Len(wire) : wire[i].len >= -1 /\ (wire[i].len = -1 => neg)

\* exhaustive configurations: everything but the histories and the last-step record
View == <<side, neg, B, h, wtype, ftype, pos, rsv, cmp, nfl, acc, nwr, cs, nops, dcur, dclosed, mon>>
=============================================================================
