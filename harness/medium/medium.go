package main

// C38: replay of spec/Medium behaviours (TLC -simulate of MediumSim, Urgent = TRUE) on a real node with
// Config.GetChannelMediumOptions set (unexported options through the overlay shim), real clients on recording
// transports, the wire controlled by cl.GateBroker (publications withheld, delivered in the model's order, dropped).
//
//   - WriterTake(park): the medium's writer goroutine is held inside its broadcast through a natural gate: the
//     application's LogHandler receives the trace entry "-out->" a subscriber writes for that offset.
//   - WriterTick: the broadcast delay is real (300 ms, retried with 1 s when a step disagrees); the replay waits.
//   - Tick: the position check delay is one hour; the step advances the node's and the medium's clock (the code's
//     own seams nowTimeGetter / nowFn, set through the shim) by two more hours for as long as every positioned
//     connection needs to run a complete periodic tick (counted through OnAlive), then sets it back.
//   - Shutdown: the dissolver closes the medium >= 1 s after the last unsubscribe; the replay waits for it.
//
// After every step the frames of every subscriber are projected to the model's `out` and compared; the
// observable-only monitors of C38 (same formulas as Medium.tla) are evaluated on the REAL frames and decide.

import (
	"encoding/json"
	"errors"
	"fmt"
	"strconv"
	"strings"
	"sync"
	"sync/atomic"
	"time"

	"github.com/centrifugal/centrifuge"
	"github.com/centrifugal/protocol"

	"verifharness/cl"
	"verifharness/vh"
)

const mdStepTimeout = 3 * time.Second

type mdOpts struct {
	Keep   bool `json:"keep"`
	Shared bool `json:"shared"`
	Queue  bool `json:"queue"`
	Delay  bool `json:"delay"`
}

type mdBroker struct {
	*cl.GateBroker
	w *mdWorker
}

func (b *mdBroker) History(ch string, opts centrifuge.HistoryOptions) ([]*centrifuge.Publication, centrifuge.StreamPosition, error) {
	if r := b.w.cur.Load(); r != nil && r.ch == ch {
		r.histCalls.Add(1)
		if r.histErr.Load() {
			return nil, centrifuge.StreamPosition{}, errors.New("verif: history unavailable")
		}
	}
	return b.GateBroker.History(ch, opts)
}

// mdTimers implements centrifuge.TimerScheduler for the aimed (timed) behaviours: client timers never fire by
// themselves. Every ScheduleTimer call is attributed to the connection the replay is operating on (`label`: connect,
// or the tick it just fired, which re-arms itself); fire runs the latest pending timer of one connection.
type mdTimers struct {
	mu      sync.Mutex
	label   string
	pending map[string]*mdTimer
}

type mdTimer struct {
	cb        func()
	cancelled atomic.Bool
}

func (t *mdTimer) Cancel() { t.cancelled.Store(true) }

func (m *mdTimers) ScheduleTimer(_ time.Duration, cb func()) centrifuge.TimerCanceler {
	t := &mdTimer{cb: cb}
	m.mu.Lock()
	m.pending[m.label] = t
	m.mu.Unlock()
	return t
}

func (m *mdTimers) setLabel(l string) {
	m.mu.Lock()
	m.label = l
	m.mu.Unlock()
}

func (m *mdTimers) take(l string) *mdTimer {
	m.mu.Lock()
	defer m.mu.Unlock()
	t := m.pending[l]
	delete(m.pending, l)
	if t == nil || t.cancelled.Load() {
		return nil
	}
	return t
}

// the end of a connection's periodic tick, reported by the repository's own verif hook verifGate("tick:done")
var (
	mdTickDone     sync.Map // client id -> chan struct{}
	mdTickHookOnce sync.Once
)

func mdInstallTickHook() {
	mdTickHookOnce.Do(func() {
		centrifuge.VerifSetGate(func(point, clientID, _ string) {
			if point != "tick:done" {
				return
			}
			if v, ok := mdTickDone.Load(clientID); ok {
				select {
				case v.(chan struct{}) <- struct{}{}:
				default:
				}
			}
		})
	})
}

type mdWorker struct {
	timers *mdTimers
	env  *cl.Env
	gb   *cl.GateBroker
	skew atomic.Int64 // nanoseconds added to the injected clocks
	cur  atomic.Pointer[mdRun]
	qmax int
}

func (w *mdWorker) now() time.Time { return time.Now().Add(time.Duration(w.skew.Load())) }

type mdDelivery struct {
	pub *centrifuge.Publication
	sp  centrifuge.StreamPosition
}

type mdRun struct {
	w     *mdWorker
	ch    string
	opts  mdOpts
	delay time.Duration

	mu         sync.Mutex
	deliveries map[int]mdDelivery
	top        int
	dlv        []int

	histCalls atomic.Int64
	histErr   atomic.Bool
	gateOff   atomic.Int64 // offset whose first "-out->" entry parks the writer (0 = none)
	gate      atomic.Pointer[cl.Gate]
	alive     sync.Map // client id -> *atomic.Int64

	conns map[string]*cl.Conn
	subID map[string]uint32 // id of the current subscribe command
	nticks int
}

func newMdWorker(qmax int, manual bool) (*mdWorker, error) {
	w := &mdWorker{qmax: qmax}
	checkDelay := time.Hour
	var sched centrifuge.TimerScheduler
	if manual {
		w.timers = &mdTimers{pending: map[string]*mdTimer{}}
		sched = w.timers
		checkDelay = 40 * time.Second
		mdInstallTickHook()
	}
	env, err := cl.NewEnv(centrifuge.Config{
		ClientTimerScheduler: sched,
		LogLevel: centrifuge.LogLevelTrace,
		LogHandler: func(e centrifuge.LogEntry) {
			if e.Level != centrifuge.LogLevelTrace || e.Message != "-out->" {
				return
			}
			r := w.cur.Load()
			if r == nil {
				return
			}
			off := r.gateOff.Load()
			if off == 0 {
				return
			}
			p, ok := e.Fields["push"].(string)
			if !ok || !strings.Contains(p, `"`+r.ch+`"`) || !strings.Contains(p, `"offset":`+strconv.FormatInt(off, 10)) {
				return
			}
			if r.gateOff.CompareAndSwap(off, 0) {
				if g := r.gate.Load(); g != nil {
					g.Arrive(10 * time.Second)
				}
			}
		},
		ClientChannelPositionCheckDelay: checkDelay,
		ClientPresenceUpdateInterval:    40 * time.Millisecond,
		GetChannelMediumOptions: func(ch string) centrifuge.ChannelMediumOptions {
			r := w.cur.Load()
			if r == nil || r.ch != ch {
				return centrifuge.ChannelMediumOptions{}
			}
			o := centrifuge.ChannelMediumOptions{KeepLatestPublication: r.opts.Keep, SharedPositionSync: r.opts.Shared}
			d := time.Duration(0)
			if r.opts.Delay {
				d = r.delay
			}
			return centrifuge.VerifMMediumOptions(o, r.opts.Queue, w.qmax, d)
		},
	})
	if err != nil {
		return nil, err
	}
	w.env = env
	centrifuge.VerifMSetNodeClock(env.Node, w.now)
	gb, err := cl.NewGateBroker(env.Node)
	if err != nil {
		return nil, err
	}
	w.gb = gb
	gb.Intercept = func(ch string, pub *centrifuge.Publication, sp centrifuge.StreamPosition, _ bool, _ *centrifuge.Publication) bool {
		r := w.cur.Load()
		if r == nil || r.ch != ch {
			return true
		}
		r.mu.Lock()
		r.deliveries[int(sp.Offset)] = mdDelivery{pub, sp}
		r.mu.Unlock()
		return false
	}
	env.Node.SetBroker(&mdBroker{GateBroker: gb, w: w})
	env.OnSubscribe = func(c *centrifuge.Client, _ centrifuge.SubscribeEvent, cb centrifuge.SubscribeCallback) {
		cb(centrifuge.SubscribeReply{Options: centrifuge.SubscribeOptions{EnablePositioning: strings.HasPrefix(c.UserID(), "p")}}, nil)
	}
	env.Setup = func(c *centrifuge.Client) {
		id := c.ID()
		c.OnAlive(func() {
			if r := w.cur.Load(); r != nil {
				if v, ok := r.alive.Load(id); ok {
					v.(*atomic.Int64).Add(1)
				}
			}
		})
	}
	if err := env.Run(); err != nil {
		return nil, err
	}
	return w, nil
}

// ---------------------------------------------------------------- projection and monitors

type mdFrame struct {
	T    string `json:"t"`
	Off  uint64 `json:"off,omitempty"`
	Code int    `json:"code,omitempty"`
}

func (r *mdRun) project(s string) []mdFrame {
	var out []mdFrame
	for _, rep := range r.conns[s].Frames() {
		switch {
		case rep.Connect != nil:
		case rep.Id != 0 && rep.Subscribe != nil:
			out = append(out, mdFrame{T: "sub", Off: rep.Subscribe.Offset})
		case rep.Id != 0 && rep.Unsubscribe != nil:
			out = append(out, mdFrame{T: "unsubreply"})
		case rep.Id != 0 && rep.Error != nil:
			out = append(out, mdFrame{T: "error", Code: int(rep.Error.Code)})
		case rep.Push != nil && rep.Push.Channel == r.ch && rep.Push.Pub != nil:
			out = append(out, mdFrame{T: "pub", Off: rep.Push.Pub.Offset})
		case rep.Push != nil && rep.Push.Channel == r.ch && rep.Push.Unsubscribe != nil:
			out = append(out, mdFrame{T: "unsub", Code: int(rep.Push.Unsubscribe.Code)})
		case rep.Push != nil && rep.Push.Disconnect != nil:
		default:
			out = append(out, mdFrame{T: "other:" + cl.Describe(rep)})
		}
	}
	if closed, d := r.conns[s].T.Closed(); closed {
		out = append(out, mdFrame{T: "disc", Code: int(d.Code)})
	}
	return out
}

func mdModelOut(st map[string]any, s string) []mdFrame {
	var out []mdFrame
	for _, x := range vh.List(vh.Map(st["out"])[s]) {
		m := vh.Map(x)
		f := mdFrame{T: vh.Str(m["t"])}
		switch f.T {
		case "sub", "pub":
			f.Off = uint64(vh.Int(m["off"]))
		case "unsub":
			f.Code = vh.Int(m["code"])
		}
		out = append(out, f)
	}
	return out
}

// normalise: repeated unsubscribe pushes of one subscription count once (how many insufficient-state goroutines ran
// depends on which connection's tick reached the medium first)
func mdNorm(fr []mdFrame) []mdFrame {
	var out []mdFrame
	ended := false
	for _, f := range fr {
		switch f.T {
		case "sub":
			ended = false
		case "unsub":
			if ended {
				continue
			}
			ended = true
		case "unsubreply":
			ended = true
		}
		out = append(out, f)
	}
	return out
}

func sameMdFrames(a, b []mdFrame) bool {
	if len(a) != len(b) {
		return false
	}
	for i := range a {
		if a[i] != b[i] {
			return false
		}
	}
	return true
}

func positioned(s string) bool { return strings.HasPrefix(s, "p") }

// mdMonitors: the formulas of Medium.tla (InOrder, GapFree, Bracketed) on the real frames of subscriber s.
func (r *mdRun) monitors(s string, fr []mdFrame) []verdict {
	var vs []verdict
	r.mu.Lock()
	top := uint64(r.top)
	dlvIdx := map[uint64]int{}
	for i, o := range r.dlv {
		dlvIdx[uint64(o)] = i
	}
	r.mu.Unlock()
	// segments
	var segs [][]mdFrame
	for _, f := range fr {
		if f.T == "sub" {
			segs = append(segs, nil)
		}
		if len(segs) == 0 {
			if f.T == "pub" {
				vs = append(vs, verdict{"pub-before-subscribe", fmt.Sprintf("%s received publication %d before any subscribe reply", s, f.Off)})
			}
			continue
		}
		segs[len(segs)-1] = append(segs[len(segs)-1], f)
	}
	for _, seg := range segs {
		var offs []uint64
		end := -1
		for i, f := range seg {
			if (f.T == "unsub" || f.T == "unsubreply" || f.T == "disc") && end < 0 {
				end = i
			}
			if f.T != "pub" {
				continue
			}
			if f.Off < 1 || f.Off > top {
				vs = append(vs, verdict{"sentinel-delivered", fmt.Sprintf("%s received a publication push with offset %d; only offsets 1..%d were published", s, f.Off, top)})
				continue
			}
			if end >= 0 {
				vs = append(vs, verdict{"pub-after-end", fmt.Sprintf("%s received publication %d after its subscription ended: %s", s, f.Off, vh.J(seg))})
			}
			offs = append(offs, f.Off)
		}
		seen := map[uint64]bool{}
		last := -1
		for _, o := range offs {
			if seen[o] {
				vs = append(vs, verdict{"duplicate", fmt.Sprintf("%s received publication %d twice: %v", s, o, offs)})
			}
			seen[o] = true
			i, ok := dlvIdx[o]
			if !ok {
				vs = append(vs, verdict{"never-delivered", fmt.Sprintf("%s received publication %d that never entered the node", s, o)})
				continue
			}
			if i < last {
				vs = append(vs, verdict{"order", fmt.Sprintf("%s received publications %v, they entered the node in the order %v", s, offs, r.dlv)})
				break
			}
			last = i
		}
		if positioned(s) {
			for a, o := range offs {
				if o != seg[0].Off+uint64(a)+1 {
					vs = append(vs, verdict{"gap", fmt.Sprintf("positioned subscriber %s subscribed at offset %d and received %v: offset %d is missing or out of place and the subscription was not ended first", s, seg[0].Off, offs, seg[0].Off+uint64(a)+1)})
					break
				}
			}
		}
	}
	return vs
}

// liveAt: the current subscription of s is live and its last accounted offset
func mdLiveAt(fr []mdFrame) (live bool, pos uint64) {
	for _, f := range fr {
		switch f.T {
		case "sub":
			live, pos = true, f.Off
		case "pub":
			if live {
				pos = f.Off
			}
		case "unsub", "unsubreply", "disc":
			live = false
		}
	}
	return
}

// ---------------------------------------------------------------- one behaviour

type mdOutcome struct {
	counts     map[string]int
	vs         []verdict
	mismatch   string
	steps      []any
	nontrivial bool
	frames     map[string][]mdFrame
}

func (w *mdWorker) run(bi int, beh []map[string]any, delay time.Duration) (o mdOutcome) {
	var opts mdOpts
	b, _ := json.Marshal(beh[0]["opts"])
	_ = json.Unmarshal(b, &opts)
	o.counts = map[string]int{}
	r := &mdRun{w: w, ch: fmt.Sprintf("md%d_%d_%d", vh.Seed(), bi, time.Now().UnixNano()%100000), opts: opts, delay: delay,
		deliveries: map[int]mdDelivery{}, conns: map[string]*cl.Conn{}, subID: map[string]uint32{}}
	w.skew.Store(0)
	w.cur.Store(r)
	defer w.cur.Store(nil)
	var subs []string
	for s := range vh.Map(beh[0]["sub"]) {
		subs = append(subs, s)
	}
	// deterministic order p1, p2, n
	order := []string{}
	for _, s := range []string{"p1", "p2", "n"} {
		for _, x := range subs {
			if x == s {
				order = append(order, s)
			}
		}
	}
	subs = order
	defer func() {
		if g := r.gate.Load(); g != nil {
			g.Release()
		}
		for _, c := range r.conns {
			c.Client.Disconnect()
			c.Cancel()
		}
	}()
	subscribe := func(s string) error {
		c := r.conns[s]
		id := c.NextID()
		r.subID[s] = id
		first := !centrifuge.VerifMMedium(w.env.Node, r.ch).Exists
		c.Do(&protocol.Command{Id: id, Subscribe: &protocol.SubscribeRequest{Channel: r.ch}})
		rep := c.WaitReply(id, mdStepTimeout)
		if rep == nil || rep.Subscribe == nil {
			return fmt.Errorf("subscribe of %s failed: %v", s, rep)
		}
		if first {
			centrifuge.VerifMSetMediumClock(w.env.Node, r.ch, w.now)
		}
		return nil
	}
	for _, s := range subs {
		if w.timers != nil {
			w.timers.setLabel(s)
		}
		c, err := w.env.NewConn(s, centrifuge.ProtocolTypeJSON)
		if err != nil {
			o.mismatch = "NewConn: " + err.Error()
			return
		}
		r.conns[s] = c
		if c.Connect() == nil {
			o.mismatch = "connect failed"
			return
		}
		r.alive.Store(c.Client.ID(), &atomic.Int64{})
		mdTickDone.Store(c.Client.ID(), make(chan struct{}, 8))
		defer mdTickDone.Delete(c.Client.ID())
		if err := subscribe(s); err != nil {
			o.mismatch = err.Error()
			return
		}
	}
	if mi := centrifuge.VerifMMedium(w.env.Node, r.ch); mi.Exists != vh.Bool(beh[0]["med"]) || (mi.Exists && mi.Queue != opts.Queue) {
		o.mismatch = fmt.Sprintf("medium exists=%v queue=%v, model med=%v opts=%s", mi.Exists, mi.Queue, beh[0]["med"], vh.J(opts))
		return
	}

	judge := func(st map[string]any) bool { // monitors on the real frames; false when one fired
		ok := true
		for _, s := range subs {
			for _, v := range r.monitors(s, r.project(s)) {
				o.vs = append(o.vs, v)
				ok = false
			}
		}
		return ok
	}
	// A connection whose tick ended its subscription while the writer was parked inside a broadcast (holding the hub's
	// read lock) may or may not still get that broadcast's publication, depending on where the hub's iteration stood:
	// for that connection a publication directly in front of the unsubscribe push is not compared.
	lenient := map[string]bool{}
	strip := func(fr []mdFrame) []mdFrame {
		var out []mdFrame
		for i, f := range fr {
			if f.T == "pub" && i+1 < len(fr) && fr[i+1].T == "unsub" {
				continue
			}
			out = append(out, f)
		}
		return out
	}
	matches := func(st map[string]any) (bool, string) {
		for _, s := range subs {
			real, mo := mdNorm(r.project(s)), mdNorm(mdModelOut(st, s))
			if lenient[s] {
				real, mo = strip(real), strip(mo)
			}
			if !sameMdFrames(real, mo) {
				return false, fmt.Sprintf("%s: real %s, model %s", s, vh.J(real), vh.J(mo))
			}
		}
		return true, ""
	}
	// settle: asynchronous goroutines (queue writer, insufficient-state unsubscribes) have no barrier: wait until the
	// frames are what the model says, or the timeout
	settle := func(st map[string]any, timeout time.Duration) (bool, string) {
		deadline := time.Now().Add(timeout)
		for {
			ok, what := matches(st)
			if ok {
				return true, ""
			}
			if time.Now().After(deadline) {
				return false, what
			}
			time.Sleep(2 * time.Millisecond)
		}
	}
	armFor := func(si int) {
		// The writer takes queued messages as fast as it can: if, in the chain of urgent steps that follows step si
		// (AsyncEnd / WriterTake), a WriterTake holds the writer inside the broadcast of an item, the gate for that
		// offset must be armed before the writer is let go.
		for j := si + 1; j < len(beh); j++ {
			ns := vh.Map(beh[j]["step"])
			switch vh.Str(ns["act"]) {
			case "AsyncEnd":
				continue
			case "WriterTake":
				if vh.Bool(ns["park"]) {
					r.gate.Store(cl.NewGate())
					r.gateOff.Store(int64(vh.Int(vh.Map(ns["item"])["off"])))
					return
				}
				continue
			}
			return
		}
	}
	// urgent work the model has not stepped through yet (the real goroutines do not wait for the model): spawned
	// insufficient-state goroutines, a queued message the idle writer takes at once
	pendAny := func(st map[string]any) bool {
		for _, v := range vh.Map(st["pend"]) {
			if vh.Int(v) > 0 {
				return true
			}
		}
		if vh.Bool(st["med"]) && opts.Queue && !opts.Delay && vh.Str(st["wpc"]) == "idle" && len(vh.List(st["q"])) > 0 {
			return true
		}
		// a sentinel waiting for the broadcast delay: the real delay has been running since the tick queued it
		return opts.Delay && len(vh.List(st["q"])) > 0 && vh.Str(vh.Map(vh.List(st["q"])[0])["t"]) == "ins"
	}

	tickUniform := true
	soft := "" // a disagreement that is reported (as drift) only when no monitor fires
	tickOnly := ""
	tickJudge := false // a tick compared positions: judge once its asynchronous ends ran
	for si := 1; si < len(beh); si++ {
		st := beh[si]
		step := vh.Map(st["step"])
		act := vh.Str(step["act"])
		o.steps = append(o.steps, step)
		wait := mdStepTimeout
		switch act {
		case "Publish":
			_, err := w.env.Node.Publish(r.ch, []byte(strconv.Itoa(vh.Int(step["off"])%10)), centrifuge.WithHistory(32, time.Minute))
			if err != nil {
				o.mismatch = "publish: " + err.Error()
				return
			}
			r.mu.Lock()
			r.top++
			_, ok := r.deliveries[r.top]
			r.mu.Unlock()
			if !ok || r.top != vh.Int(step["off"]) {
				o.mismatch = fmt.Sprintf("publication %d was not handed over by the broker (top %d)", vh.Int(step["off"]), r.top)
				return
			}
		case "Drop":
			r.mu.Lock()
			delete(r.deliveries, vh.Int(step["off"]))
			r.mu.Unlock()
			o.nontrivial = true
		case "Deliver":
			off := vh.Int(step["off"])
			r.mu.Lock()
			d, ok := r.deliveries[off]
			delete(r.deliveries, off)
			r.dlv = append(r.dlv, off)
			r.mu.Unlock()
			if !ok {
				o.mismatch = fmt.Sprintf("delivery %d not captured", off)
				return
			}
			armFor(si)
			if err := w.gb.Deliver(r.ch, d.pub, d.sp, false, nil); err != nil {
				o.mismatch = "deliver: " + err.Error()
				return
			}
			if vh.Str(step["res"]) == "dropped" {
				o.nontrivial = true
				o.counts["queue_full_drops"]++
			}
		case "WriterTake":
			if vh.Bool(step["park"]) {
				g := r.gate.Load()
				if g == nil || !g.WaitArrived(mdStepTimeout) {
					o.mismatch = fmt.Sprintf("the writer did not reach the trace log entry of offset %v", vh.Map(step["item"])["off"])
					return
				}
				o.nontrivial = true
				o.counts["writer_parked"]++
			}
		case "WriterDone":
			old := r.gate.Load()
			armFor(si) // the writer takes the next queued message at once: its gate must be armed before the release
			if old != nil {
				old.Release()
			}
		case "WriterTick":
			wait = delay + mdStepTimeout
			if vh.Int(step["skipped"]) > 0 {
				o.nontrivial = true
				o.counts["delay_coalesced"]++
			}
			if vh.Str(vh.Map(step["item"])["t"]) == "ins" {
				o.counts["sentinel_through_queue"]++
			}
		case "AsyncEnd":
		case "Tick":
			r.nticks++
			res := vh.Str(step["res"])
			r.histErr.Store(res == "error")
			before := map[string]int64{}
			var tickers []string
			tickUniform = true
			var tpos []uint64
			for _, s := range subs {
				if !positioned(s) {
					continue
				}
				if live, pos := mdLiveAt(r.project(s)); live {
					tpos = append(tpos, pos)
					if pos != tpos[0] {
						tickUniform = false
					}
					tickers = append(tickers, s)
					v, _ := r.alive.Load(r.conns[s].Client.ID())
					before[s] = v.(*atomic.Int64).Load()
				}
			}
			histBefore := r.histCalls.Load()
			w.skew.Store(int64(r.nticks) * int64(2*time.Hour))
			deadline := time.Now().Add(mdStepTimeout)
			for _, s := range tickers {
				v, _ := r.alive.Load(r.conns[s].Client.ID())
				for v.(*atomic.Int64).Load() < before[s]+2 && time.Now().Before(deadline) {
					if closed, _ := r.conns[s].T.Closed(); closed {
						break
					}
					if live, _ := mdLiveAt(r.project(s)); !live {
						break
					}
					time.Sleep(5 * time.Millisecond)
				}
			}
			w.skew.Store(0)
			r.histErr.Store(false)
			if time.Now().After(deadline) {
				o.mismatch = "periodic ticks did not run within the step timeout"
				return
			}
			if len(tickers) > 0 && r.histCalls.Load() == histBefore {
				o.mismatch = "the periodic tick did not read the stream position (no Broker.History call): the position check did not run"
				return
			}
			if res != "valid" {
				o.nontrivial = true
			}
			o.counts["tick_"+res]++
			tickJudge = res != "error" && (!opts.Shared || tickUniform) && r.top == vh.Int(st["top"])
			tickOnly = ""
		case "Nop":
		case "Advance":
			w.skew.Add(int64(time.Duration(vh.Int(step["d"])) * time.Second))
		case "TickOne":
			if w.timers == nil {
				o.mismatch = "TickOne needs the manual timer scheduler"
				return
			}
			s := vh.Str(step["s"])
			res := vh.Str(step["res"])
			tickUniform = true
			var tpos []uint64
			for _, x := range subs {
				if positioned(x) {
					if live, pos := mdLiveAt(r.project(x)); live {
						tpos = append(tpos, pos)
						if pos != tpos[0] {
							tickUniform = false
						}
					}
				}
			}
			w.timers.setLabel(s)
			tm := w.timers.take(s)
			if tm == nil {
				o.mismatch = "no pending timer for connection " + s
				return
			}
			dv, _ := mdTickDone.Load(r.conns[s].Client.ID())
			done := dv.(chan struct{})
			for len(done) > 0 {
				<-done
			}
			histBefore := r.histCalls.Load()
			tm.cb()
			select {
			case <-done:
			case <-time.After(mdStepTimeout):
				o.mismatch = "the periodic tick of " + s + " did not finish"
				return
			}
			time.Sleep(5 * time.Millisecond) // presenceInFlight is reset right after the hook
			performed := vh.Bool(step["performed"])
			if got := r.histCalls.Load() > histBefore; got != performed && soft == "" {
				soft = fmt.Sprintf("step %d TickOne(%s) at t=%d s: stream top read = %v, model performed = %v", si, s, vh.Int(step["now"]), got, performed)
			}
			if res != "valid" && res != "notdue" {
				o.nontrivial = true
			}
			o.counts["tickone_"+res]++
			callerStale := false
			if _, pos := mdLiveAt(r.project(s)); pos != uint64(r.top) {
				callerStale = true // the verdict of a shared check is the caller's: a stale caller ends everybody
			}
			tickJudge = performed && res != "error" && (!opts.Shared || tickUniform || callerStale)
			if vh.Str(st["wpc"]) == "busy" {
				lenient[s] = true
				o.counts["tick_while_writer_parked"]++
			}
			tickOnly = ""
			if !(opts.Shared && vh.Bool(st["med"])) {
				tickOnly = s // without the shared check a tick compares (and ends) only the caller's subscription
			}
		case "Unsubscribe":
			s := vh.Str(step["s"])
			c := r.conns[s]
			id := c.NextID()
			c.Do(&protocol.Command{Id: id, Unsubscribe: &protocol.UnsubscribeRequest{Channel: r.ch}})
			if c.WaitReply(id, mdStepTimeout) == nil {
				o.mismatch = "no unsubscribe reply for " + s
				return
			}
		case "Resubscribe":
			if err := subscribe(vh.Str(step["s"])); err != nil {
				o.mismatch = err.Error()
				return
			}
		case "Shutdown":
			deadline := time.Now().Add(4 * time.Second)
			for centrifuge.VerifMMedium(w.env.Node, r.ch).Exists && time.Now().Before(deadline) {
				time.Sleep(20 * time.Millisecond)
			}
			if centrifuge.VerifMMedium(w.env.Node, r.ch).Exists {
				o.mismatch = "the medium was not shut down within 4 s of the last unsubscribe"
				return
			}
		default:
			o.mismatch = "unknown action " + act
			return
		}
		if pendAny(st) {
			if !judge(st) {
				return
			}
			continue // insufficient-state goroutines may or may not have run yet: compared after their AsyncEnd steps
		}
		ok, what := settle(st, wait)
		sentinelWaits := opts.Delay && len(vh.List(st["q"])) > 0 && vh.Str(vh.Map(vh.List(st["q"])[0])["t"]) == "ins"
		if ok && opts.Queue && vh.Bool(st["med"]) && !sentinelWaits {
			// nobody may be subscribed to see the writer's progress: wait for the queue itself
			deadline := time.Now().Add(wait)
			for time.Now().Before(deadline) {
				mi := centrifuge.VerifMMedium(w.env.Node, r.ch)
				if !mi.Exists || mi.QueueLen == len(vh.List(st["q"])) {
					break
				}
				time.Sleep(2 * time.Millisecond)
			}
		}
		if !judge(st) {
			return
		}
		// a detected position loss ends the affected positioned subscriptions: once the ends a tick spawned had their
		// time, a positioned subscriber that is still live holds the stream top. (With the shared check only the first
		// caller's position is compared: judged when every live positioned subscriber held the same position.)
		if tickJudge {
			tickJudge = false
			for _, s := range subs {
				if !positioned(s) || (tickOnly != "" && s != tickOnly) {
					continue
				}
				if live, pos := mdLiveAt(r.project(s)); live && pos != uint64(r.top) {
					o.vs = append(o.vs, verdict{"position-loss-not-ended", fmt.Sprintf("after a periodic position check positioned subscriber %s is still subscribed at offset %d while the stream top is %d (frames %s)", s, pos, r.top, vh.J(r.project(s)))})
				}
			}
			if len(o.vs) > 0 {
				return
			}
		}
		if !ok {
			o.mismatch = fmt.Sprintf("step %d %s: %s", si, act, what)
			return
		}
		// the medium's own state
		mi := centrifuge.VerifMMedium(w.env.Node, r.ch)
		if act != "Shutdown" && mi.Exists && vh.Bool(st["med"]) {
			busy := vh.Str(st["wpc"]) == "busy"
			if mi.Queue && !sentinelWaits && mi.QueueLen != len(vh.List(st["q"])) {
				o.mismatch = fmt.Sprintf("step %d %s: medium queue holds %d messages, model %d", si, act, mi.QueueLen, len(vh.List(st["q"])))
				return
			}
			if !busy && int(mi.Latest) != vh.Int(st["latest"]) {
				o.mismatch = fmt.Sprintf("step %d %s: latestPublication offset %d, model %d", si, act, mi.Latest, vh.Int(st["latest"]))
				return
			}
		}
	}
	// grace: nothing else arrives
	time.Sleep(30 * time.Millisecond)
	last := beh[len(beh)-1]
	if !judge(last) {
		return
	}
	if !pendAny(last) {
		if ok, what := matches(last); !ok {
			o.mismatch = "after the last step: " + what
		}
	}
	if o.mismatch == "" {
		o.mismatch = soft
	}
	o.frames = map[string][]mdFrame{}
	for _, s := range subs {
		o.frames[s] = r.project(s)
	}
	return
}

type mdReplayIn struct {
	Manual     bool               `json:"manual"` // aimed, timed behaviours: manual client timers, check delay 40 s
	QMax       int                `json:"qmax"`
	Behaviours [][]map[string]any `json:"behaviours"`
}

func mdReplay(in json.RawMessage, res *vh.Result) error {
	var ri mdReplayIn
	if err := json.Unmarshal(in, &ri); err != nil {
		return err
	}
	const nw = 8
	jobs := make(chan int)
	var wg sync.WaitGroup
	for i := 0; i < nw; i++ {
		w, err := newMdWorker(ri.QMax, ri.Manual)
		if err != nil {
			return err
		}
		wg.Add(1)
		go func() {
			defer wg.Done()
			defer w.env.Close()
			for bi := range jobs {
				beh := ri.Behaviours[bi]
				var o mdOutcome
				for ai, d := range []time.Duration{300 * time.Millisecond, time.Second} {
					o = w.run(bi, beh, d)
					if len(o.vs) > 0 || o.mismatch == "" {
						break
					}
					res.Count(fmt.Sprintf("retries_after_attempt_%d", ai+1), 1)
				}
				replay := map[string]any{"opts": beh[0]["opts"], "steps": o.steps}
				switch {
				case len(o.vs) > 0:
					for _, v := range o.vs {
						res.Violate("C38", v.sig, fmt.Sprintf("%s (behaviour %d, options %s)", v.what, bi, vh.J(beh[0]["opts"])), replay)
					}
					res.Done(1, 0)
				case o.mismatch != "":
					res.Drift("C38", fmt.Sprintf("%s (behaviour %d, options %s)", o.mismatch, bi, vh.J(beh[0]["opts"])), replay)
					res.Done(1, 0)
				default:
					for k, n := range o.counts {
						res.Count(k, n)
					}
					if o.nontrivial {
						res.Distinct(vh.J(replay))
					}
					if bi < 2 {
						res.Sample(map[string]any{"opts": beh[0]["opts"], "steps": o.steps, "frames": o.frames})
					}
					res.Done(1, 1)
				}
			}
		}()
	}
	for bi := range ri.Behaviours {
		jobs <- bi
	}
	close(jobs)
	wg.Wait()
	return nil
}
