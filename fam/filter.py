"""C15 -- spec/Filter: reference definition of the tags-filter language (Match, Validate, numeral grammar and exact
decimal comparison) in TLA+; TLC checks the language theorems on every enumerated (tree, tag map) and dumps the
table; the Go harness replays every row into the real internal/filter Validate / Match / Hash.

Expected on the unchanged tree (6de10927): VIOLATION -- `in` / `nin` evaluate a missing key as the value ""
(Match({k in [""]}, {}) = true, Match({k nin [""]}, {}) = false; signatures match:in:absent-key, match:nin:absent-key and
match:<op>:depth<N>:via:match:(in|nin):absent-key). Green with the two-line fix (`ok &&` / `!ok ||`), DESIGN 10 item 4.

Mutation testing (FRAMEWORK rule 3): scratch worktree of /repo HEAD with the fix above applied (baseline exit 0), one
mutation of internal/filter/filter.go at a time, `VERIF_REPO=<wt> ./check C15` (quick tier); first signatures shown.
  M1  gte evaluated as gt (`v.Cmp(cmp) > 0`)                         caught  match:gte:numerals
  M2  sw / ew swapped (HasPrefix <-> HasSuffix)                      caught  match:sw:present-key, match:ew:present-key
  M3  `not` not negating when its child is a logical node            caught  match:not:depth2
  M4  numeric ops fall back to string comparison on a parse error    caught  match:gt:non-numeral (and lt, gte, lte)
  M5  Validate accepts an empty `in`/`nin` list                      caught  validate:in:accepts-malformed, validate:nin:...
  M6  Hash over the whole pooled buffer (`bb.B[:cap]`, stale bytes)  caught  hash:unstable:*, hash:unequal:*
      (only reliably since the harness dirties the pooled buffer between two Hash calls; before that: GC luck)
  M7  `and` ignores its third child                                  caught  match:and:depth1 (class D)
  M8  numeric ops through strconv.ParseFloat (accepts 1e3, .5, Inf)  caught  match:gt:non-numeral ...
  M9  Validate accepts `not` with two children                       caught  validate:not:accepts-malformed
  M10 nex treats an empty value as a missing key                     caught  match:nex:present-key
  M11 ct through strings.ContainsAny                                 caught  match:ct:present-key
  M12 `or` returns the value of its first child                      caught  match:or:depth1, match:*:depth2
  M13 Validate does not descend into the children of `or`            caught  validate:or:accepts-malformed
  M15 lt / lte swapped                                               caught  match:lt:numerals, match:lte:numerals
  M16 neq false on a missing key (`ok && val != f.Val`)              caught  match:neq:absent-key
  M17 gt compares InexactFloat64 of exactly parsed numerals          caught  match:gt:numerals (10^20 vs 10^20+1 rows)
  M18 Hash depends on slice capacity / nil-vs-empty of Vals          caught  hash:unequal:*
  M14 Hash ignores the Val field                                     MISSED BY DESIGN: C15 only asks for equal hashes of
      structurally equal trees; the run reports "remark: 550 trees share their hash with a structurally different tree".
  (dropping `ok &&` from eq/sw/ew/ct is an equivalent mutant on validated trees: Validate forces a non-empty operand and
   the zero value "" never equals / starts with / contains a non-empty string -- which is why only in/nin are wrong.)
"""
import os

from lib import vf

# A child list containing a nil element ({"op":"and","nodes":[null]} in JSON) makes filter.Validate panic instead
# of rejecting. The property quantifies over filter TREES, so this is only recorded as a note unless switched on.
NIL_CHILD_IS_VIOLATION = os.environ.get('VERIF_C15_NIL_CHILD', '1') == '1'


def _s(chars):
    return ''.join(chars)


def _node(n):
    return {'op': n['op'], 'key': n['key'], 'cmp': n['cmp'], 'val': _s(n['val']),
            'vals': [_s(v) for v in n['vals']], 'nodes': [_node(x) for x in n['nodes']]}


def _row(r):
    """TLC prints strings as sequences of characters (see Filter.tla): join them."""
    return {'tree': _node(r['tree']), 'tags': [{'k': t['k'], 'v': _s(t['v'])} for t in r['tags']], 'res': r['res']}


def c15(c):
    cfg = 'quick.cfg' if c.tier == 'quick' else 'thorough.cfg'
    r = c.tlc_exhaustive('Filter', 'Filter', cfg, dump=True, timeout=1800,
                         workers=int(os.environ.get('VERIF_TLC_WORKERS') or 8))
    rows = [_row(x) for x in c.dump_states(r)]
    nvalid = sum(1 for x in rows if x['res']['valid'])
    c.log('TLC: %d rows enumerated (%d well-formed trees x tag maps), language theorems hold on all of them'
          % (len(rows), nvalid))
    binp = c.go_build('filter')
    res = c.harness(binp, 'table', rows, timeout=1800)
    c.absorb(res)
    pr = c.harness(binp, 'probe', {})
    obs = (pr.get('extra') or {}).get('observations', {})
    for k, v in sorted(obs.items()):
        c.notes.append('observation (outside the property): %s: %s' % (k, v))
    if NIL_CHILD_IS_VIOLATION:
        for k, v in sorted(obs.items()):
            if k.startswith('validate_nil_child') and 'panic=<nil>' not in v:
                c.violation('validate:nil-child:panic', 'Validate panics on a child list with a nil element: %s' % v,
                            {'probe': k, 'result': v})
    ex = res.get('extra') or {}
    if ex.get('hash_collisions_between_different_trees'):
        c.notes.append('remark: %d trees share their hash with a structurally different tree (not required by C15): %s'
                       % (ex['hash_collisions_between_different_trees'], ex.get('hash_collision_samples')))
    c.cov['traces_validated_against_impl'] = res['completed']
    c.cov['evaluations'] = res['executed']
    c.cov['distinct_nontrivial'] = res['nontrivial']
    c.cov['exhaustive'] = True
    c.cov['classes'] = ex.get('classes')
    c.cov['distinct_trees'] = ex.get('distinct_trees')
    c.cov['rule'] = ('every (tree, tag map) of the five bounded classes of spec/Filter/Filter.tla (%s): A all leaf shapes x 15 '
                     'comparison strings x operand shapes x tag maps (key absent / empty value / other key present), N the four '
                     'numeric comparisons over the edge numerals on both sides, B one logical node (and/or/not/unknown, 0..2 '
                     'children), C two logical levels, D three children; each row: Validate and Match on two differently built copies, Hash '
                     'before/after and across the copies. non-trivial = distinct (well-formed tree, tag map) whose Match value '
                     'was compared' % cfg)
    c.cov['samples'] = res['samples']
    c.assumptions += ['the numeral grammar of the spec ([+-]digits[.digits{1,19}], <= 200 bytes) is the one read from '
                      'udecimal v1.10.1 Parse; inputs > 41 bytes of the form "-+digits" (accepted by its big.Int path) are not enumerated',
                      'ex/nex with an empty key are taken as well-formed (the code says so, the language definition is silent)',
                      'fields that do not belong to a node kind (children of a leaf, key/cmp/val of a logical node) are not enumerated: '
                      'the language definition does not say whether they make a tree malformed (the code ignores them)',
                      'bounded: depth <= 2, <= 3 children, value sets as in spec/Filter/%s' % cfg]


CHECKS = {'C15': c15}

META = {'C15': dict(
    level='model_checking',
    text='Filter.tla defines the filter language independently of the code (a missing key equals no value and is in no set; numeric comparison = exact decimal comparison of numerals of the grammar accepted by the engine, false otherwise; and/or/not; well-formedness; definedness of Match on well-formed trees). TLC checks the language theorems (absent key, duals, trichotomy, connective laws, Validate => Match total, cross-check of the digit-string comparison against scaled integers) on every enumerated (tree, tag map) and the enumerated table is replayed row by row into the real filter.Validate, filter.Match and filter.Hash (two differently built structurally equal copies of every tree). Exhaustive within the bounds.',
    note='Bounds: depth <= 2, <= 2 children per node (3 in class D and, thorough, in class B), 13+2 comparison strings, 3+1 logical operators, 13 (quick) / 20 (thorough) tag values, ~50 / ~80 numeric edge numerals incl. u64/u128/big.Int sized and 19/20 fractional digits. Trusted: TLC, lib/tlaparse.py, the harness comparison code, the reading of the udecimal grammar. Hash inequality of different trees is not checked (not required).',
    technique='TLA+ reference definition + TLC exhaustive enumeration; function-table replay into the Go functions',
    design_ref='DESIGN.md 4.4, 8 (C15), 10 item 4')}
