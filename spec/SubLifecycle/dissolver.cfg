SPECIFICATION Spec
CONSTANTS
  Chans = {"c1", "c2", "c3"}
  Workers = {"w1", "w2"}
  MaxFaults = 2
  MaxJoins = 1
INVARIANTS TypeOK C26_Safe C26_Drained C26_JobKept
PROPERTIES C26_Retried
CHECK_DEADLOCK FALSE
