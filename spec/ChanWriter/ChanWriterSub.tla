--------------------------- MODULE ChanWriterSub ---------------------------
(* The per-channel writer under the subscription that feeds it: client.go
   Client.unsubscribe drops the channel writer at TWO sites,
     (1) under c.mu together with deleting c.channels[ch]          (UnsubBegin)
     (2) after node.removeSubscription, unless the channel was
         subscribed again meanwhile                                  (UnsubEnd)
   and between the two it removes presence / publishes the leave (broker and
   presence manager round trips), so a new subscription to the same channel can
   be established in between (Resub).  After UnsubEnd the unsubscribe reply /
   push of that generation is written.

   Every item is tagged with the subscription generation it was accepted for
   (`tag`, indexed by item id).  Property (C13 + the C10 bracket): an item
   accepted for generation g is flushed to the connection only while g is the
   live subscription, or while g's own unsubscribe has not finished and no newer
   subscription exists; never after the unsubscribe of g and never inside
   generation g+1.

   EarlyDel = TRUE is the code; FALSE removes site (1) (gen_witness.cfg: TLC
   must find the counterexample, which the harness drives on a real client
   through natural gates).  Adds are the atomic Add of ChanWriter: the window
   between the subscribed check and the Add is the other witness (race.cfg).  *)
EXTENDS ChanWriter

CONSTANTS EarlyDel, MaxGen

VARIABLES
  sgen,    \* generation of the newest subscription of the connection to the channel
  subd,    \* it is live (c.channels[ch] exists)
  unsub,   \* generation whose unsubscribe is between the two sites (0 = none)
  tag      \* item id -> generation it was accepted for
subvars == <<sgen, subd, unsub, tag>>
allvars == <<vars, subvars>>

base == <<cfg, cur, w, tg, infl, nadd, nend, ref>>
Mark(a) == step' = [act |-> a, fl |-> FALSE, gen |-> 0, orphan |-> FALSE, item |-> NoItem, flushed |-> <<>>]

SubInit == Init /\ sgen = 1 /\ subd = TRUE /\ unsub = 0 /\ tag = <<>>

SAdd(it) ==                       \* a broadcast passes the subscribed check and adds
  /\ subd
  /\ Add(1, it)
  /\ tag' = Append(tag, sgen)
  /\ UNCHANGED <<sgen, subd, unsub>>

STimer(x) == TimerFire(x) /\ UNCHANGED subvars

UnsubBegin ==
  /\ subd /\ unsub = 0
  /\ subd' = FALSE /\ unsub' = sgen
  /\ IF EarlyDel THEN DelWriter(FALSE) ELSE (UNCHANGED base /\ Mark("UnsubBegin"))
  /\ UNCHANGED <<sgen, tag>>

Resub ==
  /\ ~subd /\ sgen < MaxGen
  /\ sgen' = sgen + 1 /\ subd' = TRUE
  /\ UNCHANGED base /\ Mark("Resub")
  /\ UNCHANGED <<unsub, tag>>

UnsubEnd ==                        \* after removeSubscription; then the reply / push of generation `unsub`
  /\ unsub # 0
  /\ unsub' = 0
  /\ IF ~subd THEN DelWriter(FALSE) ELSE (UNCHANGED base /\ Mark("UnsubEnd"))
  /\ UNCHANGED <<sgen, subd, tag>>

SubNext ==
  \/ \E it \in Items(nadd + 1) : SAdd(it)
  \/ \E x \in tg : STimer(x)
  \/ UnsubBegin \/ Resub \/ UnsubEnd

SubSpec == SubInit /\ [][SubNext]_allvars

\* what is flushed by this step belongs to the subscription that is live now, or to the one whose unsubscribe is
\* still in progress with no newer subscription in place
GenBracket == [][ (step' # step /\ step'.flushed # <<>>) =>
                    \A i \in 1..Len(Flat(step'.flushed)) :
                       LET g == tag'[Flat(step'.flushed)[i].id]
                       IN (subd /\ g = sgen) \/ (~subd /\ unsub = g) ]_allvars
\* nothing of an ended generation stays buffered once its unsubscribe finished
NoLeftover == (unsub = 0) =>
                \A g \in 1..Len(w) : \A i \in 1..Len(w[g].buf \o w[g].lat) :
                   subd /\ tag[(w[g].buf \o w[g].lat)[i].id] = sgen

SubView == <<cfg, cur, w, tg, infl, nadd, nend, ref, sgen, subd, unsub, tag>>
=============================================================================
