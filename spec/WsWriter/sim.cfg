SPECIFICATION SimSpec
CONSTANTS
  Bs = {16, 130, 1024}
  WClasses = {"0", "1", "B-1", "B", "B+1", "2B", "2B+1", "L", "L+1", "125", "126"}
  OClasses = {"0", "1", "B-1", "B", "B+1", "2B", "2B+1", "L", "L+1", "125", "126", "127"}
  PClasses = {"0", "1", "125", "126", "B", "B+1", "PB", "PB+1", "2PB+1"}
  MaxOps = 14
  MaxWrites = 5
INVARIANTS TypeOK Roundtrip Monitor Dangling ControlLimit ErrorsEmitNothing
CHECK_DEADLOCK FALSE
