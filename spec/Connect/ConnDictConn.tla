---------------------------- MODULE ConnDictConn ----------------------------
(* C11 (dictionary compression part): the connect command and close() of one
   WebSocket connection as separate threads.

   client.go:connectCmd, as far as the codec is concerned:
     RConnecting  OnConnecting handler runs                       (application code: a thread can be held here)
     RChecked     c.mu: credentials stored, `closed` read; closed => return DisconnectConnectionClosed
     RNegotiate   engine.NewDictionaryConnection(...) returns a codec: the engine has handed it out
                                                                  (application code: held at the call)
     RDictionary  cc.Dictionary()                                 (application code: held inside)
                  a dictionary named by an id the client never presented: cc.Close(), connection stays uncompressed
     RInstall     transport.SetDictionaryCompression(cc)          (compressionPending)
     RRecheck     c.mu: profile stored; status closed => transport.CloseDictionaryCompression(), return
     RRegister    c.mu: status closed => return; authenticated, hub registration
     RReply       the connect reply is written: raw, the pending codec is promoted
     ROp          a later frame: through Encode
   close() (stale timer, Client.Disconnect, transport, shutdown), one-shot:
     KMark        c.mu: status closed => return; status = closed
     KFlush       the writer is closed (and flushed)
     KCodec       transport.CloseDictionaryCompression(): whichever of compression / compressionPending is set, swapped out
     KDone        transport.Close
   A connectCmd that returns DisconnectConnectionClosed makes its caller call close() again: a no-op.

   C11 (codec clause): every codec the engine handed out is closed exactly once, after its last Encode; nothing is
   encoded after Close.  TLC explores every interleaving of the two threads.  The Go harness replays the behaviours
   in which close() runs as a whole while connectCmd is held at one of the application-code points above (the only
   places where a real connection can be held), with a recording engine that parks in NewDictionaryConnection /
   Dictionary; the verdict is taken from the engine's own log.                                                  *)
EXTENDS Naturals, Sequences, FiniteSets

CONSTANTS RecheckCloses   \* TRUE = the code; FALSE = witness variant (the re-check returns without closing the codec)

Scenarios == [dict : {"full", "unknown"},   \* what cc.Dictionary() answers: content, or an id the client does not hold
              op   : BOOLEAN]               \* one frame after the connect reply

VARIABLES sc, cpc, kpc, status, cc, slot, closes, enc, encAfterClose, wire, hist
vars == <<sc, cpc, kpc, status, cc, slot, closes, enc, encAfterClose, wire, hist>>

Init ==
  /\ sc \in Scenarios
  /\ cpc = "start" /\ kpc = "idle" /\ status = "open"
  /\ cc = "none"        \* none | out (handed out, nowhere installed) | pending | active | closed
  /\ slot = "none"      \* what the transport holds: none | pending | active
  /\ closes = 0 /\ enc = 0 /\ encAfterClose = FALSE /\ wire = <<>> /\ hist = <<>>

Log(a) == hist' = Append(hist, a)

\* websocketTransport.CloseDictionaryCompression
CloseSlot ==
  IF slot \in {"pending", "active"}
    THEN slot' = "none" /\ cc' = "closed" /\ closes' = closes + 1
    ELSE UNCHANGED <<slot, cc, closes>>

\* websocketTransport.writeData (only while the writer is open)
Write(k) ==
  IF slot = "active"
    THEN /\ wire' = Append(wire, [k |-> k, enc |-> TRUE]) /\ enc' = enc + 1
         /\ encAfterClose' = (encAfterClose \/ cc = "closed")
         /\ UNCHANGED <<slot, cc>>
    ELSE /\ wire' = Append(wire, [k |-> k, enc |-> FALSE])
         /\ slot' = IF slot = "pending" THEN "active" ELSE slot
         /\ cc' = IF slot = "pending" THEN "active" ELSE cc
         /\ UNCHANGED <<enc, encAfterClose>>

WriterOpen == kpc \in {"idle", "marked"}

---------------------------------------------------------------------------
RConnecting ==
  /\ cpc = "start" /\ cpc' = "connecting" /\ Log("RConnecting")
  /\ UNCHANGED <<sc, kpc, status, cc, slot, closes, enc, encAfterClose, wire>>

RChecked ==
  /\ cpc = "connecting"
  /\ cpc' = IF status = "closed" THEN "failed" ELSE "checked"
  /\ Log("RChecked")
  /\ UNCHANGED <<sc, kpc, status, cc, slot, closes, enc, encAfterClose, wire>>

RNegotiate ==
  /\ cpc = "checked" /\ cpc' = "negotiated" /\ cc' = "out" /\ Log("RNegotiate")
  /\ UNCHANGED <<sc, kpc, status, slot, closes, enc, encAfterClose, wire>>

RDictionary ==
  /\ cpc = "negotiated" /\ Log("RDictionary")
  /\ IF sc.dict = "unknown"
       THEN cpc' = "installed" /\ cc' = "closed" /\ closes' = closes + 1      \* cc.Close(), nothing installed
       ELSE cpc' = "gotdict" /\ UNCHANGED <<cc, closes>>
  /\ UNCHANGED <<sc, kpc, status, slot, enc, encAfterClose, wire>>

RInstall ==
  /\ cpc = "gotdict" /\ cpc' = "installed" /\ slot' = "pending" /\ cc' = "pending" /\ Log("RInstall")
  /\ UNCHANGED <<sc, kpc, status, closes, enc, encAfterClose, wire>>

RRecheck ==
  /\ cpc = "installed" /\ Log("RRecheck")
  /\ IF status = "closed"
       THEN /\ cpc' = "failed"
            /\ IF RecheckCloses THEN CloseSlot ELSE UNCHANGED <<slot, cc, closes>>
       ELSE cpc' = "prepared" /\ UNCHANGED <<slot, cc, closes>>
  /\ UNCHANGED <<sc, kpc, status, enc, encAfterClose, wire>>

RRegister ==
  /\ cpc = "prepared" /\ Log("RRegister")
  /\ cpc' = IF status = "closed" THEN "failed" ELSE "registered"
  /\ UNCHANGED <<sc, kpc, status, cc, slot, closes, enc, encAfterClose, wire>>

\* the reply is queued; once close() has closed the writer it is not written any more
RReply ==
  /\ cpc = "registered" /\ cpc' = "up" /\ Log("RReply")
  /\ IF WriterOpen THEN Write("connect") ELSE UNCHANGED <<wire, slot, cc, enc, encAfterClose>>
  /\ UNCHANGED <<sc, kpc, status, closes>>

ROp ==
  /\ cpc = "up" /\ sc.op /\ status = "open" /\ Len(wire) = 1
  /\ Write("op") /\ Log("ROp")
  /\ UNCHANGED <<sc, cpc, kpc, status, closes>>

---------------------------------------------------------------------------
KMark ==
  /\ kpc = "idle" /\ cpc # "start"
  /\ (cpc = "up" /\ sc.op) => Len(wire) = 2          \* the closing party waits for the frame it asked for
  /\ kpc' = "marked" /\ status' = "closed" /\ Log("KMark")
  /\ UNCHANGED <<sc, cpc, cc, slot, closes, enc, encAfterClose, wire>>

KFlush ==
  /\ kpc = "marked" /\ kpc' = "flushed" /\ Log("KFlush")
  /\ UNCHANGED <<sc, cpc, status, cc, slot, closes, enc, encAfterClose, wire>>

KCodec ==
  /\ kpc = "flushed" /\ kpc' = "codec" /\ CloseSlot /\ Log("KCodec")
  /\ UNCHANGED <<sc, cpc, status, enc, encAfterClose, wire>>

KDone ==
  /\ kpc = "codec" /\ kpc' = "done" /\ Log("KDone")
  /\ UNCHANGED <<sc, cpc, status, cc, slot, closes, enc, encAfterClose, wire>>

Quiet == kpc = "done" /\ cpc \in {"failed", "up"}

Next == RConnecting \/ RChecked \/ RNegotiate \/ RDictionary \/ RInstall \/ RRecheck \/ RRegister \/ RReply \/ ROp
        \/ KMark \/ KFlush \/ KCodec \/ KDone
        \/ (Quiet /\ UNCHANGED vars)
Spec == Init /\ [][Next]_vars

---------------------------------------------------------------------------
(* C11, codec clause *)
DictAtMostOnce == closes <= 1 /\ ~encAfterClose
\* once both threads are through: handed out <=> closed, exactly once
DictExactlyOnce == Quiet => /\ cc \in {"none", "closed"}
                            /\ closes = (IF cc = "none" THEN 0 ELSE 1)
\* the connect reply goes out raw, whatever follows through the encoder
DictWire == /\ wire # <<>> => (wire[1].k = "connect" /\ ~wire[1].enc)
            /\ \A x \in 2..Len(wire) : wire[x].enc = (sc.dict = "full")
=============================================================================
