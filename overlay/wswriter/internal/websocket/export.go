//go:build verif

package websocket

// Overlay-injected by /verif (family wswriter, C30/C31); never committed to /repo.
// Exports the unexported constructor and the close-code predicate for the harness.

import "net"

// VerifNewConn builds a Conn exactly like Upgrader.Upgrade / Dialer do after the handshake:
// newConn + (when compression was negotiated) the no-context-takeover codec pair.
func VerifNewConn(nc net.Conn, isServer bool, readBufferSize, writeBufferSize int, pool BufferPool, compression bool) *Conn {
	c := newConn(nc, isServer, readBufferSize, writeBufferSize, pool, nil, nil)
	if compression {
		c.newCompressionWriter = compressNoContextTakeover
		c.newDecompressionReader = decompressNoContextTakeover
	}
	return c
}

func VerifIsValidReceivedCloseCode(code int) bool { return isValidReceivedCloseCode(code) }

func VerifComputeAcceptKey(k string) string { return computeAcceptKey(k) }
