--------------------------- MODULE ChanWriterSub ---------------------------
(* The per-channel writer under the subscription that feeds it: client.go
   Client.unsubscribe drops the channel writer at TWO sites,
     (1) under c.mu together with deleting c.channels[ch]          (UnsubBegin)
     (2) after node.removeSubscription, unless the channel was
         subscribed again meanwhile                                  (UnsubEnd)
   and between the two it removes presence / publishes the leave (broker and
   presence manager round trips), so a new subscription to the same channel can
   be established in between (Resub).  After UnsubEnd the unsubscribe reply /
   push of that generation is written.

   Every item is tagged with the subscription generation it was accepted for
   (`tag`, indexed by item id).  Property (C13 + the C10 bracket): an item
   accepted for generation g is flushed to the connection only while g is the
   live subscription, or while g's own unsubscribe has not finished and no newer
   subscription exists; never after the unsubscribe of g and never inside
   generation g+1.

   EarlyDel = TRUE is the code; FALSE removes site (1) (gen_witness.cfg: TLC
   must find the counterexample, which the harness drives on a real client
   through natural gates).
   KNOWN FINDING (C13, `resub:inflight-broadcast-into-new-subscription`): with SubSplit = TRUE and a resubscribe
   (resub_inflight_witness.cfg, expected violation of GenBracket on the code AS IT IS): a broadcast that passed the
   subscribed check adds after site (1) - refused by the closed writer, it looks the writer up again and buffers into a
   fresh one - the channel is subscribed again before site (2), which is therefore skipped; the push of generation g is
   flushed inside generation g+1.  Without a resubscribe the split model is clean (gen_split_noresub.cfg).
   Adds are the atomic Add of ChanWriter (unless SubSplit): the window
   between the subscribed check and the Add is the other witness (race.cfg).  *)
EXTENDS ChanWriter

CONSTANTS
  EarlyDel, MaxGen,
  BatchedKinds,   \* push kinds writeEncodedPushData routes through the per-channel writer (the code: pub, join, leave)
  SubSplit,       \* the broadcast's Add in its two critical sections (getWriter / w.Add); needs AtomicAdd = FALSE
  CfgSwitch       \* "none"; "latest": GetChannelBatchConfig turns FlushLatestPublication off at run time;
                  \* "direct": it turns batching off (MaxSize = MaxDelay = 0) at run time

VARIABLES
  sgen,    \* generation of the newest subscription of the connection to the channel
  subd,    \* it is live (c.channels[ch] exists)
  unsub,   \* generation whose unsubscribe is between the two sites (0 = none)
  tag,     \* item id -> generation it was accepted for
  wire,    \* what reached the connection's message writer, in order (flushed batches and direct writes)
  direct   \* the channel's batch config currently asks for no batching
subvars == <<sgen, subd, unsub, tag, wire, direct>>
allvars == <<vars, subvars>>

base  == <<cfg, cur, w, tg, infl, nadd, nend, pclosed, ref>>
base2 == <<cfg, cur, w, tg, infl, nend, pclosed, ref>>
Mark(a) == step' = [act |-> a, fl |-> FALSE, gen |-> 0, orphan |-> FALSE, item |-> NoItem, flushed |-> <<>>]
Flushed == wire' = wire \o Flat(step'.flushed)

SubInit == Init /\ sgen = 1 /\ subd = TRUE /\ unsub = 0 /\ tag = <<>> /\ wire = <<>> /\ direct = FALSE

\* a broadcast passes the subscribed check; writeEncodedPushData sends the push through the channel writer or,
\* for kinds it does not batch (or when the config asks for no batching), straight to the message writer
SAdd(it) ==
  /\ subd /\ ~SubSplit
  /\ tag' = Append(tag, sgen)
  /\ IF it.k \in BatchedKinds /\ ~direct
       THEN Add(1, it) /\ Flushed
       ELSE /\ nadd < MaxAdds /\ nadd' = nadd + 1 /\ UNCHANGED base2
            /\ step' = [act |-> "Direct", fl |-> FALSE, gen |-> 0, orphan |-> FALSE, item |-> it, flushed |-> <<>>]
            /\ wire' = Append(wire, it)
  /\ UNCHANGED <<sgen, subd, unsub, direct>>

SGet(it) ==                       \* ... the same in two steps: getWriter now, w.Add later
  /\ subd /\ SubSplit /\ it.k \in BatchedKinds /\ ~direct
  /\ GetWriter(1, it)
  /\ tag' = Append(tag, sgen)
  /\ UNCHANGED <<sgen, subd, unsub, wire, direct>>
SWAdd == SubSplit /\ WAdd(1) /\ Flushed /\ UNCHANGED <<sgen, subd, unsub, tag, direct>>
\* refused by a writer that unsubscribe closed meanwhile: perChannelWriter.Add takes the current writer again
SRetry == SubSplit /\ Retry(1) /\ UNCHANGED subvars

STimer(x) == TimerFire(x) /\ Flushed /\ UNCHANGED <<sgen, subd, unsub, tag, direct>>

UnsubBegin ==
  /\ subd /\ unsub = 0
  /\ subd' = FALSE /\ unsub' = sgen
  /\ IF EarlyDel THEN DelWriter(FALSE) ELSE (UNCHANGED base /\ Mark("UnsubBegin"))
  /\ UNCHANGED <<sgen, tag, wire, direct>>

Resub ==
  /\ ~subd /\ sgen < MaxGen
  /\ infl[1].g = 0                   \* hub.addSub takes the shard lock an in-flight broadcast holds
  /\ sgen' = sgen + 1 /\ subd' = TRUE
  /\ UNCHANGED base /\ Mark("Resub")
  /\ UNCHANGED <<unsub, tag, wire, direct>>

\* after removeSubscription (which waits for in-flight broadcasts: hub shard lock); then the reply / push of `unsub`
UnsubEnd ==
  /\ unsub # 0 /\ infl[1].g = 0        \* hub.removeSub waits for in-flight broadcasts
  /\ unsub' = 0
  /\ IF ~subd THEN DelWriter(FALSE) ELSE (UNCHANGED base /\ Mark("UnsubEnd"))
  /\ UNCHANGED <<sgen, subd, tag, wire, direct>>

SwitchLatest ==
  /\ CfgSwitch = "latest" /\ cfg.latest
  /\ cfg' = [cfg EXCEPT !.latest = FALSE]
  /\ UNCHANGED <<cur, w, tg, infl, nadd, nend, pclosed, ref>> /\ Mark("SwitchLatestOff")
  /\ UNCHANGED subvars
SwitchDirect ==
  /\ CfgSwitch = "direct" /\ ~direct
  /\ direct' = TRUE
  /\ UNCHANGED base /\ Mark("SwitchBatchingOff")
  /\ UNCHANGED <<sgen, subd, unsub, tag, wire>>

SubNext ==
  \/ \E it \in Items(nadd + 1) : SAdd(it) \/ SGet(it)
  \/ SWAdd \/ SRetry
  \/ \E x \in tg : STimer(x)
  \/ UnsubBegin \/ Resub \/ UnsubEnd
  \/ SwitchLatest \/ SwitchDirect

SubSpec == SubInit /\ [][SubNext]_allvars

\* what is flushed by this step belongs to the subscription that is live now, or to the one whose unsubscribe is
\* still in progress with no newer subscription in place
GenBracket == [][ (step' # step /\ step'.flushed # <<>>) =>
                    \A i \in 1..Len(Flat(step'.flushed)) :
                       LET g == tag'[Flat(step'.flushed)[i].id]
                       IN (subd /\ g = sgen) \/ (~subd /\ unsub = g) ]_allvars
\* nothing of an ended generation stays buffered once its unsubscribe finished
NoLeftover == (unsub = 0) =>
                \A g \in 1..Len(w) : \A i \in 1..Len(w[g].buf \o w[g].lat) :
                   subd /\ tag[(w[g].buf \o w[g].lat)[i].id] = sgen
\* the connection receives the channel's pushes in the order they were produced (ids are the production order);
\* in latest-publication mode publications may move behind later join / leave pushes of the same flush, nothing else
WireOrdered == \A i, j \in 1..Len(wire) : i < j =>
                 \/ wire[i].id < wire[j].id
                 \/ (cfg.latest /\ ~IsPub(wire[i]) /\ IsPub(wire[j]))

SubView == <<cfg, cur, w, tg, infl, nadd, nend, pclosed, ref, sgen, subd, unsub, tag, wire, direct>>
=============================================================================
