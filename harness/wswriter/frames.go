package main

// An independent RFC 6455 frame parser / stream validator (nothing of /repo/internal/websocket is used here),
// the capturing net.Conn, and payload generation.

import (
	"bytes"
	"compress/flate"
	"encoding/binary"
	"fmt"
	"io"
	"math/rand"
	"net"
	"time"
)

type frame struct {
	Op      int    `json:"op"`
	Fin     bool   `json:"fin"`
	Rsv1    bool   `json:"rsv1"`
	Rsv2    bool   `json:"rsv2,omitempty"`
	Rsv3    bool   `json:"rsv3,omitempty"`
	Masked  bool   `json:"masked"`
	Len     int    `json:"len"`
	Payload []byte `json:"-"` // unmasked
	// NonMinimal: the payload length was not encoded in the minimal number of bytes (RFC 6455 5.2)
	NonMinimal bool `json:"nonminimal,omitempty"`
}

func (f frame) String() string {
	return fmt.Sprintf("[op=%d fin=%v rsv1=%v masked=%v len=%d]", f.Op, f.Fin, f.Rsv1, f.Masked, f.Len)
}

// parseFrames parses b into complete frames; rest is what is left over (an incomplete frame).
// RFC 6455 section 5.2.
func parseFrames(b []byte) (out []frame, rest []byte, err error) {
	for len(b) > 0 {
		if len(b) < 2 {
			return out, b, nil
		}
		f := frame{Fin: b[0]&0x80 != 0, Rsv1: b[0]&0x40 != 0, Rsv2: b[0]&0x20 != 0, Rsv3: b[0]&0x10 != 0, Op: int(b[0] & 0x0f), Masked: b[1]&0x80 != 0}
		l7 := int(b[1] & 0x7f)
		p := 2
		n := l7
		switch l7 {
		case 126:
			if len(b) < p+2 {
				return out, b, nil
			}
			n = int(binary.BigEndian.Uint16(b[p:]))
			p += 2
			f.NonMinimal = n < 126
		case 127:
			if len(b) < p+8 {
				return out, b, nil
			}
			u := binary.BigEndian.Uint64(b[p:])
			if u>>63 != 0 {
				return out, b, fmt.Errorf("64-bit length with the most significant bit set")
			}
			if u > 1<<40 {
				return out, b, fmt.Errorf("absurd frame length %d", u)
			}
			n = int(u)
			p += 8
			f.NonMinimal = n < 65536
		}
		var key [4]byte
		if f.Masked {
			if len(b) < p+4 {
				return out, b, nil
			}
			copy(key[:], b[p:p+4])
			p += 4
		}
		if len(b) < p+n {
			return out, b, nil
		}
		f.Len = n
		f.Payload = make([]byte, n)
		copy(f.Payload, b[p:p+n])
		if f.Masked {
			for i := range f.Payload {
				f.Payload[i] ^= key[i&3]
			}
		}
		out = append(out, f)
		b = b[p+n:]
	}
	return out, nil, nil
}

// delivery: what a conforming receiver hands to the application.
type delivery struct {
	Type       int
	Data       []byte
	Compressed bool
}

// streamValidator checks a frame sequence against RFC 6455 5.1-5.5 and RFC 7692 section 6 and reassembles
// the messages. rule is a short name of the broken rule ("" = fine).
type streamValidator struct {
	fromClient bool
	negotiated bool
	inMsg      bool
	msgType    int
	msgComp    bool
	buf        []byte
	closed     bool
	out        []delivery
}

func (v *streamValidator) feed(f frame) (rule string) {
	if v.closed {
		return "frame-after-close" // 5.5.1
	}
	if f.Masked != v.fromClient {
		if v.fromClient {
			return "client-frame-not-masked" // 5.1, 5.3
		}
		return "server-frame-masked" // 5.1
	}
	if f.Rsv2 || f.Rsv3 {
		return "rsv2/3-set" // 5.2
	}
	if f.NonMinimal {
		return "length-not-minimal" // 5.2
	}
	switch f.Op {
	case 8, 9, 10:
		if !f.Fin {
			return "control-fragmented" // 5.5
		}
		if f.Len > 125 {
			return "control-longer-than-125" // 5.5
		}
		if f.Rsv1 {
			return "rsv1-on-control" // RFC 7692 6.1
		}
		v.out = append(v.out, delivery{Type: f.Op, Data: f.Payload})
		if f.Op == 8 {
			v.closed = true
		}
	case 1, 2:
		if v.inMsg {
			return "data-frame-inside-fragmented-message" // 5.4
		}
		if f.Rsv1 && !v.negotiated {
			return "rsv1-without-extension" // 5.2
		}
		if f.Fin {
			return v.deliver(f.Op, f.Rsv1, f.Payload)
		}
		v.inMsg, v.msgType, v.msgComp = true, f.Op, f.Rsv1
		v.buf = append([]byte(nil), f.Payload...)
	case 0:
		if !v.inMsg {
			return "continuation-without-message" // 5.4
		}
		if f.Rsv1 {
			return "rsv1-on-continuation" // RFC 7692 6.1
		}
		v.buf = append(v.buf, f.Payload...)
		if f.Fin {
			v.inMsg = false
			return v.deliver(v.msgType, v.msgComp, v.buf)
		}
	default:
		return fmt.Sprintf("reserved-opcode-%d", f.Op) // 5.2
	}
	return ""
}

func (v *streamValidator) deliver(t int, comp bool, p []byte) string {
	if comp {
		// RFC 7692 7.2.2: append 00 00 ff ff and inflate
		r := flate.NewReader(io.MultiReader(bytes.NewReader(p), bytes.NewReader([]byte{0, 0, 0xff, 0xff, 1, 0, 0, 0xff, 0xff})))
		d, err := io.ReadAll(r)
		if err != nil {
			return "compressed-payload-does-not-inflate"
		}
		p = d
	}
	v.out = append(v.out, delivery{Type: t, Data: append([]byte(nil), p...), Compressed: comp})
	return ""
}

// ---------------------------------------------------------------------------------------------

type addr string

func (a addr) Network() string { return "mem" }
func (a addr) String() string  { return string(a) }

// capConn: an in-memory net.Conn capturing everything written; reads come from r (nil: EOF).
type capConn struct {
	w      bytes.Buffer
	r      io.Reader
	closed bool
	writes int
}

func (c *capConn) Read(p []byte) (int, error) {
	if c.r == nil {
		return 0, io.EOF
	}
	return c.r.Read(p)
}
func (c *capConn) Write(p []byte) (int, error) {
	if c.closed {
		return 0, net.ErrClosed
	}
	c.writes++
	return c.w.Write(p)
}
func (c *capConn) Close() error                       { c.closed = true; return nil }
func (c *capConn) LocalAddr() net.Addr                { return addr("local") }
func (c *capConn) RemoteAddr() net.Addr               { return addr("remote") }
func (c *capConn) SetDeadline(_ time.Time) error      { return nil }
func (c *capConn) SetReadDeadline(_ time.Time) error  { return nil }
func (c *capConn) SetWriteDeadline(_ time.Time) error { return nil }

// take returns the bytes written since the last take.
func (c *capConn) take() []byte {
	b := append([]byte(nil), c.w.Bytes()...)
	c.w.Reset()
	return b
}

// ---------------------------------------------------------------------------------------------

var words = []string{"centrifuge", "channel", "publication", "offset", "epoch", "{\"push\":", "\"data\"", "presence", "recover", "€", "ключ"}

// genPayload: n pseudo-random bytes; style 0 = incompressible, 1 = text-like (compressible), 2 = one repeated byte run
func genPayload(rng *rand.Rand, n int) []byte {
	p := make([]byte, n)
	switch rng.Intn(3) {
	case 0:
		rng.Read(p)
	case 1:
		i := 0
		for i < n {
			i += copy(p[i:], words[rng.Intn(len(words))])
		}
	default:
		b := byte(rng.Intn(256))
		for i := range p {
			p[i] = b
			if rng.Intn(61) == 0 {
				b = byte(rng.Intn(256))
			}
		}
	}
	return p
}

// genControl: payload of a control message of type t with n bytes. Close payloads of >= 2 bytes carry a valid
// close code and an ASCII reason, so that a conforming receiver accepts them (RFC 6455 5.5.1, 7.4).
func genControl(rng *rand.Rand, t, n int) []byte { return genControlAt(rng, t, n, 0, 0) }

// genControlAt: the bytes [off, off+n) of such a payload (for control messages streamed in pieces); code 0 = pick one.
func genControlAt(rng *rand.Rand, t, n, off, code int) []byte {
	p := make([]byte, n)
	if t != 8 {
		rng.Read(p)
		return p
	}
	if code == 0 {
		codes := []int{1000, 1001, 1002, 1003, 1007, 1008, 1009, 1010, 1011, 3000, 3999, 4000, 4999}
		code = codes[rng.Intn(len(codes))]
	}
	for i := range p {
		switch off + i {
		case 0:
			p[i] = byte(code >> 8)
		case 1:
			p[i] = byte(code)
		default:
			p[i] = byte('a' + rng.Intn(26))
		}
	}
	return p
}
