"""Core of the /verif runner: TLC driver, Go harness builder, verdicts, evidence.

Exit codes of a check: 0 property held on everything explored (KNOWN-FINDING lines allowed),
1 VIOLATION (real code broke the property's monitor / reference model), 2 inconclusive
(drift, build failure, TLC failure, dead driver) -- see DESIGN.md section 6.
"""
import glob
import hashlib
import json
import os
import re
import shutil
import subprocess
import sys
import tempfile
import time

from . import tlaparse

ROOT = os.path.dirname(os.path.dirname(os.path.abspath(__file__)))
REPO = os.environ.get('VERIF_REPO', '/repo')
NCPU = os.cpu_count() or 4


class Inconclusive(Exception):
    pass


def goenv():
    env = dict(os.environ)
    env['GOFLAGS'] = '-mod=mod'
    env['GOPROXY'] = 'off'
    env.pop('GOTOOLCHAIN', None)   # must stay auto: go1.25.0 toolchain comes from the module cache
    env.pop('GOSUMDB', None)
    return env


def repo_hash():
    h = hashlib.sha256()
    for pat in ('*.go', 'internal/**/*.go', 'internal/**/*.lua'):
        for f in sorted(glob.glob(os.path.join(REPO, pat), recursive=True)):
            if f.endswith('_test.go'):
                continue
            h.update(f.encode())
            with open(f, 'rb') as fh:
                h.update(fh.read())
    return h.hexdigest()[:16]


class Check:
    def __init__(self, prop, tier='quick', seed=1, level='model_checking'):
        self.prop = prop
        self.tier = tier
        self.seed = seed
        self.level = level
        self.t0 = time.time()
        self.tmp = tempfile.mkdtemp(prefix='verif-%s-' % prop)
        self.cov = {'states': 0, 'transitions': 0, 'traces_validated_against_impl': 0,
                    'samples': [], 'evaluations': 0, 'distinct_nontrivial': 0, 'rule': '',
                    'tlc_runs': [], 'actions_never_taken': []}
        self.assumptions = []
        self.violations = []      # dicts: sig, what, replay(obj)
        self.known = []
        self.drifts = []
        self.notes = []
        self._kf = None

    # ------------------------------------------------------------------ scratch / cleanup
    def cleanup(self):
        shutil.rmtree(self.tmp, ignore_errors=True)

    def log(self, *a):
        print('[%s %6.1fs]' % (self.prop, time.time() - self.t0), *a, flush=True)

    # ------------------------------------------------------------------ TLC
    def _specdir(self, family):
        dst = os.path.join(self.tmp, 'spec-' + family)
        if not os.path.isdir(dst):
            shutil.copytree(os.path.join(ROOT, 'spec', family), dst)
            for f in glob.glob(os.path.join(ROOT, 'spec', 'common', '*.tla')):   # shared operator modules
                if not os.path.exists(os.path.join(dst, os.path.basename(f))):
                    shutil.copy(f, dst)
        return dst

    def tlc(self, family, module, cfg, workers=None, timeout=600, simulate=None, depth=None,
            dump=False, coverage=False, extra=None, heap=None, deque=False, sim_file=True,
            expect_violation=False):
        """Runs TLC. Returns dict(ok, states, distinct, depth, out, error, behaviours_dir, dump_file, coverage)."""
        d = self._specdir(family)
        tag = '%s-%s-%d' % (module, os.path.basename(cfg), len(self.cov['tlc_runs']))
        meta = os.path.join(self.tmp, 'meta-' + tag)
        cmd = ['java', '-XX:+UseParallelGC']
        if heap:
            cmd.append('-Xmx' + heap)
        cmd.append('-Xss64m')
        cmd.append('-Djava.io.tmpdir=' + self.tmp)
        if deque:
            cmd.append('-Dtlc2.tool.queue.IStateQueue=StateDeque')
        cmd += ['-cp', '/opt/veriftools/tla/tla2tools.jar:/opt/veriftools/tla/CommunityModules-deps.jar',
                'tlc2.TLC', '-metadir', meta, '-config', cfg, '-noGenerateSpecTE']
        res = {'behaviours_dir': None, 'dump_file': None}
        if simulate:
            w = 1
            bdir = os.path.join(self.tmp, 'beh-' + tag)
            os.makedirs(bdir, exist_ok=True)
            arg = 'num=%d' % simulate
            if sim_file:
                arg = 'file=%s/b,' % bdir + arg
            cmd += ['-workers', str(w), '-simulate', arg, '-depth', str(depth or 20), '-seed', str(self.seed)]
            res['behaviours_dir'] = bdir
        else:
            cmd += ['-workers', str(workers or min(NCPU, 8))]
            if dump:
                df = os.path.join(self.tmp, 'dump-' + tag)
                cmd += ['-dump', df]
                res['dump_file'] = df + '.dump'
            if coverage:
                cmd += ['-coverage', '1']
        if extra:
            cmd += extra
        cmd.append(module + '.tla')
        t0 = time.time()
        try:
            p = subprocess.run(cmd, cwd=d, stdout=subprocess.PIPE, stderr=subprocess.STDOUT, timeout=timeout,
                               text=True, errors='replace')
        except subprocess.TimeoutExpired:
            subprocess.run(['pkill', '-f', meta], check=False)
            raise Inconclusive('TLC timeout (%ds) on %s/%s %s' % (timeout, family, module, cfg))
        out = p.stdout
        res['out'] = out
        res['rc'] = p.returncode
        res['wall_s'] = round(time.time() - t0, 2)
        m = re.search(r'(\d+) states generated, (\d+) distinct states found', out)
        res['states'] = int(m.group(1)) if m else 0
        res['distinct'] = int(m.group(2)) if m else 0
        if simulate:
            m = re.search(r'The number of states generated: (\d+)', out)
            res['states'] = int(m.group(1)) if m else 0
        m = re.search(r'depth of the complete state graph search is (\d+)', out)
        res['depth'] = int(m.group(1)) if m else 0
        err = re.search(r'^Error: (.*)$', out, re.M)
        res['error'] = err.group(1) if err else None
        res['ok'] = (p.returncode == 0 and not err)
        if coverage:
            res['coverage'] = parse_coverage(out)
        self.cov['tlc_runs'].append({'module': module, 'cfg': cfg, 'mode': 'simulate' if simulate else 'exhaustive',
                                     'generated': res['states'], 'distinct': res['distinct'],
                                     'depth': res['depth'], 'wall_s': res['wall_s'], 'ok': res['ok']})
        if not res['ok'] and not expect_violation:
            if p.returncode in (12, 13, 10, 11) or (err and ('violated' in err.group(1) or 'Deadlock' in err.group(1) or 'Postcondition' in err.group(1))):
                return res   # a model-level counterexample: caller decides (never a verdict by itself)
            raise Inconclusive('TLC failed rc=%s on %s %s:\n%s' % (p.returncode, module, cfg, out[-3000:]))
        return res

    def tlc_exhaustive(self, family, module, cfg, **kw):
        """Exhaustive run that must be clean on the model; counts states/transitions into evidence."""
        r = self.tlc(family, module, cfg, **kw)
        if not r['ok']:
            raise Inconclusive('model-level counterexample in %s %s (design does not satisfy its own invariants): %s\n%s'
                               % (module, cfg, r['error'], r['out'][-4000:]))
        self.cov['states'] += r['distinct']
        self.cov['transitions'] += r['states']
        if kw.get('coverage') and r.get('coverage'):
            never = [a for a, c in r['coverage'].items() if c == 0]
            self.cov['actions_never_taken'] += never
        return r

    def tlc_witness(self, family, module, base_cfg, inv, overrides=None, workers=4, timeout=600):
        """Asks TLC for a shortest behaviour reaching a scenario: `inv` is the pseudo-invariant "the scenario never
        happens"; its counterexample (parsed from the error trace) is returned as a list of states, or None when the
        scenario is unreachable in this configuration. overrides: {constant: replacement} lines (`C <- Def`)."""
        d = self._specdir(family)
        txt = open(os.path.join(d, base_cfg)).read()
        txt = re.sub(r'^(INVARIANTS?|PROPERTIES|PROPERTY|VIEW|CONSTRAINT|POSTCONDITION)\b.*$', '', txt, flags=re.M)
        for k, v in (overrides or {}).items():
            txt = re.sub(r'^\s*%s\s*(=|<-).*$' % re.escape(k), '  %s <- %s' % (k, v), txt, flags=re.M)
        cfg = 'wit_%s.cfg' % inv
        with open(os.path.join(d, cfg), 'w') as fh:
            fh.write(txt + '\nINVARIANT %s\n' % inv)
        r = self.tlc(family, module, cfg, workers=workers, timeout=timeout, expect_violation=True)
        if r['ok']:
            return None
        if not r['error'] or 'Invariant %s is violated' % inv not in r['out']:
            raise Inconclusive('witness search %s failed: %s\n%s' % (inv, r['error'], r['out'][-2000:]))
        trace = r['out'][r['out'].index('Invariant %s is violated' % inv):]
        m = re.search(r'^\d+ states generated', trace, re.M)
        if m:
            trace = trace[:m.start()]
        return tlaparse.parse_states_file(trace)

    def behaviours(self, res, strip=True):
        """Parses the behaviour files of a -simulate run into lists of state dicts."""
        out = []
        files = sorted(glob.glob(os.path.join(res['behaviours_dir'], 'b_*')),
                       key=lambda f: [int(x) for x in re.findall(r'\d+', os.path.basename(f))])
        for f in files:
            with open(f) as fh:
                out.append(tlaparse.parse_states_file(fh.read()))
        return out

    def dump_states(self, res):
        with open(res['dump_file']) as fh:
            return tlaparse.parse_states_file(fh.read())

    # ------------------------------------------------------------------ Go harness
    def overlay_file(self, overlays=()):
        """overlay/<name>/<relpath>/<file>.go  ->  <REPO>/<relpath>/zz_verif_<name>_<file>.go  (never written into REPO)."""
        ov = {}
        for name in overlays:
            odir = os.path.join(ROOT, 'overlay', name)
            for dirpath, _, files in os.walk(odir):
                for f in files:
                    if not f.endswith('.go'):
                        continue
                    rel = os.path.relpath(os.path.join(dirpath, f), odir)
                    ov[os.path.join(REPO, os.path.dirname(rel), 'zz_verif_%s_%s' % (name, f))] = os.path.join(dirpath, f)
        p = os.path.join(self.tmp, 'overlay-%s.json' % '-'.join(overlays))
        with open(p, 'w') as fh:
            json.dump({'Replace': ov}, fh)
        return p

    def harness_dir(self):
        """The harness module; when VERIF_REPO points elsewhere than /repo a scratch copy with the replace rewritten."""
        hdir = os.path.join(ROOT, 'harness')
        if os.path.realpath(REPO) != '/repo':
            dst = os.path.join(self.tmp, 'harness')
            if not os.path.isdir(dst):
                shutil.copytree(hdir, dst)
                gm = open(os.path.join(dst, 'go.mod')).read().replace('=> /repo', '=> ' + os.path.realpath(REPO))
                open(os.path.join(dst, 'go.mod'), 'w').write(gm)
            hdir = dst
        shutil.copyfile(os.path.join(REPO, 'go.sum'), os.path.join(hdir, 'go.sum'))
        return hdir

    def go_build(self, pkg, overlays=None):
        """Builds /verif/harness/<pkg> against REPO's working tree with -tags verif. Returns the binary path.
        overlays: names under /verif/overlay/ to inject (default: [pkg] if that directory exists)."""
        if overlays is None:
            overlays = [pkg] if os.path.isdir(os.path.join(ROOT, 'overlay', pkg)) else []
        hdir = self.harness_dir()
        bdir = os.path.join(ROOT, '.build')
        os.makedirs(bdir, exist_ok=True)
        out = os.path.join(bdir, pkg.replace('/', '_') + '-%d' % os.getpid())
        cmd = ['go', 'build', '-tags', 'verif', '-overlay', self.overlay_file(overlays), '-o', out, './' + pkg]
        p = subprocess.run(cmd, cwd=hdir, env=goenv(), stdout=subprocess.PIPE, stderr=subprocess.STDOUT, text=True)
        if p.returncode != 0:
            raise Inconclusive('harness build failed for %s:\n%s' % (pkg, p.stdout[-4000:]))
        self._bins = getattr(self, '_bins', []) + [out]
        return out

    def go_test_overlay(self, pkgpath, run, overlays, env=None, timeout=900):
        """Runs overlay-injected in-package tests of REPO/<pkgpath> (files /verif/overlay/<name>/<pkgpath>/*_test.go).
        Returns (rc, output). Only for code that cannot be reached from the harness module (internal packages)."""
        e = goenv()
        e['VERIF_SEED'] = str(self.seed)
        e['VERIF_TIER'] = self.tier
        e.update(env or {})
        cmd = ['go', 'test', '-tags', 'verif', '-overlay', self.overlay_file(overlays), '-count=1', '-vet=off',
               '-run', run, '-timeout', '%ds' % timeout, './' + pkgpath]
        p = subprocess.run(cmd, cwd=REPO, env=e, stdout=subprocess.PIPE, stderr=subprocess.STDOUT, text=True)
        return p.returncode, p.stdout

    def run_bin(self, binary, args, timeout=900, env=None, stdin=None):
        e = goenv()
        e['VERIF_SEED'] = str(self.seed)
        e['VERIF_TIER'] = self.tier
        e.update(env or {})
        try:
            p = subprocess.run([binary] + args, env=e, stdout=subprocess.PIPE, stderr=subprocess.PIPE,
                               timeout=timeout, text=True, input=stdin, errors='replace')
        except subprocess.TimeoutExpired:
            raise Inconclusive('harness timeout: %s %s' % (binary, ' '.join(args)))
        return p.returncode, p.stdout, p.stderr

    def harness(self, binary, mode, inp, timeout=900, env=None, extra=None):
        """Runs a harness binary: <bin> <mode> <in.json> <out.json> [extra...]. `inp` is a python object.
        Returns the parsed result object. Convention for the result:
          {"executed":N, "completed":N, "nontrivial":N, "violations":[{"prop","sig","what","replay"}],
           "drifts":[{"what","replay"}], "samples":[...], ...}"""
        n = len(glob.glob(os.path.join(self.tmp, 'in-*.json')))
        ip = os.path.join(self.tmp, 'in-%d.json' % n)
        op = os.path.join(self.tmp, 'out-%d.json' % n)
        with open(ip, 'w') as fh:
            json.dump(inp, fh)
        rc, so, se = self.run_bin(binary, [mode, ip, op] + (extra or []), timeout=timeout, env=env)
        if rc != 0 or not os.path.exists(op):
            crash = self._library_panic(se)
            if crash:
                # the code under test crashed the process from one of its own goroutines (the harness cannot recover
                # that): run the same input once more; a reproducible crash of library code is a verdict
                rc2, so2, se2 = self.run_bin(binary, [mode, ip, op] + (extra or []), timeout=timeout, env=env)
                crash2 = self._library_panic(se2) if rc2 != 0 else None
                if crash2 and crash2[0] == crash[0]:
                    self.violation('crash:' + crash[0], 'the library panicked while the check was driving it (%s mode %s): %s' % (os.path.basename(binary).split('-')[0], mode, crash[1]),
                                   {'mode': mode, 'stderr': se[-3000:]})
                    raise Inconclusive('the library crashed the harness process (%s); recorded as a violation' % crash[0])
                if rc2 == 0 and os.path.exists(op):
                    self.notes.append('harness %s crashed once in library code (%s) and passed on re-execution' % (mode, crash[0]))
                    with open(op) as fh:
                        return json.load(fh)
            raise Inconclusive('harness %s %s failed rc=%d\nstdout:%s\nstderr:%s' % (os.path.basename(binary), mode, rc, so[-3000:], se[-3000:]))
        with open(op) as fh:
            return json.load(fh)

    def replay_retry(self, binary, mode, behs, wrap=lambda b: b, timeout=900, tries=2):
        """Runs a behaviour-replay mode and re-executes the behaviours that drifted (identified by "behaviour <i>" in the
        drift text) up to `tries` more times on fresh nodes: drift that does not reproduce is a scheduling accident of the
        loaded machine, noted and dropped; drift that reproduces every time stays; a violation found on a re-execution is a
        violation (it comes from the real code). wrap(behaviours) builds the harness input."""
        res = self.harness(binary, mode, wrap(behs), timeout=timeout)
        for _ in range(tries):
            idx = sorted({int(m) for d in (res.get('drifts') or []) for m in re.findall(r'behaviour (\d+)', d.get('what', ''))})
            idx = [i for i in idx if i < len(behs)]
            if not idx:
                break
            keep = [d for d in res['drifts'] if not re.search(r'behaviour (\d+)', d.get('what', ''))]
            r2 = self.harness(binary, mode, wrap([behs[i] for i in idx]), timeout=timeout)
            again = []
            for d in r2.get('drifts') or []:
                m = re.search(r'behaviour (\d+)', d.get('what', ''))
                if m and int(m.group(1)) < len(idx):
                    d = dict(d, what=re.sub(r'behaviour \d+', 'behaviour %d' % idx[int(m.group(1))], d['what'], count=1))
                again.append(d)
            gone = len(idx) - len({re.search(r'behaviour (\d+)', d['what']).group(1) for d in again if re.search(r'behaviour (\d+)', d['what'])})
            if gone:
                self.notes.append('%d drifted behaviour(s) of %s passed on re-execution (machine load)' % (gone, mode))
            res['drifts'] = keep + again
            res['violations'] = (res.get('violations') or []) + (r2.get('violations') or [])
            res['completed'] = res.get('completed', 0) + r2.get('completed', 0)
            res['nontrivial'] = max(res.get('nontrivial', 0), res.get('nontrivial', 0))
        return res

    @staticmethod
    def _library_panic(stderr):
        """(function, first lines) when a Go panic's goroutine was running library code (github.com/centrifugal/centrifuge/...),
        not harness code, at the moment of the panic; None otherwise."""
        m = re.search(r'^(panic: .*|fatal error: .*)$', stderr or '', re.M)
        if not m:
            return None
        tail = stderr[m.start():]
        g = re.search(r'^goroutine \d+ \[running\]:\n((?:.+\n)+)', tail, re.M)
        if not g:
            return None
        for fn in re.findall(r'^([\w./*()\[\]-]+)\(', g.group(1), re.M):
            if fn.startswith(('runtime.', 'panic(', 'runtime/')) or fn in ('panic',):
                continue
            if fn.startswith('github.com/centrifugal/centrifuge'):
                return (fn.replace('github.com/centrifugal/centrifuge', '').lstrip('/.') or fn, m.group(1)[:200])
            return None
        return None

    def absorb(self, result, only_prop=True):
        """Takes violations/drifts from a harness result. Violations of other properties are ignored here
        (each property has its own check) unless only_prop is False."""
        for v in result.get('violations') or []:
            if only_prop and v.get('prop') not in (None, '', self.prop):
                continue
            self.violation(v.get('sig', ''), v.get('what', ''), v.get('replay'))
        for d in result.get('drifts') or []:
            if only_prop and d.get('prop') not in (None, '', self.prop):
                continue
            self.drifts.append(d)

    # ------------------------------------------------------------------ trace validation
    def validate_trace(self, family, module, cfg, trace_events, timeout=300, deque=False, workers=1):
        """Writes events as ndjson next to the spec copy (trace.ndjson) and runs the trace spec.
        Acceptance by the TraceAccepted postcondition. Returns (accepted, info)."""
        d = self._specdir(family)
        with open(os.path.join(d, 'trace.ndjson'), 'w') as fh:
            for e in trace_events:
                fh.write(json.dumps(e, separators=(',', ':')) + '\n')
        r = self.tlc(family, module, cfg, workers=workers, timeout=timeout, deque=deque, expect_violation=True)
        info = {'error': r['error'], 'distinct': r['distinct'], 'depth': r['depth']}
        m = re.search(r'"TRACE-PREFIX", (\d+)', r['out'])
        if m:
            info['matched_prefix'] = int(m.group(1))
        if not r['ok'] and r['error'] and 'Postcondition' not in r['error'] and 'violated' not in r['error']:
            raise Inconclusive('trace spec failed to run: %s\n%s' % (r['error'], r['out'][-3000:]))
        info['out_tail'] = r['out'][-1500:]
        return r['ok'], info

    # ------------------------------------------------------------------ verdicts
    def _known_findings(self):
        if self._kf is None:
            p = os.path.join(ROOT, 'known_findings.json')
            self._kf = json.load(open(p)).get('findings', []) if os.path.exists(p) else []
        return self._kf

    def violation(self, sig, what, replay=None):
        for k in self._known_findings():
            if k['property'] == self.prop and re.fullmatch(k['match'], sig or ''):
                if not any(x['sig'] == sig for x in self.known):
                    self.known.append({'sig': sig, 'what': k.get('what', what)})
                return
        self.violations.append({'sig': sig, 'what': what, 'replay': replay})

    def sample(self, obj, limit=3):
        if len(self.cov['samples']) < limit:
            self.cov['samples'].append(obj)

    def finish(self):
        rc = 0
        os.makedirs(os.path.join(ROOT, 'replays'), exist_ok=True)
        os.makedirs(os.path.join(ROOT, 'evidence'), exist_ok=True)
        for old in glob.glob(os.path.join(ROOT, 'replays', '%s-%s-*.json' % (self.prop, self.tier))):
            os.remove(old)
        for k in self.known:
            print('KNOWN-FINDING: property=%s %s [%s]' % (self.prop, k['what'], k['sig']))
        seen = set()
        for i, v in enumerate(self.violations):
            if v['sig'] in seen:
                continue
            seen.add(v['sig'])
            if len(seen) > 10:
                break
            path = os.path.join(ROOT, 'replays', '%s-%s-%d.json' % (self.prop, self.tier, len(seen)))
            with open(path, 'w') as fh:
                json.dump({'property': self.prop, 'sig': v['sig'], 'what': v['what'], 'replay': v['replay'],
                           'seed': self.seed, 'tier': self.tier}, fh, indent=1)
            print('VIOLATION property=%s replay=%s' % (self.prop, path))
            print('  what: %s' % v['what'])
            rc = 1
        if rc == 0 and self.drifts:
            for d in self.drifts[:5]:
                print('DRIFT property=%s %s' % (self.prop, d.get('what')))
            path = os.path.join(ROOT, 'replays', '%s-%s-drift.json' % (self.prop, self.tier))
            with open(path, 'w') as fh:
                json.dump(self.drifts[:20], fh, indent=1)
            rc = 2
        cov = dict(self.cov)
        if not cov['samples']:
            cov['samples'] = ['(none)']
        cov['known_findings_hit'] = [k['sig'] for k in self.known]
        ev = {'property_id': self.prop, 'tier': self.tier, 'seed': self.seed, 'level': self.level,
              'coverage': cov, 'assumptions': self.assumptions, 'wall_s': round(time.time() - self.t0, 2),
              'violations': len(seen), 'repo_hash': repo_hash(), 'notes': self.notes, 'exit': rc}
        evdir = os.path.join(ROOT, 'evidence')
        if os.path.realpath(REPO) != '/repo':      # a run against a scratch tree must not overwrite the real evidence
            evdir = os.path.join(ROOT, '.cache', 'evidence-scratch')
            os.makedirs(evdir, exist_ok=True)
        with open(os.path.join(evdir, self.prop + '.json'), 'w') as fh:
            json.dump(ev, fh, indent=1, default=str)
        for b in getattr(self, '_bins', []):
            try:
                os.remove(b)
            except OSError:
                pass
        self.cleanup()
        print('[%s] exit=%d states=%d transitions=%d impl_traces=%d evaluations=%d nontrivial=%d wall=%.1fs' % (
            self.prop, rc, cov['states'], cov['transitions'], cov['traces_validated_against_impl'],
            cov['evaluations'], cov['distinct_nontrivial'], time.time() - self.t0))
        return rc


def parse_coverage(out):
    """Returns {action_name: total_count} from a `-coverage` run (last report wins)."""
    cov = {}
    for m in re.finditer(r'^<(\w+) line \d+, col \d+ to line \d+, col \d+ of module (\w+)>: (\d+):(\d+)', out, re.M):
        cov[m.group(2) + '!' + m.group(1)] = int(m.group(4))
    return cov


def run_check(prop, fn, tier, seed, level='model_checking'):
    c = Check(prop, tier, seed, level)
    try:
        fn(c)
    except Inconclusive as e:
        print('INCONCLUSIVE property=%s: %s' % (prop, e))
        c.notes.append('inconclusive: %s' % str(e)[:500])
        if not c.violations:
            c.drifts.append({'what': 'inconclusive: ' + str(e)[:300]})
        rc = c.finish()
        return rc if rc == 1 else 2
    except Exception:
        import traceback
        traceback.print_exc()
        c.cleanup()
        return 2
    return c.finish()
