SPECIFICATION Spec
CONSTANTS RecheckCloses = TRUE
INVARIANTS DictAtMostOnce DictExactlyOnce DictWire
CHECK_DEADLOCK FALSE
