SPECIFICATION Spec
CONSTANTS
  Clients = {1, 2}
  MaxFails = 2
  MaxOps = 6
  RollbackOnFail = FALSE
VIEW View
INVARIANTS TypeOK C26M
PROPERTIES Delivered
CHECK_DEADLOCK FALSE
