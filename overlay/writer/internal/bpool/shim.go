//go:build verif

package bpool

// Overlay-injected (never committed to /repo): the size-class functions for the /verif harness.

func VerifNextLogBase2(v uint32) uint32            { return nextLogBase2(v) }
func VerifPrevLogBase2(v uint32) uint32            { return prevLogBase2(v) }
func VerifNextLogBase2ByteSlices(v uint32) uint32 { return nextLogBase2ByteSlices(v) }
func VerifPrevLogBase2ByteSlices(v uint32) uint32 { return prevLogBase2ByteSlices(v) }
