------------------------------- MODULE MapSub -------------------------------
(* Map subscription protocol of client_map.go on top of a map broker:
   handleMapSubscribeCommand / handleMapStatePhase (state pages with cursor, the
   frozen first-page offset, the offset filter of later pages, STATE->LIVE on the
   last page), handleMapStreamPhase (stream start capture, stream pages, STREAM->LIVE),
   handleMapLivePhase / handleMapRecoveryJoin (recovery join from a saved position),
   handleMapTransitionToLive (reserve, StartBuffering, addSubscription -> MapBroker.
   Subscribe, MapStreamRead, LockBufferAndReadBuffered + MergePublications, filters,
   commit, reply, StopBuffering; streamless branch), writePublication /
   writePublicationUpdatePosition for map subscriptions, handleSubRefresh (changed
   server tags filter => unsubscribe "state invalidated"), and an abstraction of the
   memory map broker (map_broker_memory.go): state key -> [data id, offset of last
   change], stream (top, retained window), epoch; Publish / Remove / key expiry /
   stream expiry / Clear by an environment thread between ANY two protocol steps.

   The model is the code AS IT IS (Contig = FALSE, DropStale = FALSE) or with the two
   proposed repairs (continuity check of stream reads; stale buffered publications
   dropped in the live transition).  The properties are stated independently of the
   protocol: a REFERENCE CLIENT (cl) follows the protocol, and

     C22   in quiescent states the client's map equals the broker's state restricted to
           the admitted keys, unless the client was explicitly told (unrecoverable
           position / insufficient state / state invalidated / disconnect);
     C22R  a live reply with recovered = TRUE carries every admitted change after the
           client's position up to the reply offset;
     C16M  no delivered entry (state page, stream page, live reply, live push) is
           excluded by the tags filter; a changed server tags filter ends the
           subscription (unsubscribe 2502) before anything else is delivered.

   The code as it is does NOT satisfy C22 (found by TLC, reproduced on the real code by
   harness/mapsub): (1) a stream read that does not continue the client's position is
   accepted when the stream expired or the position is offset 0 (history variable hz
   gets "hole"); (2) streamless maps neither buffer nor re-read what changes while the
   subscription is being established, and Clear is never signalled (hz gets "win" /
   "clear").  C22Coded / C22RCoded are what TLC proves about the code as it is:
   convergence outside those recorded windows.  The *_fixed configurations check the
   full C22 / C22R for stream modes with the repair in the model.

   Thread structure = the natural gates the harness holds on the real code (the
   subscriber goroutine parks inside MapBroker calls of a wrapping broker):
     "sr" after MapBroker.ReadState of the LAST state page,
     "sp" after the stream-position read (ReadStream limit 0) of the last state page,
     "tp" after the stream-position read of the first stream-phase request,
     "g1" inside MapBroker.Subscribe (hub entry exists, buffering started),
     "g3" after MapBroker.ReadStream of the live transition,
     "rp" at the hook verifGate("map:replied") right after the live reply is enqueued (buffer locked, before
          StopBuffering): a positioned delivery made now blocks on pubBufferMu (DeliverBlocked) and proceeds after
          StopBuffering (Unblock).
   From g3 (g1 for streamless maps) to the reply there is no gate: a positioned
   delivery before LockBufferAndReadBuffered is buffered (same as at g3), one after it
   blocks (same as at rp); an offset-0 delivery there is the same as one at g1.   *)
EXTENDS MergeOps, TLC

CONSTANTS
  NK,          \* keys are 1..NK (lexicographic order of the real keys = numeric order)
  MaxOps,      \* environment operations per behaviour
  MaxLag,      \* deliveries in flight between broker and node (1 = what the memory broker can do:
               \* HandlePublication is called under the per-channel publish lock)
  MaxResub,    \* resubscriptions from scratch after an explicit end
  LiveLimit,   \* LiveTransitionMaxPublicationLimit
  Modes,       \* subset of {"eph", "rec", "per"}
  Kinds,       \* subset of {"fresh", "rlive", "rstream"}: full subscribe / recovery join by LIVE / by STREAM phase
  Pages,       \* page sizes
  SSizes,      \* stream sizes
  Filts,       \* subset of {"none", "client", "server"}
  Ops,         \* subset of {"pub", "rem", "exp", "sexp", "clear", "refresh", "poscheck"}
  EpochCheck,  \* TRUE = as coded: the live transition compares the epoch of its stream read with the position's epoch for
               \* every kind of transition; FALSE = only for recoveries (witness: a Clear between the top probe and the
               \* read is then unnoticed, the broker validates Since.Epoch only for an existing channel)
  MaxJumps,    \* out-of-order client moves per subscription attempt (0 = canonical order only)
  Pres,        \* numbers of environment operations allowed before the client starts ({MaxOps} = no restriction;
               \* smaller values make -simulate place more operations inside the protocol)
  N0s,         \* numbers of keys already published when the behaviour starts (keys 1..n0, one publish each)
  Contig,      \* FALSE = stream reads as coded; TRUE = with the continuity check (proposed repair)
  DropStale    \* FALSE = as coded; TRUE = buffered publications at or before the transition's position are dropped
               \* (proposed repair for brokers with a PUB/SUB lag of more than one delivery)

Keys == 1..NK
ErrUnrecoverable == 112
UnsubInsufficient == 2500
UnsubInvalidated  == 2502
DiscInsufficient  == 3010
DiscBadRequest    == 3501

VARIABLES
  state,       \* broker: key -> [id, off]   (id = 0: absent)
  top, win,    \* broker stream: top offset, retained window <<[off, key, id, rem]>>
  epoch,       \* broker epoch (a number; Clear starts a new one)
  exists,      \* the channel exists in the broker (Clear deletes it; any read or publish re-creates it with the new epoch)
  log,         \* history variable: every stream entry ever appended, with its epoch
  wire,        \* FIFO of deliveries handed over by the broker, not yet received by the node
  nops,
  cfg,         \* [mode, kind, filt, sf, ktag, page, ssize]
  pc,          \* server side of the command in flight: "idle", "sr", "sp", "tp", "g1", "g3", "rp"
  hub,         \* hub entry of the connection exists
  buf,         \* pubSubSync buffer
  sub,         \* live subscription of the connection: [st, pos, ep]
  srv,         \* mapSubscribing reservation: [has, off, ep, ssc, ss]
  rd,          \* what the command in flight has read so far
  tr,          \* parameters of the live transition in flight
  cl,          \* the reference client
  resubs, sfnow, refreshed,
  hz,          \* history variable: which unprotected windows of the code as it is the behaviour contains: "win", "clear", "hole"
  out,         \* frames written to the connection (history variable, not in the view)
  step

vars == <<state, top, win, epoch, exists, log, wire, nops, cfg, pc, hub, buf, sub, srv, rd, tr, cl, resubs, sfnow, refreshed, hz, out, step>>

NoE  == [id |-> 0, off |-> 0]
P0   == [off |-> 0, ep |-> 0]
NoSrv == [has |-> FALSE, off |-> 0, ep |-> 0, ssc |-> FALSE, ss |-> 0]
NoRd == [pubs |-> <<>>, eff |-> P0, pos |-> P0, cur |-> 0, err |-> FALSE, orig |-> FALSE]
NoTr == [since |-> P0, spubs |-> <<>>, sl |-> FALSE, isrec |-> FALSE, recov |-> FALSE, csr |-> FALSE]
NoSub == [st |-> "none", pos |-> 0, ep |-> 0, csr |-> FALSE]
\* full: the client has seen every state page (or held the state before); jumps: out-of-order moves made so far
FreshCl == [ph |-> "state", map |-> [k \in Keys |-> 0], off |-> 0, ep |-> 0, cur |-> 0, first |-> TRUE, rec |-> FALSE,
            full |-> FALSE, jumps |-> 0]

HasStream == cfg.mode # "eph"
\* the tags of a key are fixed per behaviour (a publication of key k carries tag ktag[k]); the filter keeps "keep"
Filtered(k) == cfg.filt /\ (cfg.sf => sfnow = "keep") /\ cfg.ktag[k] = "drop"

Trim(w) == IF Len(w) > cfg.ssize THEN SubSeq(w, Len(w) - cfg.ssize + 1, Len(w)) ELSE w

KTags(f) == IF f = "none" THEN {[k \in Keys |-> "keep"]}
            ELSE {t \in [Keys -> {"keep", "drop"}] : \E k \in Keys : t[k] = "drop"}
Cfgs ==
  {[mode |-> m, kind |-> kd, filt |-> f # "none", sf |-> f = "server", ktag |-> t, page |-> p, ssize |-> s, pre |-> n, n0 |-> i] :
      m \in Modes, kd \in Kinds, f \in Filts, t \in [Keys -> {"keep", "drop"}], p \in Pages, s \in SSizes, n \in Pres, i \in N0s}

Init ==
  /\ cfg \in {c \in Cfgs : /\ c.ktag \in KTags(IF c.filt THEN "x" ELSE "none")
                            /\ (c.mode = "eph" => c.kind = "fresh" /\ c.ssize = CHOOSE s \in SSizes : TRUE)}
  \* initial content: keys 1..n0 were published once each (operations 1..n0), delivered to nobody
  /\ LET n == cfg.n0
         es == [i \in 1..n |-> [off |-> i, key |-> i, id |-> i, rem |-> FALSE]]
     IN /\ state = [k \in Keys |-> IF k <= n THEN [id |-> k, off |-> IF HasStream THEN k ELSE 0] ELSE NoE]
        /\ top = IF HasStream THEN n ELSE 0
        /\ win = IF HasStream THEN Trim(es) ELSE <<>>
        /\ log = IF HasStream THEN [i \in 1..n |-> [ep |-> 1, off |-> i, key |-> i]] ELSE <<>>
        /\ nops = n
  /\ epoch = 1 /\ exists = TRUE /\ wire = <<>>
  /\ pc = "idle" /\ hub = FALSE /\ buf = <<>> /\ sub = NoSub /\ srv = NoSrv /\ rd = NoRd /\ tr = NoTr
  /\ cl = IF cfg.kind = "fresh" THEN FreshCl ELSE [FreshCl EXCEPT !.ph = "init"]
  /\ resubs = 0 /\ sfnow = "keep" /\ refreshed = FALSE /\ hz = {}
  /\ out = <<>>
  /\ step = [act |-> "Init"]

---------------------------------------------------------------------------
(* the reference client: what a protocol-following SDK does with each frame *)
RECURSIVE ApplyEnts(_, _)
ApplyEnts(m, es) == IF es = <<>> THEN m ELSE ApplyEnts([m EXCEPT ![Head(es).key] = Head(es).id], Tail(es))

RECURSIVE ApplyPubs(_, _, _)
\* publications at or before the saved position are skipped; Removed deletes the key
ApplyPubs(m, ps, pos) ==
  IF ps = <<>> THEN m
  ELSE LET p == Head(ps) IN
       IF p.off = 0 \/ p.off > pos
         THEN ApplyPubs([m EXCEPT ![p.key] = IF p.rem THEN 0 ELSE p.id], Tail(ps), pos)
         ELSE ApplyPubs(m, Tail(ps), pos)

Client(c, f) ==
  CASE f.t = "state" ->
         LET c1 == [c EXCEPT !.map = ApplyEnts(c.map, f.ents),
                             !.off = IF c.first THEN f.off ELSE c.off,
                             !.ep  = IF c.first THEN f.ep ELSE c.ep,
                             !.first = FALSE]
         IN IF f.cur # 0 THEN [c1 EXCEPT !.cur = f.cur] ELSE [c1 EXCEPT !.cur = 0, !.ph = "stream", !.full = TRUE]
    [] f.t = "stream" -> [c EXCEPT !.map = ApplyPubs(c.map, f.pubs, c.off), !.off = f.off]
    [] f.t = "live" -> [c EXCEPT !.map = ApplyPubs(ApplyEnts(c.map, f.ents), f.pubs, c.off),
                                 !.off = f.off, !.ep = f.ep, !.ph = "live", !.first = FALSE, !.cur = 0,
                                 !.full = c.full \/ c.ph = "state"]     \* a STATE request answered LIVE was the last page
    [] f.t = "pub" -> IF c.ph # "live" THEN c      \* a push outside an established subscription is ignored
                      ELSE [c EXCEPT !.map = ApplyPubs(c.map, <<f>>, c.off), !.off = IF f.off > c.off THEN f.off ELSE c.off]
    [] f.t \in {"err", "unsub"} -> [c EXCEPT !.ph = "told"]
    [] f.t = "disc" -> [c EXCEPT !.ph = "gone"]
    [] OTHER -> c

\* one frame is written and the client reacts to it
Emit(f) == out' = Append(out, f) /\ cl' = Client(cl, f)

---------------------------------------------------------------------------
(* broker side (environment thread) *)
\* streamless map: the subscription is being established (from the first state read to the live reply)
InWindow == ~HasStream /\ cl.ph = "state" /\ (~cl.first \/ pc # "idle")
Started == IF cfg.kind = "fresh" THEN ~(cl.ph = "state" /\ cl.first /\ pc = "idle" /\ resubs = 0) ELSE cl.ph # "init"
CanOp(o) == o \in Ops /\ nops < cfg.n0 + MaxOps /\ Len(wire) < MaxLag /\ (Started \/ nops < cfg.n0 + cfg.pre)

Change(k, removed) ==
  LET id == nops + 1
      off == IF HasStream THEN top + 1 ELSE 0
      e == [off |-> off, key |-> k, id |-> id, rem |-> removed]
  IN /\ nops' = id
     /\ state' = [state EXCEPT ![k] = IF removed THEN NoE ELSE [id |-> id, off |-> off]]
     /\ IF HasStream THEN /\ top' = off /\ win' = Trim(Append(win, e))
                          /\ log' = Append(log, [ep |-> epoch, off |-> off, key |-> k])
                     ELSE UNCHANGED <<top, win, log>>
     /\ wire' = Append(wire, [id |-> id, key |-> k, off |-> off, ep |-> epoch, rem |-> removed, blk |-> FALSE])
     /\ exists' = TRUE /\ UNCHANGED <<epoch, cfg, pc, hub, buf, sub, srv, rd, tr, cl, resubs, sfnow, refreshed, hz, out>>

Publish(k) == CanOp("pub") /\ Change(k, FALSE) /\ step' = [act |-> "Publish", key |-> k, id |-> nops + 1]
RemoveKey(k) == CanOp("rem") /\ state[k].id # 0 /\ Change(k, TRUE) /\ step' = [act |-> "Remove", key |-> k, id |-> nops + 1]
\* key TTL sweep: same effect as Remove (removal entry in the stream for stream modes, removal publication)
KeyExpiry(k) == /\ CanOp("exp") /\ cfg.mode \in {"eph", "rec"} /\ state[k].id # 0 /\ Change(k, TRUE)
                /\ step' = [act |-> "KeyExpiry", key |-> k, id |-> nops + 1]
\* stream TTL: the retained window is cleared, top and epoch stay
StreamExpiry ==
  /\ CanOp("sexp") /\ HasStream /\ win # <<>>
  /\ win' = <<>> /\ nops' = nops + 1
  /\ UNCHANGED <<state, top, epoch, exists, log, wire, cfg, pc, hub, buf, sub, srv, rd, tr, cl, resubs, sfnow, refreshed, hz, out>>
  /\ step' = [act |-> "StreamExpiry"]
\* Clear (the same for a channel evicted after MetaTTL): the channel is deleted; the next access creates a stream with a new
\* epoch (`epoch` is already the number that access will see, `exists` tells whether it happened)
Clear ==
  /\ CanOp("clear")
  /\ state' = [k \in Keys |-> NoE] /\ top' = 0 /\ win' = <<>> /\ epoch' = epoch + 1 /\ exists' = FALSE /\ nops' = nops + 1
  /\ hz' = IF ~HasStream /\ (cl.ph = "live" \/ InWindow) THEN hz \cup {"clear"} ELSE hz
  /\ UNCHANGED <<log, wire, cfg, pc, hub, buf, sub, srv, rd, tr, cl, resubs, sfnow, refreshed, out>>
  /\ step' = [act |-> "Clear"]

---------------------------------------------------------------------------
(* node side: the oldest delivery enters Node.HandlePublication *)
Buffering == pc \in {"g1", "g3"}
PubFrame(d) == [t |-> "pub", key |-> d.key, id |-> d.id, rem |-> d.rem, off |-> d.off]
\* handleInsufficientState goroutine (client-side subscription): unsubscribe + unsubscribe push; runs at once
Insufficient == /\ sub' = [sub EXCEPT !.st = "ended"] /\ hub' = FALSE
                /\ Emit([t |-> "unsub", code |-> UnsubInsufficient])
                /\ UNCHANGED buf

Receive(d) ==
  IF ~hub THEN UNCHANGED <<buf, sub, hub, out, cl>>
  ELSE IF d.off = 0 THEN
       \* offset-0 publication (streamless map): written WITHOUT consulting the subscription state (as coded)
       /\ UNCHANGED <<buf, sub, hub>>
       /\ IF Filtered(d.key) THEN UNCHANGED <<out, cl>> ELSE Emit(PubFrame(d))
  ELSE IF Buffering THEN
       /\ buf' = Append(buf, [off |-> d.off, f |-> Filtered(d.key), key |-> d.key, id |-> d.id, rem |-> d.rem])
       /\ UNCHANGED <<sub, hub, out, cl>>
  ELSE IF sub.st # "live" THEN UNCHANGED <<buf, sub, hub, out, cl>>
  ELSE IF d.ep # sub.ep THEN Insufficient
  ELSE IF d.off > sub.pos + 1 THEN Insufficient
  ELSE IF d.off < sub.pos + 1 THEN UNCHANGED <<buf, sub, hub, out, cl>>
  ELSE /\ sub' = [sub EXCEPT !.pos = d.off]
       /\ UNCHANGED <<buf, hub>>
       /\ IF Filtered(d.key) THEN UNCHANGED <<out, cl>> ELSE Emit(PubFrame(d))

\* pc = "rp": the live reply is enqueued, the transition still holds pubBufferMu (LockBufferAndReadBuffered .. StopBuffering):
\* a positioned delivery blocks in SyncPublication on that lock
LockedOut(d) == pc = "rp" /\ d.off > 0

Deliver ==
  /\ wire # <<>> /\ ~Head(wire).blk /\ ~LockedOut(Head(wire))
  /\ wire' = Tail(wire)
  /\ Receive(Head(wire))
  /\ hz' = IF InWindow THEN hz \cup {"win"} ELSE hz
  /\ UNCHANGED <<state, top, win, epoch, exists, log, nops, cfg, pc, srv, rd, tr, resubs, sfnow, refreshed>>
  /\ step' = [act |-> "Deliver", id |-> Head(wire).id]

\* the delivery enters the node while the buffer is locked: its goroutine parks on pubBufferMu (at most one at a time here)
DeliverBlocked ==
  /\ wire # <<>> /\ ~Head(wire).blk /\ LockedOut(Head(wire))
  /\ wire' = <<[Head(wire) EXCEPT !.blk = TRUE]>> \o Tail(wire)
  /\ UNCHANGED <<state, top, win, epoch, exists, log, nops, cfg, pc, hub, buf, sub, srv, rd, tr, cl, resubs, sfnow, refreshed, hz, out>>
  /\ step' = [act |-> "DeliverBlocked", id |-> Head(wire).id]

\* StopBuffering released the lock: the parked delivery re-checks inSubscribe (now 0) and is written to the connection
Unblocking == pc = "idle" /\ wire # <<>> /\ Head(wire).blk
Unblock ==
  /\ Unblocking
  /\ wire' = Tail(wire)
  /\ Receive(Head(wire))
  /\ UNCHANGED <<state, top, win, epoch, exists, log, nops, cfg, pc, srv, rd, tr, resubs, sfnow, refreshed, hz>>
  /\ step' = [act |-> "Unblock", id |-> Head(wire).id]

---------------------------------------------------------------------------
(* broker reads *)
\* ReadState page: keys after the cursor in key order, at most `limit`; cursor = last key of the page if more remain
KeysAfter(c) == SetToSortSeq({k \in Keys : state[k].id # 0 /\ k > c}, <)
StatePage(c, limit) ==
  LET ks == KeysAfter(c)
      n  == IF Len(ks) > limit THEN limit ELSE Len(ks)
  IN [ents |-> [i \in 1..n |-> [key |-> ks[i], id |-> state[ks[i]].id, off |-> state[ks[i]].off]],
      next |-> IF Len(ks) > limit THEN ks[limit] ELSE 0]

\* memstream.Get(since+1, limit): from the entry with that offset, else from the front of the window
GetFrom(o, limit) ==
  LET i0 == IF \E i \in 1..Len(win) : win[i].off = o THEN CHOOSE i \in 1..Len(win) : win[i].off = o ELSE 1
      n  == Len(win) - i0 + 1
      m  == IF limit >= 0 /\ n > limit THEN limit ELSE n
  IN IF win = <<>> THEN <<>> ELSE SubSeq(win, i0, i0 + m - 1)

\* Node.MapStreamRead(since, limit) on the memory broker: [err, pubs, pos]
StreamRead(since, limit) ==
  \* a channel that does not exist (after Clear / meta eviction) is created by the read: fresh epoch, offset 0, NO error -
  \* the broker's own Since.Epoch validation runs only for an existing channel (mapHub.getStream)
  IF ~exists THEN [err |-> FALSE, pubs |-> <<>>, pos |-> [off |-> 0, ep |-> epoch], hole |-> FALSE]
  ELSE IF since.ep # epoch THEN [err |-> TRUE, pubs |-> <<>>, pos |-> P0, hole |-> FALSE]
  ELSE IF top = since.off THEN [err |-> FALSE, pubs |-> <<>>, pos |-> [off |-> top, ep |-> epoch], hole |-> FALSE]
  ELSE LET ps == IF since.off >= top THEN <<>> ELSE GetFrom(since.off + 1, limit)
           trimmed == since.off > 0 /\ ps # <<>> /\ ps[1].off > since.off + 1        \* as coded
           hole == \/ (ps # <<>> /\ ps[1].off > since.off + 1)                      \* proposed continuity check
                   \/ (ps = <<>> /\ top > since.off)
       IN IF trimmed \/ (Contig /\ hole) THEN [err |-> TRUE, pubs |-> <<>>, pos |-> P0, hole |-> FALSE]
          ELSE [err |-> FALSE, pubs |-> ps, pos |-> [off |-> top, ep |-> epoch], hole |-> hole]

Visible(es) == SelectSeq(es, LAMBDA e : ~Filtered(e.key))
ErrFrame == [t |-> "err", code |-> ErrUnrecoverable]

---------------------------------------------------------------------------
(* subscriber commands; the request is a function of the client's state *)

\* handleMapTransitionToLive up to MapBroker.Subscribe: reservation check/installation, StartBuffering, addSubscription
BeginTransition(t) ==
  /\ tr' = t /\ hub' = TRUE /\ buf' = <<>> /\ pc' = "g1"
  /\ srv' = IF srv.has THEN srv ELSE [NoSrv EXCEPT !.has = TRUE, !.ep = t.since.ep]

\* STATE phase command: reservation on the first page, ReadState, frozen offset, offset filter, tags filters
StateCmd ==
  /\ pc = "idle" /\ cl.ph = "state"
  /\ LET first == cl.first
         pg == StatePage(cl.cur, cfg.page)
         pos == [off |-> top, ep |-> epoch]
         srv1 == IF first THEN [NoSrv EXCEPT !.has = TRUE, !.off = top, !.ep = epoch] ELSE srv
         ents0 == IF first THEN pg.ents ELSE SelectSeq(pg.ents, LAMBDA e : e.off <= cl.off)
         ents == Visible(ents0)
     IN IF ~first /\ cl.ep # epoch
          THEN \* Revision epoch changed: unrecoverable position, reservation dropped
               /\ srv' = NoSrv /\ Emit(ErrFrame) /\ UNCHANGED <<pc, rd>>
          ELSE IF pg.next # 0
          THEN /\ srv' = srv1 /\ UNCHANGED <<pc, rd>>
               /\ Emit([t |-> "state", ents |-> ents, cur |-> pg.next, off |-> IF first THEN top ELSE srv1.off, ep |-> epoch])
          ELSE \* last page: parked after ReadState
               /\ srv' = srv1 /\ pc' = "sr"
               /\ rd' = [NoRd EXCEPT !.pubs = ents, !.pos = pos, !.orig = first,
                                     !.eff = IF first THEN pos ELSE [off |-> srv1.off, ep |-> srv1.ep]]
               /\ UNCHANGED <<out, cl>>
  /\ exists' = TRUE      \* ReadState (re-)creates the channel
  /\ UNCHANGED <<state, top, win, epoch, log, wire, nops, cfg, hub, buf, sub, tr, resubs, sfnow, refreshed, hz>>
  /\ step' = [act |-> "StateCmd"]

\* csr: the command was authorized by OnSubscribe itself (a continuation command rebuilds the reply from the stored
\* options and loses SubscribeReply.ClientSideRefresh, as coded)
StateToLive == [since |-> rd.eff, spubs |-> rd.pubs, sl |-> TRUE, isrec |-> FALSE, recov |-> FALSE, csr |-> rd.orig]

\* last page, continued: streamless => go live; positioned => read the stream position
StateLast ==
  /\ pc = "sr"
  /\ IF ~HasStream
       THEN BeginTransition(StateToLive) /\ UNCHANGED <<rd, exists>>
       ELSE pc' = "sp" /\ rd' = [rd EXCEPT !.cur = top] /\ exists' = TRUE /\ UNCHANGED <<tr, hub, buf, srv>>
  /\ UNCHANGED <<state, top, win, epoch, log, wire, nops, cfg, sub, cl, resubs, sfnow, refreshed, hz, out>>
  /\ step' = [act |-> "StateLast"]

\* positioned last page: stream within one page of the (frozen) position => go live, else plain STATE reply
StateDecide ==
  /\ pc = "sp"
  /\ IF rd.eff.off + cfg.page >= rd.cur
       THEN BeginTransition(StateToLive) /\ UNCHANGED <<out, cl, rd>>
       ELSE /\ pc' = "idle" /\ rd' = NoRd /\ UNCHANGED <<tr, hub, buf, srv>>
            /\ Emit([t |-> "state", ents |-> rd.pubs, cur |-> 0,
                     off |-> IF cl.first THEN rd.pos.off ELSE srv.off, ep |-> rd.pos.ep])
  /\ UNCHANGED <<state, top, win, epoch, exists, log, wire, nops, cfg, sub, resubs, sfnow, refreshed, hz>>
  /\ step' = [act |-> "StateDecide"]

StreamToLive(orig) == [since |-> [off |-> cl.off, ep |-> cl.ep], spubs |-> <<>>, sl |-> FALSE, isrec |-> TRUE, recov |-> cl.rec, csr |-> orig]

\* STREAM phase, after the stream start is known: close enough => go live, else one stream page
StreamPageOrLive(ss, orig) ==
  IF cl.off + cfg.page >= ss
    THEN BeginTransition(StreamToLive(orig)) /\ UNCHANGED <<out, cl, hz, exists>>
    ELSE LET r == StreamRead([off |-> cl.off, ep |-> cl.ep], cfg.page) IN
         /\ pc' = "idle" /\ exists' = TRUE /\ UNCHANGED <<tr, hub, buf>>
         /\ hz' = IF r.hole THEN hz \cup {"hole"} ELSE hz
         /\ IF r.err THEN srv' = NoSrv /\ Emit(ErrFrame)
            ELSE /\ UNCHANGED srv
                 /\ Emit([t |-> "stream", pubs |-> Visible(r.pubs),
                          off |-> IF r.pubs = <<>> THEN cl.off ELSE r.pubs[Len(r.pubs)].off])

\* STREAM phase command (a recovering client creates the reservation here)
StreamCmd ==
  /\ pc = "idle" /\ cl.ph = "stream"
  /\ (srv.has \/ (cl.rec /\ ~srv.ssc))
  /\ LET srv1 == IF srv.has THEN srv ELSE [NoSrv EXCEPT !.has = TRUE, !.ep = cl.ep] IN
     IF ~srv1.ssc
       THEN \* first stream request: stream position read, parked after it
            /\ srv' = [srv1 EXCEPT !.ssc = TRUE, !.ss = top]
            /\ rd' = [NoRd EXCEPT !.orig = ~srv.has]
            /\ pc' = "tp" /\ exists' = TRUE /\ UNCHANGED <<tr, hub, buf, out, cl, hz>>
       ELSE StreamPageOrLive(srv1.ss, FALSE) /\ UNCHANGED rd
  /\ UNCHANGED <<state, top, win, epoch, log, wire, nops, cfg, sub, resubs, sfnow, refreshed>>
  /\ step' = [act |-> "StreamCmd"]

StreamDecide ==
  /\ pc = "tp"
  /\ StreamPageOrLive(srv.ss, rd.orig)
  /\ UNCHANGED <<state, top, win, epoch, log, wire, nops, cfg, sub, rd, resubs, sfnow, refreshed>>
  /\ step' = [act |-> "StreamDecide"]

\* LIVE phase command with a saved position: direct recovery join
JoinCmd ==
  /\ pc = "idle" /\ cl.ph = "join"
  \* the LIVE request carries recover = true; with a reservation the command is a continuation (no OnSubscribe)
  /\ BeginTransition([StreamToLive(~srv.has) EXCEPT !.recov = TRUE])
  /\ UNCHANGED <<state, top, win, epoch, exists, log, wire, nops, cfg, sub, rd, cl, resubs, sfnow, refreshed, hz, out>>
  /\ step' = [act |-> "JoinCmd"]

\* live transition: MapStreamRead since the position (limit + 1 entries)
TransRead ==
  /\ pc = "g1" /\ HasStream
  /\ LET r == StreamRead(tr.since, LiveLimit + 1)
     IN /\ rd' = [rd EXCEPT !.err = r.err, !.pubs = r.pubs, !.pos = r.pos]
        /\ hz' = IF r.hole THEN hz \cup {"hole"} ELSE hz
  /\ pc' = "g3" /\ exists' = TRUE
  /\ UNCHANGED <<state, top, win, epoch, log, wire, nops, cfg, hub, buf, sub, srv, tr, cl, resubs, sfnow, refreshed, out>>
  /\ step' = [act |-> "TransRead"]

Rollback == hub' = FALSE /\ buf' = <<>> /\ srv' = NoSrv /\ pc' = "idle" /\ UNCHANGED sub

Max2(a, b) == IF a > b THEN a ELSE b
ProtoPubs(l) == [i \in 1..Len(l) |-> [key |-> l[i].key, id |-> l[i].id, rem |-> l[i].rem, off |-> l[i].off]]
ProtoEnts(l) == l

\* the atomic tail: checks, lock buffer, merge, filters, commit, reply, stop buffering
TransFinish ==
  /\ \/ pc = "g3"
     \/ pc = "g1" /\ ~HasStream
  /\ IF HasStream
       THEN IF rd.err \/ ((tr.isrec \/ EpochCheck) /\ tr.since.ep # rd.pos.ep) \/ Len(rd.pubs) > LiveLimit
              THEN Rollback /\ Emit(ErrFrame)
              ELSE LET rec == [i \in 1..Len(rd.pubs) |-> [off |-> rd.pubs[i].off, f |-> FALSE, key |-> rd.pubs[i].key,
                                                          id |-> rd.pubs[i].id, rem |-> rd.pubs[i].rem]]
                       bufk == IF DropStale THEN SelectSeq(buf, LAMBDA x : x.off > tr.since.off) ELSE buf
                       m == MergeImpl(rec, bufk)
                       last == IF m.list = <<>> THEN 0 ELSE m.list[Len(m.list)].off
                       latest == Max2(Max2(rd.pos.off, m.max), last)
                   IN IF ~m.ok
                        THEN Rollback /\ Emit([t |-> "disc", code |-> DiscInsufficient])
                        ELSE /\ sub' = [st |-> "live", pos |-> latest, ep |-> rd.pos.ep, csr |-> tr.csr]
                             /\ srv' = NoSrv /\ buf' = <<>> /\ pc' = "rp" /\ UNCHANGED hub
                             /\ Emit([t |-> "live", ents |-> ProtoEnts(tr.spubs), pubs |-> ProtoPubs(Visible(m.list)),
                                      off |-> latest, ep |-> rd.pos.ep, rec |-> tr.isrec /\ tr.recov])
       ELSE \* streamless: the buffer is read but offset-0 publications never enter it (as coded)
            /\ sub' = [st |-> "live", pos |-> 0, ep |-> tr.since.ep, csr |-> tr.csr]
            /\ srv' = NoSrv /\ buf' = <<>> /\ pc' = "rp" /\ UNCHANGED hub
            /\ Emit([t |-> "live", ents |-> ProtoEnts(tr.spubs), pubs |-> ProtoPubs(Visible(buf)),
                     off |-> 0, ep |-> tr.since.ep, rec |-> tr.isrec /\ tr.recov])
  /\ rd' = NoRd /\ tr' = NoTr
  /\ UNCHANGED <<state, top, win, epoch, exists, log, wire, nops, cfg, resubs, sfnow, refreshed, hz>>
  /\ step' = [act |-> "TransFinish"]

\* the rest of the tail: StopBuffering (the subscriber was parked at the hook "map:replied" right after the reply)
TransStop ==
  /\ pc = "rp"
  /\ pc' = "idle"
  /\ UNCHANGED <<state, top, win, epoch, exists, log, wire, nops, cfg, hub, buf, sub, srv, rd, tr, cl, resubs, sfnow, refreshed, hz, out>>
  /\ step' = [act |-> "TransStop"]

---------------------------------------------------------------------------
(* client decisions outside the command/reply cycle *)

\* a client that was subscribed earlier, is exactly up to date at this moment and disconnects: it keeps map and position
Snapshot ==
  /\ cl.ph = "init" /\ pc = "idle" /\ wire = <<>> /\ HasStream
  /\ cl' = [cl EXCEPT !.ph = IF cfg.kind = "rlive" THEN "join" ELSE "stream",
                      !.map = [k \in Keys |-> IF Filtered(k) THEN 0 ELSE state[k].id],
                      !.off = top, !.ep = epoch, !.first = FALSE, !.rec = TRUE, !.full = TRUE]
  /\ exists' = TRUE
  /\ UNCHANGED <<state, top, win, epoch, log, wire, nops, cfg, pc, hub, buf, sub, srv, rd, tr, resubs, sfnow, refreshed, hz, out>>
  /\ step' = [act |-> "Snapshot"]

\* The code accepts, for one reservation (mapSubscribing entry), any order of continuation commands: a STREAM or LIVE
\* request while state pages are still pending, a LIVE request ("paginated join", recover) from any page's position, a
\* STATE page (cursor) after STREAM pages.  The client may leave the canonical order STATE* -> STREAM* -> LIVE:
Jump(to) ==
  /\ pc = "idle" /\ srv.has /\ ~cl.first /\ cl.jumps < MaxJumps
  /\ \/ to = "stream" /\ cl.ph = "state" /\ HasStream
     \/ to = "join" /\ cl.ph \in {"state", "stream"}
     \/ to = "state" /\ cl.ph = "stream" /\ cl.cur # 0
  /\ cl' = [cl EXCEPT !.ph = to, !.jumps = @ + 1]
  /\ UNCHANGED <<state, top, win, epoch, exists, log, wire, nops, cfg, pc, hub, buf, sub, srv, rd, tr, resubs, sfnow, refreshed, hz, out>>
  /\ step' = [act |-> "Jump", to |-> to]

\* told unrecoverable / insufficient / invalidated: drop everything and subscribe from scratch
Resub ==
  /\ cl.ph = "told" /\ resubs < MaxResub /\ pc = "idle"
  /\ cl' = FreshCl /\ resubs' = resubs + 1
  /\ UNCHANGED <<state, top, win, epoch, exists, log, wire, nops, cfg, pc, hub, buf, sub, srv, rd, tr, sfnow, refreshed, hz, out>>
  /\ step' = [act |-> "Resub"]

\* sub refresh whose callback returns a server tags filter: a changed one invalidates the map subscription
SubRefresh(changed) ==
  /\ "refresh" \in Ops /\ cfg.sf /\ ~refreshed /\ sub.st = "live" /\ pc = "idle" /\ cl.ph = "live"
  /\ refreshed' = TRUE
  /\ IF ~sub.csr
       THEN \* flagClientSideRefresh missing: "server-side sub refresh expected" => disconnect bad request (as coded)
            /\ sub' = [sub EXCEPT !.st = "ended"] /\ hub' = FALSE /\ UNCHANGED sfnow
            /\ Emit([t |-> "disc", code |-> DiscBadRequest])
       ELSE IF changed
       THEN \* the command is answered, then the subscription is ended
            /\ sfnow' = "all" /\ sub' = [sub EXCEPT !.st = "ended"] /\ hub' = FALSE
            /\ out' = out \o <<[t |-> "refok"], [t |-> "unsub", code |-> UnsubInvalidated]>>
            /\ cl' = Client(cl, [t |-> "unsub", code |-> UnsubInvalidated])
       ELSE /\ UNCHANGED <<sfnow, sub, hub>> /\ Emit([t |-> "refok"])
  /\ UNCHANGED <<state, top, win, epoch, exists, log, wire, nops, cfg, pc, buf, srv, rd, tr, resubs, hz>>
  /\ step' = [act |-> "SubRefresh", changed |-> changed]

\* periodic position check of the connection (Client.updatePresence -> checkPosition): the position of a live positioned
\* subscription is compared with the broker's stream position; a difference (epoch, or offset - also while a delivery
\* is still in flight) ends the subscription with insufficient state.  A valid position changes nothing (not an action).
PosCheck ==
  /\ "poscheck" \in Ops /\ HasStream /\ sub.st = "live" /\ pc = "idle"
  /\ ~(sub.ep = epoch /\ sub.pos = top)
  /\ Insufficient
  /\ exists' = TRUE      \* the check reads the stream position
  /\ UNCHANGED <<state, top, win, epoch, log, wire, nops, cfg, pc, srv, rd, tr, resubs, sfnow, refreshed, hz>>
  /\ step' = [act |-> "PosCheck"]

Next ==
  IF Unblocking THEN Unblock ELSE     \* the released delivery runs before anything else
  \/ \E k \in Keys : Publish(k) \/ RemoveKey(k) \/ KeyExpiry(k)
  \/ StreamExpiry \/ Clear
  \/ Deliver \/ DeliverBlocked \/ PosCheck
  \/ StateCmd \/ StateLast \/ StateDecide \/ StreamCmd \/ StreamDecide \/ JoinCmd \/ TransRead \/ TransFinish \/ TransStop
  \/ Snapshot \/ Resub
  \/ \E t \in {"stream", "join", "state"} : Jump(t)
  \/ \E c \in BOOLEAN : SubRefresh(c)

Spec == Init /\ [][Next]_vars

---------------------------------------------------------------------------
(* properties *)

Admitted(k) == IF Filtered(k) THEN 0 ELSE state[k].id
Converged == \A k \in Keys : cl.map[k] = Admitted(k)

\* the protocol has finished and nothing is in flight
Quiescent == /\ pc = "idle" /\ wire = <<>>
             /\ \/ cl.ph \in {"live", "gone"}
                \/ cl.ph = "told" /\ resubs = MaxResub

\* a positioned subscription of an earlier epoch (Clear) is ended by the periodic position check (action PosCheck): such
\* a state is not final.  Within one epoch nothing may be missing: the client holds the state and the server-side position
\* is the stream top.
PosValid == HasStream => sub.ep = epoch

\* (a client that went live without having seen every state page - a jump to LIVE or STREAM while pages were pending,
\* which the code accepts - does not follow the protocol: only the filter and recovery monitors apply to it)
C22 == (Quiescent /\ cl.ph = "live" /\ PosValid /\ cl.full) => (Converged /\ (HasStream => sub.pos = top))
\* what TLC proves about the code AS IT IS: convergence outside the unprotected windows recorded in hz
C22Coded == C22 \/ hz # {}

\* C22R: recovered = TRUE carries every admitted change after the requested position up to the reply offset
Recovered(f, since) ==
  /\ since.ep = f.ep
  /\ \A i \in 1..Len(log) :
       (log[i].ep = f.ep /\ log[i].off > since.off /\ log[i].off <= f.off /\ ~Filtered(log[i].key))
          => \E j \in 1..Len(f.pubs) : f.pubs[j].off = log[i].off
NewFrames == {out'[i] : i \in (Len(out) + 1)..Len(out')}
C22R == [][\A f \in NewFrames : (f.t = "live" /\ f.rec) => Recovered(f, tr.since)]_vars
C22RCoded == [][\A f \in NewFrames : (f.t = "live" /\ f.rec /\ "hole" \notin hz) => Recovered(f, tr.since)]_vars

\* C16M: nothing excluded by the filter is delivered on any map path
FrameVisible(f) ==
  CASE f.t = "state"  -> \A i \in 1..Len(f.ents) : ~Filtered(f.ents[i].key)
    [] f.t = "stream" -> \A i \in 1..Len(f.pubs) : ~Filtered(f.pubs[i].key)
    [] f.t = "live"   -> (\A i \in 1..Len(f.ents) : ~Filtered(f.ents[i].key)) /\ (\A i \in 1..Len(f.pubs) : ~Filtered(f.pubs[i].key))
    [] f.t = "pub"    -> ~Filtered(f.key)
    [] OTHER -> TRUE
C16M == [][\A f \in NewFrames : FrameVisible(f)]_vars

\* the server-side position never runs behind what it delivered
TypeOK == /\ nops <= cfg.n0 + MaxOps /\ Len(wire) <= MaxLag /\ resubs <= MaxResub
          /\ (sub.st = "live" => hub)
          /\ (pc \in {"g1", "g3"} => hub /\ srv.has)

View == <<state, top, win, epoch, exists, log, wire, nops, cfg, pc, hub, buf, sub, srv, rd, tr, cl, resubs, sfnow, refreshed, hz>>
=============================================================================
