SPECIFICATION Spec
CONSTANTS
  ClosedCheck = TRUE
  PresenceRecheck = TRUE
INVARIANTS C05_KeyedSub
CHECK_DEADLOCK FALSE
