SPECIFICATION Spec
CONSTANTS
  Subs = {"p1", "p2"}
  OptSets <- OptShared
  MaxPub = 3
  MaxFaults = 1
  MaxTicks = 1
  MaxResub = 1
  QMax = 1
  Timed = FALSE
  CheckDelay = 40
  Advances = {}
  MaxNow = 0
  Urgent = FALSE
VIEW View
INVARIANTS TypeOK InOrder GapFree Bracketed NoSilentLoss
PROPERTIES TickEnds TickExact
CHECK_DEADLOCK FALSE
