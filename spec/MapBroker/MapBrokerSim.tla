---------------------------- MODULE MapBrokerSim ----------------------------
(* Behaviour generator for replay (TLC -simulate): the same actions as MapBroker.
   TLC's simulator picks uniformly among the successor STATES, so every operation
   class contributes a fixed number of distinct successors (slot variable `w`)
   and the arguments of a slot are derived from a hash of the slot and the
   current state (RandomElement is useless: TLC re-seeds it per behaviour).
   Besides the free draws there are "aimed" slots: a CAS that names the key's
   current position, and publishes for which at least two of the three checks
   (version, key mode, CAS) would each suppress -- the cases on which the
   canonical check order is observable.

   sim.cfg      Deterministic = TRUE, Manual = FALSE: replayed with the broker's
                own sweeper goroutines, one tick = one second.
   manual.cfg   Manual = TRUE: the harness calls expireKeysIteration itself and
                holds a gate between phase 1 and phase 2; operations are placed
                between the phases, phase 2 then runs to completion (one sweep
                call processes all its candidates). *)
EXTENDS MapBroker

VARIABLE w
simvars == <<vars, w>>

Q(S) == SetToSeq(S)
BoolQ == <<FALSE, TRUE>>

Card(f) == Cardinality(DOMAIN f)
H(s) == (s * 7919 + nops * 10473 + npub * 12997 + now * 15487 + top * 32443 + Len(win) * 49999
         + Card(st) * 611953 + epc * 86243 + Len(pend) * 21701) % 1000003
Sel(q, h, d) == q[((h \div d) % Len(q)) + 1]
Pick(S, h) == Sel(Q(S), h, 1)

PubArgs == {a \in [k : Keys, km : KeyModes, cas : Cases, v : Versions, ve : VerEpochs, ik : IdemKeys, ittl : IdemTTLs, sc : Scores] :
              /\ (a.v = 0 => a.ve = "") /\ (a.ik = "" => a.ittl = AnIdemTTL) /\ (~cf.ord => a.sc = AScore)
              /\ (IsEph => (~a.cas.has /\ a.v = 0) \/ a.km = "")}      \* few of the rejected-in-ephemeral calls
DoPublish(a) == Publish(a.k, a.km, a.cas, a.v, a.ve, a.ik, a.ittl, a.sc)

SimPublish(s) == DoPublish(Pick(PubArgs, H(s)))

\* publish to an existing key with its current position as ExpectedPosition (CAS can succeed)
SimCasHit(s) ==
  LET h == H(s + 50)
      S == {a \in PubArgs : /\ a.k \in DOMAIN st /\ a.cas.has /\ a.cas.off = st[a.k].off /\ a.cas.ep = ep /\ a.ik = ""}
  IN S # {} /\ DoPublish(Pick(S, h))

\* at least two checks would suppress
SimMulti(s) ==
  LET h == H(s + 70)
      e1 == IF chEx THEN ep ELSE epc + 1
      n(a) == (IF WouldVersion(a.k, a.v, a.ve) THEN 1 ELSE 0) + (IF WouldKeyMode(a.k, a.km) THEN 1 ELSE 0)
              + (IF WouldCas(a.k, a.cas, e1) THEN 1 ELSE 0)
      S == {a \in PubArgs : a.ik = "" /\ n(a) >= 2}
  IN S # {} /\ DoPublish(Pick(S, h))

\* versioned publish to a key that holds a version (equal / lower / higher, same or other epoch)
SimVersioned(s) ==
  LET h == H(s + 90)
      S == {a \in PubArgs : a.k \in DOMAIN st /\ st[a.k].ver > 0 /\ ~a.cas.has /\ a.km = "" /\ a.ik = ""}
  IN S # {} /\ DoPublish(Pick(S, h))

\* keep-alive of an existing key
SimRefresh(s) ==
  LET h == H(s + 110)
      S == {a \in PubArgs : a.k \in DOMAIN st /\ a.km = "if_new_refresh" /\ ~a.cas.has /\ a.v = 0 /\ a.ik = ""}
  IN S # {} /\ DoPublish(Pick(S, h))

RemArgs == {a \in [k : Keys, cas : Cases, ik : IdemKeys, ittl : IdemTTLs] :
              (a.ik = "" => a.ittl = AnIdemTTL) /\ (IsEph => ~a.cas.has)}
SimRemove(s) ==
  LET a == Pick(RemArgs, H(s + 130)) IN RemoveKey(a.k, a.cas, a.ik, a.ittl)
SimRemoveHit(s) ==
  LET S == {a \in RemArgs : a.k \in DOMAIN st /\ (a.cas.has => (a.cas.off = st[a.k].off /\ a.cas.ep = ep))}
  IN S # {} /\ LET a == Pick(S, H(s + 150)) IN RemoveKey(a.k, a.cas, a.ik, a.ittl)

SimReadState(s) ==
  LET h == H(s + 170)
      cur == Pick(Cursors, h)  asc == Sel(BoolQ, h, 7)  rev == Sel(Q(Revs), h, 11)
      single == (h \div 3) % 4 = 0
  IN IF single THEN ReadState(NoCur, -1, FALSE, Pick(Keys, h), NoRev)
     ELSE ReadState(IF cur.has /\ ~cf.ord THEN [cur EXCEPT !.sc = 0] ELSE cur, Sel(Q(Limits), h, 13), asc, "",
                    IF (h \div 17) % 3 = 0 THEN rev ELSE NoRev)
\* the whole state, both directions (what the harness also reads by itself after every step)
SimReadStream(s) ==
  LET h == H(s + 190)
  IN ReadStream(Sel(Q(Sinces), h, 1), Sel(Q(Limits), h, 29), Sel(BoolQ, h, 31))

InP2 == step.act = "ExpirePhase2" /\ pend # <<>>

SimNext ==
  IF Manual /\ InP2 THEN ExpirePhase2 /\ w' = 0
  ELSE
  \/ (~Manual /\ (SweepExpire \/ SweepRemove)) /\ w' = 0
  \/ \E s \in 1..(IF Manual THEN 12 ELSE 1) : ExpirePhase2 /\ w' = s
  \/ \E s \in 1..(IF Manual THEN 3 ELSE 1) : ExpirePhase1 /\ w' = s
  \/ \E s \in 1..5 : Tick /\ w' = s
  \/ \E s \in 1..6 : SimPublish(s) /\ w' = s
  \/ \E s \in 1..2 : SimCasHit(s) /\ w' = s
  \/ \E s \in 1..3 : SimMulti(s) /\ w' = s
  \/ \E s \in 1..2 : SimVersioned(s) /\ w' = s
  \/ \E s \in 1..3 : SimRefresh(s) /\ w' = s
  \/ \E s \in 1..1 : SimRemove(s) /\ w' = s
  \/ \E s \in 1..2 : SimRemoveHit(s) /\ w' = s
  \/ \E s \in 1..3 : SimReadState(s) /\ w' = s
  \/ \E s \in 1..2 : SimReadStream(s) /\ w' = s
  \/ (H(7) % 3 = 0) /\ Clear /\ w' = 0

SimSpec == Init /\ w = 0 /\ [][SimNext]_simvars
=============================================================================
