---------------------------- MODULE ConnectSim ----------------------------
(* Behaviour generator for replay (TLC -simulate) over Connect.  TLC's
   simulator picks uniformly among successor STATES; with the plain Next
   almost every step would be a command, and almost half of the alphabet ends
   the connection.  Every action class contributes a fixed number of slots
   (the slot variable `w` makes them distinct successors) and the arguments of
   a slot come from a hash of the slot and the current state (RandomElement is
   useless: TLC re-seeds it per behaviour).                                  *)
EXTENDS Connect, SequencesExt

VARIABLE w
simvars == <<vars, w>>

\* commands that keep the connection open when they are legal
Benign   == {a \in Alphabet : a.mode \in {"ok", "async", "err", "tagschange", "past"} /\ a.var = "ok"
                              /\ a.kind \notin {"empty", "pingfield", "malformed", "emptyframe", "connect"}}
BenignQ  == SetToSeq(Benign)
AllQ     == SetToSeq(Alphabet)
IdQ      == <<"fresh", "fresh", "fresh", "zero", "dup", "none">>
ResQ     == <<"ok", "ok", "err", "disc", "expired", "tagschange", "past", "ok">>

\* TLC integers are 32 bit: the sum stays below 2^31
H(s) == (w % 9973) * 50021 + s * 7919 + ncmd * 104729 + nfire * 1299709 + Len(out) * 1548586 + Len(cb) * 3245284
        + lastid * 4997968 + Cardinality(pend) * 8602812 + (IF sub = "live" THEN 3 ELSE IF sub = "pending" THEN 5 ELSE 0) * 12294982
Sel(q, h, d) == q[((h \div d) % Len(q)) + 1]

\* a command from sequence q; the id mode that the hash proposes if the symbol allows it, its first one otherwise
SimCmd(q, s) ==
  LET h  == H(s)
      a  == Sel(q, h, 1)
      im == Sel(IdQ, h, 61)
  IN IF im \in IdModes(a) /\ (im = "dup" => lastid > 0) THEN Cmd(a, im)
     ELSE Cmd(a, CHOOSE x \in IdModes(a) : x # "dup")

SimConnect(s) == ~auth /\ \E im \in {"fresh"} :
                   Cmd(Sym("connect", IF s = 1 THEN Sel(<<"err", "disc", "nocred", "sserr", "ssdisc", "sserr", "ok">>, H(s), 1) ELSE "ok", "ok"), im)

SimComplete(s) ==
  /\ pend # {}
  /\ LET h == H(s + 50)
         p == Sel(SetToSeq(pend), h, 1)
         r == Sel(ResQ, h, 7)
     IN Complete(p, IF r \in Results(p.kind) THEN r ELSE "ok")

Mix(s) == (w * 131 + s * 7 + 1) % 1000003

SimAct ==
  IF UrgentClose /\ closing # <<>> THEN CloseRun(1) /\ w' = Mix(0) ELSE
  \/ \E s \in 1..5 : SimConnect(s) /\ w' = Mix(s)
  \/ auth /\ \E s \in 1..8 : SimCmd(BenignQ, s) /\ w' = Mix(s)
  \/ \E s \in (IF auth THEN 9..10 ELSE 9..9) : SimCmd(AllQ, s) /\ w' = Mix(s)
  \/ \E s \in 1..4 : SimComplete(s) /\ w' = Mix(s + 20)
  \/ \E s \in (IF auth THEN 1..3 ELSE 1..1) : TimerFire /\ w' = Mix(s + 30)
  \/ ServerDisconnect /\ w' = Mix(40)
  \/ TransportClose /\ w' = Mix(41)

SimNext == SimAct /\ hist' = IF WithHist THEN Append(hist, step') ELSE hist
SimSpec == Init /\ w = 0 /\ [][SimNext]_simvars
=============================================================================
