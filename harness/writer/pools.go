package main

import (
	"encoding/json"
	"fmt"
	"runtime"
	"runtime/debug"

	"github.com/centrifugal/centrifuge"

	"verifharness/vh"
)

// ---- the three pool families behind one interface --------------------------------------------------------

type pbuf interface {
	lenCap() (int, int)
	fill()             // write every entry of the slice
	grow(l, c int)     // append up to length l (l <= cap: in place; else new backing array of capacity c)
	reslice(l int)     // B = B[:l]
	dirtyVisible() int // index of the first non-zero entry of the slice, -1 if none
	put()
	id() any
}

var marker = []byte("dirty")

type bytesBuf struct{ b *centrifuge.VerifWByteBuffer }

func (x bytesBuf) lenCap() (int, int) { return len(x.b.B), cap(x.b.B) }
func (x bytesBuf) fill() {
	for i := range x.b.B {
		x.b.B[i] = 0xAB
	}
}
func (x bytesBuf) grow(l, c int) {
	if l <= cap(x.b.B) {
		old := len(x.b.B)
		x.b.B = x.b.B[:l]
		for i := old; i < l; i++ {
			x.b.B[i] = 0xAB
		}
		return
	}
	x.b.B = make([]byte, l, c)
	x.fill()
}
func (x bytesBuf) reslice(l int)     { x.b.B = x.b.B[:l] }
func (x bytesBuf) dirtyVisible() int { return -1 } // a byte buffer is empty iff its length is 0
func (x bytesBuf) put()              { centrifuge.VerifWPutByteBuffer(x.b) }
func (x bytesBuf) id() any           { return x.b }

type slicesBuf struct {
	b *centrifuge.VerifWByteSlicesBuf
}

func (x slicesBuf) lenCap() (int, int) { return len(x.b.B), cap(x.b.B) }
func (x slicesBuf) fill() {
	for i := range x.b.B {
		x.b.B[i] = marker
	}
}
func (x slicesBuf) grow(l, c int) {
	if l <= cap(x.b.B) {
		old := len(x.b.B)
		x.b.B = x.b.B[:l]
		for i := old; i < l; i++ {
			x.b.B[i] = marker
		}
		return
	}
	x.b.B = make([][]byte, l, c)
	x.fill()
}
func (x slicesBuf) reslice(l int) { x.b.B = x.b.B[:l] }
func (x slicesBuf) dirtyVisible() int {
	for i, e := range x.b.B {
		if e != nil {
			return i
		}
	}
	return -1
}
func (x slicesBuf) put()    { centrifuge.VerifWPutByteSlicesBuf(x.b) }
func (x slicesBuf) id() any { return x.b }

type itemsBuf struct{ b *centrifuge.VerifWItemBuf }

func (x itemsBuf) lenCap() (int, int) { return len(x.b.B), cap(x.b.B) }
func (x itemsBuf) fill() {
	for i := range x.b.B {
		x.b.B[i] = centrifuge.VerifWQItem{Data: marker, Channel: "c", Key: "k"}
	}
}
func (x itemsBuf) grow(l, c int) {
	if l <= cap(x.b.B) {
		old := len(x.b.B)
		x.b.B = x.b.B[:l]
		for i := old; i < l; i++ {
			x.b.B[i] = centrifuge.VerifWQItem{Data: marker, Key: "k"}
		}
		return
	}
	x.b.B = make([]centrifuge.VerifWQItem, l, c)
	x.fill()
}
func (x itemsBuf) reslice(l int) { x.b.B = x.b.B[:l] }
func (x itemsBuf) dirtyVisible() int {
	for i, e := range x.b.B {
		if e.Data != nil || e.Channel != "" || e.Key != "" || e.FrameType != 0 {
			return i
		}
	}
	return -1
}
func (x itemsBuf) put()    { centrifuge.VerifWPutItemBuf(x.b) }
func (x itemsBuf) id() any { return x.b }

func poolGet(kind string, n int) pbuf {
	switch kind {
	case "bytes":
		return bytesBuf{centrifuge.VerifWGetByteBuffer(n)}
	case "slices":
		return slicesBuf{centrifuge.VerifWGetByteSlicesBuf(n)}
	}
	return itemsBuf{centrifuge.VerifWGetItemBuf(n)}
}

func poolForeign(kind string, l, c int) pbuf {
	var b pbuf
	switch kind {
	case "bytes":
		b = bytesBuf{&centrifuge.VerifWByteBuffer{B: make([]byte, l, c)}}
	case "slices":
		b = slicesBuf{&centrifuge.VerifWByteSlicesBuf{B: make([][]byte, l, c)}}
	default:
		b = itemsBuf{&centrifuge.VerifWItemBuf{B: make([]centrifuge.VerifWQItem, l, c)}}
	}
	b.fill()
	return b
}

type pstate struct {
	Kind string         `json:"kind"`
	Step map[string]any `json:"step"`
}

// poolsReplay executes TLC-generated Get / Write / Append / Reslice / Foreign / Put scripts on the real pools. Which
// buffer a sync.Pool hands back is not compared (it may drop anything): only the property of what Get returns.
func poolsReplay(in json.RawMessage, res *vh.Result) error {
	var behs [][]pstate
	if err := json.Unmarshal(in, &behs); err != nil {
		return err
	}
	runtime.LockOSThread() // one P: what was Put is what the next Get of the class finds (maximises pool hits)
	defer runtime.UnlockOSThread()
	old := debug.SetGCPercent(-1) // a GC cycle empties sync.Pools
	defer debug.SetGCPercent(old)
	for bi, beh := range behs {
		if len(beh) < 2 {
			continue
		}
		kind := beh[0].Kind
		// the real pools are process-wide: empty them so that scripts do not inherit each other's buffers
		// (two cycles: sync.Pool keeps a victim cache for one)
		runtime.GC()
		runtime.GC()
		var held pbuf
		var ops []any
		seen := map[any]bool{} // buffers that went through Put
		completed := 1
		reslicedShort := false
		for si := 1; si < len(beh) && completed == 1; si++ {
			step := beh[si].Step
			act := vh.Str(step["act"])
			ops = append(ops, step)
			replay := map[string]any{"kind": kind, "ops": ops}
			func() {
				defer func() {
					if p := recover(); p != nil {
						if act == "Get" {
							res.Violate("C42", "pools:"+kind+":get-panic", fmt.Sprintf("Get(%d) of the %s pool panicked: %v (behaviour %d step %d)", vh.Int(step["n"]), kind, p, bi, si), replay)
						} else {
							res.Drift("C42", fmt.Sprintf("pools: %s on the %s pool panicked: %v (behaviour %d step %d)", act, kind, p, bi, si), replay)
						}
						completed = 0
					}
				}()
				switch act {
				case "Get":
					n := vh.Int(step["n"])
					eff := vh.Int(step["eff"])
					held = poolGet(kind, n)
					res.Count("gets_"+kind, 1)
					if seen[held.id()] {
						res.Count("pool_hits_"+kind, 1)
					}
					l, c := held.lenCap()
					if c < n {
						res.Violate("C42", "pools:"+kind+":undersized", fmt.Sprintf("Get(%d) of the %s pool returned capacity %d (behaviour %d step %d)", n, kind, c, bi, si), replay)
						completed = 0
					}
					if kind == "items" {
						if l != eff {
							res.Violate("C42", "pools:items:len", fmt.Sprintf("getItemBuf(%d) returned len %d, expected %d (behaviour %d step %d)", n, l, eff, bi, si), replay)
							completed = 0
						} else if d := held.dirtyVisible(); d >= 0 {
							sig := "pools:items:dirty"
							if reslicedShort {
								sig = "pools:items:dirty-after-short-put"
							}
							res.Violate("C42", sig, fmt.Sprintf("getItemBuf(%d) returned a buffer whose entry %d is not the zero Item (behaviour %d step %d)", n, d, bi, si), replay)
							completed = 0
						}
					} else if l != 0 {
						res.Violate("C42", "pools:"+kind+":dirty", fmt.Sprintf("Get(%d) of the %s pool returned a buffer of length %d, not empty (behaviour %d step %d)", n, kind, l, bi, si), replay)
						completed = 0
					}
				case "Write":
					held.fill()
				case "Append":
					held.grow(vh.Int(step["len"]), vh.Int(step["cap"]))
				case "Reslice":
					// the script's capacities are the model's; which buffer the real sync.Pool handed out is not
					// compared, so the real capacity may be smaller: stay within it
					l, c := held.lenCap()
					nl := vh.Int(step["len"])
					if nl > c {
						nl = c
					}
					if nl < l {
						reslicedShort = true
					}
					held.reslice(nl)
				case "Foreign":
					held = poolForeign(kind, vh.Int(step["len"]), vh.Int(step["cap"]))
				case "Put":
					seen[held.id()] = true
					held.put()
					held = nil
				case "Lose":
					// the model's sync.Pool forgets a buffer; nothing to do on the real one
				default:
					panic("unknown pools action " + act)
				}
			}()
		}
		if bi < 2 {
			res.Sample(map[string]any{"kind": kind, "ops": ops})
		}
		res.Count("pool_ops", len(ops))
		if completed == 1 && len(seen) > 1 {
			res.Distinct(kind + vh.J(ops))
		}
		res.Done(1, completed)
	}
	return nil
}

// classesTable compares the transcribed size-class functions (rows dumped by TLC from PoolsTable.tla) with the three
// real implementations.
func classesTable(in json.RawMessage, res *vh.Result) error {
	var rows []struct {
		K    string `json:"tk"`
		V    int    `json:"tv"`
		Next int    `json:"tnext"`
		Prev int    `json:"tprev"`
	}
	if err := json.Unmarshal(in, &rows); err != nil {
		return err
	}
	for _, r := range rows {
		var n, p uint32
		switch r.K {
		case "bytes":
			n, p = centrifuge.VerifWBpoolNextLog(uint32(r.V)), centrifuge.VerifWBpoolPrevLog(uint32(r.V))
		case "slices":
			n, p = centrifuge.VerifWBpoolNextLogSlices(uint32(r.V)), centrifuge.VerifWBpoolPrevLogSlices(uint32(r.V))
		default:
			n, p = centrifuge.VerifWNextLogBase2(uint32(r.V)), centrifuge.VerifWPrevLogBase2(uint32(r.V))
		}
		if int(n) != r.Next || int(p) != r.Prev {
			what := fmt.Sprintf("%s pool: size class of %d is next=%d prev=%d, floor/ceil log2 is next=%d prev=%d", r.K, r.V, n, p, r.Next, r.Prev)
			// the guarantee needs 2^next >= v (Get allocates / looks in a class that is large enough) and 2^prev <= v
			// (Put files a buffer under a class it can serve); other deviations only waste memory
			if (n < 31 && (1<<n) < r.V) || (p < 31 && (1<<p) > r.V) {
				res.Violate("C42", "pools:"+r.K+":class", what, r)
			} else {
				res.Drift("C42", "pools: "+what, r)
			}
			res.Done(1, 0)
			continue
		}
		res.Done(1, 1)
	}
	return nil
}
