SPECIFICATION Spec
CONSTANTS MaxOps = 3
INVARIANTS RegIsFirstObserved SentImpliesRecorded
PROPERTY FirstWins
CHECK_DEADLOCK FALSE
