--------------------------- MODULE ConnHistorySF ---------------------------
(* C43, concurrent part: history reads with Config.UseSingleFlight.

   node.go: Node.History -> historyWithOptions -> historySingleFlight builds a
   key from the channel and the options and calls historyGroup.Do(key, fn):
   the first caller of a key (the leader) runs fn = n.history(ch, opts) ->
   Broker.History; a caller that arrives while a call with the SAME key is in
   flight does not read at all, it waits and receives the leader's result.
   A client history command reaches Node.History with the limit already
   clamped by handleHistory (ConnHistory!ClampImpl); server-side readers are
   Node.History of the application, the recovery read of a recovering
   subscriber (recoverHistory: limit NoLimit, since = the client's position)
   and the stream-top read of a positioned subscriber (streamTop: no filter).

   Two readers of one channel with a static, fully retained stream 1..Top.
   The in-flight set is keyed by Key(opts); "full" transcribes the key the
   code builds (every option).  The property is stated without the key:
   every reader receives what its own request returns when it runs alone
   (ConnHistory!RefPubs with the limit the requester is entitled to).

   Reader "A" starts first (requests range over all ORDERED pairs, so this
   loses nothing); `bstart` remembers where A was when B arrived: inside
   Broker.History ("flight"), after it but before the group forgot the key
   ("post"), or finished ("done").  The Go harness parks A at exactly these
   points (GateBroker Before/AfterHistory), issues B and compares B's reply
   with B executed alone on the same stream.                                *)
EXTENDS Naturals, Integers, Sequences, FiniteSets

CONSTANTS MaxTop,    \* stream length (fixed here: the stream holds 1..MaxTop)
          Limits, Maxes, MaxConns,   \* see ConnHistory (MaxConns unused)
          SinceOffs, \* since offsets besides "no since"
          KeyMode    \* "full" = the code; other values are witness variants (the property must fail on them)

H == INSTANCE ConnHistory WITH inp <- 0, res <- 0

SFLimits == {-1, 0, 1, 2, 3}          \* cap = 2: no limit, position only, 1, cap, cap + 1
TTLs == {0, 60}

Threads == {"A", "B"}
Sinces  == {H!NoSince} \cup {[has |-> TRUE, off |-> o, ep |-> "same"] : o \in SinceOffs}

ClientReqs == [origin : {"client"}, limit : Limits, reverse : BOOLEAN, since : Sinces, ttl : {0}]
NodeReqs   == [origin : {"node"}, limit : Limits, reverse : BOOLEAN, since : Sinces, ttl : TTLs]
\* a recovering subscriber (RecoveryMaxPublicationLimit 0) and a positioned one; leaders only
SubReqs    == {[origin |-> "recover", limit |-> -1, reverse |-> FALSE, since |-> [has |-> TRUE, off |-> o, ep |-> "same"], ttl |-> 0] : o \in SinceOffs \ {0}}
              \cup {[origin |-> "top", limit |-> 0, reverse |-> FALSE, since |-> H!NoSince, ttl |-> 0]}

None == [code |-> -1, pubs |-> <<>>]

VARIABLES cmax,     \* Config.HistoryMaxPublicationLimit
          req,      \* the two requests
          pc,       \* idle -> flight -> post -> done (leader) | idle -> wait -> done (merged)
          flights,  \* historyGroup: set of [key, leader]
          val,      \* what the leader's n.history returned
          reply,    \* what a reader received
          lead,     \* whose read a reader was answered from
          bstart    \* pc["A"] at the moment B called Node.History
vars == <<cmax, req, pc, flights, val, reply, lead, bstart>>

---------------------------------------------------------------------------
(* the code *)
\* handleHistory clamps, every other caller passes its options through
Eff(r) == [limit   |-> IF r.origin = "client" THEN H!ClampImpl(r.limit, cmax) ELSE r.limit,
           reverse |-> r.reverse, since |-> r.since, ttl |-> r.ttl]
\* the HistoryOptions reader t calls Node.History with
opts == [t \in Threads |-> Eff(req[t])]

\* historySingleFlight: channel, since (offset, epoch) when present, limit, reverse, meta_ttl
Key(o) == CASE KeyMode = "full"       -> o
            [] KeyMode = "nondefault" -> [o EXCEPT !.limit = IF o.limit > 0 THEN o.limit ELSE 0]   \* witness: default-valued options left out
            [] KeyMode = "nottl"      -> [o EXCEPT !.ttl = 0]                                       \* witness without consequence for the reply
            [] KeyMode = "nosince"    -> [o EXCEPT !.since = H!NoSince]

\* n.history(ch, opts): request check, Broker.History
Exec(o) == IF o.reverse /\ o.since.has /\ o.since.off = 0 THEN [code |-> H!ErrBadRequest, pubs |-> <<>>]
           ELSE [code |-> 0, pubs |-> H!RefPubs(MaxTop, o.since, o.limit, o.reverse)]

Start(t) ==
  /\ pc[t] = "idle"
  /\ t = "B" => pc["A"] # "idle"
  /\ LET o == Eff(req[t])
         k == Key(o)
     IN IF \E f \in flights : f.key = k
          THEN LET f == CHOOSE g \in flights : g.key = k
               IN /\ pc' = [pc EXCEPT ![t] = "wait"]
                  /\ lead' = [lead EXCEPT ![t] = f.leader]
                  /\ UNCHANGED flights
          ELSE /\ pc' = [pc EXCEPT ![t] = "flight"]
               /\ lead' = [lead EXCEPT ![t] = t]
               /\ flights' = flights \cup {[key |-> k, leader |-> t]}
  /\ bstart' = IF t = "B" THEN pc["A"] ELSE bstart
  /\ UNCHANGED <<cmax, req, val, reply>>

\* the leader inside fn: Broker.History with the LEADER's options
Read(t) ==
  /\ pc[t] = "flight"
  /\ val' = [val EXCEPT ![t] = Exec(opts[t])]
  /\ pc' = [pc EXCEPT ![t] = "post"]
  /\ UNCHANGED <<cmax, req, flights, reply, lead, bstart>>

\* doCall: forget the key, hand the value to the leader and to everyone who waited
Finish(t) ==
  /\ pc[t] = "post"
  /\ flights' = {f \in flights : f.leader # t}
  /\ LET mine(u) == u = t \/ (pc[u] = "wait" /\ lead[u] = t)
     IN /\ reply' = [u \in Threads |-> IF mine(u) THEN val[t] ELSE reply[u]]
        /\ pc' = [u \in Threads |-> IF mine(u) THEN "done" ELSE pc[u]]
  /\ UNCHANGED <<cmax, req, val, lead, bstart>>

Init ==
  /\ cmax \in Maxes
  /\ req \in {r \in [Threads -> ClientReqs \cup NodeReqs \cup SubReqs] : r["B"].origin \in {"client", "node"}}
  /\ pc = [t \in Threads |-> "idle"]
  /\ flights = {}
  /\ val = [t \in Threads |-> None]
  /\ reply = [t \in Threads |-> None]
  /\ lead = [t \in Threads |-> t]
  /\ bstart = "idle"

Next == (\E t \in Threads : Start(t) \/ Read(t) \/ Finish(t))
        \/ ((\A t \in Threads : pc[t] = "done") /\ UNCHANGED vars)
Spec == Init /\ [][Next]_vars

---------------------------------------------------------------------------
(* the property: sequential semantics, stated without the in-flight set *)
\* what the request returns when it is the only one
Alone(r) ==
  LET lim == IF r.origin = "client" THEN H!RefLimit(r.limit, cmax) ELSE r.limit
  IN IF r.reverse /\ r.since.has /\ r.since.off = 0 THEN [code |-> H!ErrBadRequest, pubs |-> <<>>]
     ELSE [code |-> 0, pubs |-> H!RefPubs(MaxTop, r.since, lim, r.reverse)]

FlightSequential == \A t \in Threads : pc[t] = "done" => reply[t] = Alone(req[t])
\* C43 itself for the merged reader: the configured bound
FlightBound == \A t \in Threads : (pc[t] = "done" /\ req[t].origin = "client" /\ cmax > 0) => Len(reply[t].pubs) <= cmax
\* a reader is answered from somebody else's read only when that read had the same options
FlightMergedSame == \A t \in Threads : lead[t] # t => opts[t] = opts[lead[t]]
\* and it IS merged when an equal read is in flight (what makes the replay schedule meaningful)
FlightMerges == (pc["B"] # "idle" /\ bstart \in {"flight", "post"} /\ opts["A"] = opts["B"]) => lead["B"] = "A"
=============================================================================
