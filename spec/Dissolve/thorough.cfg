SPECIFICATION SpecR
CONSTANTS
  Workers = {1, 2}
  Jobs = {1, 2, 3}
  MaxFail = 2
  AllowClose = TRUE
  AtomicWait = TRUE
VIEW View
INVARIANTS TypeOK NothingLost OneCopy ClosedQuiet SomeoneWillLook
PROPERTIES NoRerun FailedRequeued NoDequeueAfterClose QueuedAtCloseNeverStarts SubmitAnswer
CHECK_DEADLOCK FALSE
