package main

// C13, the window of DESIGN section 10 item 3: a broadcast that passed the connection's subscribed check adds its
// item to the per-channel writer AFTER unsubscribe removed that writer (delWriter(ch, false)); getWriter re-creates
// the writer, the item waits for MaxDelay and is flushed after the unsubscribe reply.
//
// Part 1 (unit level, evidence only): the counterexample TLC finds for NoOrphanFlush in race.cfg is stepped through
// the real perChannelWriter with the two halves of Add taken separately (shim).
// Part 2 (client level, decides): real node + real client, batching enabled through Config.GetChannelBatchConfig,
// natural gates only: the broadcasting goroutine is parked in the application's LogHandler (trace entry "-out->"
// written between the subscribed check and writeEncodedPushData), the unsubscribing goroutine reports through
// Broker.PublishLeave that it is past delWriter. The monitor reads the frames the transport received.

import (
	"encoding/json"
	"fmt"
	"strings"
	"sync"
	"sync/atomic"
	"time"

	"github.com/centrifugal/centrifuge"
	"github.com/centrifugal/protocol"

	"verifharness/cl"
	"verifharness/vh"
)

type cwRaceIn struct {
	Witness []map[string]any `json:"witness"` // TLC counterexample of race.cfg (may be empty)
	Rounds  int              `json:"rounds"`
}

func cwRace(in json.RawMessage, res *vh.Result) error {
	var ri cwRaceIn
	if err := json.Unmarshal(in, &ri); err != nil {
		return err
	}
	if len(ri.Witness) > 1 {
		cwUnitWitness(ri.Witness, res)
	}
	cwCfgChangeProbe(res)
	cwClosedWriterCheck(res)
	if err := cwBatchingOffProbe(res); err != nil {
		res.Extra["batching_off_probe"] = map[string]any{"error": err.Error()}
	}
	if ri.Rounds == 0 {
		ri.Rounds = 1
	}
	for round := 0; round < ri.Rounds; round++ {
		for _, variant := range []string{"plain", "pos"} {
			for _, racy := range []bool{false, true} {
				if err := cwClientRace(variant, racy, round, res); err != nil {
					res.Drift("C13", fmt.Sprintf("client race %s racy=%v: %v", variant, racy, err), nil)
					res.Done(1, 0)
				}
			}
			mode := map[string]string{"plain": "normal", "pos": "latest"}[variant]
			if err := cwClientLeaveOrder(mode, round, res); err != nil {
				res.Drift("C13", fmt.Sprintf("client join/leave order %s: %v", mode, err), nil)
				res.Done(1, 0)
			}
			if err := cwClientResubInflight(variant, round, res); err != nil {
				res.Drift("C13", fmt.Sprintf("client resubscribe window with an in-flight broadcast %s: %v", variant, err), nil)
				res.Done(1, 0)
			}
			if err := cwClientResub(variant, round, res); err != nil {
				res.Drift("C13", fmt.Sprintf("client resubscribe window %s: %v", variant, err), nil)
				res.Done(1, 0)
			}
		}
	}
	return nil
}

func cwUnitWitness(beh []map[string]any, res *vh.Result) {
	var cfg cwCfg
	b, _ := json.Marshal(beh[0]["cfg"])
	_ = json.Unmarshal(b, &cfg)
	d := 20 * time.Millisecond
	bc := cwBatchCfg(cfg, d)
	rec := newCwRec()
	pcw := centrifuge.VerifMNewPCW(rec.flush)
	defer pcw.Close(false)
	held := map[int]*centrifuge.VerifMCW{}
	heldItem := map[int]cwItem{}
	var log []string
	removed := false
	flushedAfterRemoval := false
	for si := 1; si < len(beh); si++ {
		step := vh.Map(beh[si]["step"])
		act := vh.Str(step["act"])
		switch act {
		case "GetWriter":
			t := vh.Int(step["t"])
			held[t] = pcw.GetWriter(cwChannel)
			heldItem[t] = cwItemOf(step["item"])
		case "WAdd":
			t := vh.Int(step["t"])
			held[t].Add(cwQueueItem(heldItem[t]), bc)
		case "Del":
			pcw.DelWriter(cwChannel, vh.Bool(step["fl"]))
			removed = true
		case "Close":
			pcw.Close(vh.Bool(step["fl"]))
		case "TimerFire":
			rec.waitNew(d + 2*time.Second)
		}
		got := batchIDs(rec.take())
		log = append(log, fmt.Sprintf("%s -> flushed %v", act, got))
		if removed && len(got) > 0 && act != "Del" {
			flushedAfterRemoval = true
		}
	}
	res.Extra["unit_witness"] = map[string]any{"steps": log, "flush_after_delWriter": flushedAfterRemoval}
	res.Count("unit_witness_orphan_flush", map[bool]int{true: 1, false: 0}[flushedAfterRemoval])
}

// cwCfgChangeProbe (evidence only, outside the property's quantifier: the property fixes a channel's batch config):
// GetChannelBatchConfig is evaluated per broadcast; if it turns FlushLatestPublication off while a publication waits in
// latestPubs, flushLocked takes `batch = w.buffer` and clears latestPubs: the publication is dropped, not coalesced.
func cwCfgChangeProbe(res *vh.Result) {
	rec := newCwRec()
	pcw := centrifuge.VerifMNewPCW(rec.flush)
	defer pcw.Close(false)
	pcw.Add(cwQueueItem(cwItem{ID: 1, K: "pub", Key: "a"}), cwChannel, centrifuge.ChannelBatchConfig{MaxSize: 10, FlushLatestPublication: true})
	pcw.Add(cwQueueItem(cwItem{ID: 2, K: "join"}), cwChannel, centrifuge.ChannelBatchConfig{MaxSize: 10, FlushLatestPublication: false})
	pcw.DelWriter(cwChannel, true)
	got := batchIDs(rec.take())
	lost := true
	for _, b := range got {
		for _, id := range b {
			if id == 1 {
				lost = false
			}
		}
	}
	res.Extra["cfg_change_probe"] = map[string]any{
		"schedule":             "Add(pub#1 key a, FlushLatestPublication=true); Add(join#2, FlushLatestPublication=false); delWriter(flush=true)",
		"flushed":              got,
		"publication_1_lost":   lost,
		"inside_property_scope": false,
	}
}

type raceGate struct {
	armed atomic.Bool
	ch    string
	g     *cl.Gate
}

func cwClientRace(variant string, racy bool, round int, res *vh.Result) error {
	const d = 40 * time.Millisecond
	ch := fmt.Sprintf("race_%s_%v_%d_%d", variant, racy, vh.Seed(), round)
	gate := &raceGate{ch: ch, g: cl.NewGate()}
	var pastDel sync.Once
	pastDelCh := make(chan struct{})
	env, err := cl.NewEnv(centrifuge.Config{
		LogLevel: centrifuge.LogLevelTrace,
		LogHandler: func(e centrifuge.LogEntry) {
			if e.Level != centrifuge.LogLevelTrace || e.Message != "-out->" || !gate.armed.Load() {
				return
			}
			if p, ok := e.Fields["push"].(string); ok && strings.Contains(p, gate.ch) && strings.Contains(p, `"pub"`) {
				if gate.armed.CompareAndSwap(true, false) {
					gate.g.Arrive(5 * time.Second)
				}
			}
		},
		GetChannelBatchConfig: func(string) centrifuge.ChannelBatchConfig {
			return centrifuge.ChannelBatchConfig{MaxDelay: d}
		},
	})
	if err != nil {
		return err
	}
	gb, err := cl.NewGateBroker(env.Node)
	if err != nil {
		return err
	}
	gb.OnPublishLeave = func(c string, _ *centrifuge.ClientInfo) {
		if c == ch {
			pastDel.Do(func() { close(pastDelCh) })
		}
	}
	env.Node.SetBroker(gb)
	env.OnSubscribe = func(_ *centrifuge.Client, _ centrifuge.SubscribeEvent, cb centrifuge.SubscribeCallback) {
		cb(centrifuge.SubscribeReply{Options: centrifuge.SubscribeOptions{EmitJoinLeave: true, EnablePositioning: variant == "pos"}}, nil)
	}
	if err := env.Run(); err != nil {
		return err
	}
	defer env.Close()
	conn, err := env.NewConn("u", centrifuge.ProtocolTypeJSON)
	if err != nil {
		return err
	}
	defer func() { conn.Client.Disconnect(); conn.Cancel() }()
	if conn.Connect() == nil {
		return fmt.Errorf("connect failed")
	}
	subID := conn.NextID()
	conn.Do(&protocol.Command{Id: subID, Subscribe: &protocol.SubscribeRequest{Channel: ch}})
	if r := conn.WaitReply(subID, 3*time.Second); r == nil || r.Subscribe == nil {
		return fmt.Errorf("subscribe failed")
	}
	publish := func(data string) error {
		var opts []centrifuge.PublishOption
		if variant == "pos" {
			opts = append(opts, centrifuge.WithHistory(10, time.Minute))
		}
		_, err := env.Node.Publish(ch, []byte(data), opts...)
		return err
	}
	pubCount := func(rs []*protocol.Reply) int {
		n := 0
		for _, r := range rs {
			if r.Push != nil && r.Push.Channel == ch && r.Push.Pub != nil {
				n++
			}
		}
		return n
	}
	// sanity: batching is in effect (the push arrives, after the delay)
	if err := publish(`{"n":1}`); err != nil {
		return err
	}
	if !conn.T.WaitFor(d+3*time.Second, func(rs []*protocol.Reply, _ bool) bool { return pubCount(rs) == 1 }) {
		return fmt.Errorf("batched publication not delivered")
	}
	var steps []string
	unsubID := conn.NextID()
	unsubDone := make(chan struct{})
	if racy {
		gate.armed.Store(true)
		pubDone := make(chan error, 1)
		go func() { pubDone <- publish(`{"n":2}`) }()
		if !gate.g.WaitArrived(3 * time.Second) {
			return fmt.Errorf("broadcast did not reach the trace log entry")
		}
		steps = append(steps, "broadcast of publication 2 passed the subscribed check, parked before writeEncodedPushData (LogHandler)")
		go func() {
			defer close(unsubDone)
			conn.Do(&protocol.Command{Id: unsubID, Unsubscribe: &protocol.UnsubscribeRequest{Channel: ch}})
		}()
		select {
		case <-pastDelCh:
		case <-time.After(3 * time.Second):
			gate.g.Release()
			return fmt.Errorf("unsubscribe did not reach Broker.PublishLeave")
		}
		steps = append(steps, "unsubscribe command: channel removed from the connection, delWriter(ch,false) done, now at Broker.PublishLeave")
		gate.g.Release()
		steps = append(steps, "broadcast released: perChannelWriter.Add re-creates the writer, arms the MaxDelay timer")
		select {
		case err := <-pubDone:
			if err != nil {
				return err
			}
		case <-time.After(3 * time.Second):
			return fmt.Errorf("publish did not return")
		}
	} else {
		if err := publish(`{"n":2}`); err != nil {
			return err
		}
		steps = append(steps, "publication 2 broadcast completely (buffered in the channel writer)")
		go func() {
			defer close(unsubDone)
			conn.Do(&protocol.Command{Id: unsubID, Unsubscribe: &protocol.UnsubscribeRequest{Channel: ch}})
		}()
	}
	select {
	case <-unsubDone:
	case <-time.After(3 * time.Second):
		return fmt.Errorf("unsubscribe command did not finish")
	}
	if r := conn.WaitReply(unsubID, 3*time.Second); r == nil {
		return fmt.Errorf("no unsubscribe reply")
	}
	steps = append(steps, "unsubscribe reply written")
	time.Sleep(4 * d)
	conn.Barrier(2 * time.Second)
	frames := conn.Frames()
	desc := cl.DescribeAll(frames)
	endIdx := -1
	for i, r := range frames {
		if r.Id == unsubID && r.Unsubscribe != nil {
			endIdx = i
		}
	}
	bad := -1
	for i, r := range frames {
		if endIdx >= 0 && i > endIdx && r.Push != nil && r.Push.Channel == ch && (r.Push.Pub != nil || r.Push.Join != nil || r.Push.Leave != nil) {
			bad = i
		}
	}
	replay := map[string]any{"variant": variant, "racy": racy, "max_delay_ms": d.Milliseconds(), "schedule": steps, "frames": desc}
	if bad >= 0 {
		sig := "race:pub-after-unsubscribe-reply:" + variant
		if !racy {
			sig = "pub-after-unsubscribe-reply:" + variant
		}
		res.Violate("C13", sig, fmt.Sprintf("a %s buffered by the per-channel writer was delivered after the unsubscribe reply (subscription kind %s, MaxDelay %v): %v; schedule: %s",
			cl.Describe(frames[bad]), variant, d, desc, strings.Join(steps, "; ")), replay)
		res.Done(1, 0)
		return nil
	}
	if racy {
		res.Distinct("race:" + variant)
	}
	res.Sample(replay)
	res.Done(1, 1)
	return nil
}

// cwClientResub: the counterexample of spec/ChanWriter gen_witness.cfg (Add; UnsubBegin; Resub; Add) on a real client,
// natural gates only. A publication is buffered by the per-channel writer (batch of 2 not full, MaxDelay not elapsed);
// a server-side Unsubscribe runs and is parked at Broker.PublishLeave, i.e. between deleting c.channels[ch] (where the
// channel writer must be dropped) and node.removeSubscription; the client subscribes to the channel again; the next
// publication fills the batch. Judged on the frames: a publication published before the first subscription ended must
// not be delivered after the second subscribe reply (nor at all after the first subscription's end).
func cwClientResub(variant string, round int, res *vh.Result) error {
	const d = 400 * time.Millisecond
	ch := fmt.Sprintf("resub_%s_%d_%d", variant, vh.Seed(), round)
	var armed atomic.Bool
	gate := cl.NewGate()
	env, err := cl.NewEnv(centrifuge.Config{
		LogLevel: centrifuge.LogLevelNone,
		GetChannelBatchConfig: func(string) centrifuge.ChannelBatchConfig {
			return centrifuge.ChannelBatchConfig{MaxSize: 2, MaxDelay: d}
		},
	})
	if err != nil {
		return err
	}
	gb, err := cl.NewGateBroker(env.Node)
	if err != nil {
		return err
	}
	gb.OnPublishLeave = func(c string, _ *centrifuge.ClientInfo) {
		if c == ch && armed.CompareAndSwap(true, false) {
			gate.Arrive(8 * time.Second)
		}
	}
	env.Node.SetBroker(gb)
	env.OnSubscribe = func(_ *centrifuge.Client, _ centrifuge.SubscribeEvent, cb centrifuge.SubscribeCallback) {
		cb(centrifuge.SubscribeReply{Options: centrifuge.SubscribeOptions{EmitJoinLeave: true, EnablePositioning: variant == "pos"}}, nil)
	}
	if err := env.Run(); err != nil {
		return err
	}
	defer env.Close()
	conn, err := env.NewConn("u", centrifuge.ProtocolTypeJSON)
	if err != nil {
		return err
	}
	defer func() { gate.Release(); conn.Client.Disconnect(); conn.Cancel() }()
	if conn.Connect() == nil {
		return fmt.Errorf("connect failed")
	}
	subscribe := func() (uint32, error) {
		id := conn.NextID()
		conn.Do(&protocol.Command{Id: id, Subscribe: &protocol.SubscribeRequest{Channel: ch}})
		if r := conn.WaitReply(id, 3*time.Second); r == nil || r.Subscribe == nil {
			return id, fmt.Errorf("subscribe failed: %v", r)
		}
		return id, nil
	}
	publish := func(data string) error {
		var opts []centrifuge.PublishOption
		if variant == "pos" {
			opts = append(opts, centrifuge.WithHistory(10, time.Minute))
		}
		_, err := env.Node.Publish(ch, []byte(data), opts...)
		return err
	}
	var steps []string
	if _, err := subscribe(); err != nil {
		return err
	}
	start := time.Now()
	if err := publish(`{"n":1}`); err != nil {
		return err
	}
	steps = append(steps, "generation 1 subscribed; publication 1 buffered by the channel writer (MaxSize 2, MaxDelay 400 ms)")
	armed.Store(true)
	unsubDone := make(chan struct{})
	go func() {
		defer close(unsubDone)
		conn.Client.Unsubscribe(ch)
	}()
	if !gate.WaitArrived(3 * time.Second) {
		return fmt.Errorf("unsubscribe did not reach Broker.PublishLeave")
	}
	steps = append(steps, "server-side Unsubscribe: c.channels[ch] deleted, parked at Broker.PublishLeave (before removeSubscription)")
	sub2, err := subscribe()
	if err != nil {
		return err
	}
	steps = append(steps, "client subscribed again (generation 2), subscribe reply written")
	if err := publish(`{"n":2}`); err != nil {
		return err
	}
	inWindow := time.Since(start) < d-50*time.Millisecond
	steps = append(steps, "publication 2 broadcast to generation 2")
	gate.Release()
	select {
	case <-unsubDone:
	case <-time.After(3 * time.Second):
		return fmt.Errorf("Unsubscribe did not return")
	}
	steps = append(steps, "Unsubscribe released: removeSubscription, second delWriter skipped (channel subscribed again), unsubscribe push")
	time.Sleep(d + 100*time.Millisecond)
	conn.Barrier(2 * time.Second)
	frames := conn.Frames()
	desc := cl.DescribeAll(frames)
	reply2 := -1
	for i, r := range frames {
		if r.Id == sub2 && r.Subscribe != nil {
			reply2 = i
		}
	}
	bad := -1
	for i, r := range frames {
		if reply2 >= 0 && i > reply2 && r.Push != nil && r.Push.Channel == ch && r.Push.Pub != nil && strings.Contains(string(r.Push.Pub.Data), `"n":1`) {
			bad = i
		}
	}
	replay := map[string]any{"variant": variant, "max_size": 2, "max_delay_ms": d.Milliseconds(), "schedule": steps, "frames": desc}
	if bad >= 0 {
		res.Violate("C13", "resub:old-publication-in-new-subscription:"+variant,
			fmt.Sprintf("%s, buffered by the per-channel writer for the first subscription, was delivered after the subscribe reply of the next subscription to the channel (kind %s): %v; schedule: %s",
				cl.Describe(frames[bad]), variant, desc, strings.Join(steps, "; ")), replay)
		res.Done(1, 0)
		return nil
	}
	if inWindow {
		res.Distinct("resub:" + variant)
	}
	res.Sample(replay)
	res.Done(1, 1)
	return nil
}

// cwClosedWriterCheck (spec/ChanWriter orphan_witness.cfg is the unrepaired variant): perChannelWriter.Add is getWriter
// followed by w.Add. A broadcast that fetched the writer just before unsubscribe's first delWriter must not leave its
// item in the closed writer the map no longer reaches: neither delWriter could drop it and its MaxDelay timer would flush
// it after the unsubscribe. Stepped through the REAL perChannelWriter with the two halves of Add taken separately (shim):
// nothing may be flushed after both delWriter calls.
func cwClosedWriterCheck(res *vh.Result) {
	const d = 20 * time.Millisecond
	rec := newCwRec()
	pcw := centrifuge.VerifMNewPCW(rec.flush)
	defer pcw.Close(false)
	bc := centrifuge.ChannelBatchConfig{MaxDelay: d}
	pcw.Add(cwQueueItem(cwItem{ID: 1, K: "pub"}), cwChannel, bc) // the channel has a writer
	rec.waitNew(d + 2*time.Second)
	rec.take()
	w := pcw.GetWriter(cwChannel)                   // broadcast: getWriter
	pcw.DelWriter(cwChannel, false)                 // unsubscribe, site 1 (under c.mu)
	w.Add(cwQueueItem(cwItem{ID: 2, K: "pub"}), bc) // broadcast: w.Add on the closed, deleted writer
	pcw.DelWriter(cwChannel, false)                 // unsubscribe, site 2 (after removeSubscription)
	st := pcw.State(cwChannel)
	got := rec.waitNew(10*d + 200*time.Millisecond)
	late := batchIDs(rec.take())
	schedule := "Add(#1); timer flush; w := getWriter(ch); delWriter(ch,false); w.Add(#2); delWriter(ch,false); wait MaxDelay"
	res.Extra["closed_writer_check"] = map[string]any{"schedule": schedule, "writer_in_map_after_removal": st.Exists, "flushed_after_both_delWriter": late}
	if got {
		res.Violate("C13", "cw:add-into-closed-writer:orphan-flush",
			fmt.Sprintf("a push added to a channelWriter that delWriter had already closed and removed was flushed %v after both delWriter(ch,false) calls returned (no writer in the map: %v); schedule: %s", late, !st.Exists, schedule),
			map[string]any{"schedule": schedule, "flushed": late})
		res.Done(1, 0)
		return
	}
	res.Distinct("closed-writer")
	res.Done(1, 1)
}

// cwBatchingOffProbe (evidence, outside the property's quantifier; spec/ChanWriter cfgswitch_direct_witness.cfg):
// GetChannelBatchConfig is evaluated per broadcast. Publication 1 is buffered (MaxDelay 150 ms); the application then
// answers "no batching" for the channel; publication 2 is written directly and overtakes publication 1.
func cwBatchingOffProbe(res *vh.Result) error {
	const d = 150 * time.Millisecond
	var off atomic.Bool
	env, err := cl.NewEnv(centrifuge.Config{
		LogLevel: centrifuge.LogLevelNone,
		GetChannelBatchConfig: func(string) centrifuge.ChannelBatchConfig {
			if off.Load() {
				return centrifuge.ChannelBatchConfig{}
			}
			return centrifuge.ChannelBatchConfig{MaxDelay: d}
		},
	})
	if err != nil {
		return err
	}
	if err := env.Run(); err != nil {
		return err
	}
	defer env.Close()
	conn, err := env.NewConn("u", centrifuge.ProtocolTypeJSON)
	if err != nil {
		return err
	}
	defer func() { conn.Client.Disconnect(); conn.Cancel() }()
	if conn.Connect() == nil {
		return fmt.Errorf("connect failed")
	}
	ch := fmt.Sprintf("cfgoff_%d", vh.Seed())
	id := conn.NextID()
	conn.Do(&protocol.Command{Id: id, Subscribe: &protocol.SubscribeRequest{Channel: ch}})
	if conn.WaitReply(id, 3*time.Second) == nil {
		return fmt.Errorf("subscribe failed")
	}
	if _, err := env.Node.Publish(ch, []byte(`{"n":1}`)); err != nil {
		return err
	}
	off.Store(true)
	if _, err := env.Node.Publish(ch, []byte(`{"n":2}`)); err != nil {
		return err
	}
	time.Sleep(d + 100*time.Millisecond)
	conn.Barrier(2 * time.Second)
	var order []string
	for _, r := range conn.Frames() {
		if r.Push != nil && r.Push.Channel == ch && r.Push.Pub != nil {
			order = append(order, string(r.Push.Pub.Data))
		}
	}
	res.Extra["batching_off_probe"] = map[string]any{
		"schedule":              "publish 1 (config: MaxDelay 150 ms, buffered); GetChannelBatchConfig now returns the zero config; publish 2 (written directly); wait",
		"order_on_the_wire":     order,
		"reordered":             len(order) == 2 && strings.Contains(order[0], `"n":2`),
		"inside_property_scope": false,
	}
	return nil
}

// cwClientLeaveOrder: per-channel order of join / leave / publication pushes under batching on a real node
// (spec/ChanWriter kinds_witness.cfg: a push kind that bypasses the channel writer overtakes what is buffered).
// Observer O subscribed to a channel with EmitJoinLeave + PushJoinLeave and batching MaxDelay 300 ms; a second
// connection S subscribes (join), a publication, S unsubscribes (leave), a second publication - all inside one batch
// window, each operation returning before the next starts, so the node produced the pushes in exactly this order.
// Judged on O's wire: normal mode: the channel's pushes arrive in production order; latest-publication mode: join
// before leave, and both in front of the coalesced publication of their flush.
func cwClientLeaveOrder(mode string, round int, res *vh.Result) error {
	const d = 300 * time.Millisecond
	ch := fmt.Sprintf("jl_%s_%d_%d", mode, vh.Seed(), round)
	env, err := cl.NewEnv(centrifuge.Config{
		LogLevel: centrifuge.LogLevelNone,
		GetChannelBatchConfig: func(string) centrifuge.ChannelBatchConfig {
			return centrifuge.ChannelBatchConfig{MaxDelay: d, FlushLatestPublication: mode == "latest"}
		},
	})
	if err != nil {
		return err
	}
	env.OnSubscribe = func(_ *centrifuge.Client, _ centrifuge.SubscribeEvent, cb centrifuge.SubscribeCallback) {
		cb(centrifuge.SubscribeReply{Options: centrifuge.SubscribeOptions{EmitJoinLeave: true, PushJoinLeave: true}}, nil)
	}
	if err := env.Run(); err != nil {
		return err
	}
	defer env.Close()
	mk := func(user string) (*cl.Conn, error) {
		c, err := env.NewConn(user, centrifuge.ProtocolTypeJSON)
		if err != nil {
			return nil, err
		}
		if c.Connect() == nil {
			return nil, fmt.Errorf("connect failed")
		}
		return c, nil
	}
	obs, err := mk("observer")
	if err != nil {
		return err
	}
	defer func() { obs.Client.Disconnect(); obs.Cancel() }()
	sub, err := mk("shortlived")
	if err != nil {
		return err
	}
	defer func() { sub.Client.Disconnect(); sub.Cancel() }()
	do := func(c *cl.Conn, cmd *protocol.Command) error {
		cmd.Id = c.NextID()
		c.Do(cmd)
		if r := c.WaitReply(cmd.Id, 3*time.Second); r == nil || r.Error != nil {
			return fmt.Errorf("command failed: %v", r)
		}
		return nil
	}
	if err := do(obs, &protocol.Command{Subscribe: &protocol.SubscribeRequest{Channel: ch}}); err != nil {
		return err
	}
	// the observer's own join push leaves the batch first
	obs.T.WaitFor(d+2*time.Second, func(rs []*protocol.Reply, _ bool) bool {
		for _, r := range rs {
			if r.Push != nil && r.Push.Channel == ch && r.Push.Join != nil {
				return true
			}
		}
		return false
	})
	time.Sleep(20 * time.Millisecond)
	base := len(obs.Frames())
	sid := sub.Client.ID()
	start := time.Now()
	var produced []string
	if err := do(sub, &protocol.Command{Subscribe: &protocol.SubscribeRequest{Channel: ch}}); err != nil {
		return err
	}
	produced = append(produced, "join")
	if _, err := env.Node.Publish(ch, []byte(`{"n":1}`)); err != nil {
		return err
	}
	produced = append(produced, "pub1")
	if err := do(sub, &protocol.Command{Unsubscribe: &protocol.UnsubscribeRequest{Channel: ch}}); err != nil {
		return err
	}
	produced = append(produced, "leave")
	if _, err := env.Node.Publish(ch, []byte(`{"n":2}`)); err != nil {
		return err
	}
	produced = append(produced, "pub2")
	inWindow := time.Since(start) < d-50*time.Millisecond
	time.Sleep(d + 150*time.Millisecond)
	obs.Barrier(2 * time.Second)
	var got []string
	for _, r := range obs.Frames()[base:] {
		p := r.Push
		if p == nil || p.Channel != ch {
			continue
		}
		switch {
		case p.Join != nil && p.Join.Info.GetClient() == sid:
			got = append(got, "join")
		case p.Leave != nil && p.Leave.Info.GetClient() == sid:
			got = append(got, "leave")
		case p.Pub != nil && strings.Contains(string(p.Pub.Data), `"n":1`):
			got = append(got, "pub1")
		case p.Pub != nil && strings.Contains(string(p.Pub.Data), `"n":2`):
			got = append(got, "pub2")
		}
	}
	idx := func(x string) int {
		for i, g := range got {
			if g == x {
				return i
			}
		}
		return -1
	}
	bad := ""
	switch {
	case idx("join") < 0 || idx("leave") < 0 || idx("pub2") < 0:
		bad = "a push of the channel is missing"
	case idx("leave") < idx("join"):
		bad = "the leave push of the short-lived subscriber arrives before its join push"
	case mode == "normal" && fmt.Sprint(got) != fmt.Sprint(produced):
		bad = "the channel's pushes are reordered"
	case mode == "latest" && inWindow && (idx("leave") > idx("pub2") || idx("join") > idx("pub2")):
		bad = "a join / leave push of the flush comes after its coalesced publication"
	case mode == "latest" && idx("pub1") >= 0 && idx("pub1") > idx("pub2"):
		bad = "publications are reordered"
	}
	replay := map[string]any{"mode": mode, "max_delay_ms": d.Milliseconds(), "produced": produced, "observer_received": got,
		"observer_frames": cl.DescribeAll(obs.Frames()[base:])}
	if bad != "" {
		sig := "order:leave-overtakes-buffered:" + mode
		if idx("join") < 0 || idx("leave") < 0 || idx("pub2") < 0 {
			sig = "order:push-missing:" + mode
		}
		res.Violate("C13", sig, fmt.Sprintf("%s: the node produced %v for the channel (each operation returned before the next started, batching MaxDelay %v, %s mode), the observer's connection received %v", bad, produced, d, mode, got), replay)
		res.Done(1, 0)
		return nil
	}
	if inWindow {
		res.Distinct("joinleave:" + mode)
	}
	res.Sample(replay)
	res.Done(1, 1)
	return nil
}

// cwClientResubInflight (spec/ChanWriter resub_inflight_witness.cfg; KNOWN FINDING of C13, signature
// resub:inflight-broadcast-into-new-subscription:<kind>): the window the repaired unsubscribe still leaves. A broadcast passed the subscribed check (parked in the LogHandler); a server-side Unsubscribe deletes
// c.channels[ch], drops the channel writer and is parked at Broker.PublishLeave; the broadcast is released: its Add
// re-creates the writer and buffers the push; the client subscribes again; the unsubscribe is released: its second
// delWriter is skipped because the channel is subscribed again; MaxDelay later the old push is flushed into the new
// subscription.
func cwClientResubInflight(variant string, round int, res *vh.Result) error {
	const d = 300 * time.Millisecond
	ch := fmt.Sprintf("resubfl_%s_%d_%d", variant, vh.Seed(), round)
	var logArmed, leaveArmed atomic.Bool
	logGate, leaveGate := cl.NewGate(), cl.NewGate()
	env, err := cl.NewEnv(centrifuge.Config{
		LogLevel: centrifuge.LogLevelTrace,
		LogHandler: func(e centrifuge.LogEntry) {
			if e.Level != centrifuge.LogLevelTrace || e.Message != "-out->" || !logArmed.Load() {
				return
			}
			if p, ok := e.Fields["push"].(string); ok && strings.Contains(p, ch) && strings.Contains(p, `"pub"`) && logArmed.CompareAndSwap(true, false) {
				logGate.Arrive(8 * time.Second)
			}
		},
		GetChannelBatchConfig: func(string) centrifuge.ChannelBatchConfig { return centrifuge.ChannelBatchConfig{MaxDelay: d} },
	})
	if err != nil {
		return err
	}
	gb, err := cl.NewGateBroker(env.Node)
	if err != nil {
		return err
	}
	gb.OnPublishLeave = func(c string, _ *centrifuge.ClientInfo) {
		if c == ch && leaveArmed.CompareAndSwap(true, false) {
			leaveGate.Arrive(8 * time.Second)
		}
	}
	env.Node.SetBroker(gb)
	env.OnSubscribe = func(_ *centrifuge.Client, _ centrifuge.SubscribeEvent, cb centrifuge.SubscribeCallback) {
		cb(centrifuge.SubscribeReply{Options: centrifuge.SubscribeOptions{EmitJoinLeave: true, EnablePositioning: variant == "pos"}}, nil)
	}
	if err := env.Run(); err != nil {
		return err
	}
	defer env.Close()
	conn, err := env.NewConn("u", centrifuge.ProtocolTypeJSON)
	if err != nil {
		return err
	}
	defer func() { logGate.Release(); leaveGate.Release(); conn.Client.Disconnect(); conn.Cancel() }()
	if conn.Connect() == nil {
		return fmt.Errorf("connect failed")
	}
	subscribe := func() (uint32, error) {
		id := conn.NextID()
		conn.Do(&protocol.Command{Id: id, Subscribe: &protocol.SubscribeRequest{Channel: ch}})
		if r := conn.WaitReply(id, 3*time.Second); r == nil || r.Subscribe == nil {
			return id, fmt.Errorf("subscribe failed")
		}
		return id, nil
	}
	if _, err := subscribe(); err != nil {
		return err
	}
	logArmed.Store(true)
	pubDone := make(chan struct{})
	go func() {
		defer close(pubDone)
		var opts []centrifuge.PublishOption
		if variant == "pos" {
			opts = append(opts, centrifuge.WithHistory(10, time.Minute))
		}
		_, _ = env.Node.Publish(ch, []byte(`{"n":1}`), opts...)
	}()
	if !logGate.WaitArrived(3 * time.Second) {
		return fmt.Errorf("broadcast did not reach the trace log entry")
	}
	leaveArmed.Store(true)
	unsubDone := make(chan struct{})
	go func() { defer close(unsubDone); conn.Client.Unsubscribe(ch) }()
	if !leaveGate.WaitArrived(3 * time.Second) {
		return fmt.Errorf("unsubscribe did not reach Broker.PublishLeave")
	}
	logGate.Release()
	<-pubDone
	sub2, err := subscribe()
	if err != nil {
		return err
	}
	leaveGate.Release()
	<-unsubDone
	time.Sleep(d + 150*time.Millisecond)
	conn.Barrier(2 * time.Second)
	frames := conn.Frames()
	reply2, old := -1, -1
	for i, r := range frames {
		if r.Id == sub2 && r.Subscribe != nil {
			reply2 = i
		}
		if r.Push != nil && r.Push.Channel == ch && r.Push.Pub != nil && strings.Contains(string(r.Push.Pub.Data), `"n":1`) {
			old = i
		}
	}
	schedule := "subscribe (generation 1); broadcast of publication 1 passes the subscribed check, parked in LogHandler; server-side Unsubscribe: c.channels[ch] deleted + delWriter, parked at Broker.PublishLeave; broadcast released: Add re-creates the writer, buffers 1 (MaxDelay 300 ms); client subscribes again (reply 2); Unsubscribe released: second delWriter skipped (resubscribed); timer flush"
	desc := cl.DescribeAll(frames)
	replay := map[string]any{"variant": variant, "max_delay_ms": d.Milliseconds(), "schedule": schedule, "frames": desc}
	if reply2 < 0 {
		return fmt.Errorf("second subscribe reply not found in %v", desc)
	}
	if old > reply2 {
		res.Violate("C13", "resub:inflight-broadcast-into-new-subscription:"+variant,
			fmt.Sprintf("%s, broadcast to the first subscription and buffered by the per-channel writer after unsubscribe had dropped that writer, was delivered after the subscribe reply of the next subscription (kind %s): %v; schedule: %s",
				cl.Describe(frames[old]), variant, desc, schedule), replay)
		res.Done(1, 0)
		return nil
	}
	res.Distinct("resub-inflight:" + variant)
	res.Sample(replay)
	res.Done(1, 1)
	return nil
}
