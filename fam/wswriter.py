"""C30, C31 -- family wswriter (work in progress docstring, completed below)."""
from lib import vf


def _scripts(behs):
    out = []
    for b in behs:
        s0 = b[0]
        out.append({'side': s0['side'], 'neg': s0['neg'], 'B': s0['B'], 'steps': [st['step'] for st in b]})
    return out


def c30(c):
    quick = c.tier == 'quick'
    r = c.tlc_exhaustive('WsWriter', 'WsWriter', 'quick.cfg' if quick else 'thorough.cfg', workers=8, timeout=1500)
    c.log('TLC exhaustive: %d distinct / %d generated states, depth %d' % (r['distinct'], r['states'], r['depth']))
    binp = c.go_build('wswriter')
    s = c.tlc('WsWriter', 'WsWriterSim', 'sim.cfg' if quick else 'simbig.cfg', simulate=500 if quick else 4000, depth=15, timeout=1500)
    if not s['ok']:
        raise vf.Inconclusive('simulation failed: %s' % s['out'][-2000:])
    behs = c.behaviours(s)
    c.log('TLC simulate: %d scripts' % len(behs))
    res = c.harness(binp, 'write', _scripts(behs), timeout=900)
    c.absorb(res)
    c.cov['traces_validated_against_impl'] += res['completed']
    c.cov['evaluations'] += res['executed']
    c.cov['distinct_nontrivial'] += res['nontrivial']
    c.cov['samples'] += res['samples'][:2]
    c.cov['replay_counters'] = res['counters']


CHECKS = {'C30': c30}
META = {'C30': dict(level='model_checking', text='wip', note='wip', technique='wip')}
