#!/usr/bin/env python3
"""Regenerates the fix table and the known-findings list of DESIGN.md section 13.4 from known_findings.json
(between the FIXED-TABLE / FINDINGS markers). usage: lib/design_findings.py"""
import json, os, re
ROOT = os.path.dirname(os.path.dirname(os.path.abspath(__file__)))
k = json.load(open(os.path.join(ROOT, 'known_findings.json')))
rows = ['| commit | property | defect |', '|---|---|---|']
for f in k['fixed']:
    m = re.match(r'fixed: property=(C\d+) (\w+) (.*)', f, re.S)
    rows.append('| %s | %s | %s |' % (m.group(2), m.group(1), m.group(3).replace('|', '\\|').replace('\n', ' ')))
items = []
for f in k['findings']:
    items.append('* **%s** `%s` - %s. *Why not repaired:* %s' % (f['property'], f['match'], f['what'].rstrip('.'), f['why_not_fixed']))
p = os.path.join(ROOT, 'DESIGN.md')
s = open(p).read()
def put(s, name, body):
    b, e = '<!-- %s-BEGIN -->' % name, '<!-- %s-END -->' % name
    i, j = s.index(b) + len(b), s.index(e)
    return s[:i] + '\n' + body + '\n' + s[j:]
s = put(s, 'FIXED-TABLE', '\n'.join(rows))
s = put(s, 'FINDINGS', '\n'.join(items))
open(p, 'w').write(s)
print('%d fixed, %d findings' % (len(k['fixed']), len(k['findings'])))
