// C16, sub-refresh path: replay of spec/SubRefresh behaviours on a real client.
//
// The SubRefreshHandler is an application callback with an asynchronous answer: RefreshStart sends the command and
// keeps the callback, RefreshDone answers it (with a server tags filter) at the step the model says, possibly after
// the client unsubscribed and subscribed again with another filter. Publications are tagged; the monitor is the
// observable form of C16: a delivered publication must be admitted by the filter the APPLICATION configured for the
// subscription that receives it (given at subscribe, or by a refresh issued for that very subscription).
package main

import (
	"encoding/json"
	"fmt"
	"strconv"
	"sync"
	"time"

	"github.com/centrifugal/centrifuge"
	"github.com/centrifugal/protocol"

	"verifharness/cl"
	"verifharness/vh"
)

type refreshCB struct {
	gen int
	f   string
	cb  centrifuge.SubRefreshCallback
	id  uint32
}

func filterOf(f string) *centrifuge.FilterNode {
	return &centrifuge.FilterNode{Key: "t", Cmp: "eq", Val: f}
}

func refreshRun(bi int, beh []map[string]any, res *vh.Result) {
	var mu sync.Mutex
	curFilter := ""          // filter the next subscribe gets
	var parked chan centrifuge.SubRefreshCallback
	env, err := cl.NewEnv(centrifuge.Config{LogLevel: centrifuge.LogLevelNone})
	if err != nil {
		res.Drift("", "NewEnv: "+err.Error(), nil)
		res.Done(1, 0)
		return
	}
	env.OnSubscribe = func(_ *centrifuge.Client, _ centrifuge.SubscribeEvent, cb centrifuge.SubscribeCallback) {
		mu.Lock()
		f := curFilter
		mu.Unlock()
		cb(centrifuge.SubscribeReply{
			ClientSideRefresh: true,
			Options: centrifuge.SubscribeOptions{ExpireAt: time.Now().Unix() + 3600, ServerTagsFilter: filterOf(f)},
		}, nil)
	}
	env.Setup = func(c *centrifuge.Client) {
		c.OnSubRefresh(func(_ centrifuge.SubRefreshEvent, cb centrifuge.SubRefreshCallback) {
			mu.Lock()
			p := parked
			mu.Unlock()
			if p != nil {
				p <- cb
			}
		})
	}
	if err := env.Run(); err != nil {
		res.Drift("", "Run: "+err.Error(), nil)
		res.Done(1, 0)
		return
	}
	defer env.Close()
	conn, err := env.NewConn("u", centrifuge.ProtocolTypeJSON)
	if err != nil || conn.Connect() == nil {
		res.Drift("", "connect failed", nil)
		res.Done(1, 0)
		return
	}
	defer func() { conn.Client.Disconnect(); conn.Cancel() }()
	ch := fmt.Sprintf("rf%d_%d", vh.Seed(), bi)
	var steps []any
	var pend []refreshCB
	gen, sub, want := 0, false, ""
	completed, nontrivial := 1, false
	tagOf := map[int]string{} // publication id -> tag
	genOf := map[int]int{}    // publication id -> generation current when it was published
	wantOf := map[int]string{}
	drift := func(what string) {
		res.Drift("", fmt.Sprintf("%s (behaviour %d)", what, bi), map[string]any{"steps": steps})
		completed = 0
	}
	delivered := func() []int {
		var ids []int
		for _, rep := range conn.Frames() {
			if rep.Push != nil && rep.Push.Channel == ch && rep.Push.Pub != nil {
				id, _ := strconv.Atoi(string(rep.Push.Pub.Data))
				ids = append(ids, id)
			}
		}
		return ids
	}
	for si := 1; si < len(beh) && completed == 1; si++ {
		st := beh[si]
		step := vh.Map(st["step"])
		act := vh.Str(step["act"])
		steps = append(steps, step)
		switch act {
		case "Subscribe":
			mu.Lock()
			curFilter = vh.Str(step["f"])
			mu.Unlock()
			id := conn.NextID()
			conn.Do(&protocol.Command{Id: id, Subscribe: &protocol.SubscribeRequest{Channel: ch}})
			if r := conn.WaitReply(id, 3*time.Second); r == nil || r.Subscribe == nil {
				drift("subscribe not answered")
				break
			}
			gen++
			sub, want = true, vh.Str(step["f"])
		case "Unsubscribe":
			id := conn.NextID()
			conn.Do(&protocol.Command{Id: id, Unsubscribe: &protocol.UnsubscribeRequest{Channel: ch}})
			if r := conn.WaitReply(id, 3*time.Second); r == nil || r.Unsubscribe == nil {
				drift("unsubscribe not answered")
				break
			}
			sub, want = false, ""
		case "RefreshStart":
			p := make(chan centrifuge.SubRefreshCallback, 1)
			mu.Lock()
			parked = p
			mu.Unlock()
			id := conn.NextID()
			conn.Do(&protocol.Command{Id: id, SubRefresh: &protocol.SubRefreshRequest{Channel: ch, Token: "tok"}})
			select {
			case cb := <-p:
				pend = append(pend, refreshCB{gen: gen, f: vh.Str(step["f"]), cb: cb, id: id})
			case <-time.After(3 * time.Second):
				drift("sub refresh handler not called")
			}
			mu.Lock()
			parked = nil
			mu.Unlock()
		case "RefreshDone":
			g, f := vh.Int(step["g"]), vh.Str(step["f"])
			idx := -1
			for i, p := range pend {
				if p.gen == g && p.f == f {
					idx = i
					break
				}
			}
			if idx < 0 {
				drift("no parked refresh for this step")
				break
			}
			p := pend[idx]
			pend = append(pend[:idx], pend[idx+1:]...)
			p.cb(centrifuge.SubRefreshReply{ExpireAt: time.Now().Unix() + 3600, ServerTagsFilter: filterOf(f)}, nil)
			if r := conn.WaitReply(p.id, 3*time.Second); r == nil {
				drift("sub refresh not answered")
				break
			}
			nontrivial = true
			if sub && p.gen == gen {
				want = f // the application refreshed the subscription it was asked about
			}
		case "Publish":
			id := vh.Int(step["id"])
			tag := vh.Str(step["tag"])
			tagOf[id], genOf[id], wantOf[id] = tag, gen, want
			if !sub {
				wantOf[id] = ""
			}
			if _, err := env.Node.Publish(ch, []byte(strconv.Itoa(id)), centrifuge.WithTags(map[string]string{"t": tag})); err != nil {
				drift("publish: " + err.Error())
			}
		default:
			drift("unknown action " + act)
		}
		if completed == 0 {
			break
		}
		if !conn.Barrier(3 * time.Second) {
			drift("barrier failed")
			break
		}
		// monitor on the real frames
		got := delivered()
		for _, id := range got {
			if wantOf[id] == "" {
				drift(fmt.Sprintf("publication %d (tag %s) was delivered although no subscription existed when it was published", id, tagOf[id]))
			} else if tagOf[id] != wantOf[id] {
				cls := "current-refresh"
				for _, s := range steps {
					m := vh.Map(s)
					if vh.Str(m["act"]) == "RefreshDone" && vh.Int(m["g"]) != genOf[id] {
						cls = "stale-refresh-applied-to-newer-subscription"
					}
				}
				res.Violate("C16", "refresh:excluded-publication-delivered:"+cls, fmt.Sprintf("publication %d tagged %q was delivered to subscription #%d whose server tags filter (as configured by the application) admits only %q (behaviour %d, steps %s)", id, tagOf[id], genOf[id], wantOf[id], bi, vh.J(steps)), map[string]any{"steps": steps})
				completed = 0
			}
		}
		if completed == 0 {
			break
		}
		// comparison with the model's deliveries (a difference with every monitor true is drift)
		if st["out"] == nil {
			continue // hand-made continuation of a witness: judged by the monitor only
		}
		var mo []int
		for _, x := range vh.List(st["out"]) {
			mo = append(mo, vh.Int(vh.Map(x)["id"]))
		}
		if fmt.Sprint(mo) != fmt.Sprint(got) && !(len(mo) == 0 && len(got) == 0) {
			drift(fmt.Sprintf("deliveries differ: real %v, model %v", got, mo))
		}
	}
	// release what is still parked
	for _, p := range pend {
		p.cb(centrifuge.SubRefreshReply{ExpireAt: time.Now().Unix() + 3600}, nil)
	}
	if completed == 1 && nontrivial {
		res.Distinct(vh.J(steps))
	}
	if bi < 2 {
		res.Sample(map[string]any{"steps": steps, "delivered": delivered()})
	}
	res.Done(1, completed)
}

func refresh(in json.RawMessage, res *vh.Result) error {
	var behs [][]map[string]any
	if err := json.Unmarshal(in, &behs); err != nil {
		return err
	}
	const nw = 8
	var wg sync.WaitGroup
	jobs := make(chan int)
	for i := 0; i < nw; i++ {
		wg.Add(1)
		go func() {
			defer wg.Done()
			for bi := range jobs {
				refreshRun(bi, behs[bi], res)
			}
		}()
	}
	for bi := range behs {
		jobs <- bi
	}
	close(jobs)
	wg.Wait()
	return nil
}
