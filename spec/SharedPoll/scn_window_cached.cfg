SPECIFICATION Spec
CONSTANTS
  Conns = {"c1", "c2"}
  Keys = {"k1"}
  MaxChg = 1
  MaxFlips = 0
  MaxOps = 5
  Versioned = TRUE
  Timer = FALSE
  AllowRevoke = FALSE
  AllowPublish = TRUE
  SplitTrack = TRUE
  AsCoded = {}
  Replay = TRUE
VIEW View
INVARIANTS TypeOK VersionConsistent C25_Epoch NotScnTrackWindowCached
PROPERTIES C25_Frames 
CHECK_DEADLOCK FALSE
