SPECIFICATION Spec
CONSTANTS
  Conns = {"c1"}
  Keys = {"k1"}
  MaxChg = 1
  MaxFlips = 1
  MaxOps = 7
  Versioned = TRUE
  Timer = FALSE
  AllowRevoke = FALSE
  AllowPublish = TRUE
  SplitTrack = FALSE
  AsCoded = {"no-epoch-check"}
  Replay = TRUE
VIEW View
INVARIANTS TypeOK VersionConsistent C25_Epoch
PROPERTIES C25_Frames
CHECK_DEADLOCK FALSE
