SPECIFICATION Spec
CONSTANTS
  Chans = {"a", "b", "c"}
  Compensate = "first"
VIEW View
INVARIANTS NoPresenceLeft
CHECK_DEADLOCK FALSE
