// C14, stream paths: gate replay of spec/Delta behaviours on real clients that negotiated fossil delta.
//
// Same replay machinery as harness/substream (subscriber parked at Broker.Subscribe / before / after
// Broker.History; publications withheld by the broker wrapper and handed to Node.HandlePublication when the model
// delivers them, possibly duplicated, reordered or never). The client side is an SDK-like model: it keeps the
// bytes of the last publication of the channel across resubscribes, recovers from the position it learnt from the
// server, and APPLIES every delivered delta with the fossil library to the bytes it holds. The verdict is
// observable-only: an Apply error, a delta while nothing is held, or reconstructed bytes that differ from the
// published payload is a C14 violation; a difference to the model's frames with all reconstructions right is drift.
package main

import (
	"bytes"
	"encoding/json"
	"fmt"
	"strings"
	"sync"
	"time"

	"github.com/centrifugal/centrifuge"
	"github.com/centrifugal/protocol"

	"verifharness/cl"
	"verifharness/vh"
)

const gateTimeout = 4 * time.Second

type delivery struct {
	pub   *centrifuge.Publication
	sp    centrifuge.StreamPosition
	delta bool // the publication was published with the delta option
	prev  *centrifuge.Publication
}

type dRunner struct {
	w     *dWorker
	ch    string
	proto centrifuge.ProtocolType
	cfg   map[string]any
	kind  string
	filt  bool
	med   bool

	mu         sync.Mutex
	deliveries map[int]delivery
	curID      int

	pl      *payloads
	offToID map[int]int
	tagOf   map[int]string

	g1, g2, g3 *cl.Gate
	subDone    chan struct{}
	subID      uint32
	conn       *kConn
	from       int // frames of the current session start here

	// SDK-like client state
	h          holder
	hasPos     bool
	off        uint64
	epoch      string
	negotiated bool
	consumed   int // frames already fed to the holder
	unsubs     int // unsubscribe pushes consumed on the current connection

	// bookkeeping for signatures
	sessDrops, sessDups, sessReorders int
	lastReplyRecovered                bool
	lastReplyPubs                     int
	livePushesSinceReply              int
	filteredSinceLastFrame            bool
	prevNonDelta                      bool // the publication the client holds was published without the delta option
	winFiltered                       bool         // a publication the filter excludes was delivered inside the subscribe window of this session
	nonDeltaSinceFrame                bool         // a publication published WITHOUT the delta option was delivered since the last but one frame
	udOf                              map[int]bool // publication id -> published with the delta option
}

type dWorker struct {
	env     *cl.Env
	gb      *cl.GateBroker
	runners sync.Map
	hist    int
}

func (w *dWorker) runner(ch string) *dRunner {
	if v, ok := w.runners.Load(ch); ok {
		return v.(*dRunner)
	}
	return nil
}

func newDWorker(histSize int) (*dWorker, error) {
	env, err := cl.NewEnv(centrifuge.Config{
		ClientChannelPositionMaxTimeLag: 30 * time.Second,
		LogLevel:                        centrifuge.LogLevelNone,
		GetChannelMediumOptions: func(ch string) centrifuge.ChannelMediumOptions {
			if strings.HasPrefix(ch, "dm") {
				return centrifuge.ChannelMediumOptions{KeepLatestPublication: true}
			}
			return centrifuge.ChannelMediumOptions{}
		},
	})
	if err != nil {
		return nil, err
	}
	w := &dWorker{env: env, hist: histSize}
	gb, err := cl.NewGateBroker(env.Node)
	if err != nil {
		return nil, err
	}
	w.gb = gb
	gb.OnSubscribe = func(ch string) {
		if r := w.runner(ch); r != nil && r.g1 != nil {
			r.g1.Arrive(gateTimeout)
		}
	}
	gb.BeforeHistory = func(ch string, _ centrifuge.HistoryOptions) {
		if r := w.runner(ch); r != nil && r.g2 != nil {
			r.g2.Arrive(gateTimeout)
		}
	}
	gb.AfterHistory = func(ch string, _ centrifuge.HistoryOptions, _ []*centrifuge.Publication, _ centrifuge.StreamPosition) {
		if r := w.runner(ch); r != nil && r.g3 != nil {
			r.g3.Arrive(gateTimeout)
		}
	}
	gb.Intercept = func(ch string, pub *centrifuge.Publication, sp centrifuge.StreamPosition, delta bool, prev *centrifuge.Publication) bool {
		r := w.runner(ch)
		if r == nil {
			return true
		}
		r.mu.Lock()
		r.deliveries[r.curID] = delivery{pub, sp, delta, prev}
		r.mu.Unlock()
		return false
	}
	env.Node.SetBroker(gb)
	env.OnSubscribe = func(_ *centrifuge.Client, e centrifuge.SubscribeEvent, cb centrifuge.SubscribeCallback) {
		r := w.runner(e.Channel)
		opts := centrifuge.SubscribeOptions{AllowedDeltaTypes: []centrifuge.DeltaType{centrifuge.DeltaTypeFossil}, AllowTagsFilter: true}
		if r != nil {
			switch r.kind {
			case "pos":
				opts.EnablePositioning = true
			case "rec":
				opts.EnableRecovery = true
			}
		}
		cb(centrifuge.SubscribeReply{Options: opts}, nil)
	}
	if err := env.Run(); err != nil {
		return nil, err
	}
	return w, nil
}

// ---------------------------------------------------------------- frames

type pframe struct {
	Off   int  `json:"off"`
	ID    int  `json:"id"`
	Delta bool `json:"delta"`
	Could bool `json:"-"` // a full frame although fossil would have produced a smaller patch against the held bytes
}

type dframe struct {
	T         string   `json:"t"`
	Off       int      `json:"off,omitempty"`
	Recovered bool     `json:"recovered,omitempty"`
	Pubs      []pframe `json:"pubs,omitempty"`
	P         *pframe  `json:"p,omitempty"`
}

func modelFrames(st map[string]any) []dframe {
	var out []dframe
	pf := func(v any) pframe {
		m := vh.Map(v)
		return pframe{Off: vh.Int(m["off"]), ID: vh.Int(m["id"]), Delta: vh.Bool(m["delta"])}
	}
	for _, x := range vh.List(st["out"]) {
		m := vh.Map(x)
		f := dframe{T: vh.Str(m["t"])}
		switch f.T {
		case "reply":
			f.Off = vh.Int(m["off"])
			f.Recovered = vh.Bool(m["recovered"])
			for _, p := range vh.List(m["pubs"]) {
				f.Pubs = append(f.Pubs, pf(p))
			}
		case "pub":
			p := pf(m["p"])
			f.P = &p
		}
		out = append(out, f)
	}
	return out
}

type dverdict struct{ sig, what string }

// consume feeds the frames written since the last call to the SDK-like client and returns them projected, plus
// the C14 verdicts of the observable-only monitor.
func (r *dRunner) consume(seen *[]dframe) []dverdict {
	var vs []dverdict
	frames := r.conn.Frames()
	for ; r.consumed < len(frames); r.consumed++ {
		rep := frames[r.consumed]
		if r.consumed < r.from {
			continue
		}
		switch {
		case rep.Connect != nil:
		case rep.Id != 0 && rep.Id == r.subID && rep.Subscribe != nil:
			s := rep.Subscribe
			r.negotiated = s.Delta
			if !s.Delta {
				vs = append(vs, dverdict{"", "drift:subscribe reply did not negotiate delta"})
			}
			f := dframe{T: "reply", Off: int(s.Offset), Recovered: s.Recovered}
			if s.Recoverable {
				r.hasPos, r.off, r.epoch = true, s.Offset, s.Epoch
			}
			for j, p := range s.Publications {
				sig := r.chainSig(j)
				if j >= 2 && !s.Publications[j-1].Delta {
					sig += ":after-full-fallback" // the previous recovered publication travelled in full in the middle of the chain
				}
				pf, v := r.take(p, fmt.Sprintf("recovered-chain[%d/%d]", j+1, len(s.Publications)), sig)
				f.Pubs = append(f.Pubs, pf)
				if v != nil {
					vs = append(vs, *v)
				}
			}
			r.lastReplyRecovered, r.lastReplyPubs, r.livePushesSinceReply = s.Recovered, len(s.Publications), 0
			*seen = append(*seen, f)
		case rep.Id != 0 && rep.Unsubscribe != nil:
		case rep.Id != 0 && rep.Error != nil:
			*seen = append(*seen, dframe{T: fmt.Sprintf("error:%d", rep.Error.Code)})
		case rep.Push != nil && rep.Push.Channel == r.ch && rep.Push.Pub != nil:
			pf, v := r.take(rep.Push.Pub, "live push", r.liveSig())
			r.livePushesSinceReply++
			*seen = append(*seen, dframe{T: "pub", P: &pf})
			if v != nil {
				vs = append(vs, *v)
			}
		case rep.Push != nil && rep.Push.Channel == r.ch && rep.Push.Unsubscribe != nil:
			r.unsubs++
			*seen = append(*seen, dframe{T: "unsub"})
		case rep.Push != nil && rep.Push.Disconnect != nil:
		default:
			*seen = append(*seen, dframe{T: "other:" + cl.Describe(rep)})
		}
	}
	return vs
}

func (r *dRunner) protoName() string {
	if r.proto == centrifuge.ProtocolTypeJSON {
		return "json"
	}
	return "protobuf"
}

func (r *dRunner) chainSig(j int) string {
	if j == 0 {
		return "recovered-chain:first"
	}
	return "recovered-chain"
}

func (r *dRunner) liveSig() string {
	base := "live-nonpositioned"
	if r.kind == "pos" || r.kind == "rec" {
		base = "live-positioned"
	}
	if r.med {
		base = "medium:" + base
	}
	if r.lastReplyRecovered && r.livePushesSinceReply == 0 {
		base = "recovery-to-live"
		if r.med {
			base = "medium:recovery-to-live"
		}
		if r.lastReplyPubs == 0 {
			return base + ":empty-recovery"
		}
		if r.winFiltered {
			return base + ":after-filtered-in-window"
		}
	}
	switch {
	case r.prevNonDelta:
		return base + ":after-nondelta-publish"
	case r.filteredSinceLastFrame:
		return base + ":after-filtered"
	case r.sessDups > 0:
		return base + ":after-duplicate"
	case r.sessDrops > 0:
		return base + ":after-drop"
	case r.sessReorders > 0:
		return base + ":after-reorder"
	}
	return base
}

// take applies one publication to the held bytes and checks the reconstruction against what was published.
func (r *dRunner) take(p *protocol.Publication, where, sig string) (pframe, *dverdict) {
	before := append([]byte(nil), r.h.held...)
	hadBefore := r.h.has
	a := r.h.apply(r.proto, r.negotiated, p)
	pf := pframe{Off: int(p.Offset), Delta: p.Delta}
	if !p.Delta && hadBefore && a.Err == "" {
		pf.Could = realDeltaPossible(before, a.Data, r.proto == centrifuge.ProtocolTypeJSON)
	}
	if p.Offset != 0 && r.hasPos {
		r.off = p.Offset
	}
	r.filteredSinceLastFrame = false
	defer func() { r.prevNonDelta = pf.ID != 0 && !r.udOf[pf.ID] }()
	sig = sig + ":" + r.protoName()
	if a.Err != "" && a.Delta && r.proto == centrifuge.ProtocolTypeJSON && hadBefore {
		// was the delta mangled in transit? (U+FFFD in the wire string that the right patch does not contain)
		if w, err := wireData(r.proto, true, p); err == nil && bytes.Contains(w, []byte("\xef\xbf\xbd")) && !bytes.Contains(r.pl.get(r.offToID[int(p.Offset)]), []byte("\xef\xbf\xbd")) {
			sig = "json-escape:delta-cuts-utf8"
		}
	}
	if a.Err != "" {
		return pf, &dverdict{sig, fmt.Sprintf("%s (offset %d, delta=%v): %s; client held %s; wire data %.200q", where, p.Offset, p.Delta, a.Err, r.describe(before, hadBefore), string(p.Data))}
	}
	want := 0
	if p.Offset != 0 {
		want = r.offToID[int(p.Offset)]
		if want == 0 || !bytes.Equal(a.Data, r.pl.get(want)) {
			return pf, &dverdict{sig, fmt.Sprintf("%s (offset %d, delta=%v): reconstructed payload %.60q differs from the payload published at that offset %.60q; client held %s", where, p.Offset, p.Delta, string(a.Data), string(r.pl.get(want)), r.describe(before, hadBefore))}
		}
		pf.ID = want
	} else {
		pf.ID = r.pl.idOf(a.Data)
		if pf.ID == 0 {
			return pf, &dverdict{sig, fmt.Sprintf("%s (no offset, delta=%v): reconstructed payload %.60q is none of the published payloads; client held %s", where, p.Delta, string(a.Data), r.describe(before, hadBefore))}
		}
	}
	return pf, nil
}

func (r *dRunner) describe(b []byte, has bool) string {
	if !has {
		return "nothing"
	}
	if id := r.pl.idOf(b); id != 0 {
		return fmt.Sprintf("payload #%d", id)
	}
	return fmt.Sprintf("%.40q (not a published payload)", string(b))
}

func sameDFrames(real, model []dframe, r *dRunner) (bool, string) {
	if len(real) != len(model) {
		return false, "number of frames"
	}
	samePub := func(a, b pframe) bool {
		if a.Off != b.Off || a.ID != b.ID {
			return false
		}
		if a.Delta != b.Delta {
			// the server legitimately falls back to a full payload when the patch is not smaller
			return b.Delta && !a.Delta && !a.Could
		}
		return true
	}
	for i := range real {
		x, y := real[i], model[i]
		if x.T != y.T || x.Off != y.Off || x.Recovered != y.Recovered || len(x.Pubs) != len(y.Pubs) {
			return false, fmt.Sprintf("frame %d", i)
		}
		for j := range x.Pubs {
			if !samePub(x.Pubs[j], y.Pubs[j]) {
				return false, fmt.Sprintf("frame %d publication %d", i, j)
			}
		}
		if (x.P == nil) != (y.P == nil) || (x.P != nil && !samePub(*x.P, *y.P)) {
			return false, fmt.Sprintf("frame %d", i)
		}
	}
	return true, ""
}

// ---------------------------------------------------------------- one behaviour

func (w *dWorker) run(bi int, beh []map[string]any, proto centrifuge.ProtocolType, compare bool, res *vh.Result) {
	cfg := vh.Map(beh[0]["cfg"])
	r := &dRunner{w: w, proto: proto, cfg: cfg, kind: vh.Str(cfg["kind"]), filt: vh.Bool(cfg["filt"]), med: vh.Bool(cfg["med"]),
		deliveries: map[int]delivery{}, offToID: map[int]int{}, tagOf: map[int]string{}, udOf: map[int]bool{}}
	prefix := "dn"
	if r.med {
		prefix = "dm"
	}
	r.ch = fmt.Sprintf("%s%d_%d_%s", prefix, vh.Seed(), bi, r.protoName())
	// JSON payloads: every second behaviour without multi-byte characters, so that the base-tracking paths are
	// exercised independently of how a delta that cuts a UTF-8 sequence travels in a JSON string
	r.pl = newPayloads(vh.Seed()*1000003+int64(bi)*7+int64(len(r.protoName())), proto == centrifuge.ProtocolTypeProtobuf, bi%2 == 0)
	w.runners.Store(r.ch, r)
	defer w.runners.Delete(r.ch)

	var steps []any
	completed := 1
	replay := func(extra map[string]any) map[string]any {
		m := map[string]any{"cfg": cfg, "proto": r.protoName(), "steps": steps}
		for k, v := range extra {
			m[k] = v
		}
		return m
	}
	drift := func(what string) {
		res.Drift("C14", fmt.Sprintf("%s (behaviour %d %s, cfg %s)", what, bi, r.protoName(), vh.J(cfg)), replay(nil))
		completed = 0
	}
	newConn := func() bool {
		conn, err := newKConn(w.env, "u", proto)
		if err != nil {
			drift("NewConn: " + err.Error())
			return false
		}
		if conn.Connect() == nil {
			drift("connect failed")
			return false
		}
		r.conn, r.from, r.consumed, r.unsubs = conn, 0, 0, 0
		return true
	}
	if !newConn() {
		res.Done(1, 0)
		return
	}
	var conns []*kConn
	defer func() {
		for _, c := range append(conns, r.conn) {
			c.Client.Disconnect()
			c.Cancel()
		}
	}()
	releaseAll := func() {
		for _, g := range []*cl.Gate{r.g1, r.g2, r.g3} {
			if g != nil {
				g.Release()
			}
		}
		if r.subDone != nil {
			select {
			case <-r.subDone:
			case <-time.After(gateTimeout):
			}
		}
	}
	defer releaseAll()

	var seen []dframe // frames of the current session, projected
	nontrivial := false
	deltas := 0
	for si := 1; si < len(beh) && completed == 1; si++ {
		st := beh[si]
		step := vh.Map(st["step"])
		act := vh.Str(step["act"])
		steps = append(steps, step)
		switch act {
		case "Publish":
			id := vh.Int(step["id"])
			tag := vh.Str(step["tag"])
			r.mu.Lock()
			r.curID = id
			r.mu.Unlock()
			ud := true
			if v, ok := step["ud"]; ok {
				ud = vh.Bool(v)
			}
			opts := []centrifuge.PublishOption{centrifuge.WithTags(map[string]string{"t": tag}), centrifuge.WithDelta(ud)}
			if r.kind != "nohist" {
				opts = append(opts, centrifuge.WithHistory(w.hist, time.Minute))
			}
			pk := "sim"
			if v, ok := step["pk"]; ok {
				pk = vh.Str(v)
			}
			pr, err := w.env.Node.Publish(r.ch, r.pl.getKind(id, pk), opts...)
			if err != nil {
				drift("publish: " + err.Error())
				break
			}
			r.tagOf[id] = tag
			r.udOf[id] = ud
			if r.kind != "nohist" {
				r.offToID[int(pr.Offset)] = id
			}
		case "ClearHistory":
			if err := w.env.Node.RemoveHistory(r.ch); err != nil {
				drift("remove history: " + err.Error())
			}
		case "Drop":
			r.mu.Lock()
			delete(r.deliveries, vh.Int(step["id"]))
			r.mu.Unlock()
			r.sessDrops++
		case "Deliver":
			id := vh.Int(step["id"])
			keep := vh.Bool(step["keep"])
			r.mu.Lock()
			d, ok := r.deliveries[id]
			inOrder := true
			for other := range r.deliveries {
				if other < id {
					inOrder = false
				}
			}
			if !keep {
				delete(r.deliveries, id)
			}
			r.mu.Unlock()
			if !ok {
				drift(fmt.Sprintf("delivery %d not captured", id))
				break
			}
			if keep {
				r.sessDups++
			}
			if !inOrder {
				r.sessReorders++
			}
			if r.filt && r.tagOf[id] == "drop" {
				r.filteredSinceLastFrame = true
				if pcNow := vh.Str(beh[si-1]["pc"]); pcNow == "g1" || pcNow == "g2" || pcNow == "g3" {
					r.winFiltered = true
				}
			}
			if !r.udOf[id] {
				r.nonDeltaSinceFrame = true
			}
			pub := *d.pub
			if err := w.gb.Deliver(r.ch, &pub, d.sp, d.delta, d.prev); err != nil {
				drift("deliver: " + err.Error())
			}
		case "SubStart":
			id := r.conn.NextID()
			r.subID = id
			r.g1, r.g2, r.g3 = cl.NewGate(), nil, nil
			if r.kind == "pos" || r.kind == "rec" {
				r.g2, r.g3 = cl.NewGate(), cl.NewGate()
			}
			req := &protocol.SubscribeRequest{Channel: r.ch, Delta: "fossil"}
			if r.filt {
				req.Tf = &protocol.FilterNode{Key: "t", Cmp: "eq", Val: "keep"}
			}
			recovering := r.kind == "rec" && r.hasPos
			if recovering {
				req.Recover, req.Offset, req.Epoch = true, r.off, r.epoch
			}
			if compare && (recovering != vh.Bool(step["recover"]) || (recovering && int(r.off) != vh.Int(step["since"]))) {
				drift(fmt.Sprintf("client position differs from the model: real recover=%v since=%d, model %s", recovering, r.off, vh.J(step)))
				break
			}
			r.subDone = make(chan struct{})
			conn := r.conn
			go func(done chan struct{}) {
				defer close(done)
				conn.Do(&protocol.Command{Id: id, Subscribe: req})
			}(r.subDone)
			if !r.g1.WaitArrived(gateTimeout) {
				drift("subscriber did not reach Broker.Subscribe")
			}
			r.sessDrops, r.sessDups, r.sessReorders = 0, 0, 0
			r.winFiltered = false
		case "SubToHistory":
			r.g1.Release()
			if !r.g2.WaitArrived(gateTimeout) {
				drift("subscriber did not reach Broker.History")
			}
		case "SubHistRead":
			r.g2.Release()
			if !r.g3.WaitArrived(gateTimeout) {
				drift("subscriber did not return from Broker.History")
			}
		case "SubFinish":
			if r.g3 != nil {
				r.g3.Release()
			} else {
				r.g1.Release()
			}
			select {
			case <-r.subDone:
			case <-time.After(gateTimeout):
				drift("subscribe command did not finish")
			}
			if vh.Str(st["pc"]) == "failed" {
				r.conn.T.WaitFor(2*time.Second, func(_ []*protocol.Reply, closed bool) bool { return closed })
			}
			nontrivial = true
		case "EndSession":
			if closed, _ := r.conn.T.Closed(); closed {
				conns = append(conns, r.conn)
				if !newConn() {
					break
				}
			} else {
				subscribed := false
				for _, c := range r.conn.Client.Channels() {
					if c == r.ch {
						subscribed = true
					}
				}
				if subscribed {
					uid := r.conn.NextID()
					r.conn.Do(&protocol.Command{Id: uid, Unsubscribe: &protocol.UnsubscribeRequest{Channel: r.ch}})
					if rep := r.conn.WaitReply(uid, 2*time.Second); rep == nil || rep.Unsubscribe == nil {
						drift("unsubscribe got no reply")
						break
					}
				}
				r.conn.Barrier(2 * time.Second)
				// everything of the old session is consumed by the client before the new one starts
				if vs := r.consume(&seen); len(vs) > 0 {
					for _, v := range vs {
						r.report(res, v, bi, replay(map[string]any{"frames": seen}))
					}
					completed = 0
					break
				}
				r.from = len(r.conn.Frames())
				r.consumed = r.from
			}
			seen = nil
			r.lastReplyRecovered, r.lastReplyPubs, r.livePushesSinceReply = false, 0, 0
		default:
			drift("unknown action " + act)
		}
		if completed == 0 {
			break
		}
		pc := vh.Str(st["pc"])
		if pc == "g1" || pc == "g2" || pc == "g3" {
			continue // the subscribe command is parked inside HandleCommand: no barrier, compare at the next quiescent point
		}
		// quiescent point: the subscriber is not parked (or cannot be affected), flush the connection
		mo := modelFrames(st)
		if closed, _ := r.conn.T.Closed(); !closed {
			wantUnsub := len(mo) > 0 && mo[len(mo)-1].T == "unsub"
			seenUnsub := len(seen) > 0 && seen[len(seen)-1].T == "unsub"
			if wantUnsub && !seenUnsub {
				// the insufficient-state unsubscribe runs on its own goroutine: wait for one more unsubscribe push than
				// the connection has received in earlier sessions
				have := 0
				for _, rep := range r.conn.Frames() {
					if rep.Push != nil && rep.Push.Channel == r.ch && rep.Push.Unsubscribe != nil {
						have++
					}
				}
				if have <= r.unsubs {
					r.conn.T.WaitFor(3*time.Second, func(rs []*protocol.Reply, closed bool) bool {
						n := 0
						for _, rep := range rs {
							if rep.Push != nil && rep.Push.Channel == r.ch && rep.Push.Unsubscribe != nil {
								n++
							}
						}
						return n > r.unsubs || closed
					})
				}
			}
			r.conn.Barrier(2 * time.Second)
		}
		vs := r.consume(&seen)
		bad := false
		for _, v := range vs {
			if strings.HasPrefix(v.what, "drift:") {
				drift(strings.TrimPrefix(v.what, "drift:"))
				continue
			}
			r.report(res, v, bi, replay(map[string]any{"frames": seen, "model_out": mo}))
			bad = true
		}
		if bad {
			completed = 0
			break
		}
		real := append([]dframe(nil), seen...)
		if closed, _ := r.conn.T.Closed(); closed {
			real = append(real, dframe{T: "disc"})
		}
		if compare {
			if ok, where := sameDFrames(real, mo, r); !ok {
				drift(fmt.Sprintf("frames differ after %s (%s): real %s, model %s", act, where, vh.J(real), vh.J(mo)))
			}
		}
	}
	for _, f := range seen {
		if f.P != nil && f.P.Delta {
			deltas++
		}
		for _, p := range f.Pubs {
			if p.Delta {
				deltas++
			}
		}
	}
	if completed == 1 && nontrivial {
		res.Distinct(r.protoName() + vh.J(cfg) + vh.J(steps))
		res.Count("real_delta_frames_last_session", deltas)
		res.Count("kind:"+r.kind, 1)
	}
	if bi < 2 {
		res.Sample(replay(map[string]any{"frames_last_session": seen}))
	}
	res.Done(1, completed)
}

func (r *dRunner) report(res *vh.Result, v dverdict, bi int, replay map[string]any) {
	res.Violate("C14", v.sig, fmt.Sprintf("%s (behaviour %d %s, cfg %s)", v.what, bi, r.protoName(), vh.J(r.cfg)), replay)
}

type deltaIn struct {
	HistSize   int                `json:"hist_size"`
	Compare    bool               `json:"compare"`
	Protos     []string           `json:"protos"`
	Behaviours [][]map[string]any `json:"behaviours"`
}

func deltaMode(in json.RawMessage, res *vh.Result) error {
	var di deltaIn
	if err := json.Unmarshal(in, &di); err != nil {
		return err
	}
	if len(di.Protos) == 0 {
		di.Protos = []string{"json", "protobuf"}
	}
	type job struct {
		bi    int
		proto centrifuge.ProtocolType
	}
	const nw = 6
	var wg sync.WaitGroup
	jobs := make(chan job)
	for i := 0; i < nw; i++ {
		w, err := newDWorker(di.HistSize)
		if err != nil {
			return err
		}
		wg.Add(1)
		go func() {
			defer wg.Done()
			defer w.env.Close()
			for j := range jobs {
				w.run(j.bi, di.Behaviours[j.bi], j.proto, di.Compare, res)
			}
		}()
	}
	for bi := range di.Behaviours {
		for _, p := range di.Protos {
			pt := centrifuge.ProtocolTypeJSON
			if p == "protobuf" {
				pt = centrifuge.ProtocolTypeProtobuf
			}
			jobs <- job{bi, pt}
		}
	}
	close(jobs)
	wg.Wait()
	return nil
}
