SPECIFICATION Spec
CONSTANTS
  ClosedCheck = TRUE
  PresenceRecheck = TRUE
VIEW View
INVARIANTS NotScnCloseDoneWhileParked
CHECK_DEADLOCK FALSE
