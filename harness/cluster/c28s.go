// C28, scale: replay of the spec/Cluster/UnsubScale table: n connections of one user on node A, each subscribed to two
// channels; Node.Subscribe / Unsubscribe (named channel and "") / Refresh / Disconnect per user and with AllUsers,
// issued on A and on B. Judged per connection from public observations: EVERY matching connection must show the
// operation's effect (unsubscribe: channels gone, one OnUnsubscribe callback and one unsubscribe push per removed
// channel). Violation "scale:<op>:<user|allusers>:<named|emptych>:connections-untouched".
package main

import (
	"encoding/json"
	"fmt"
	"sync"
	"time"

	"github.com/centrifugal/centrifuge"
	"github.com/centrifugal/protocol"

	"verifharness/vh"
)

type c28sIn struct {
	Rows    []map[string]any `json:"rows"`
	Workers int              `json:"workers"`
}

func c28sRun(cl *cluster, wid int, seq *int, row map[string]any, remote bool) (bad []string, err error) {
	A, B := cl.nodes[0], cl.nodes[1]
	caller := A
	if remote {
		caller = B
	}
	op, path, empty, n := vh.Str(row["op"]), vh.Str(row["path"]), vh.Bool(row["emptych"]), vh.Int(row["n"])
	*seq++
	user := fmt.Sprintf("s%d_%d_%d", vh.Seed(), wid, *seq)
	ch := fmt.Sprintf("sc%d_%d_%d", vh.Seed(), wid, *seq)
	var conns []*hconn
	defer func() {
		for _, h := range conns {
			if !h.closed() {
				h.drop()
			} else {
				h.c.Cancel()
			}
		}
	}()
	for i := 0; i < n; i++ {
		h, e := A.connect(connSpec{Name: fmt.Sprint(i), User: user})
		if e != nil {
			return nil, e
		}
		conns = append(conns, h)
		if op == "unsubscribe" {
			for _, c := range []string{ch, ch + "x"} {
				if e := h.c.Client.Subscribe(c, centrifuge.WithEmitPresence(true)); e != nil {
					return nil, e
				}
			}
		}
	}
	target := user
	if path == "allusers" {
		target = ""
	}
	fm := make([]int, n)
	for i, h := range conns {
		h.c.Barrier(3 * time.Second)
		fm[i] = h.frameMark()
	}
	em := A.evMark()
	switch op {
	case "subscribe":
		err = caller.env.Node.Subscribe(target, ch, centrifuge.WithSubscribeAllUsers(path == "allusers"))
	case "unsubscribe":
		arg := ch
		if empty {
			arg = ""
		}
		err = caller.env.Node.Unsubscribe(target, arg, centrifuge.WithUnsubscribeAllUsers(path == "allusers"))
	case "refresh":
		err = caller.env.Node.Refresh(target, centrifuge.WithRefreshAllUsers(path == "allusers"), centrifuge.WithRefreshExpireAt(time.Now().Unix()+3600))
	case "disconnect":
		err = caller.env.Node.Disconnect(target, centrifuge.WithDisconnectAllUsers(path == "allusers"))
		deadline := time.Now().Add(2 * time.Second)
		for time.Now().Before(deadline) {
			all := true
			for _, h := range conns {
				if !h.closed() {
					all = false
				}
			}
			if all {
				break
			}
			time.Sleep(time.Millisecond)
		}
	}
	if err != nil {
		return nil, err
	}
	cbs := map[string]int{}
	if op == "unsubscribe" {
		for _, h := range conns {
			h.c.Barrier(3 * time.Second)
		}
		for _, ev := range A.evSince(em) {
			if ev.Kind == "unsubscribe" && (ev.Ch == ch || ev.Ch == ch+"x") {
				cbs[ev.Client]++
			}
		}
	}
	for i, h := range conns {
		ok := true
		what := ""
		switch op {
		case "subscribe":
			h.c.Barrier(3 * time.Second)
			ok = h.c.Client.IsSubscribed(ch)
		case "refresh":
			h.c.Barrier(3 * time.Second)
			ok = false
			for _, r := range h.framesSince(fm[i]) {
				if r.Push != nil && r.Push.Refresh != nil {
					ok = true
				}
			}
		case "disconnect":
			ok = h.closed()
		case "unsubscribe":
			want := 1
			if empty {
				want = 2
			}
			pushes := 0
			for _, r := range h.framesSince(fm[i]) {
				if r.Push != nil && r.Push.Unsubscribe != nil && (r.Push.Channel == ch || r.Push.Channel == ch+"x") {
					pushes++
				}
			}
			ok = !h.c.Client.IsSubscribed(ch) && (h.c.Client.IsSubscribed(ch+"x") == !empty) && cbs[h.id] == want && pushes == want
			what = fmt.Sprintf(" (channels %v, %d callbacks, %d pushes, expected %d each)", h.channels(), cbs[h.id], pushes, want)
		}
		if !ok {
			bad = append(bad, fmt.Sprintf("#%d%s", i+1, what))
		}
	}
	_ = protocol.Command{}
	return bad, nil
}

func c28s(in json.RawMessage, res *vh.Result) error {
	var ci c28sIn
	if err := json.Unmarshal(in, &ci); err != nil {
		return err
	}
	nw := ci.Workers
	if nw <= 0 {
		nw = 4
	}
	var wg sync.WaitGroup
	jobs := make(chan int)
	for i := 0; i < nw; i++ {
		c, err := newCluster(2, true, nil)
		if err != nil {
			return err
		}
		wg.Add(1)
		go func(wid int) {
			defer wg.Done()
			defer c.close()
			seq := 0
			for ri := range jobs {
				row := ci.Rows[ri]
				done := 1
				for _, remote := range []bool{false, true} {
					bad, err := c28sRun(c, wid, &seq, row, remote)
					side := map[bool]string{false: "the node holding the connections", true: "another node"}[remote]
					if err != nil {
						res.Drift("C28", fmt.Sprintf("scale row %s on %s: %v", vh.J(row), side, err), nil)
						done = 0
						continue
					}
					if len(bad) > 0 {
						chn := "named"
						if vh.Bool(row["emptych"]) {
							chn = "emptych"
						}
						done = 0
						res.Violate("C28", fmt.Sprintf("scale:%s:%s:%s:connections-untouched", vh.Str(row["op"]), vh.Str(row["path"]), chn),
							fmt.Sprintf("Node.%s (%s targeting, %s channel) called on %s with %d matching connections of one user: %d of them show no / an incomplete effect: %v",
								vh.Str(row["op"]), vh.Str(row["path"]), chn, side, vh.Int(row["n"]), len(bad), bad), map[string]any{"row": row, "remote": remote, "untouched": bad})
					}
				}
				if done == 1 && vh.Int(row["n"]) > 1 {
					res.Distinct(vh.J(row))
				}
				res.Done(1, done)
			}
		}(i)
	}
	for ri := range ci.Rows {
		jobs <- ri
	}
	close(jobs)
	wg.Wait()
	return nil
}
