------------------------------ MODULE ConnDict ------------------------------
(* C11 (dictionary compression part).  The codec life cycle of one WebSocket
   connection: connectCmd installs the engine's DictionaryConnection on the
   transport (SetDictionaryCompression: "pending"), the first write after that
   goes out raw and promotes the codec (handler_websocket.go writeData), every
   later write goes through Encode, close() closes the writer, then the codec
   (CloseDictionaryCompression: whichever of compression / compressionPending
   is set, once), then the transport.  A connection closed while its connect
   command is still inside OnConnecting gets the codec installed afterwards;
   connectCmd closes it itself.

   Scenario table: Init chooses the scenario, the behaviour is deterministic;
   the dump's terminal states carry what the recording engine and the
   WebSocket client must have seen.  The Go harness replays each scenario on
   a real node + WebsocketHandler + raw WebSocket client.                    *)
EXTENDS Naturals, Sequences, FiniteSets

CONSTANTS MaxOps

Ops     == {"rpc", "send"}          \* a command reply, a server push
OpSeqs  == UNION {[1..n -> Ops] : n \in 0..MaxOps}
Closers == {"client", "server", "shutdown"}
\* slow: the stale timer closes the connection while OnConnecting is still running (no codec is ever created:
\* connectCmd notices the closed status before it asks the engine)
\* burst: the pushes of the scenario are issued back to back and the closer follows at once, so that frames are
\* still queued when close() starts (it flushes them, then closes the codec)
\* delay: ConnectReply.WriteDelay > 0 and a Client.Send from the OnConnect handler: the writer collects for the delay, so
\* the connect reply leaves in a BATCHED frame together with that push (Transport.WriteMany instead of Write). The
\* frame that carries the connect reply arms the encoder whatever its shape; with burst the later pushes are issued
\* back to back and share one batched frame as well, which must be an Encode output like any other later frame.
Scenarios == [ops : OpSeqs, closer : Closers, slow : {FALSE}, burst : {FALSE}, delay : {FALSE}]
             \cup {[ops |-> <<>>, closer |-> "server", slow |-> TRUE, burst |-> FALSE, delay |-> FALSE]}
             \cup {[ops |-> o, closer |-> c, slow |-> FALSE, burst |-> TRUE, delay |-> FALSE] : o \in {[x \in 1..n |-> "send"] : n \in 1..MaxOps}, c \in {"server", "shutdown"}}
             \cup [ops : OpSeqs, closer : {"server"}, slow : {FALSE}, burst : {FALSE}, delay : {TRUE}]
             \cup {[ops |-> o, closer |-> "server", slow |-> FALSE, burst |-> TRUE, delay |-> TRUE] : o \in {[x \in 1..n |-> "send"] : n \in 2..MaxOps}}

VARIABLES sc, pc, codec, wire, enc, closes, i
vars == <<sc, pc, codec, wire, enc, closes, i>>

Init ==
  /\ sc \in Scenarios
  /\ pc = "connecting" /\ codec = "none" /\ wire = <<>> /\ enc = 0 /\ closes = 0 /\ i = 0

\* transport.writeData; shape = the write path: "single" (Transport.Write) / "batched" (Transport.WriteMany)
Write(k, shape) ==
  IF codec = "active" THEN wire' = Append(wire, [k |-> k, enc |-> TRUE, shape |-> shape]) /\ enc' = enc + 1 /\ UNCHANGED codec
  ELSE /\ wire' = Append(wire, [k |-> k, enc |-> FALSE, shape |-> shape]) /\ UNCHANGED enc
       /\ codec' = IF codec = "pending" THEN "active" ELSE codec

CloseCodec == IF codec \in {"pending", "active"} THEN codec' = "closed" /\ closes' = closes + 1
                                                 ELSE UNCHANGED <<codec, closes>>

Connect ==
  /\ pc = "connecting"
  /\ IF sc.slow
       THEN \* closed by the stale timer meanwhile: connectCmd returns before the engine is asked; nothing is written
            /\ pc' = "done" /\ UNCHANGED <<codec, closes, wire, enc>>
       ELSE \* SetDictionaryCompression, then the connect reply is the next write
            /\ wire' = Append(wire, IF sc.delay THEN [k |-> "connect+push", enc |-> FALSE, shape |-> "batched"]
                                                ELSE [k |-> "connect", enc |-> FALSE, shape |-> "single"])
            /\ codec' = "active" /\ pc' = "up"
            /\ UNCHANGED <<enc, closes>>
  /\ UNCHANGED <<sc, i>>

Op ==
  /\ pc = "up" /\ i < Len(sc.ops)
  /\ IF sc.delay /\ sc.burst
       THEN i' = Len(sc.ops) /\ Write("sends", "batched")      \* issued within one write delay: one frame
       ELSE i' = i + 1 /\ Write(sc.ops[i + 1], "single")
  /\ UNCHANGED <<sc, pc, closes>>

Close ==
  /\ pc = "up" /\ i = Len(sc.ops)
  /\ CloseCodec /\ pc' = "done"
  /\ UNCHANGED <<sc, wire, enc, i>>

Next == Connect \/ Op \/ Close \/ (pc = "done" /\ UNCHANGED vars)
Spec == Init /\ [][Next]_vars

\* C11: the connect reply goes out uncompressed, every later frame through the encoder, the encoder is closed once
C11_Dict ==
  /\ wire # <<>> => (wire[1].k \in {"connect", "connect+push"} /\ ~wire[1].enc)
  /\ (wire # <<>> /\ sc.delay) => wire[1].shape = "batched"
  /\ \A x \in 2..Len(wire) : wire[x].enc
  /\ closes <= 1
  /\ pc = "done" => closes = (IF sc.slow THEN 0 ELSE 1)
  /\ enc = (IF Len(wire) > 0 THEN Len(wire) - 1 ELSE 0)
=============================================================================
