SPECIFICATION Spec
CONSTANTS
  Nodes = {"n2", "n3"}
  Extra = {}
  MaxSurveys = 2
  MaxDeliver = 8
  LocalModes = {"sync", "async", "never"}
  DupOK = TRUE
  Causal = TRUE
  LocalSend = "nonblocking"
CHECK_DEADLOCK FALSE
