--------------------------- MODULE SharedPollSim ---------------------------
(* Behaviour generator for gate replay (TLC -simulate): the actions of
   SharedPoll under the Replay urgency rules, with weights (the slot variable
   `w` makes the successors of a favoured action distinct; TLC's simulator
   picks uniformly among successor states).  Favoured: backend changes,
   tracking, releasing the worker / publisher from their gates - so that a
   tracked key sees several updates (deltas) within one behaviour. *)
EXTENDS SharedPoll

VARIABLE w
simvars == <<vars, w>>

Urgent == \/ (~SplitTrack /\ ~NoTrackInFlight)
          \/ (Replay /\ (Running("w") \/ Running("p") \/ RevRunning \/ (th["w"].pc = "idle" /\ notifq # <<>>)))

SimNext ==
  IF Urgent THEN Next /\ w' = 0
  ELSE
    \/ \E s \in 1..3, late \in BOOLEAN : Flip("w", late) /\ w' = s
    \/ \E s \in 1..4 : (Enq("w") \/ Enq("p") \/ Flip("p", FALSE)) /\ w' = s
    \/ \E s \in 1..2, k \in Keys : (BackendChange(k) \/ PubStart(k)) /\ w' = s
    \/ \E s \in 1..3, c \in Conns, k \in Keys, v \in 0..(MaxChg + 1) : Track1(c, k, v) /\ w' = s
    \/ \E s \in 1..3, c \in Conns : SplitTrack /\ Track2(c) /\ w' = s
    \/ \E s \in 1..2, c \in Conns : Subscribe(c) /\ w' = s
    \/ \E c \in Conns, k \in Keys : Untrack(c, k) /\ w' = 0
    \/ \E c \in Conns : ClientUnsub(c) /\ w' = 0
    \/ \E k \in Keys : RevStart(k) /\ w' = 0
    \/ (RevPush \/ BackendRestart) /\ w' = 0

SimSpec == Init /\ w = 0 /\ [][SimNext]_simvars
=============================================================================
