SPECIFICATION Spec
CONSTANTS
  Chans = {"a", "b", "c"}
  L = 2
  QMax = 3
  MaxOps = 8
VIEW View
INVARIANTS LimitHolds QueueBound
PROPERTIES LimitAnswered ServerSideDisconnects SlowExact
CHECK_DEADLOCK FALSE
