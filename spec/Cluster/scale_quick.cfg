SPECIFICATION Spec
CONSTANTS
  Counts = {8, 11, 13}
INVARIANTS EveryMatchingConnectionIsTouched
CHECK_DEADLOCK FALSE
