----------------------------- MODULE RedisKeys -----------------------------
(* C34  Redis cluster keys for one operation share a hash slot.

   A key is a sequence of TOKENS: the characters '{' and '}' are always single tokens, channel and
   prefix characters are single tokens, the literal infixes of the Go builders (".stream.", ":state:", ...)
   are one token each (they contain no brace).  Str renders a token sequence.

   Redis Cluster hash-tag rule (cluster spec, "Hash tags"; the same rule is implemented by
   rueidis internal/cmds/slot.go and by /repo/redis_cluster_slot.go redisSlot):
     if the key contains a '{', and there is a '}' to the right of the FIRST '{', and there is at least
     one character between them, only that substring is hashed; otherwise the whole key.
   Two keys with equal Tag hash to the same slot.

   The builders are transcribed from broker_redis.go (messageChannelID, historyStreamKey, historyListKey,
   historyMetaKey, resultCacheKey, pubSubShardChannelID, extractChannel), presence_redis.go
   (presenceHashKey, presenceSetKey, userSetKey, userHashKey) and map_broker_redis.go (buildKey,
   resultCacheKey, cleanupRegistrationKeyForChannel, messageChannelID, extractChannel, and the scan key
   of cleanupShard) for the four deployment modes:
     "plain"    no cluster                       (no slots: only the channel round trip matters)
     "cluster"  Redis Cluster, NumShardedPubSubPartitions = 0        keys are  prefix infix {ch}
     "sharded"  Redis Cluster, partitions > 0, numeric tags           keys are  prefix infix {N}.ch
     "precomp"  Redis Cluster, partitions > 0, UsePrecomputedPartitionTags   prefix infix {T}.ch
   N is the decimal partition index consistentIndex(ch, partitions), T the precomputed tag of that
   index; both are PLACEHOLDER tokens here ("N", "T": brace-free, checked for the real tags by C35 and
   by the harness), substituted by the harness with the real values before comparing key strings.

   The operations (which keys one script call receives) are read from the call sites:
     broker.publish.history      broker_redis.go publish: KEYS = stream|list key, meta key, result key; ARGV[4] = channel
     broker.publish.idempotent   publishIdempotentScript: KEYS = result key; ARGV[2] = channel
     broker.history              historyStream / historyList: KEYS = stream|list key, meta key
     broker.subscribe.sharded    one SSUBSCRIBE connection per partition: shard channel and message channels
     presence.add/remove/stats   4 keys;  presence.get  2 keys
     map.publish / map.remove    addScript: 8 KEYS (stream, meta, result, state hash/order/expire/meta, cleanup
                                 registration; unused ones replaced by the ":nil:" key) + the channel
     map.read.ordered/unordered/stream, map.cleanup (batchRemoveScript: 7 KEYS incl. the cleanup SCAN key + channel)

   Property: for every operation all its keys have the same Tag (SameSlot), and
   extractChannel(messageChannelID(ch)) = ch (RoundTrip).  TLC evaluates it for every bounded
   (mode, prefix, channel) and the spec CLASSIFIES the inputs for which the design is unsound
   (Class); invariant Classified says that no operation fails outside those classes, Tight that
   every classified input really fails.  The rows are replayed into the real builders.           *)
EXTENDS Integers, Sequences, FiniteSets

CONSTANTS ChanChars, MaxChan,     \* channel names: every sequence over ChanChars of length 1..MaxChan (the
                                  \* empty string is not a channel name: every client command rejects it)
          Modes                   \* subset of {"plain", "cluster", "sharded", "precomp"}

LB == "{"
RB == "}"

RECURSIVE Str(_)
Str(q) == IF q = <<>> THEN "" ELSE Head(q) \o Str(Tail(q))

RECURSIVE FirstIdx(_, _, _)
FirstIdx(q, ch, from) == IF from > Len(q) THEN 0 ELSE IF q[from] = ch THEN from ELSE FirstIdx(q, ch, from + 1)

Tag(key) ==
  LET o == FirstIdx(key, LB, 1) IN
  IF o = 0 THEN key
  ELSE LET c == FirstIdx(key, RB, o + 1) IN
       IF c = 0 \/ c = o + 1 THEN key ELSE SubSeq(key, o + 1, c - 1)

---------------------------------------------------------------------------
(* --- configuration ------------------------------------------------------ *)
\* configured prefixes (token sequences); <<>> = not configured -> the constructors' default
Prefixes == {<<>>, <<"p">>, <<"p", LB>>, <<"p", RB>>, <<LB, "p", RB>>, <<"a", LB, RB, "b">>}
Pfx(p) == IF p = <<>> THEN <<"centrifuge">> ELSE p

IsCluster(m) == m # "plain"
Sharded(m)   == m \in {"sharded", "precomp"}
T(m) == IF m = "precomp" THEN <<"T">> ELSE <<"N">>     \* pubSubPartitionHashTag(idx)
N    == <<"N">>                                        \* strconv.Itoa(idx)
Idem == <<"i">>                                        \* the idempotency key

---------------------------------------------------------------------------
(* --- RedisBroker builders (broker_redis.go) ------------------------------ *)
BMsgPrefix(p) == Pfx(p) \o <<".client.">>

BMsgChan(m, p, ch) ==
  IF Sharded(m) THEN BMsgPrefix(p) \o <<LB>> \o T(m) \o <<RB, ".">> \o ch
  ELSE IF IsCluster(m) THEN BMsgPrefix(p) \o <<LB>> \o ch \o <<RB>>
  ELSE BMsgPrefix(p) \o ch

\* historyStreamKey / historyListKey / historyMetaKey share one shape with different infixes
BHist(m, p, ch, infix) ==
  IF ~IsCluster(m) THEN Pfx(p) \o <<infix>> \o ch
  ELSE IF Sharded(m) THEN Pfx(p) \o <<infix, LB>> \o T(m) \o <<RB, ".">> \o ch
  ELSE Pfx(p) \o <<infix, LB>> \o ch \o <<RB>>

BStream(m, p, ch)      == BHist(m, p, ch, ".stream.")
BList(m, p, ch)        == BHist(m, p, ch, ".list.")
BMeta(m, p, ch, lists) == BHist(m, p, ch, IF lists THEN ".list.meta." ELSE ".stream.meta.")

BResult(m, p, ch) ==
  IF ~IsCluster(m) THEN Pfx(p) \o <<".result.">> \o ch \o <<".">> \o Idem
  ELSE IF Sharded(m) THEN Pfx(p) \o <<".result.", LB>> \o T(m) \o <<RB, ".">> \o ch \o <<".">> \o Idem
  ELSE Pfx(p) \o <<".result.", LB>> \o ch \o <<RB, ".">> \o Idem

\* pubSubShardChannelID(idx, 0, TRUE): shardChannel "." psShard ".{" tag "}"
BShardChan(m, p) == Pfx(p) \o <<".shard", ".", "0", ".", LB>> \o T(m) \o <<RB>>

\* extractChannel(isCluster, chID): total; "" (= <<>>) means "unsupported channel"
DropN(q, n) == SubSeq(q, n + 1, Len(q))
HasPrefix(q, pre) == Len(q) >= Len(pre) /\ SubSeq(q, 1, Len(pre)) = pre
TrimPrefix(q, pre) == IF HasPrefix(q, pre) THEN DropN(q, Len(pre)) ELSE q

\* strings.Index(ch, "."): the dot may be a token of its own or the last character of a literal
\* token; in the channel ids built above the first "." after "{tag}" is the single token "." of the
\* builder, and tag placeholders contain none.
BExtract(m, p, chid) ==
  LET c == TrimPrefix(chid, BMsgPrefix(p)) IN
  IF Sharded(m)
    THEN IF ~HasPrefix(c, <<LB>>) THEN <<>>
         ELSE LET i == FirstIdx(c, ".", 1) IN IF i > 1 THEN DropN(c, i) ELSE <<>>
  ELSE IF IsCluster(m)
    THEN IF Len(c) < 2 \/ c[1] # LB \/ c[Len(c)] # RB THEN <<>> ELSE SubSeq(c, 2, Len(c) - 1)
  ELSE c

---------------------------------------------------------------------------
(* --- RedisPresenceManager builders (presence_redis.go): only isCluster matters *)
PKey(m, p, ch, infix) ==
  IF ~IsCluster(m) THEN Pfx(p) \o <<infix>> \o ch ELSE Pfx(p) \o <<infix, LB>> \o ch \o <<RB>>
PHash(m, p, ch)     == PKey(m, p, ch, ".presence.data.")
PSet(m, p, ch)      == PKey(m, p, ch, ".presence.expire.")
PUserSet(m, p, ch)  == PKey(m, p, ch, ".presence.user.expire.")
PUserHash(m, p, ch) == PKey(m, p, ch, ".presence.user.clients.")

---------------------------------------------------------------------------
(* --- RedisMapBroker builders (map_broker_redis.go); the constructor refuses "cluster" *)
MapApplies(m) == m # "cluster"
MKey(m, p, ch, infix) ==
  IF ~IsCluster(m) THEN Pfx(p) \o <<infix>> \o ch
  ELSE Pfx(p) \o <<infix, LB>> \o T(m) \o <<RB, ".">> \o ch
MMsgChan(m, p, ch) ==
  IF Sharded(m) THEN BMsgPrefix(p) \o <<LB>> \o T(m) \o <<RB, ".">> \o ch ELSE BMsgPrefix(p) \o ch
MResult(m, p, ch) ==
  IF ~IsCluster(m) THEN Pfx(p) \o <<".result.">> \o ch \o <<".">> \o Idem
  ELSE Pfx(p) \o <<".result.", LB>> \o T(m) \o <<RB, ".">> \o ch \o <<".">> \o Idem
MCleanupReg(m, p) ==
  IF ~IsCluster(m) THEN Pfx(p) \o <<":cleanup:channels">>
  ELSE Pfx(p) \o <<":cleanup:channels:", LB>> \o T(m) \o <<RB>>
\* The cleanup worker (cleanupShard -> cleanupPartition -> cleanupChannel -> batchRemoveExpired) scans one
\* registration ZSET per partition and hands that key to the batch-remove script as KEYS[5], next to the
\* channel's own keys.  DESIGN INTENT transcribed here: the scanned key of a channel's partition IS the key
\* the channel registered in (cleanupRegistrationKeyForChannel).  At the pinned commit the worker builds
\* it as  Prefix + ":cleanup:channels:{" + strconv.Itoa(i) + "}"  - equal to the registration key only
\* with numeric tags; the harness takes the scanned keys from the real worker and reports the difference.
MCleanupScan(m, p) == MCleanupReg(m, p)
MExtract(m, p, chid) ==
  LET c == TrimPrefix(chid, BMsgPrefix(p)) IN
  IF Sharded(m)
    THEN IF ~HasPrefix(c, <<LB>>) THEN <<>>
         ELSE LET i == FirstIdx(c, ".", 1) IN IF i > 1 THEN DropN(c, i) ELSE <<>>
  ELSE c

---------------------------------------------------------------------------
(* --- all builder outputs of one input, by the names the shim uses ------- *)
Builders(m, p, ch, lists) ==
  <<
    <<"broker.messageChannelID", BMsgChan(m, p, ch)>>,
    <<"broker.historyStreamKey", BStream(m, p, ch)>>,
    <<"broker.historyListKey", BList(m, p, ch)>>,
    <<"broker.historyMetaKey", BMeta(m, p, ch, lists)>>,
    <<"broker.resultCacheKey", BResult(m, p, ch)>>,
    <<"presence.setKey", PSet(m, p, ch)>>,
    <<"presence.hashKey", PHash(m, p, ch)>>,
    <<"presence.userSetKey", PUserSet(m, p, ch)>>,
    <<"presence.userHashKey", PUserHash(m, p, ch)>>
  >>
  \o (IF Sharded(m) THEN << <<"broker.pubSubShardChannelID", BShardChan(m, p)>> >> ELSE <<>>)
  \o (IF MapApplies(m) THEN
       <<
         <<"map.messageChannelID", MMsgChan(m, p, ch)>>,
         <<"map.streamKey", MKey(m, p, ch, ":stream:")>>,
         <<"map.metaKey", MKey(m, p, ch, ":meta:")>>,
         <<"map.stateHashKey", MKey(m, p, ch, ":state:")>>,
         <<"map.stateOrderKey", MKey(m, p, ch, ":state:order:")>>,
         <<"map.stateExpireKey", MKey(m, p, ch, ":state:expire:")>>,
         <<"map.stateMetaKey", MKey(m, p, ch, ":state:meta:")>>,
         <<"map.nilKey", MKey(m, p, ch, ":nil:")>>,
         <<"map.resultCacheKey", MResult(m, p, ch)>>,
         <<"map.cleanupRegistrationKey", MCleanupReg(m, p)>>,
         <<"map.cleanupScanKey", MCleanupScan(m, p)>>
       >>
      ELSE <<>>)

\* operations: name -> builder names whose outputs one script call receives (KEYS and the channel)
Ops(m, lists) ==
  <<
    <<"broker.publish.history",
      {IF lists THEN "broker.historyListKey" ELSE "broker.historyStreamKey", "broker.historyMetaKey",
       "broker.resultCacheKey", "broker.messageChannelID"}>>,
    <<"broker.publish.idempotent", {"broker.resultCacheKey", "broker.messageChannelID"}>>,
    <<"broker.history", {IF lists THEN "broker.historyListKey" ELSE "broker.historyStreamKey", "broker.historyMetaKey"}>>,
    <<"presence.add", {"presence.setKey", "presence.hashKey", "presence.userSetKey", "presence.userHashKey"}>>,
    <<"presence.get", {"presence.setKey", "presence.hashKey"}>>
  >>
  \o (IF Sharded(m) THEN << <<"broker.subscribe.sharded", {"broker.pubSubShardChannelID", "broker.messageChannelID"}>> >> ELSE <<>>)
  \o (IF MapApplies(m) THEN
       <<
         <<"map.publish", {"map.streamKey", "map.metaKey", "map.resultCacheKey", "map.stateHashKey", "map.stateOrderKey",
                           "map.stateExpireKey", "map.stateMetaKey", "map.cleanupRegistrationKey", "map.nilKey",
                           "map.messageChannelID"}>>,
         <<"map.read.ordered", {"map.stateHashKey", "map.stateOrderKey", "map.stateExpireKey", "map.metaKey", "map.stateMetaKey"}>>,
         <<"map.read.stream", {"map.streamKey", "map.metaKey"}>>,
         <<"map.cleanup", {"map.stateHashKey", "map.stateExpireKey", "map.streamKey", "map.metaKey", "map.cleanupScanKey",
                           "map.stateOrderKey", "map.stateMetaKey", "map.messageChannelID"}>>
       >>
      ELSE <<>>)

KeyOf(bs, name) == bs[CHOOSE i \in 1..Len(bs) : bs[i][1] = name][2]

\* the operations whose keys do not all carry the same hash tag
BadOps(m, p, ch, lists) ==
  LET bs  == Builders(m, p, ch, lists)
      ops == Ops(m, lists)
  IN {ops[i][1] : i \in {j \in 1..Len(ops) : Cardinality({Str(Tag(KeyOf(bs, nm))) : nm \in ops[j][2]}) > 1}}

\* channel round trips (by engine)
BadTrips(m, p, ch) ==
     (IF BExtract(m, p, BMsgChan(m, p, ch)) # ch THEN {"broker.extractChannel"} ELSE {})
  \cup (IF MapApplies(m) /\ MExtract(m, p, MMsgChan(m, p, ch)) # ch THEN {"map.extractChannel"} ELSE {})

---------------------------------------------------------------------------
(* --- for which inputs is the design unsound? ---------------------------- *)
\* prefix: the first '{' of the prefix decides the tag of EVERY key
PrefixClass(p) ==
  LET o == FirstIdx(p, LB, 1) IN
  IF o = 0 THEN "ok"                                    \* no '{' in the prefix
  ELSE LET c == FirstIdx(p, RB, o + 1) IN
       IF c = 0 THEN "prefix-unclosed-brace"            \* the tag swallows the builder's infix
       ELSE IF c = o + 1 THEN "prefix-empty-braces"     \* "{}" first: the whole key is hashed
       ELSE "prefix-tag"                                \* a complete {tag} in the prefix: one slot for all
ChanClass(ch) == IF ch[1] = RB THEN "channel-starts-with-}" ELSE "ok"     \* "{" ++ "}..." : empty tag

\* the classes; "sound" = the property must hold for every operation
Class(m, p, ch) ==
  IF ~IsCluster(m) THEN "sound"
  ELSE IF PrefixClass(p) \in {"prefix-unclosed-brace", "prefix-empty-braces"} THEN PrefixClass(p)
  ELSE IF PrefixClass(p) = "prefix-tag" THEN "sound"
  ELSE IF ChanClass(ch) = "ok" THEN "sound"
  ELSE ChanClass(ch)      \* "{ch}" keys: broker in "cluster" mode, presence in every cluster mode

---------------------------------------------------------------------------
(* --- the table ---------------------------------------------------------- *)
\* rows:  <<"ops", mode, lists, <<op, <<builder names>>>>* >>           one per (mode, lists)
\*        <<mode, prefix, lists, channel, class, <<bad ops>>, <<bad round trips>>, <<name, key shape>>* >>
VARIABLE row
vars == <<row>>

SetToSeqStr(S) == LET RECURSIVE F(_)
                      F(X) == IF X = {} THEN <<>> ELSE LET x == CHOOSE y \in X : TRUE IN <<x>> \o F(X \ {x})
                  IN F(S)

MkRow(m, p, ch, lists) ==
  LET bs == Builders(m, p, ch, lists)
  IN <<m, Str(p), lists, Str(ch), Class(m, p, ch),
       SetToSeqStr(IF IsCluster(m) THEN BadOps(m, p, ch, lists) ELSE {}), SetToSeqStr(BadTrips(m, p, ch)),
       [i \in 1..Len(bs) |-> <<bs[i][1], Str(bs[i][2])>>]>>

OpsRow(m, lists) == LET ops == Ops(m, lists) IN
  <<"ops", m, lists, [i \in 1..Len(ops) |-> <<ops[i][1], SetToSeqStr(ops[i][2])>>]>>

Seeds == {<<"seed", m, p, l>> : m \in Modes, p \in Prefixes, l \in BOOLEAN}
Init == row \in Seeds
Next == /\ row[1] = "seed"
        /\ \/ \E n \in 1..MaxChan : \E ch \in [1..n -> ChanChars] : row' = MkRow(row[2], row[3], ch, row[4])
           \/ row' = OpsRow(row[2], row[4])
Spec == Init /\ [][Next]_vars

IsRow == row[1] \notin {"seed", "ops"}
Bad == {row[6][i] : i \in 1..Len(row[6])}
Trips == {row[7][i] : i \in 1..Len(row[7])}

\* every failure lies in a named input class (or is the mode-wide known one)
Classified == IsRow => (row[5] = "sound" => Bad = {} /\ Trips = {})
\* and the classes are exact: a classified cluster-mode input does fail somewhere
Tight == IsRow => (row[5] # "sound" => Bad # {} \/ Trips # {})
=============================================================================
