SPECIFICATION WSpec
CONSTANTS Alphabet = {10, 13, 58, 32, 100, 123, 34, 120}
          MaxMsgs = 0
          MaxLen1 = 3
          MaxLen2 = 0
          Table = FALSE
INVARIANT WType
CHECK_DEADLOCK FALSE
