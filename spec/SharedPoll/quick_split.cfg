SPECIFICATION Spec
CONSTANTS
  Conns = {"c1", "c2"}
  Keys = {"k1"}
  MaxChg = 1
  MaxFlips = 0
  MaxOps = 4
  Versioned = TRUE
  Timer = FALSE
  AllowRevoke = TRUE
  AllowPublish = TRUE
  SplitTrack = TRUE
  AsCoded = {}
  Replay = FALSE
VIEW View
INVARIANTS TypeOK VersionConsistent C25_Epoch HubHasEntry
PROPERTIES C25_Frames 
CHECK_DEADLOCK FALSE
