// C37 (map part): replay of spec/MapSub/MapLimits behaviours.
//
// A real node with ClientChannelLimit 2 and a small ChannelMaxLength; one connection per behaviour gains channels by
// regular subscribes and by map subscribe commands of every first-command shape (STATE first page, STATE with a
// cursor but no reservation, STREAM with recover, LIVE with recover), each as the start of a subscription or as the
// continuation of a reservation.  A command that starts a subscription over the limit / with an over-long name must
// be refused (limit exceeded 106 / bad request 107) and Client.Channels() never exceeds the limit.
package main

import (
	"context"
	"encoding/json"
	"fmt"
	"sync"
	"time"

	"github.com/centrifugal/centrifuge"
	"github.com/centrifugal/protocol"

	"verifharness/cl"
	"verifharness/vh"
)

const (
	limChannelLimit = 2
	limMaxLength    = 8
)

type limWorker struct {
	env   *cl.Env
	inner *centrifuge.MemoryMapBroker
	id    int
}

func newLimWorker(id int) (*limWorker, error) {
	env, err := cl.NewEnv(centrifuge.Config{
		LogLevel:           centrifuge.LogLevelNone,
		ClientChannelLimit: limChannelLimit,
		ChannelMaxLength:   limMaxLength,
		Map: centrifuge.MapConfig{GetMapChannelOptions: func(string) centrifuge.MapChannelOptions {
			return centrifuge.MapChannelOptions{Mode: centrifuge.MapModePersistent, MinPageSize: 1, SubscribeCatchUpTimeout: -1}
		}},
	})
	if err != nil {
		return nil, err
	}
	inner, err := centrifuge.NewMemoryMapBroker(env.Node, centrifuge.MemoryMapBrokerConfig{})
	if err != nil {
		return nil, err
	}
	env.Node.SetMapBroker(inner)
	env.OnSubscribe = func(_ *centrifuge.Client, e centrifuge.SubscribeEvent, cb centrifuge.SubscribeCallback) {
		cb(centrifuge.SubscribeReply{Options: centrifuge.SubscribeOptions{Type: e.Type}}, nil)
	}
	if err := env.Run(); err != nil {
		return nil, err
	}
	return &limWorker{env: env, inner: inner, id: id}, nil
}

// channel names: model channel n, Long = over ChannelMaxLength. Map and stream channels share the names (a channel
// is used by one kind per behaviour: the model never subscribes a held channel again).
func limName(n int, long bool) string {
	if long {
		return fmt.Sprintf("c%d_too_long_name", n)
	}
	return fmt.Sprintf("c%d", n)
}

func (w *limWorker) run(bi int, beh []map[string]any, long map[int]bool, res *attempt) {
	conn, err := w.env.NewConn("u", centrifuge.ProtocolTypeJSON)
	if err != nil || conn.Connect() == nil {
		res.Drift("C37", "connect failed", nil)
		res.Done(1, 0)
		return
	}
	defer func() { conn.Client.Disconnect(); conn.Cancel() }()
	ctx := context.Background()
	var steps []any
	completed := 1
	replay := func() map[string]any {
		return map[string]any{"steps": steps, "frames": cl.DescribeAll(conn.Frames()), "channels": conn.Client.Channels()}
	}
	drift := func(what string) {
		res.Drift("C37", fmt.Sprintf("%s (behaviour %d)", what, bi), replay())
		completed = 0
	}
	type page struct {
		cursor, epoch string
		offset        uint64
	}
	pages := map[string]page{}
	for si := 1; si < len(beh) && completed == 1; si++ {
		st := beh[si]
		step := vh.Map(st["step"])
		steps = append(steps, step)
		ch := limName(vh.Int(step["ch"]), long[vh.Int(step["ch"])])
		switch vh.Str(step["act"]) {
		case "Unsub":
			id := conn.NextID()
			conn.Do(&protocol.Command{Id: id, Unsubscribe: &protocol.UnsubscribeRequest{Channel: ch}})
			if rep := conn.WaitReply(id, 10*time.Second); rep == nil || rep.Unsubscribe == nil {
				drift("unsubscribe failed")
			}
		case "Sub":
			shape := vh.Str(step["shape"])
			req := &protocol.SubscribeRequest{Channel: ch}
			if shape != "stream" {
				// two keys in the channel, page size 1: a STATE first page leaves a reservation with a pending cursor
				for _, k := range []string{"a", "b"} {
					if _, err := w.inner.Publish(ctx, ch, k, centrifuge.MapPublishOptions{Data: []byte(`1`), KeyMode: centrifuge.KeyModeIfNew}); err != nil {
						drift("populate: " + err.Error())
					}
				}
				pos, err := w.inner.ReadStream(ctx, ch, centrifuge.MapReadStreamOptions{Filter: centrifuge.StreamFilter{Limit: 0}})
				if err != nil {
					drift("position: " + err.Error())
					break
				}
				req.Type = int32(centrifuge.SubscriptionTypeMap)
				req.Limit = 1
				p, cont := pages[ch], vh.Bool(step["cont"])
				switch shape {
				case "state0":
					req.Phase = centrifuge.MapPhaseState
				case "stateCur":
					req.Phase = centrifuge.MapPhaseState
					req.Cursor, req.Offset, req.Epoch = "a", pos.Position.Offset, pos.Position.Epoch
					if cont {
						req.Cursor, req.Offset, req.Epoch = p.cursor, p.offset, p.epoch
					}
				case "streamRec", "liveRec":
					req.Phase = map[string]int32{"streamRec": centrifuge.MapPhaseStream, "liveRec": centrifuge.MapPhaseLive}[shape]
					req.Recover, req.Offset, req.Epoch = true, pos.Position.Offset, pos.Position.Epoch
					if cont {
						req.Offset, req.Epoch = p.offset, p.epoch
					}
				}
			}
			id := conn.NextID()
			conn.Do(&protocol.Command{Id: id, Subscribe: req})
			rep := conn.WaitReply(id, 10*time.Second)
			if rep == nil {
				drift("no answer to the subscribe command")
				break
			}
			want := vh.Str(step["res"])
			got, code := "err", 0
			switch {
			case rep.Error != nil:
				code = int(rep.Error.Code)
			case rep.Subscribe != nil && rep.Subscribe.Type == 1 && rep.Subscribe.Phase == centrifuge.MapPhaseState:
				got = "page"
				pages[ch] = page{rep.Subscribe.Cursor, rep.Subscribe.Epoch, rep.Subscribe.Offset}
			case rep.Subscribe != nil:
				got = "live"
			}
			held := len(conn.Client.Channels())
			refused := want == "err" && (vh.Int(step["code"]) == 106 || vh.Int(step["code"]) == 107)
			switch {
			case refused && got != "err":
				// C37: a command that starts a subscription over the limit / with an over-long name went through
				why := map[int]string{106: "over-limit", 107: "name-too-long"}[vh.Int(step["code"])]
				res.Violate("C37", "limit:map-first-command-not-validated:"+shape+":"+why, fmt.Sprintf("a %s command that STARTS a subscription (no reservation for %q) was answered %q although %s; the connection now holds channels %v (behaviour %d)",
					shape, ch, cl.Describe(rep), map[string]string{"over-limit": fmt.Sprintf("the connection already holds ClientChannelLimit = %d channels", limChannelLimit), "name-too-long": fmt.Sprintf("the channel name is longer than ChannelMaxLength = %d", limMaxLength)}[why], conn.Client.Channels(), bi), replay())
				completed = 0
			case held > limChannelLimit:
				res.Violate("C37", "limit:client-channel-limit-exceeded:"+shape, fmt.Sprintf("after a %s command the connection is subscribed to %d channels %v, ClientChannelLimit = %d (behaviour %d)", shape, held, conn.Client.Channels(), limChannelLimit, bi), replay())
				completed = 0
			case got != want || (want == "err" && code != vh.Int(step["code"])):
				drift(fmt.Sprintf("%s on %q: answered %s, the model says %s %v", shape, ch, cl.Describe(rep), want, step["code"]))
			}
		}
	}
	if completed == 1 {
		res.Distinct(vh.J(steps))
	}
	if bi < 2 {
		res.Sample(replay())
	}
	res.Done(1, completed)
}

func limits(in json.RawMessage, res *vh.Result) error {
	var ri struct {
		Long       []int              `json:"long"`
		Behaviours [][]map[string]any `json:"behaviours"`
	}
	if err := json.Unmarshal(in, &ri); err != nil {
		return err
	}
	long := map[int]bool{}
	for _, n := range ri.Long {
		long[n] = true
	}
	const nw = 4
	var wg sync.WaitGroup
	jobs := make(chan int)
	for i := 0; i < nw; i++ {
		w, err := newLimWorker(i)
		if err != nil {
			return err
		}
		wg.Add(1)
		go func() {
			defer wg.Done()
			defer w.env.Close()
			for bi := range jobs {
				var final, first *attempt
				for try := 0; try < 3; try++ {
					a := &attempt{}
					func() {
						defer func() {
							if p := recover(); p != nil {
								a.Drift("C37", fmt.Sprintf("panic in behaviour %d: %v", bi, p), nil)
							}
						}()
						w.run(bi, ri.Behaviours[bi], long, a)
					}()
					final = a
					if first == nil {
						first = a
					}
					if len(a.violations) == 0 && len(a.drifts) == 0 {
						break
					}
					if try > 0 && len(a.violations) > 0 && a.sigs() == first.sigs() {
						break
					}
				}
				for _, v := range final.violations {
					res.Violate(v.Prop, v.Sig, v.What, v.Replay)
				}
				for _, d := range final.drifts {
					res.Drift(d.Prop, d.What, d.Replay)
				}
				for _, k := range final.distinct {
					res.Distinct(k)
				}
				for _, x := range final.samples {
					res.Sample(x)
				}
				res.Done(1, final.completed)
			}
		}()
	}
	for bi := range ri.Behaviours {
		jobs <- bi
	}
	close(jobs)
	wg.Wait()
	return nil
}
