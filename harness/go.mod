module verifharness

go 1.25.0

require (
	github.com/centrifugal/centrifuge v0.0.0
	github.com/centrifugal/protocol v0.21.1
)

require (
	github.com/FZambia/eagle v0.2.0 // indirect
	github.com/beorn7/perks v1.0.1 // indirect
	github.com/cespare/xxhash/v2 v2.3.0 // indirect
	github.com/google/uuid v1.6.0 // indirect
	github.com/josharian/intern v1.0.0 // indirect
	github.com/mailru/easyjson v0.7.7 // indirect
	github.com/maypok86/otter/v2 v2.3.0 // indirect
	github.com/munnerz/goautoneg v0.0.0-20191010083416-a7dc8b61c822 // indirect
	github.com/planetscale/vtprotobuf v0.6.0 // indirect
	github.com/prometheus/client_golang v1.24.1 // indirect
	github.com/prometheus/client_model v0.6.2 // indirect
	github.com/prometheus/common v0.70.1 // indirect
	github.com/prometheus/procfs v0.21.1 // indirect
	github.com/quagmt/udecimal v1.10.1 // indirect
	github.com/redis/rueidis v1.0.77 // indirect
	github.com/segmentio/asm v1.2.1 // indirect
	github.com/segmentio/encoding v0.5.4 // indirect
	github.com/shadowspore/fossil-delta v0.0.0-20241213113458-1d797d70cbe3 // indirect
	github.com/stretchr/testify v1.12.1 // indirect
	github.com/valyala/bytebufferpool v1.0.0 // indirect
	go.yaml.in/yaml/v3 v3.0.5 // indirect
	golang.org/x/sync v0.22.0 // indirect
	golang.org/x/sys v0.47.0 // indirect
	google.golang.org/protobuf v1.36.12 // indirect
)

replace github.com/centrifugal/centrifuge => /repo
