SPECIFICATION Spec
CONSTANTS Vals    <- ValsQuick
          SetVals <- SetValsQuick
          NumEdge <- NumEdgeQuick
          ArityB = 2
          WideB = FALSE
          WideC = FALSE
INVARIANTS ThAbsentKey ThDuals ThNumeric ThConnectives ThTotal ThTable
CHECK_DEADLOCK FALSE
