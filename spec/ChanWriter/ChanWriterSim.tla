--------------------------- MODULE ChanWriterSim ---------------------------
(* Behaviour generator for the sequential replay (TLC -simulate): the actions
   of ChanWriter with AtomicAdd = TRUE and StaleTimers = FALSE.  The simulator
   picks uniformly among successor STATES; the slot variable `sl` gives every
   operation class a fixed number of distinct successors (Add 3 per item kind,
   TimerFire 3, DelWriter 1 per flush flag, Close 1 with the flag taken from a
   state hash), so that behaviours are dominated by adds and timer fires and
   carry a few removals / closes at varying places.                          *)
EXTENDS ChanWriter

VARIABLE sl
simvars == <<vars, sl>>

SimNext ==
  \/ \E t \in Threads, it \in Items(nadd + 1), s \in 1..3 : Add(t, it) /\ sl' = s
  \/ \E x \in tg, s \in 1..3 : TimerFire(x) /\ sl' = s
  \/ \E fl \in BOOLEAN : DelWriter(fl) /\ sl' = 0
  \/ Close((nadd + nend) % 2 = 0) /\ sl' = 0

SimSpec == Init /\ sl = 0 /\ [][SimNext]_simvars
=============================================================================
