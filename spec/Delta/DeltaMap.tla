------------------------------ MODULE DeltaMap ------------------------------
(* C14, map paths: per-key delta bases of one map subscriber (persistent map
   channel with a stream, fossil delta negotiated), sequential: publishes and
   removals reach the subscriber synchronously, the subscriber runs the whole
   subscribe protocol (state pages -> stream -> live, or a recovery join from
   its position) as one step.  (Interleavings of the map subscribe phases with
   publications are the subject of spec/MapSub; here only WHAT is sent counts.)

   As the code has it:
     client_map.go   state entries are full payloads (escapeStateForDelta for
                     JSON); flagDeltaAllowed is set from the start
                     (buildMapChannelFlags): there is no first-full rule, the
                     state IS the base; recovered stream publications of the
                     live join: tags filters applied first, then
                     makeRecoveredMapPubsDeltaFossil: per key the first
                     occurrence full, later ones against the previous
                     occurrence, a removal resets the key
     map_broker_memory.go  UseDelta: prevPub = the key's previous state value
     hub.go / client.go    live: brokerDelta against that prevPub; a
                     publication the tags filter excludes is still written to a
                     delta subscriber (Withhold = FALSE, see Delta.tla)

   The client keeps one payload per key (state map of the SDK), across
   resubscribes with recovery; a fresh subscribe (state phase) replaces it.   *)
EXTENDS Integers, Sequences, FiniteSets, TLC

CONSTANTS Keys, MaxPub, MaxSubs, Filts, Withhold, DeltaOpts,
          AsCodedFilter   \* TRUE: delta stays negotiated for a subscription with a tags filter (as coded);
                          \* FALSE (reference): a filtered subscription gets full payloads only

VARIABLES st, log, npub, filt, live, cl, nsub, out, step
vars == <<st, log, npub, filt, live, cl, nsub, out, step>>

Zero == [k \in Keys |-> 0]
Filtered(tag) == filt /\ tag = "drop"
DeltaOn == AsCodedFilter \/ ~filt

Init ==
  /\ st = Zero /\ log = <<>> /\ npub = 0 /\ filt \in Filts /\ live = FALSE
  /\ cl = [has |-> FALSE, pos |-> 0, held |-> Zero] /\ nsub = 0 /\ out = <<>>
  /\ step = [act |-> "Init"]

Frame(k, off, id, prev, hb, rm) == [k |-> k, off |-> off, id |-> id, delta |-> prev # 0, base |-> prev, hb |-> hb, rm |-> rm]

\* ud = MapPublishOptions.UseDelta of this publication (only then the broker hands over the key's previous value)
Publish(k, tag, ud) ==
  /\ npub < MaxPub /\ npub' = npub + 1
  /\ LET id == npub + 1
         off == Len(log) + 1
         prev == IF ud THEN st[k] ELSE 0
         withheld == Filtered(tag) /\ (Withhold \/ ~DeltaOn)
     IN /\ st' = [st EXCEPT ![k] = id]
        /\ log' = Append(log, [k |-> k, id |-> id, rm |-> FALSE, tag |-> tag])
        /\ IF live /\ ~withheld
             THEN /\ out' = <<Frame(k, off, id, IF DeltaOn THEN prev ELSE 0, cl.held[k], FALSE)>>
                  /\ cl' = [cl EXCEPT !.held[k] = id, !.pos = off]
             ELSE /\ out' = <<>> /\ UNCHANGED cl      \* a withheld publication does not move the client's position
  /\ UNCHANGED <<filt, live, nsub>>
  /\ step' = [act |-> "Publish", k |-> k, tag |-> tag, id |-> npub + 1, ud |-> ud]

\* the removal publication carries the tags of the removed entry
Remove(k) ==
  /\ st[k] # 0 /\ npub < MaxPub /\ npub' = npub + 1
  /\ LET off == Len(log) + 1 IN
     LET t == log[CHOOSE i \in 1..Len(log) : log[i].id = st[k]].tag
         withheld == Filtered(t) /\ (Withhold \/ ~DeltaOn)
     IN /\ st' = [st EXCEPT ![k] = 0]
        /\ log' = Append(log, [k |-> k, id |-> 0, rm |-> TRUE, tag |-> t])
        /\ IF live /\ ~withheld
             THEN /\ out' = <<Frame(k, off, 0, 0, cl.held[k], TRUE)>>
                  /\ cl' = [cl EXCEPT !.held[k] = 0, !.pos = off]
             ELSE /\ out' = <<>> /\ UNCHANGED cl
  /\ UNCHANGED <<filt, live, nsub>>
  /\ step' = [act |-> "Remove", k |-> k]

TagOf(id) == log[CHOOSE i \in 1..Len(log) : log[i].id = id].tag

RECURSIVE KeySeq(_)
KeySeq(S) == IF S = {} THEN <<>> ELSE LET x == CHOOSE y \in S : \A z \in S : y <= z IN <<x>> \o KeySeq(S \ {x})

\* state phase(s) then live: every visible entry in full
SubFresh ==
  /\ ~live /\ nsub < MaxSubs /\ nsub' = nsub + 1
  /\ LET vis == {k \in Keys : st[k] # 0 /\ ~Filtered(TagOf(st[k]))}
         ks  == KeySeq(vis)
     IN /\ out' = [i \in 1..Len(ks) |-> Frame(ks[i], 0, st[ks[i]], 0, 0, FALSE)]
        /\ cl' = [has |-> TRUE, pos |-> Len(log), held |-> [k \in Keys |-> IF k \in vis THEN st[k] ELSE 0]]
  /\ live' = TRUE
  /\ UNCHANGED <<st, log, npub, filt>>
  /\ step' = [act |-> "SubFresh"]

RECURSIVE Chain(_, _, _)
\* makeRecoveredMapPubsDeltaFossil as the client sees it
Chain(l, prevBy, heldBy) ==
  IF l = <<>> THEN <<>>
  ELSE LET e == Head(l) IN
       IF e.rm THEN <<Frame(e.k, e.off, 0, 0, heldBy[e.k], TRUE)>> \o Chain(Tail(l), [prevBy EXCEPT ![e.k] = 0], [heldBy EXCEPT ![e.k] = 0])
       ELSE <<Frame(e.k, e.off, e.id, IF DeltaOn THEN prevBy[e.k] ELSE 0, heldBy[e.k], FALSE)>>
            \o Chain(Tail(l), [prevBy EXCEPT ![e.k] = e.id], [heldBy EXCEPT ![e.k] = e.id])

\* recovery join from the client's position
SubRecover ==
  /\ ~live /\ cl.has /\ nsub < MaxSubs /\ nsub' = nsub + 1
  /\ LET missed == [i \in 1..(Len(log) - cl.pos) |-> [log[cl.pos + i] EXCEPT !.tag = log[cl.pos + i].tag] @@ [off |-> cl.pos + i]]
         vis == SelectSeq(missed, LAMBDA e : ~Filtered(e.tag))
         fr  == Chain(vis, Zero, cl.held)
         RECURSIVE Fold(_, _)
         Fold(s, h) == IF s = <<>> THEN h ELSE Fold(Tail(s), [h EXCEPT ![Head(s).k] = Head(s).id])
     IN /\ out' = fr
        /\ cl' = [cl EXCEPT !.pos = Len(log), !.held = Fold(fr, cl.held)]
  /\ live' = TRUE
  /\ UNCHANGED <<st, log, npub, filt>>
  /\ step' = [act |-> "SubRecover", since |-> cl.pos]

Unsub ==
  /\ live /\ live' = FALSE /\ out' = <<>>
  /\ UNCHANGED <<st, log, npub, filt, cl, nsub>>
  /\ step' = [act |-> "Unsub"]

Next ==
  \/ \E k \in Keys, t \in (IF filt THEN {"keep", "drop"} ELSE {"keep"}), ud \in DeltaOpts : Publish(k, t, ud)
  \/ \E k \in Keys : Remove(k)
  \/ SubFresh \/ SubRecover \/ Unsub

Spec == Init /\ [][Next]_vars

\* C14 on the frames of the last step: a delta only against the payload the client holds for that key
C14Map == \A i \in 1..Len(out) : out[i].delta => (out[i].hb # 0 /\ out[i].base = out[i].hb)
TypeOK == npub <= MaxPub /\ nsub <= MaxSubs
View == <<st, log, npub, filt, live, cl, nsub, out>>
=============================================================================
