// C25: gate replay of spec/SharedPoll behaviours on a real node with a scripted OnSharedPoll backend.
//
// Threads of the model and where the harness holds them (public interfaces only, no hook in /repo):
//   refresh worker  - inside the OnSharedPoll handler: entry (the model's WCallNotif decides what the backend
//                     answers) and return (Flip = applyRefreshResponse starts);
//   keyed write     - between phase 1 (outside c.mu) and the locked enqueue of keyedWritePublication the code emits a
//                     trace log entry ("-out->") carrying the client id: the LogHandler parks the writing goroutine
//                     there when the model has other steps between Prep and Enq; the same entry is emitted by the
//                     removal write of SharedPollRevokeKeys between the key-state delete and the write;
//   publisher/revoker - goroutines of the harness (SharedPollPublish / SharedPollRevokeKeys calls).
// The refresh timer is off (1 h interval): every backend call is a notified refresh, triggered by the code itself
// (cold key, needsBroadcast). A hidden connection tracking a sentinel key gives a barrier on the worker goroutine
// (a notification for the sentinel is answered only after everything queued before it was processed).
//
// Verdict: observable-only monitors on the frames each connection received (version monotonic per key, update only
// for tracked keys, every delta applies with the real fossil Apply to the bytes the connection holds and yields
// the payload the backend defined for that key/version, epoch flip ends every subscription). Frames that differ
// from the model with all monitors true are drift.
package main

import (
	"bytes"
	"context"
	"encoding/json"
	"fmt"
	"runtime"
	"strconv"
	"strings"
	"sync"
	"sync/atomic"
	"time"

	"github.com/centrifugal/centrifuge"
	"github.com/centrifugal/protocol"

	"verifharness/cl"
	"verifharness/vh"
)

const (
	spSentinel   = "zz"
	spGateWait   = 4 * time.Second
	unsubCodeIns = 2500
)

func goid() int64 {
	var buf [64]byte
	n := runtime.Stack(buf[:], false)
	f := strings.Fields(string(buf[:n]))
	if len(f) < 2 {
		return -1
	}
	id, _ := strconv.ParseInt(f[1], 10, 64)
	return id
}

type bkItem struct {
	ver uint64
	id  int
}

type spArrival struct {
	thread string // "w", "p", "r"
	kind   string // "call", "write"
	keys   []string
	uid    string
	key    string
	ver    uint64
	rm     bool
	resume chan *centrifuge.SharedPollResult // for "call"
	goOn   chan struct{}                     // for "write"
}

type parkPolicy struct {
	uid string
	key string
	ver uint64
	rm  bool
}

type spFrame struct {
	T     string `json:"t"`
	K     string `json:"k,omitempty"`
	Ver   int    `json:"ver,omitempty"`
	Data  int    `json:"data,omitempty"`
	Delta bool   `json:"delta,omitempty"`
	Ep    int    `json:"ep,omitempty"`
	Could bool   `json:"-"` // a full frame although a smaller (and transportable) patch against the held bytes exists
}

type spConn struct {
	name     string
	conn     *kConn
	subID    uint32
	reqs     map[uint32]spFrame // pending sub-refresh requests by command id
	held     map[string]*holder
	cver     map[string]uint64
	tracked  map[string]bool
	ended    map[string]string // why the connection stopped tracking the key: untrack / removal / unsubscribe
	app      map[string]int    // payload the application has per key (kept over untrack when it re-tracks with its version)
	park     *cl.Gate          // the connection's track command is parked in OnCommandProcessed (between reply and hub join)
	parkDone chan struct{}
	parkKind string            // cached-item / same-version / zero: how the parked track stood to the server entry
	parkKey  string            // the key the parked track is for
	missed   map[string]string // key -> kind of the track window in which an update of the key passed this connection by
	subbed   bool
	neg      bool
	consumed int
	seen     []spFrame
	epoch    string
}

type spRunner struct {
	env       *cl.Env
	ch        string
	proto     centrifuge.ProtocolType
	versioned bool
	pl        *payloads

	mu       sync.Mutex
	bk       map[string]bkItem
	bep      int
	curSep   int
	defs     map[string]int // "ep|key|ver" -> payload id (what the backend defined)
	keyIDs   map[string]map[int]bool
	gids     map[int64]string
	policy   map[string]*parkPolicy
	arrivals chan *spArrival
	pending  map[string]*spArrival // thread -> parked arrival
	barrier  chan struct{}
	done     map[string]chan struct{}

	trackPark map[string]*cl.Gate // client uid -> armed gate for its next successful track reply
	free  bool // free-running mode: no gates, the backend answers at once, the refresh timer is on
	loose atomic.Bool // the real code left the model: gates no longer park, the backend answers at once
	conns map[string]*spConn
	dummy *spConn
	uidOf map[string]string // conn name -> client uid
}

func epStr(n int) string {
	if n == 0 {
		return ""
	}
	return "e" + strconv.Itoa(n)
}

func epNum(s string) int {
	if s == "" {
		return 0
	}
	n, err := strconv.Atoi(strings.TrimPrefix(s, "e"))
	if err != nil {
		return -1
	}
	return n
}

func newSPRunner(bi int, proto centrifuge.ProtocolType, versioned bool, free ...bool) (*spRunner, error) {
	r := &spRunner{proto: proto, versioned: versioned, free: len(free) > 0 && free[0], ch: fmt.Sprintf("sp%d_%d", vh.Seed(), bi),
		bk: map[string]bkItem{}, defs: map[string]int{}, keyIDs: map[string]map[int]bool{}, gids: map[int64]string{}, policy: map[string]*parkPolicy{},
		arrivals: make(chan *spArrival, 16), pending: map[string]*spArrival{}, barrier: make(chan struct{}, 16),
		done: map[string]chan struct{}{}, conns: map[string]*spConn{}, uidOf: map[string]string{}, trackPark: map[string]*cl.Gate{}}
	r.pl = newPayloads(vh.Seed()*7919+int64(bi)*13+int64(len(proto)), proto == centrifuge.ProtocolTypeProtobuf, bi%2 == 0)
	mode := centrifuge.SharedPollModeVersionless
	if versioned {
		mode = centrifuge.SharedPollModeVersioned
	}
	opts := centrifuge.SharedPollChannelOptions{Mode: mode, KeepLatestData: true, RefreshInterval: time.Hour,
		ChannelShutdownDelay: time.Hour, CallTimeout: time.Minute}
	if r.free {
		opts.RefreshInterval = 25 * time.Millisecond
	}
	env, err := cl.NewEnv(centrifuge.Config{
		LogLevel:   centrifuge.LogLevelTrace,
		LogHandler: r.logGate,
		SharedPoll: centrifuge.SharedPollConfig{GetSharedPollChannelOptions: func(ch string) (centrifuge.SharedPollChannelOptions, bool) {
			return opts, strings.HasPrefix(ch, "sp")
		}},
	})
	if err != nil {
		return nil, err
	}
	r.env = env
	env.OnSubscribe = func(_ *centrifuge.Client, _ centrifuge.SubscribeEvent, cb centrifuge.SubscribeCallback) {
		cb(centrifuge.SubscribeReply{Options: centrifuge.SubscribeOptions{AllowedDeltaTypes: []centrifuge.DeltaType{centrifuge.DeltaTypeFossil}}, ClientSideRefresh: true}, nil)
	}
	env.Setup = func(c *centrifuge.Client) {
		c.OnTrack(func(_ centrifuge.TrackEvent, cb centrifuge.TrackCallback) { cb(centrifuge.TrackReply{}, nil) })
		c.OnSubRefresh(func(_ centrifuge.SubRefreshEvent, cb centrifuge.SubRefreshCallback) { cb(centrifuge.SubRefreshReply{}, nil) })
	}
	// natural gate between the track reply and the keyed-hub join: handleTrack calls handleCommandFinished there
	env.Node.OnCommandProcessed(func(c *centrifuge.Client, e centrifuge.CommandProcessedEvent) {
		if e.Command == nil || e.Command.SubRefresh == nil || e.Command.SubRefresh.Type != 1 || e.Error != nil || e.Reply == nil || e.Reply.Error != nil {
			return
		}
		r.mu.Lock()
		g := r.trackPark[c.ID()]
		delete(r.trackPark, c.ID())
		r.mu.Unlock()
		if g != nil {
			g.Arrive(30 * time.Second)
		}
	})
	env.Node.OnSharedPoll(r.backend)
	if err := env.Run(); err != nil {
		return nil, err
	}
	return r, nil
}

// ---------------------------------------------------------------- gates

// backend is the scripted OnSharedPoll handler.
func (r *spRunner) backend(_ context.Context, ev centrifuge.SharedPollEvent) (centrifuge.SharedPollResult, error) {
	if r.free || r.loose.Load() {
		ks := make([]string, 0, len(ev.Items))
		for _, it := range ev.Items {
			ks = append(ks, it.Key)
		}
		return *r.answer(ks), nil
	}
	keys := make([]string, 0, len(ev.Items))
	onlySentinel := true
	for _, it := range ev.Items {
		keys = append(keys, it.Key)
		if it.Key != spSentinel {
			onlySentinel = false
		}
	}
	if onlySentinel {
		r.mu.Lock()
		ep := r.curSep
		r.mu.Unlock()
		select {
		case r.barrier <- struct{}{}:
		default:
		}
		// answer under the channel's current epoch: the sentinel must never flip it
		return centrifuge.SharedPollResult{Epoch: epStr(ep)}, nil
	}
	a := &spArrival{thread: "w", kind: "call", keys: keys, resume: make(chan *centrifuge.SharedPollResult, 1)}
	r.arrivals <- a
	select {
	case res := <-a.resume:
		return *res, nil
	case <-time.After(30 * time.Second):
		return centrifuge.SharedPollResult{}, fmt.Errorf("verif: backend gate timeout")
	}
}

// logGate is the node's LogHandler: the trace entry written between the two phases of a keyed write.
func (r *spRunner) logGate(e centrifuge.LogEntry) {
	if r.free || r.loose.Load() || e.Message != "-out->" {
		return
	}
	ps, ok := e.Fields["push"].(string)
	if !ok || !strings.Contains(ps, `"pub"`) || !strings.Contains(ps, r.ch) {
		return
	}
	uid, _ := e.Fields["client"].(string)
	var push map[string]any
	if json.Unmarshal([]byte(ps), &push) != nil {
		return
	}
	pm, _ := push["pub"].(map[string]any)
	if pm == nil || push["channel"] != r.ch {
		return
	}
	pkey, _ := pm["key"].(string)
	if pkey == spSentinel {
		return
	}
	var pver uint64
	switch x := pm["version"].(type) { // encoding/json: number; protojson fallback: string
	case float64:
		pver = uint64(x)
	case string:
		pver, _ = strconv.ParseUint(x, 10, 64)
	}
	prm, _ := pm["removed"].(bool)
	g := goid()
	r.mu.Lock()
	thread, known := r.gids[g]
	if !known {
		thread = "w"
	}
	pol := r.policy[thread]
	match := pol != nil && pol.uid == uid && pol.key == pkey && pol.rm == prm && (pol.rm || pol.ver == pver)
	if match {
		r.policy[thread] = nil
	}
	r.mu.Unlock()
	if !match {
		return
	}
	a := &spArrival{thread: thread, kind: "write", uid: uid, key: pkey, ver: pver, rm: prm, goOn: make(chan struct{})}
	r.arrivals <- a
	select {
	case <-a.goOn:
	case <-time.After(30 * time.Second):
	}
}

// waitArrival waits until thread t is parked (kind) and remembers the arrival.
func (r *spRunner) waitArrival(t, kind string) (*spArrival, bool) {
	if a := r.pending[t]; a != nil && a.kind == kind {
		return a, true
	}
	deadline := time.After(spGateWait)
	for {
		select {
		case a := <-r.arrivals:
			r.pending[a.thread] = a
			if a.thread == t && a.kind == kind {
				return a, true
			}
		case <-deadline:
			return nil, false
		}
	}
}

func (r *spRunner) drainArrivals() {
	for {
		select {
		case a := <-r.arrivals:
			r.pending[a.thread] = a
		default:
			return
		}
	}
}

// quiesceWorker: everything the worker goroutine had to do is done (it is idle or parked in the backend handler).
// The worker is one goroutine: once it answers a poll for the sentinel key (or shows up in the handler for a real
// key) after it was released, the run it was released into is over. A sentinel notification is lost when a flip
// unsubscribes the hidden connection first, so the hidden connection is re-established and the notification repeated.
func (r *spRunner) quiesceWorker() bool {
	if r.pending["w"] != nil {
		return true
	}
	for len(r.barrier) > 0 {
		<-r.barrier
	}
	deadline := time.Now().Add(spGateWait)
	for time.Now().Before(deadline) {
		if err := r.ensureDummy(); err != nil {
			return false
		}
		r.env.Node.SharedPollNotify([]centrifuge.SharedPollNotificationItem{{Channel: r.ch, Key: spSentinel}})
		try := time.After(400 * time.Millisecond)
	wait:
		for {
			select {
			case <-r.barrier:
				return true
			case a := <-r.arrivals:
				r.pending[a.thread] = a
				if a.thread == "w" {
					return true
				}
			case <-try:
				break wait
			}
		}
	}
	return false
}

// ---------------------------------------------------------------- connections

func (r *spRunner) newConn(name string) (*spConn, error) {
	conn, err := newKConn(r.env, name, r.proto)
	if err != nil {
		return nil, err
	}
	if conn.Connect() == nil {
		return nil, fmt.Errorf("connect failed")
	}
	c := &spConn{name: name, conn: conn, reqs: map[uint32]spFrame{}, held: map[string]*holder{}, cver: map[string]uint64{}, tracked: map[string]bool{}, ended: map[string]string{}, app: map[string]int{}, missed: map[string]string{}}
	r.uidOf[name] = conn.Client.ID()
	return c, nil
}

func (r *spRunner) subscribe(c *spConn) (*protocol.Reply, error) {
	id := c.conn.NextID()
	c.subID = id
	c.conn.Do(&protocol.Command{Id: id, Subscribe: &protocol.SubscribeRequest{Channel: r.ch, Type: int32(centrifuge.SubscriptionTypeSharedPoll), Delta: "fossil"}})
	rep := c.conn.WaitReply(id, 3*time.Second)
	if rep == nil || rep.Subscribe == nil {
		return rep, fmt.Errorf("subscribe got %v", rep)
	}
	return rep, nil
}

func (r *spRunner) track(c *spConn, key string, v uint64) error {
	id := c.conn.NextID()
	c.reqs[id] = spFrame{T: "trackreply", K: key}
	c.conn.Do(&protocol.Command{Id: id, SubRefresh: &protocol.SubRefreshRequest{Channel: r.ch, Type: 1,
		Track: []*protocol.TrackBatch{{Items: []*protocol.KeyedItem{{Key: key, Version: v}}}}}})
	rep := c.conn.WaitReply(id, 3*time.Second)
	if rep == nil || rep.SubRefresh == nil {
		return fmt.Errorf("track got %v", rep)
	}
	return nil
}

func (r *spRunner) ensureDummy() error {
	if r.dummy == nil {
		d, err := r.newConn("dummy")
		if err != nil {
			return err
		}
		r.dummy = d
	}
	subscribed := false
	for _, ch := range r.dummy.conn.Client.Channels() {
		if ch == r.ch {
			subscribed = true
		}
	}
	if subscribed {
		return nil
	}
	if _, err := r.subscribe(r.dummy); err != nil {
		return err
	}
	return r.track(r.dummy, spSentinel, 0)
}

// ---------------------------------------------------------------- frames and monitors

type spVerdict struct{ sig, what string }

func (r *spRunner) protoName() string {
	if r.proto == centrifuge.ProtocolTypeJSON {
		return "json"
	}
	return "protobuf"
}

func (r *spRunner) takePub(c *spConn, p *protocol.Publication, where string) (spFrame, *spVerdict) {
	f := spFrame{T: "pub", K: p.Key, Ver: int(p.Version), Delta: p.Delta}
	h := c.held[p.Key]
	if h == nil {
		h = &holder{}
		c.held[p.Key] = h
	}
	before, had := append([]byte(nil), h.held...), h.has
	desc := "nothing"
	if had {
		if id := r.pl.idOf(before); id != 0 {
			desc = fmt.Sprintf("payload #%d", id)
		} else {
			desc = fmt.Sprintf("%.40q", string(before))
		}
	}
	a := h.apply(r.proto, c.neg, p)
	if a.Err != "" {
		sig := "delta-base"
		if !p.Delta {
			sig = "data-format"
		} else if r.proto == centrifuge.ProtocolTypeJSON && had {
			// was the patch mangled in transit? (U+FFFD in the wire string although no payload contains it)
			if w, err := wireData(r.proto, true, p); err == nil && bytes.Contains(w, []byte("\xef\xbf\xbd")) {
				sig = "json-escape:delta-cuts-utf8"
			}
		}
		if !strings.HasPrefix(sig, "json-escape") {
			sig += ":" + where
		}
		return f, &spVerdict{sig, fmt.Sprintf("%s key %s version %d delta=%v: %s; connection held %s; wire data %.160q", where, p.Key, p.Version, p.Delta, a.Err, desc, string(p.Data))}
	}
	f.Data = r.pl.idOf(a.Data)
	if !p.Delta && had {
		f.Could = realDeltaPossible(before, a.Data, r.proto == centrifuge.ProtocolTypeJSON)
	}
	r.mu.Lock()
	okKey := r.keyIDs[p.Key][f.Data]
	want, defined := r.defs[fmt.Sprintf("%s|%s|%d", c.epoch, p.Key, p.Version)]
	r.mu.Unlock()
	if f.Data == 0 || !okKey {
		return f, &spVerdict{"wrong-data:" + where, fmt.Sprintf("%s key %s version %d delta=%v: reconstructed payload %.60q was never the backend's value of this key; connection held %s", where, p.Key, p.Version, p.Delta, string(a.Data), desc)}
	}
	if r.versioned && defined && want != f.Data {
		sig := "wrong-data:"
		r.mu.Lock()
		for dk, id := range r.defs {
			if id == f.Data && strings.HasSuffix(dk, fmt.Sprintf("|%s|%d", p.Key, p.Version)) {
				sig = "stale-epoch-data:" // the payload of this key/version under ANOTHER epoch than the subscription's
			}
		}
		r.mu.Unlock()
		return f, &spVerdict{sig + where, fmt.Sprintf("%s key %s version %d: reconstructed payload #%d, the backend defined #%d for this version under the subscription's epoch %q", where, p.Key, p.Version, f.Data, want, c.epoch)}
	}
	return f, nil
}

// consume feeds new frames of a connection to its SDK-like model and evaluates the monitors.
func (r *spRunner) consume(c *spConn) []spVerdict {
	var vs []spVerdict
	frames := c.conn.Frames()
	for ; c.consumed < len(frames); c.consumed++ {
		rep := frames[c.consumed]
		switch {
		case rep.Connect != nil:
		case rep.Id != 0 && rep.Error != nil:
			c.seen = append(c.seen, spFrame{T: fmt.Sprintf("error:%d", rep.Error.Code)})
		case rep.Id != 0 && rep.Subscribe != nil:
			c.neg = rep.Subscribe.Delta
			c.subbed = true
			if rep.Subscribe.Epoch != c.epoch {
				c.cver = map[string]uint64{}
			}
			c.epoch = rep.Subscribe.Epoch
			sf := spFrame{T: "subreply"}
			if r.versioned {
				sf.Ep = epNum(rep.Subscribe.Epoch) // versionless: a server-generated random epoch, constant per channel state
			}
			c.seen = append(c.seen, sf)
		case rep.Id != 0 && rep.Unsubscribe != nil:
			for k := range c.tracked {
				c.ended[k] = "unsubscribe"
			}
			c.subbed, c.tracked, c.held = false, map[string]bool{}, map[string]*holder{}
			c.seen = append(c.seen, spFrame{T: "unsubreply"})
		case rep.Id != 0 && rep.SubRefresh != nil:
			req := c.reqs[rep.Id]
			delete(c.reqs, rep.Id)
			f := spFrame{T: req.T, K: req.K}
			if req.T == "trackreply" {
				c.tracked[req.K] = true
				delete(c.ended, req.K)
				c.held[req.K] = &holder{}
				c.cver[req.K] = uint64(req.Ver) // the version the client supplied
				if req.Ver == 0 {
					delete(c.app, req.K)
				}
				for _, p := range rep.SubRefresh.Items {
					pf, v := r.takePub(c, p, "track-reply-item")
					if v != nil {
						vs = append(vs, *v)
					}
					if p.Version <= c.cver[p.Key] {
						vs = append(vs, spVerdict{"version-not-increasing:track-reply-item", fmt.Sprintf("track reply carries key %s version %d, the client supplied %d", p.Key, p.Version, c.cver[p.Key])})
					}
					c.cver[p.Key] = p.Version
					c.app[p.Key] = pf.Data
					f.Ver, f.Data = pf.Ver, pf.Data
				}
			} else {
				c.tracked[req.K] = false
				c.ended[req.K] = "untrack"
				delete(c.held, req.K)
			}
			c.seen = append(c.seen, f)
		case rep.Push != nil && rep.Push.Channel == r.ch && rep.Push.Pub != nil && rep.Push.Pub.Removed:
			k := rep.Push.Pub.Key
			c.tracked[k] = false
			c.ended[k] = "removal"
			delete(c.held, k)
			c.seen = append(c.seen, spFrame{T: "removed", K: k})
		case rep.Push != nil && rep.Push.Channel == r.ch && rep.Push.Pub != nil:
			p := rep.Push.Pub
			if !c.subbed || !c.tracked[p.Key] {
				why := c.ended[p.Key]
				if why == "" {
					why = "never-tracked"
				}
				vs = append(vs, spVerdict{"update-for-untracked-key:after-" + why, fmt.Sprintf("update of key %s version %d pushed while the connection does not track it (after untrack ack / removal / end of the subscription); frames %s", p.Key, p.Version, vh.J(c.seen))})
			}
			if p.Version <= c.cver[p.Key] {
				vs = append(vs, spVerdict{"version-not-increasing", fmt.Sprintf("update of key %s version %d pushed, the connection already has version %d; frames %s", p.Key, p.Version, c.cver[p.Key], vh.J(c.seen))})
			}
			pf, v := r.takePub(c, p, "push")
			if v != nil {
				vs = append(vs, *v)
			}
			c.cver[p.Key] = p.Version
			c.app[p.Key] = pf.Data
			c.seen = append(c.seen, pf)
		case rep.Push != nil && rep.Push.Channel == r.ch && rep.Push.Unsubscribe != nil:
			for k := range c.tracked {
				c.ended[k] = "unsubscribe"
			}
			c.subbed, c.tracked, c.held = false, map[string]bool{}, map[string]*holder{}
			f := spFrame{T: "unsub"}
			if rep.Push.Unsubscribe.Code != unsubCodeIns {
				f.T = fmt.Sprintf("unsub:%d", rep.Push.Unsubscribe.Code)
			}
			c.seen = append(c.seen, f)
		default:
			c.seen = append(c.seen, spFrame{T: "other:" + cl.Describe(rep)})
		}
	}
	return vs
}

func spModelOut(st map[string]any, name string) []spFrame {
	var out []spFrame
	for _, x := range vh.List(vh.Map(st["out"])[name]) {
		m := vh.Map(x)
		f := spFrame{T: vh.Str(m["t"])}
		switch f.T {
		case "subreply":
			f.Ep = vh.Int(m["ep"])
		case "trackreply":
			f.K, f.Ver, f.Data = vh.Str(m["k"]), vh.Int(m["ver"]), vh.Int(m["data"])
		case "untrackreply", "removed":
			f.K = vh.Str(m["k"])
		case "pub":
			f.K, f.Ver, f.Data, f.Delta = vh.Str(m["k"]), vh.Int(m["ver"]), vh.Int(m["data"]), vh.Bool(m["delta"])
		}
		out = append(out, f)
	}
	return out
}

func sameSP(a, b []spFrame) bool {
	if len(a) != len(b) {
		return false
	}
	for i := range a {
		x, y := a[i], b[i]
		if y.Delta && !x.Delta && !x.Could {
			x.Delta = true // the server legitimately falls back to the full payload when no usable patch exists
		}
		x.Could = false
		if x != y {
			return false
		}
	}
	return true
}

// ---------------------------------------------------------------- one behaviour

// answer is what the scripted backend holds now for the polled keys.
func (r *spRunner) answer(keys []string) *centrifuge.SharedPollResult {
	r.mu.Lock()
	defer r.mu.Unlock()
	res := &centrifuge.SharedPollResult{}
	if r.versioned {
		res.Epoch = epStr(r.bep)
	}
	for _, k := range keys {
		it := r.bk[k]
		item := centrifuge.SharedPollRefreshItem{Key: k, Data: r.pl.get(it.id)}
		if r.versioned {
			item.Version = it.ver
		}
		res.Items = append(res.Items, item)
		if r.keyIDs[k] == nil {
			r.keyIDs[k] = map[int]bool{}
		}
		r.keyIDs[k][it.id] = true
	}
	return res
}

func (r *spRunner) define(ep int, key string, ver uint64, id int) {
	r.mu.Lock()
	r.defs[fmt.Sprintf("%s|%s|%d", epStr(ep), key, ver)] = id
	if r.keyIDs[key] == nil {
		r.keyIDs[key] = map[int]bool{}
	}
	r.keyIDs[key][id] = true
	r.mu.Unlock()
}

// lookahead finds the point where thread t parks inside a keyed write after the step at index si was executed.
func lookahead(beh []map[string]any, si int, t string, uidOf map[string]string) *parkPolicy {
	for j := si; j < len(beh); j++ {
		st := beh[j]
		if t == "r" {
			rv := vh.Map(st["rv"])
			if vh.Str(rv["pc"]) == "idle" && j > si {
				return nil
			}
			if c := vh.Str(rv["c"]); c != "none" {
				return &parkPolicy{uid: uidOf[c], key: vh.Str(rv["k"]), rm: true}
			}
			continue
		}
		th := vh.Map(vh.Map(st["th"])[t])
		pc := vh.Str(th["pc"])
		cur := vh.Map(th["cur"])
		if pc == "bcast" && vh.Str(cur["c"]) != "none" && vh.Bool(cur["solo"]) {
			return &parkPolicy{uid: uidOf[vh.Str(cur["c"])], key: vh.Str(cur["k"]), ver: uint64(vh.Int(cur["ver"]))}
		}
		if j > si && (pc == "idle" || pc == "called") {
			return nil
		}
	}
	return nil
}

func (r *spRunner) run(bi int, beh []map[string]any, compare bool, res *vh.Result) {
	defer r.env.Close()
	r.mu.Lock()
	r.gids[goid()] = "cmd" // client commands (and the warm delivery inside a track) run on this goroutine
	r.mu.Unlock()
	var steps []any
	completed := 1
	replay := func() map[string]any {
		fr := map[string]any{}
		for n, c := range r.conns {
			fr[n] = c.seen
		}
		return map[string]any{"versioned": r.versioned, "proto": r.protoName(), "steps": steps, "frames": fr}
	}
	diverged := ""
	following := false // inside the step loop: a disagreement with the model starts the free run instead of ending the behaviour
	drift := func(what string) {
		if following {
			if diverged == "" {
				diverged = what
			}
			return
		}
		res.Drift("C25", fmt.Sprintf("%s (behaviour %d %s versioned=%v)", what, bi, r.protoName(), r.versioned), replay())
		completed = 0
	}
	violate := func(v spVerdict, c string) {
		what := fmt.Sprintf("connection %s: %s (behaviour %d %s versioned=%v)", c, v.what, bi, r.protoName(), r.versioned)
		res.Violate("C25", v.sig+":"+r.protoName(), what, replay())
		if strings.HasPrefix(v.sig, "delta-base") || strings.HasPrefix(v.sig, "json-escape") || strings.HasPrefix(v.sig, "data-format") {
			// the keyed path of C14: a delivered delta (or delta-format full payload) does not reconstruct
			res.Violate("C14", "keyed:"+v.sig+":"+r.protoName(), what, replay())
		}
		completed = 0
	}
	// initial backend state of the model
	init := beh[0]
	for k, v := range vh.Map(init["bk"]) {
		m := vh.Map(v)
		r.bk[k] = bkItem{uint64(vh.Int(m["ver"])), vh.Int(m["data"])}
		r.define(0, k, r.bk[k].ver, r.bk[k].id)
	}
	if err := r.ensureDummy(); err != nil {
		drift("sentinel setup: " + err.Error())
		res.Done(1, 0)
		return
	}
	defer func() {
		// release whatever is still parked
		r.drainArrivals()
		for _, a := range r.pending {
			if a.kind == "call" {
				a.resume <- &centrifuge.SharedPollResult{Epoch: epStr(r.curSep)}
			} else {
				close(a.goOn)
			}
		}
		for _, c := range r.conns {
			c.conn.Client.Disconnect()
			c.conn.Cancel()
		}
		r.dummy.conn.Client.Disconnect()
		r.dummy.conn.Cancel()
	}()
	var snapshot *centrifuge.SharedPollResult
	var snapKeys []string
	type owed = owedAny
	var owes []owed // what an applied backend answer / publish obliges the server to have delivered once everything is at rest
	dropOwes := func(conn, key string) {
		kept := owes[:0]
		for _, o := range owes {
			if o.conn == conn && (key == "" || o.key == key) {
				continue
			}
			kept = append(kept, o)
		}
		owes = kept
	}
	owe := func(key string, id int, why string) {
		for name, c := range r.conns {
			if c.subbed && c.tracked[key] {
				if c.park != nil && c.parkKey == key {
					c.missed[key] = c.parkKind
				}
				win := c.missed[key]
				owes = append(owes, owed{conn: name, key: key, id: id, why: why, win: win})
			}
		}
	}
	var pk struct {
		k   string
		ver uint64
		id  int
		ep  int
	}
	started := map[string]bool{}
	wReleased := false
	nontrivial := false
	following = true
	for si := 1; si < len(beh) && completed == 1 && diverged == ""; si++ {
		st := beh[si]
		step := vh.Map(st["step"])
		act := vh.Str(step["act"])
		steps = append(steps, step)
		flipped := false
		switch act {
		case "BackendChange":
			k := vh.Str(step["k"])
			r.mu.Lock()
			r.bk[k] = bkItem{uint64(vh.Int(step["ver"])), vh.Int(step["data"])}
			ep := r.bep
			r.mu.Unlock()
			r.define(ep, k, r.bk[k].ver, r.bk[k].id)
		case "BackendRestart":
			r.mu.Lock()
			r.bep = vh.Int(step["ep"])
			for k, v := range vh.Map(step["data"]) {
				r.bk[k] = bkItem{1, vh.Int(v)}
			}
			ep := r.bep
			r.mu.Unlock()
			for k, it := range r.bk {
				r.define(ep, k, 1, it.id)
			}
		case "Subscribe":
			name := vh.Str(step["c"])
			c := r.conns[name]
			if c == nil {
				nc, err := r.newConn(name)
				if err != nil {
					drift("connect: " + err.Error())
					break
				}
				c = nc
				r.conns[name] = c
			}
			if _, err := r.subscribe(c); err != nil {
				drift("subscribe: " + err.Error())
			}
		case "Track1":
			c := r.conns[vh.Str(step["c"])]
			k, v := vh.Str(step["k"]), uint64(vh.Int(step["v"]))
			if v != 0 && v != c.cver[k] {
				drift(fmt.Sprintf("client version of %s differs: real %d model %d", k, c.cver[k], v))
				break
			}
			dropOwes(c.name, k)
			delete(c.missed, k)
			id := c.conn.NextID()
			c.reqs[id] = spFrame{T: "trackreply", K: k, Ver: int(v)}
			cmd := &protocol.Command{Id: id, SubRefresh: &protocol.SubRefreshRequest{Channel: r.ch, Type: 1,
				Track: []*protocol.TrackBatch{{Items: []*protocol.KeyedItem{{Key: k, Version: v}}}}}}
			// other steps between Track1 and Track2: the command is parked between its reply and the hub join
			parkIt := !(si+1 < len(beh) && vh.Str(vh.Map(beh[si+1]["step"])["act"]) == "Track2" && vh.Str(vh.Map(beh[si+1]["step"])["c"]) == c.name)
			if parkIt {
				g, done := cl.NewGate(), make(chan struct{})
				r.mu.Lock()
				r.trackPark[r.uidOf[c.name]] = g
				r.mu.Unlock()
				go func() {
					defer close(done)
					r.mu.Lock()
					r.gids[goid()] = "cmd"
					r.mu.Unlock()
					c.conn.Do(cmd)
				}()
				if !g.WaitArrived(spGateWait) {
					drift("track command did not reach OnCommandProcessed")
					break
				}
				c.park, c.parkDone, c.parkKey, c.parkKind = g, done, k, "zero"
			} else {
				c.conn.Do(cmd)
			}
			if rep := c.conn.WaitReply(id, 3*time.Second); rep == nil {
				drift("track got no reply")
			} else if parkIt {
				c.parkKind = "zero"
				if len(rep.SubRefresh.GetItems()) > 0 {
					c.parkKind = "cached-item"
				} else if v > 0 {
					c.parkKind = "same-version"
				}
			}
			nontrivial = true
		case "Track2":
			c := r.conns[vh.Str(step["c"])]
			if c.park != nil {
				c.park.Release()
				select {
				case <-c.parkDone:
				case <-time.After(spGateWait):
					drift("parked track command did not finish")
				}
				c.park, c.parkDone = nil, nil
			}
		case "Untrack":
			c := r.conns[vh.Str(step["c"])]
			k := vh.Str(step["k"])
			dropOwes(c.name, k)
			id := c.conn.NextID()
			c.reqs[id] = spFrame{T: "untrackreply", K: k}
			c.conn.Do(&protocol.Command{Id: id, SubRefresh: &protocol.SubRefreshRequest{Channel: r.ch, Type: 2, Untrack: []string{k}}})
			if rep := c.conn.WaitReply(id, 3*time.Second); rep == nil {
				drift("untrack got no reply")
			}
		case "ClientUnsub":
			c := r.conns[vh.Str(step["c"])]
			dropOwes(c.name, "")
			id := c.conn.NextID()
			c.conn.Do(&protocol.Command{Id: id, Unsubscribe: &protocol.UnsubscribeRequest{Channel: r.ch}})
			if rep := c.conn.WaitReply(id, 3*time.Second); rep == nil {
				drift("unsubscribe got no reply")
			}
		case "WCallNotif":
			if !vh.Bool(step["called"]) {
				break
			}
			a, ok := r.waitArrival("w", "call")
			if !ok {
				drift("the refresh worker did not call the backend for " + vh.Str(step["k"]))
				break
			}
			if len(a.keys) != 1 || a.keys[0] != vh.Str(step["k"]) {
				drift(fmt.Sprintf("backend called for %v, model expects %s", a.keys, vh.Str(step["k"])))
				break
			}
			snapKeys = a.keys
			snapshot = r.answer(snapKeys)
		case "PubStart":
			pk.k, pk.ver, pk.id, pk.ep = vh.Str(step["k"]), uint64(vh.Int(step["ver"])), vh.Int(step["data"]), vh.Int(step["ep"])
		case "Flip":
			t := vh.Str(step["t"])
			flipped = vh.Bool(step["flipped"])
			r.mu.Lock()
			r.curSep = vh.Int(st["sep"])
			r.policy[t] = lookahead(beh, si, t, r.uidOf)
			r.mu.Unlock()
			if t == "w" {
				a := r.pending["w"]
				if a == nil || a.kind != "call" {
					drift("worker is not parked in the backend call")
					break
				}
				delete(r.pending, "w")
				if vh.Bool(step["late"]) {
					snapshot = r.answer(snapKeys)
				}
				if !flipped {
					for _, it := range snapshot.Items {
						owe(it.Key, r.pl.idOf(it.Data), "refresh")
					}
				}
				a.resume <- snapshot
				wReleased = true
			} else {
				done := make(chan struct{})
				r.done["p"] = done
				started["p"] = true
				k, ver, data, ep := pk.k, pk.ver, r.pl.get(pk.id), epStr(pk.ep)
				go func() {
					defer close(done)
					r.mu.Lock()
					r.gids[goid()] = "p"
					r.mu.Unlock()
					_ = r.env.Node.SharedPollPublish(context.Background(), r.ch, k, ver, ep, data)
				}()
			}
		case "Enq":
			t := vh.Str(step["t"])
			a := r.pending[t]
			if a == nil || a.kind != "write" {
				break // not a parked write (the broadcast ran through)
			}
			r.mu.Lock()
			r.policy[t] = lookahead(beh, si, t, r.uidOf)
			r.mu.Unlock()
			delete(r.pending, t)
			close(a.goOn)
			if t == "w" {
				wReleased = true
			}
		case "RevStart":
			k := vh.Str(step["k"])
			for _, c := range r.conns {
				if c.park != nil && c.parkKey == k {
					c.missed[k] = "revoke-during-track" // the key is revoked while this connection's track sits between reply and hub join
				}
			}
			r.mu.Lock()
			r.policy["r"] = lookahead(beh, si, "r", r.uidOf)
			r.mu.Unlock()
			done := make(chan struct{})
			r.done["r"] = done
			started["r"] = true
			go func() {
				defer close(done)
				r.mu.Lock()
				r.gids[goid()] = "r"
				r.mu.Unlock()
				centrifuge.VerifSharedPollRevokeKeys(r.env.Node, r.ch, []string{k})
			}()
		case "RevPush":
			a := r.pending["r"]
			if a == nil {
				drift("revoker is not parked at the removal write")
				break
			}
			r.mu.Lock()
			r.policy["r"] = lookahead(beh, si, "r", r.uidOf)
			r.mu.Unlock()
			delete(r.pending, "r")
			close(a.goOn)
		case "PApply":
			if vh.Str(vh.Map(vh.Map(st["th"])["p"])["pc"]) == "bcast" { // the publish was newer than the entry and was applied
				owe(pk.k, pk.id, "publish")
			}
		case "FlipUnsub", "FlipDone", "WApply", "BNext", "BTargetsDone", "Prep", "RevDel", "RevEnd":
		default:
			drift("unknown action " + act)
		}
		if completed == 0 {
			break
		}
		// ---- settle: every thread is where the model says it is
		thw := vh.Map(vh.Map(st["th"])["w"])
		thp := vh.Map(vh.Map(st["th"])["p"])
		rv := vh.Map(st["rv"])
		parkedWrite := func(th map[string]any) bool {
			cur := vh.Map(th["cur"])
			return vh.Str(th["pc"]) == "bcast" && vh.Str(cur["c"]) != "none" && vh.Bool(cur["solo"])
		}
		running := func(th map[string]any) bool {
			pc := vh.Str(th["pc"])
			return pc == "unsub" || pc == "apply" || (pc == "bcast" && !parkedWrite(th))
		}
		if running(thw) || running(thp) || (vh.Str(rv["pc"]) == "removal" && vh.Str(rv["c"]) == "none") || (trackInFlight(st) && !r.anyParkedTrack()) {
			continue // inside a run between two gates: nothing to observe yet
		}
		if parkedWrite(thw) {
			if _, ok := r.waitArrival("w", "write"); !ok {
				drift("worker did not reach the keyed write the model parks it in")
				break
			}
		} else if vh.Str(thw["pc"]) == "idle" && wReleased {
			if !r.quiesceWorker() {
				drift("refresh worker did not become idle")
				break
			}
			wReleased = false
		}
		if parkedWrite(thp) {
			if _, ok := r.waitArrival("p", "write"); !ok {
				drift("publisher did not reach the keyed write the model parks it in")
				break
			}
		} else if vh.Str(thp["pc"]) == "idle" && started["p"] {
			select {
			case <-r.done["p"]:
				started["p"] = false
			case <-time.After(spGateWait):
				drift("SharedPollPublish did not return")
			}
		}
		if vh.Str(rv["pc"]) == "removal" && vh.Str(rv["c"]) != "none" {
			if _, ok := r.waitArrival("r", "write"); !ok {
				drift("revoker did not reach the removal write the model parks it in")
				break
			}
		} else if vh.Str(rv["pc"]) == "idle" && started["r"] {
			select {
			case <-r.done["r"]:
				started["r"] = false
			case <-time.After(spGateWait):
				drift("SharedPollRevokeKeys did not return")
			}
		}
		if completed == 0 {
			break
		}
		// the sentinel connection is unsubscribed by every epoch flip: bring it back (only while the worker is free
		// to answer the sentinel's cold poll)
		if pcw := vh.Str(thw["pc"]); pcw == "idle" && r.pending["w"] == nil {
			if err := r.ensureDummy(); err != nil {
				drift("sentinel re-subscribe: " + err.Error())
				break
			}
		}
		_ = flipped
		// ---- observe
		for name, c := range r.conns {
			if closed, _ := c.conn.T.Closed(); !closed && c.park == nil {
				c.conn.Barrier(2 * time.Second)
			} else if c.park != nil {
				// its reader is parked inside the track command: no barrier command; it is not in the keyed hub, the
				// only thing that can still be written to it is the unsubscribe push of an epoch flip
				want := len(spModelOut(st, name))
				for i := 0; i < 100 && len(c.seen)+(len(c.conn.Frames())-c.consumed) < want; i++ {
					time.Sleep(5 * time.Millisecond)
				}
			}
			for _, v := range r.consume(c) {
				violate(v, name)
			}
		}
		if completed == 0 {
			break
		}
		// delivery monitor: the worker is idle again - a connection that tracked the key throughout must not be left
		// with an OLDER payload than the one the backend answered (payload ids grow with every backend change)
		// (only when nothing is parked anywhere: a parked publisher may still hold the newer payload for the connection)
		if vh.Str(thw["pc"]) == "idle" && vh.Str(thp["pc"]) == "idle" && vh.Str(rv["pc"]) == "idle" && len(r.pending) == 0 &&
			!r.anyParkedTrack() && len(vh.List(st["notifq"])) == 0 {
			for _, v := range r.checkOwes(owes) {
				violate(v.v, v.conn)
			}
			owes = owes[:0]
		}
		if completed == 0 {
			break
		}
		// epoch monitor: a subscription established under another epoch than the channel's current one must have ended
		sep := epStr(vh.Int(st["sep"]))
		if r.versioned {
			for name, c := range r.conns {
				if c.subbed && c.epoch != sep {
					kind := "idle"
					for _, t := range c.tracked {
						if t {
							kind = "tracking"
						}
					}
					violate(spVerdict{"epoch-flip:" + kind + "-subscription-survives", fmt.Sprintf("the channel epoch changed to %q, the subscription established under epoch %q was not ended with an insufficient-state unsubscribe; frames %s", sep, c.epoch, vh.J(c.seen))}, name)
				}
			}
		}
		if completed == 0 {
			break
		}
		if compare {
			for name, c := range r.conns {
				mo := spModelOut(st, name)
				if !sameSP(c.seen, mo) {
					diverged = fmt.Sprintf("frames of %s differ after %s: real %s, model %s", name, act, vh.J(c.seen), vh.J(mo))
					break
				}
			}
		}
	}
	following = false
	if completed == 1 && (diverged != "" || !compare) {
		// FRAMEWORK.md rule 9 (free run): the real code left the model. Remember the difference, stop following the model,
		// let everything parked finish, then give every key a new payload (backend change + publish + notification) and
		// judge by the property alone: with everything at rest every connection that tracks a key must have its newest
		// payload. Only when that holds is the difference reported as drift.
		r.loose.Store(true)
		r.drainArrivals()
		for t, a := range r.pending {
			if a.kind == "call" {
				a.resume <- r.answer(a.keys)
			} else {
				close(a.goOn)
			}
			delete(r.pending, t)
		}
		for _, c := range r.conns {
			if c.park != nil {
				c.park.Release()
				select {
				case <-c.parkDone:
				case <-time.After(spGateWait):
				}
				c.park = nil
			}
		}
		for _, t := range []string{"p", "r"} {
			if started[t] {
				select {
				case <-r.done[t]:
				case <-time.After(spGateWait):
				}
			}
		}
		r.quiesceWorker()
		newest := map[string]int{}
		i := 0
		for k := range r.bk {
			i++
			r.mu.Lock()
			it := bkItem{r.bk[k].ver + 1, 900 + i}
			r.bk[k] = it
			ep := r.bep
			r.mu.Unlock()
			r.define(ep, k, it.ver, it.id)
			newest[k] = it.id
			if r.versioned {
				_ = r.env.Node.SharedPollPublish(context.Background(), r.ch, k, it.ver, epStr(ep), r.pl.get(it.id))
			}
			r.env.Node.SharedPollNotify([]centrifuge.SharedPollNotificationItem{{Channel: r.ch, Key: k}})
		}
		r.quiesceWorker()
		bad := false
		for name, c := range r.conns {
			if closed, _ := c.conn.T.Closed(); !closed {
				c.conn.Barrier(2 * time.Second)
			}
			for _, v := range r.consume(c) {
				violate(v, name)
				bad = true
			}
			for k, id := range newest {
				if c.subbed && c.tracked[k] && c.app[k] != id && c.epoch == epStr(r.bep) {
					sig := "stale-after-publish"
					// the payload the connection holds was defined by the backend under ANOTHER epoch than the subscription's
					// (a broadcast prepared before the epoch flip reached it after the resubscribe): the staleness is the
					// consequence of that stale-epoch push (per-connection key state carries no epoch), not a new defect
					otherEpoch := false
					r.mu.Lock()
					suffix := fmt.Sprintf("|%s|%d", k, c.cver[k])
					for dk, did := range r.defs {
						if did == c.app[k] && strings.HasSuffix(dk, suffix) && !strings.HasPrefix(dk, c.epoch+"|") {
							otherEpoch = true
						}
					}
					if r.defs[c.epoch+suffix] == c.app[k] {
						otherEpoch = false
					}
					r.mu.Unlock()
					if w := c.missed[k]; w != "" {
						sig += ":track-window:" + w
					} else if otherEpoch {
						sig += ":after-stale-epoch-data"
					} else {
						sig += ":free-run"
					}
					if diverged == "" {
						diverged = "end of a witness schedule"
					}
					violate(spVerdict{sig, fmt.Sprintf("free run (%s): key %s got a new payload #%d (backend change, publish, notification) and with everything at rest the connection that tracks it still has payload #%d (version %d); frames %s", diverged, k, id, c.app[k], c.cver[k], vh.J(c.seen))}, name)
					bad = true
				}
			}
		}
		if !bad && diverged != "" {
			drift(diverged + " (free run afterwards: every tracking connection received the newest payloads)")
		}
		if bad || diverged != "" {
			completed = 0
		}
	}
	if completed == 1 {
		// a behaviour may end inside a run (a TLC counterexample stops at the violating step): let the threads finish
		// and judge what the connections received in the end (monitors only)
		if wReleased && r.pending["w"] == nil {
			r.quiesceWorker()
		}
		for _, t := range []string{"p", "r"} {
			if started[t] && r.pending[t] == nil {
				select {
				case <-r.done[t]:
				case <-time.After(spGateWait):
				}
			}
		}
		parkedAtEnd := false
		for _, c := range r.conns {
			if c.park != nil {
				parkedAtEnd = true
				c.park.Release()
				select {
				case <-c.parkDone:
				case <-time.After(spGateWait):
				}
				c.park = nil
			}
		}
		if parkedAtEnd {
			r.quiesceWorker() // the released track may have notified the worker (cold key / needsBroadcast)
		}
		for name, c := range r.conns {
			if closed, _ := c.conn.T.Closed(); !closed {
				c.conn.Barrier(2 * time.Second)
			}
			for _, v := range r.consume(c) {
				violate(v, name)
			}
		}
		if completed == 1 && len(r.pending) == 0 {
			for _, v := range r.checkOwes(owes) {
				violate(v.v, v.conn)
			}
		}
	}
	if completed == 1 && nontrivial {
		res.Distinct(r.protoName() + fmt.Sprint(r.versioned) + vh.J(steps))
		nd := 0
		for _, c := range r.conns {
			for _, f := range c.seen {
				if f.T == "pub" && f.Delta {
					nd++
				}
			}
		}
		res.Count("real_delta_frames", nd)
	}
	if bi < 2 {
		res.Sample(replay())
	}
	res.Done(1, completed)
}

func trackInFlight(st map[string]any) bool {
	for _, v := range vh.Map(st["trk"]) {
		if vh.Str(vh.Map(v)["k"]) != "none" {
			return true
		}
	}
	return false
}

type spIn struct {
	Compare    bool               `json:"compare"`
	Versioned  bool               `json:"versioned"`
	Protos     []string           `json:"protos"`
	Behaviours [][]map[string]any `json:"behaviours"`
}

func sharedPollMode(in json.RawMessage, res *vh.Result) error {
	var si spIn
	if err := json.Unmarshal(in, &si); err != nil {
		return err
	}
	if len(si.Protos) == 0 {
		si.Protos = []string{"json", "protobuf"}
	}
	type job struct {
		bi    int
		proto centrifuge.ProtocolType
	}
	jobs := make(chan job)
	var wg sync.WaitGroup
	for i := 0; i < 6; i++ {
		wg.Add(1)
		go func() {
			defer wg.Done()
			for j := range jobs {
				r, err := newSPRunner(j.bi, j.proto, si.Versioned)
				if err != nil {
					res.Drift("C25", "node setup: "+err.Error(), nil)
					res.Done(1, 0)
					continue
				}
				r.run(j.bi, si.Behaviours[j.bi], si.Compare, res)
			}
		}()
	}
	for bi := range si.Behaviours {
		// alternate the protocol per behaviour (both for the first few)
		for pi, p := range si.Protos {
			if bi >= 4 && (bi+pi)%len(si.Protos) != 0 {
				continue
			}
			pt := centrifuge.ProtocolTypeJSON
			if p == "protobuf" {
				pt = centrifuge.ProtocolTypeProtobuf
			}
			jobs <- job{bi, pt}
		}
	}
	close(jobs)
	wg.Wait()
	return nil
}

var _ = bytes.Equal

// ---------------------------------------------------------------- free-running driver (real timers)

// freeRun drives a node whose refresh timer is on (25 ms) with a seeded random schedule of backend changes,
// publishes, track / untrack / revoke / resubscribe on two connections; the frame monitors run on everything the
// connections receive, and after the schedule every tracking connection must end up holding the backend's newest
// payload of the key within a bounded settle time (C25 liveness on the real timers).
func (r *spRunner) freeRun(bi int, nops int, res *vh.Result) {
	defer r.env.Close()
	rng := newRng(vh.Seed()*31337 + int64(bi))
	keys := []string{"k1", "k2"}
	nextID := 0
	change := func(k string) bkItem {
		nextID++
		r.mu.Lock()
		it := bkItem{r.bk[k].ver + 1, nextID}
		r.bk[k] = it
		r.mu.Unlock()
		r.define(0, k, it.ver, it.id)
		return it
	}
	var log []string
	completed := 1
	replay := func() map[string]any {
		fr := map[string]any{}
		for n, c := range r.conns {
			fr[n] = c.seen
		}
		return map[string]any{"versioned": r.versioned, "proto": r.protoName(), "ops": log, "frames": fr}
	}
	fail := func(sig, what string) {
		res.Violate("C25", sig+":"+r.protoName(), fmt.Sprintf("%s (free run %d %s versioned=%v)", what, bi, r.protoName(), r.versioned), replay())
		completed = 0
	}
	for _, k := range keys {
		change(k)
	}
	for _, n := range []string{"c1", "c2"} {
		c, err := r.newConn(n)
		if err != nil {
			res.Drift("C25", "free run connect: "+err.Error(), nil)
			res.Done(1, 0)
			return
		}
		r.conns[n] = c
		if _, err := r.subscribe(c); err != nil {
			res.Drift("C25", "free run subscribe: "+err.Error(), nil)
			res.Done(1, 0)
			return
		}
	}
	defer func() {
		for _, c := range r.conns {
			c.conn.Client.Disconnect()
			c.conn.Cancel()
		}
	}()
	observe := func() {
		for name, c := range r.conns {
			for _, v := range r.consume(c) {
				fail(v.sig, "connection "+name+": "+v.what)
			}
		}
	}
	cmd := func(c *spConn, f spFrame, req *protocol.SubRefreshRequest) {
		id := c.conn.NextID()
		c.reqs[id] = f
		c.conn.Do(&protocol.Command{Id: id, SubRefresh: req})
		c.conn.WaitReply(id, 3*time.Second)
	}
	for i := 0; i < nops && completed == 1; i++ {
		c := r.conns[[]string{"c1", "c2"}[rng.Intn(2)]]
		k := keys[rng.Intn(len(keys))]
		observe() // the client model must be current before it decides what to send
		switch p := rng.Intn(100); {
		case p < 40:
			it := change(k)
			log = append(log, fmt.Sprintf("change %s v%d #%d", k, it.ver, it.id))
			if r.versioned && rng.Intn(3) == 0 {
				log = append(log, "publish "+k)
				_ = r.env.Node.SharedPollPublish(context.Background(), r.ch, k, it.ver, "", r.pl.get(it.id))
			}
		case p < 65:
			if c.subbed && !c.tracked[k] {
				v := uint64(0)
				if rng.Intn(2) == 0 {
					v = c.cver[k]
				}
				log = append(log, fmt.Sprintf("%s track %s v%d", c.name, k, v))
				cmd(c, spFrame{T: "trackreply", K: k, Ver: int(v)}, &protocol.SubRefreshRequest{Channel: r.ch, Type: 1,
					Track: []*protocol.TrackBatch{{Items: []*protocol.KeyedItem{{Key: k, Version: v}}}}})
			}
		case p < 78:
			if c.subbed && c.tracked[k] {
				log = append(log, fmt.Sprintf("%s untrack %s", c.name, k))
				cmd(c, spFrame{T: "untrackreply", K: k}, &protocol.SubRefreshRequest{Channel: r.ch, Type: 2, Untrack: []string{k}})
			}
		case p < 83:
			log = append(log, "revoke "+k)
			centrifuge.VerifSharedPollRevokeKeys(r.env.Node, r.ch, []string{k})
		case p < 90:
			if c.subbed {
				log = append(log, c.name+" unsubscribe")
				id := c.conn.NextID()
				c.conn.Do(&protocol.Command{Id: id, Unsubscribe: &protocol.UnsubscribeRequest{Channel: r.ch}})
				c.conn.WaitReply(id, 3*time.Second)
			} else {
				log = append(log, c.name+" subscribe")
				_, _ = r.subscribe(c)
			}
		}
		time.Sleep(time.Duration(rng.Intn(12)) * time.Millisecond)
	}
	// settle: with the timer running every tracking connection must reach the backend's newest payload
	deadline := time.Now().Add(6 * time.Second)
	for completed == 1 {
		stale := ""
		for _, c := range r.conns {
			if closed, _ := c.conn.T.Closed(); !closed {
				c.conn.Barrier(2 * time.Second)
			}
		}
		observe()
		for name, c := range r.conns {
			for _, k := range keys {
				if !c.subbed || !c.tracked[k] {
					continue
				}
				r.mu.Lock()
				want := r.bk[k]
				r.mu.Unlock()
				if c.app[k] == want.id {
					continue // the application has the newest payload (delivered, or kept from before it re-tracked with its version)
				}
				stale = fmt.Sprintf("connection %s tracks %s, the backend holds payload #%d (version %d), the connection has version %d", name, k, want.id, want.ver, c.cver[k])
			}
		}
		if stale == "" {
			break
		}
		if time.Now().After(deadline) {
			fail("not-newest-after-settle", stale+" 6 s after the last operation (refresh interval 25 ms)")
			break
		}
		time.Sleep(25 * time.Millisecond)
	}
	if completed == 1 {
		res.Distinct(fmt.Sprintf("free%d%s%v", bi, r.protoName(), r.versioned))
	}
	if bi < 1 {
		res.Sample(replay())
	}
	res.Done(1, completed)
}

type spFreeIn struct {
	N   int `json:"n"`
	Ops int `json:"ops"`
}

func sharedPollFreeMode(in json.RawMessage, res *vh.Result) error {
	var fi spFreeIn
	if err := json.Unmarshal(in, &fi); err != nil {
		return err
	}
	jobs := make(chan int)
	var wg sync.WaitGroup
	for i := 0; i < 6; i++ {
		wg.Add(1)
		go func() {
			defer wg.Done()
			for bi := range jobs {
				proto := centrifuge.ProtocolTypeJSON
				if bi%2 == 1 {
					proto = centrifuge.ProtocolTypeProtobuf
				}
				r, err := newSPRunner(bi, proto, bi%4 < 2, true)
				if err != nil {
					res.Drift("C25", "node setup: "+err.Error(), nil)
					res.Done(1, 0)
					continue
				}
				r.freeRun(bi, fi.Ops, res)
			}
		}()
	}
	for bi := 0; bi < fi.N; bi++ {
		jobs <- bi
	}
	close(jobs)
	wg.Wait()
	return nil
}

func (r *spRunner) anyParkedTrack() bool {
	for _, c := range r.conns {
		if c.park != nil {
			return true
		}
	}
	return false
}

type owedAny struct {
	conn, key, why, win string
	id                  int
}

type connVerdict struct {
	conn string
	v    spVerdict
}

// checkOwes: everything is at rest - a connection that tracked the key when an update was applied (backend answer or
// publish) and still tracks it must not be left with an OLDER payload (payload ids grow with every backend change).
func (r *spRunner) checkOwes(owes []owedAny) []connVerdict {
	var out []connVerdict
	for _, o := range owes {
		c := r.conns[o.conn]
		if c == nil || !c.subbed || !c.tracked[o.key] {
			continue
		}
		if have := c.app[o.key]; have < o.id {
			sig := "stale-after-" + o.why
			if o.win != "" {
				sig += ":track-window:" + o.win
			}
			what := fmt.Sprintf("payload #%d of key %s was applied on the server (%s), with everything at rest the tracking connection still has payload #%d (version %d)", o.id, o.key, o.why, have, c.cver[o.key])
			if o.win != "" {
				what += "; the update landed while the connection's track command was between its reply and the keyed-hub join"
			}
			out = append(out, connVerdict{o.conn, spVerdict{sig, what + "; frames " + vh.J(c.seen)}})
		}
	}
	return out
}
