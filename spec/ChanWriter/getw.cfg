SPECIFICATION Spec
CONSTANTS
  Keys = {"a", "b"}
  NonPub = {"join"}
  Sizes = {0, 2, 3}
  Delays = {TRUE, FALSE}
  Lates = {TRUE, FALSE}
  Threads = {1, 2}
  MaxAdds = 3
  MaxEnds = 0
  AtomicAdd = FALSE
  ClosedRefuses = TRUE
  SplitGet = TRUE
  RecheckOnStore = TRUE
  StaleTimers = FALSE
VIEW View
INVARIANTS TypeOK LatUnique PendingAgree TimerSane SingleWriter
PROPERTIES OrderPreserved LatestCoalesced NoOrphanFlush SizeExact
CHECK_DEADLOCK FALSE
