SPECIFICATION SimSpec
CONSTANTS
  WP = 8
  WD = 8
  WU = 3
  NK = 2
  MaxOps = 5
  MaxLag = 1
  MaxResub = 1
  LiveLimit = 3
  Modes = {"eph", "rec", "per"}
  Kinds = {"fresh", "rlive", "rstream"}
  Pages = {1, 2}
  SSizes = {1, 2}
  Filts = {"none", "client", "server"}
  Ops = {"pub", "rem", "exp", "sexp", "clear", "refresh", "poscheck"}
  MaxJumps = 1
  EpochCheck = TRUE
  Pres = {0, 1}
  N0s = {0, 1, 2}
  Contig = TRUE
  DropStale = TRUE
INVARIANTS TypeOK C22Coded
PROPERTIES C22RCoded C16M
CHECK_DEADLOCK FALSE
