SPECIFICATION Spec
CONSTANTS
  Keys = {"a"}
  NonPub = {}
  Sizes = {3}
  Delays = {TRUE}
  Lates = {FALSE}
  Threads = {1, 2}
  MaxAdds = 3
  MaxEnds = 0
  AtomicAdd = FALSE
  ClosedRefuses = TRUE
  SplitGet = TRUE
  RecheckOnStore = FALSE
  StaleTimers = FALSE
VIEW View
INVARIANTS TypeOK
PROPERTIES NoOrphanFlush
CHECK_DEADLOCK FALSE
