SPECIFICATION Spec
CONSTANTS
  Conns = {"A", "B"}
  ReleaseEarly = FALSE
  MaxMsgs = 2
INVARIANTS OwnBytes Exclusive
CHECK_DEADLOCK FALSE
