SPECIFICATION SimSpec
CONSTANTS
  Keys = {"a", "b"}
  NonPub = {"join", "leave", "other"}
  Sizes = {0, 1, 2, 3}
  Delays = {TRUE, FALSE}
  Lates = {TRUE, FALSE}
  Threads = {1}
  MaxAdds = 10
  MaxEnds = 3
  AtomicAdd = TRUE
  ClosedRefuses = TRUE
  SplitGet = FALSE
  RecheckOnStore = TRUE
  StaleTimers = FALSE
INVARIANTS PendingAgree
CHECK_DEADLOCK FALSE
