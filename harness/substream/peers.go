// C16 / C01: probe of an assumption of spec/SubStream: what ONE subscription receives does not depend on the other
// subscribers of the channel. The hub prepares one payload per (protocol, filter, compaction, delta) key and shares
// it between subscribers; a recovering subscriber inside its subscribe window gets offset-only markers for filtered
// publications. The probe holds a recovering JSON subscriber after its history read, has Protobuf / JSON peers with the
// same, another and no tags filter on the channel, publishes filtered and admitted publications in the window, and
// judges the subscriber's reply and pushes with the C16 and C01 monitors.
package main

import (
	"encoding/json"
	"fmt"
	"strconv"
	"sync/atomic"
	"time"

	"github.com/centrifugal/centrifuge"
	"github.com/centrifugal/protocol"

	"verifharness/cl"
	"verifharness/vh"
)

func peersprobe(in json.RawMessage, res *vh.Result) error {
	var cfg struct {
		N int `json:"n"`
	}
	_ = json.Unmarshal(in, &cfg)
	if cfg.N == 0 {
		cfg.N = 3
	}
	for i := 0; i < cfg.N; i++ {
		for _, serverFilter := range []bool{false, true} {
			name := "peers:client-filter"
			if serverFilter {
				name = "peers:server-filter"
			}
			env, err := cl.NewEnv(centrifuge.Config{LogLevel: centrifuge.LogLevelNone})
			if err != nil {
				return err
			}
			gb, err := cl.NewGateBroker(env.Node)
			if err != nil {
				return err
			}
			env.Node.SetBroker(gb)
			ch := fmt.Sprintf("pp%d_%d_%v", vh.Seed(), i, serverFilter)
			gate := cl.NewGate()
			var armed atomic.Bool
			gb.AfterHistory = func(c string, _ centrifuge.HistoryOptions, _ []*centrifuge.Publication, _ centrifuge.StreamPosition) {
				if c == ch && armed.CompareAndSwap(true, false) {
					gate.Arrive(10 * time.Second)
				}
			}
			keep := &centrifuge.FilterNode{Key: "t", Cmp: "eq", Val: "keep"}
			env.OnSubscribe = func(c *centrifuge.Client, _ centrifuge.SubscribeEvent, cb centrifuge.SubscribeCallback) {
				opts := centrifuge.SubscribeOptions{EnableRecovery: true, AllowTagsFilter: true}
				if serverFilter && c.UserID() != "nofilter" {
					opts.ServerTagsFilter = keep
				}
				cb(centrifuge.SubscribeReply{Options: opts}, nil)
			}
			if err := env.Run(); err != nil {
				return err
			}
			tags := []string{}
			publish := func(tag string) {
				tags = append(tags, tag)
				_, _ = env.Node.Publish(ch, []byte(strconv.Itoa(len(tags))), centrifuge.WithHistory(20, time.Minute), centrifuge.WithTags(map[string]string{"t": tag}))
			}
			publish("keep") // offset 1 exists before anybody subscribes
			// peers: Protobuf and JSON, with the same filter, and one without any filter
			var peers []*cl.Conn
			for k := 0; k < 7; k++ {
				proto, user := centrifuge.ProtocolTypeProtobuf, "peer"
				if k%3 == 2 {
					proto = centrifuge.ProtocolTypeJSON
				}
				if k == 6 {
					user = "nofilter"
				}
				p, err := env.NewConn(user, proto)
				if err != nil || p.Connect() == nil {
					res.Drift("C16", name+": peer connect failed", nil)
					continue
				}
				req := &protocol.SubscribeRequest{Channel: ch}
				if !serverFilter && user != "nofilter" {
					req.Tf = &protocol.FilterNode{Key: "t", Cmp: "eq", Val: "keep"}
				}
				id := p.NextID()
				p.Do(&protocol.Command{Id: id, Subscribe: req})
				if r := p.WaitReply(id, 3*time.Second); r == nil || r.Subscribe == nil {
					res.Drift("C16", name+": peer subscribe failed", nil)
				}
				peers = append(peers, p)
			}
			a, err := env.NewConn("a", centrifuge.ProtocolTypeJSON)
			if err != nil || a.Connect() == nil {
				res.Drift("C16", name+": connect failed", nil)
				env.Close()
				continue
			}
			_, sp, _ := gb.Inner.History(ch, centrifuge.HistoryOptions{Filter: centrifuge.HistoryFilter{Limit: 0}})
			req := &protocol.SubscribeRequest{Channel: ch, Recover: true, Offset: 0, Epoch: sp.Epoch}
			if !serverFilter {
				req.Tf = &protocol.FilterNode{Key: "t", Cmp: "eq", Val: "keep"}
			}
			armed.Store(true)
			sid := a.NextID()
			done := make(chan struct{})
			go func() {
				defer close(done)
				a.Do(&protocol.Command{Id: sid, Subscribe: req})
			}()
			if !gate.WaitArrived(5 * time.Second) {
				res.Drift("C16", name+": subscriber did not reach Broker.History", nil)
				gate.Release()
				<-done
				env.Close()
				continue
			}
			// inside the subscribe window: filtered and admitted publications (buffered for the subscriber)
			for _, t := range []string{"drop", "drop", "keep", "drop", "drop", "keep", "drop"} {
				publish(t)
			}
			gate.Release()
			<-done
			publish("drop")
			publish("keep")
			a.Barrier(3 * time.Second)
			var got []int
			recovered := false
			for _, rep := range a.Frames() {
				if rep.Id == sid && rep.Subscribe != nil {
					recovered = rep.Subscribe.Recovered
					for _, p := range rep.Subscribe.Publications {
						got = append(got, int(p.Offset))
					}
				}
				if rep.Push != nil && rep.Push.Channel == ch && rep.Push.Pub != nil {
					got = append(got, int(rep.Push.Pub.Offset))
				}
			}
			replay := map[string]any{"probe": name, "tags": tags, "delivered_offsets": got, "recovered": recovered}
			bad := false
			for _, o := range got {
				if o >= 1 && o <= len(tags) && tags[o-1] != "keep" {
					res.Violate("C16", "recovery-window-with-peers:filtered-delivered:"+name, fmt.Sprintf("publication offset %d (tag %s) excluded by the subscription's tags filter was delivered while other subscribers with other payload keys were on the channel: delivered %v, tags %v", o, tags[o-1], got, tags), replay)
					bad = true
					break
				}
			}
			if !bad && recovered {
				// every admitted offset must be there exactly once, in order
				var want []int
				for o, t := range tags {
					if t == "keep" {
						want = append(want, o+1)
					}
				}
				if fmt.Sprint(want) != fmt.Sprint(got) {
					res.Violate("C01", "recovery-window-with-peers:admitted-missing-or-duplicated:"+name, fmt.Sprintf("delivered %v, admitted offsets %v", got, want), replay)
				}
			}
			res.Distinct(name)
			res.Sample(replay)
			res.Done(1, 1)
			a.Client.Disconnect()
			for _, p := range peers {
				p.Client.Disconnect()
			}
			env.Close()
		}
	}
	return nil
}
