SPECIFICATION TraceSpec
CONSTANTS
  Workers = {w1, w2, w3}
  Jobs = {1, 2, 3, 4, 5, 6, 7, 8}
  MaxFail = 1000000
  AllowClose = TRUE
VIEW TraceView
SYMMETRY Perms
CONSTRAINT HighWater
INVARIANTS TypeOK NothingLost OneCopy ClosedQuiet
PROPERTIES NoRerun FailedRequeued NoDequeueAfterClose SubmitAnswer
POSTCONDITION TraceAccepted
CHECK_DEADLOCK FALSE
