"""C22 and C16 (map paths, key 'C16M') -- spec/MapSub: the map subscription protocol of client_map.go (state pages with
cursor and frozen first-page offset, stream pages, live transition, recovery join, streamless mode, sub refresh with a
changed server tags filter) over an abstraction of the memory map broker, with an environment thread doing
Publish / Remove / key expiry / stream expiry / Clear between any two protocol steps and a reference client; checked
exhaustively by TLC and replayed step by step (natural gates inside MapBroker calls of a wrapping broker) on real
clients.  The verdict comes from the real frames and from the real broker's ReadState.

Which stream-read semantics the tree has (as coded / with the continuity check) is probed on the real code first
(harness mode `probe`) and selects the `*_coded.cfg` or `*_fixed.cfg` configurations, so the family works on the
unchanged tree and on a tree where the finding below is repaired.

Genuine defects found on the unchanged tree (signatures for known_findings.json; property C22):
  stream:non-contiguous-read-accepted:(fresh|rlive|rstream)(:recovered)?
      Node.MapStreamRead / handleMapTransitionToLive / handleMapStreamPhase accept a stream read that does not continue
      the client's position: (a) the stream expired (window empty, top ahead) -> reply recovered=true / live with no
      publications and the top offset; (b) position offset 0 and the stream trimmed past offset 1 (the trim detection
      requires Since.Offset > 0).  Repaired by the 16-line diff to Node.MapStreamRead in the final report.
  streamless:update-in-live-window-lost      offset-0 publication delivered between addSubscription and the live reply is
                                             pushed before the reply and never buffered (DESIGN 10.1)
  streamless:update-before-subscribe-lost    streamless map: a change after the state read (or after an earlier state page)
                                             and before the hub entry exists is neither buffered nor re-read
  streamless:clear-unsignalled               streamless map: MapClear is never signalled to a subscriber
Also seen (not a C22/C16 violation, modelled as coded): a continuation command (cursor / stream phase) rebuilds the
SubscribeReply from the stored options and loses ClientSideRefresh, so a paginated map subscription answers a client
sub refresh with disconnect 3501.

A third finding needs a PUB/SUB lag of two deliveries, which the memory broker cannot produce (lag2_coded.cfg violates
C22, lag2_fixed.cfg is clean; reproduced on the real code with sim_lag2_fixed.cfg): a buffered publication at or before
the position of the live transition is returned in the live reply and put on top of the newer state.  Repair: drop
buffered publications with Offset <= sincePosition.Offset before the merge (13 lines, final report).  When the probe
finds both repairs in the tree ('fixed2'), the thorough tier of C22 also checks and replays the lag-2 configurations.

Mutation testing (FRAMEWORK rule 3; scratch worktrees /tmp/mapsub-m*, `VERIF_REPO=/tmp/mapsub-mN ./check C22|C16M
--seed 1`, quick tier, with the known-finding entries above in place).  Caught = exit 1 with a VIOLATION whose signature is
not a known finding:
  m1  handleMapStatePhase: last page goes live from the current page's position instead of the frozen first-page offset
      -> C22 exit 1 (unexplained:<mode>:<kind>: update of a later-page key between two pages lost)
  m2  handleMapStreamPhase: stream page read Since.Offset+1 (off by one)                       -> C22 exit 1
  m5  Node.MapStreamRead: trim detection off by one (first entry may be since+2)                -> C22 exit 1
      (recovered-with-missing-change:rlive / :rstream: recovered=true after trimming past the saved position)
  m8  handleMapStreamPhase: Removed flag dropped on stream pages (removal delivered as update)  -> C22 exit 1
  m19 handleMapStreamPhase: stream page answers with the stream top instead of the last offset  -> C22 exit 1
  m6  handleMapStatePhase: server tags filter applied to the first state page only              -> C16M exit 1
      (map-state-page-filtered:server, map-live-state-filtered:server)
  m7  handleMapTransitionToLive: client tags filter skipped when buffered publications exist    -> C16M exit 1
      (map-live-publications-filtered:client)
  m16 handleMapLivePhase: server tags filter not inherited on a direct-LIVE recovery join       -> C16M exit 1
      (map-live-publications-filtered:server, map-push-filtered:server)
  m23 writePublication: offset-0 publications excluded by the filter are pushed (streamless)    -> C16M exit 1
      (map-push-filtered:client / :server)
  m25 handleSubRefresh: changed server tags filter does not unsubscribe the map subscription    -> C16M exit 1
      (server-filter-change-not-invalidated)
Not exit 1:
  m3  live transition ignores the buffered publications -> exit 2: the probe reports a combination without a model variant
      (INCONCLUSIVE); replaying anyway, the server-side position stays behind the stream top, which the periodic
      position check ends with insufficient state, so most behaviours end told (DRIFT), one of 1500 ended silently
      diverged (unexplained:per:fresh)
  m9  offset filter of later state pages dropped -> exit 2 (DRIFT): frames differ, the client still converges
  m20 live transition position taken from the publications seen instead of the stream top -> exit 2 (DRIFT, converges)
  m21 stream phase goes live one entry too early -> exit 2 (DRIFT, converges)
  m4  StopBuffering moved before the reply write (a push can overtake the reply) -> exit 0, MISSED by construction: the
      tail of the live transition (lock buffer .. StopBuffering) contains no call through a public interface, the
      harness cannot place a delivery inside it (needs the verif hook of DESIGN 4.0)
Divergence handling: when the real code leaves the model (frames or gate differ) the harness stops following the model,
lets the reference client finish the protocol on the REAL replies, delivers everything withheld and judges the real outcome
(monitors + client map vs ReadState): VIOLATION if the real code broke the property, DRIFT otherwise.
"""
from lib import vf

LIVE_LIMIT = 3


def _probe(c, binp):
    """Which repairs does the tree carry?  -> 'coded' | 'fixed' (continuity check of stream reads) | 'fixed2' (plus stale
    buffered publications dropped in the live transition)."""
    r = c.harness(binp, 'probe', {}, timeout=120)
    contig, dropstale = bool(r['extra'].get('contig')), bool(r['extra'].get('dropstale'))
    if dropstale and not contig:
        raise vf.Inconclusive('probe: the tree drops stale buffered publications but accepts non-contiguous stream reads; no model variant for this combination')
    sfx = 'fixed2' if dropstale else 'fixed' if contig else 'coded'
    c.log('probe: tree is %r (%s; %s)' % (sfx, r['extra'].get('reply'), r['extra'].get('reply2')))
    c.notes.append('semantics of the tree (probed on the real code): %s' % {
        'coded': 'as coded (non-contiguous stream reads accepted)', 'fixed': 'continuity check of stream reads present',
        'fixed2': 'continuity check present and stale buffered publications dropped in the live transition'}[sfx])
    return sfx


def _replay(c, binp, cfg, n, props, totals):
    s = c.tlc('MapSub', 'MapSubSim', cfg, simulate=n, depth=45, timeout=1800)
    if not s['ok']:
        raise vf.Inconclusive('simulation found a model-level counterexample or failed: %s\n%s' % (s['error'], s['out'][-3000:]))
    behs = c.behaviours(s)
    c.log('TLC simulate %s: %d behaviours' % (cfg, len(behs)))
    res = c.harness(binp, 'replay', {'live_limit': LIVE_LIMIT, 'max_resub': 1, 'behaviours': behs}, timeout=1800)
    for v in res.get('violations') or []:
        if v.get('prop') in props:
            c.violation(v.get('sig', ''), v.get('what', ''), v.get('replay'))
    for d in res.get('drifts') or []:
        c.drifts.append(d)
    for k in ('completed', 'executed', 'nontrivial'):
        totals[k] = totals.get(k, 0) + res[k]
    c.cov['samples'] += (res.get('samples') or [])[:1]


def _run(c, quick_cfgs, thorough_cfgs, sim, props, nq, nt, lag2=False):
    quick = c.tier == 'quick'
    binp = c.go_build('mapsub')
    sfx = _probe(c, binp)
    cfgs = list(quick_cfgs if quick else thorough_cfgs)
    if lag2 and sfx == 'fixed2' and not quick:
        cfgs.append('lag2_fixed.cfg')        # both repairs present: a PUB/SUB lag of two deliveries must converge as well
    for cfg in cfgs:
        cfg = cfg.replace('@', sfx)
        r = c.tlc_exhaustive('MapSub', 'MapSub', cfg, workers=8, timeout=3000)
        c.log('TLC exhaustive %s: %d distinct / %d generated, depth %d, %.0fs' % (cfg, r['distinct'], r['states'], r['depth'], r['wall_s']))
    totals = {}
    _replay(c, binp, sim.replace('@', sfx), nq if quick else nt, props, totals)
    if lag2 and sfx == 'fixed2' and not quick:
        _replay(c, binp, 'sim_lag2_fixed2.cfg', 1500, props, totals)
    res = totals
    if res['completed'] == 0:
        raise vf.Inconclusive('dead driver: no behaviour completed')
    c.cov['traces_validated_against_impl'] = res['completed']
    c.cov['evaluations'] = res['executed']
    c.cov['distinct_nontrivial'] = res['nontrivial']
    c.cov['rule'] = ('behaviours of MapSub.tla generated by TLC -simulate (mode, kind of subscribe, filter, key tags, page size, stream size chosen in Init), each '
                     'replayed on a real node + client with the subscriber parked after MapBroker.ReadState / after the stream position read / inside '
                     'MapBroker.Subscribe / after MapBroker.ReadStream and deliveries injected at Node.HandlePublication; non-trivial = completed behaviour '
                     'containing a finished live transition, distinct by (cfg, step list)')
    c.assumptions += [
        'JSON protocol, one subscriber connection, one channel, two keys per behaviour; the tags of a key do not change within a behaviour',
        'at most one delivery in flight between broker and node (what the memory broker can do: HandlePublication runs under the channel publish lock); lag2_fixed.cfg documents what a longer PUB/SUB lag does',
        'the window between LockBufferAndReadBuffered and StopBuffering is atomic; handleInsufficientState runs immediately after it is spawned',
        'a positioned subscription whose position differs from the stream top is not a final state: the periodic position check (modelled as action PosCheck, replayed through Client.updatePresence with the node clock moved ahead) ends it with insufficient state',
        'reference client: applies state entries, then publications with offset 0 or offset > saved position (Removed deletes), ignores pushes outside an established subscription, resubscribes from scratch after error 112 / unsubscribe push; delta and ordered state are not modelled',
        'key expiry is triggered through the public API (TTL shortened by a suppressed if-new publish) plus one iteration of the sweep body; stream expiry through an overlay calling stream.Clear() as the sweep does; the position check through an overlay running one connection tick',
    ]


def c22(c):
    _run(c, ['quick_eph.cfg', 'quick_stream_@.cfg'], ['thorough_eph.cfg', 'thorough_rec_@.cfg', 'thorough_per_@.cfg'],
         'sim_@.cfg', {'C22'}, 1000, 8000, lag2=True)


def c16_map(c):
    _run(c, ['quick_filt_@.cfg'], ['thorough_filt_@.cfg', 'thorough_eph.cfg'], 'sim_filt_@.cfg', {'C16', 'C16M'}, 800, 6000)


CHECKS = {'C22': c22, 'C16M': c16_map}

_note = ('Bounds: exhaustive 2 keys, <=3 environment operations on top of 0 or 2 initially present keys (quick: 2 operations, empty start; streamless maps 3 / 4), '
         'page size 1-2, stream size 1-2, live transition limit 3, three modes, fresh subscribe / recovery join by LIVE / by STREAM phase, no / client / server tags '
         'filter, one resubscribe after an explicit end, periodic position check; replay: 1000 (quick) / 8000 (thorough) simulated behaviours with <=5 operations on '
         '0-2 initial keys. Trusted: TLC, lib/tlaparse.py, harness projection / reference client / monitor code, overlay/mapsub (runs the sweep bodies and one '
         'connection tick). Redis map broker not covered.')
META = {
    'C22': dict(level='model_checking',
                text='MapSub.tla models the subscription protocol as coded (every page its own command, the live transition split at its natural gates) over a map broker '
                     'abstraction with a concurrent environment, and a reference client; TLC checks exhaustively that in quiescent states the client map equals the broker '
                     'state restricted to admitted keys unless the client was told, and that recovered=true carries every admitted change; every simulated behaviour is '
                     'replayed on a real client with the subscriber parked exactly where the model says; the verdict compares the real reference client map with the real '
                     'broker ReadState and checks the recovery monitor on the real frames.',
                note=_note, technique='TLA+ spec + TLC exhaustive; gate replay of TLC behaviours on real clients; independent reference (client map vs ReadState)'),
    'C16M': dict(level='model_checking',
                 text='Same specification with client or server tags filter: no state page entry, stream page publication, live reply entry/publication or live push of a key '
                      'excluded by the filter is delivered; a sub refresh that changes the server tags filter ends the map subscription with unsubscribe code 2502; '
                      'evaluated on the real frames of every replayed behaviour.',
                 note=_note, technique='TLA+ spec + TLC exhaustive; gate replay; observable-only monitor'),
}
