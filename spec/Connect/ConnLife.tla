------------------------------ MODULE ConnLife ------------------------------
(* C08  Connection lifecycle callbacks fire once and in order (and shutdown).
   C11  The connect reply is the first server message (bidirectional part).

   Two connections of one node.  Threads, split exactly where the harness can
   hold the real code through public interfaces (DESIGN 4.0):

   reader   connect command: HandleCommand -> connectCmd (or Client.Connect of a
            unidirectional transport: the same connectCmd / triggerConnect /
            scheduleOnConnectTimers sequence).  Parked inside the OnConnecting
            handler ("oc"); after authenticated := TRUE inside Node.addClient
            BEFORE the hub registration ("ac": Transport.AcceptProtocol, called
            by addClient when Config.Metrics.ExposeTransportAcceptProtocol is
            set; c.mu is held there, so a close() of the connection blocks);
            after hub.add and the shutdown check inside Broker.Subscribe of a
            connect-time server-side subscription ("ss"); after the connect
            reply inside the OnConnect handler, i.e. inside triggerConnect with
            connectMu held and the status still "connecting" ("cn"); the
            handler returns and status := connected ("tm"); then
            scheduleOnConnectTimers arms the presence or the expiry timer
            ("up").  Timer arming is its own step (ConnArm): no timer of the
            connection is armed before its OnConnect callback returned, so no
            alive / refresh / sub-refresh callback (all timer driven) can start
            before that ("connect-ret" in the callback log).
   tick     the presence timer: updatePresence takes presenceMu, checks the
            status, re-arms, and is parked inside the OnAlive handler ("al")
            (a sub-refresh callback is delivered by the same tick after OnAlive).
   expiry   a connection with expiring credentials and server-side refresh
            (expv) arms the expiry timer first; when it fires the refresh handler
            runs ("refresh"), its answer moves the deadline behind the presence
            tick, which is armed next (TimerExpire).
   closers  Client.Disconnect, the transport's close function, Node.Shutdown
            (one per connection of the hub snapshot).  close() takes connectMu
            for its whole duration (blocked while a reader is in "cn"), flips
            the status, stops the timer, leaves the hub, closes the writer and
            is parked at Transport.Close ("tc"); then takes presenceMu (blocked
            while a tick is in "al": "pm"), runs the unsubscribe callbacks and,
            iff the previous status was connected, the disconnect callback.
            Every later close() finds the status closed and returns.
   node     Shutdown: flag + hub snapshot + one closer per snapshotted
            connection (ShutBegin), returns when they all returned (ShutDone).

   A thread that is not parked at a gate and not blocked on a lock runs on by
   itself: Urgent = TRUE makes such steps (the start of an enabled closer) the
   only enabled ones - replay configurations; FALSE explores every delay.

   Guard = TRUE models the connect handshake refusing a connection once the
   shutdown flag is set, checked right AFTER the hub registration (ConnReg):
   Shutdown sets the flag and then snapshots the hub, so a connection is either
   in the snapshot or sees the flag - the statement of C08.  Guard = FALSE is a
   handshake without (or with a misplaced) check: its counterexamples are the
   witness schedules (shutdown before OnConnecting returned; shutdown between
   authentication and hub registration: Wit3); replay on the real code diverges
   exactly there and the monitor decides.                                    *)
EXTENDS Naturals, Sequences, FiniteSets, TLC

CONSTANTS Conns, MaxEnv, Urgent, Guard, SS, Pushes,
          Exp      \* connections that may come with expiring credentials (server-side refresh)

Shutdown == 3001   ForceNoRec == 3503   ConnClosed == 3000   BadRequest == 3501

VARIABLES
  st,      \* "absent" | "connecting" | "connected" | "closed"
  auth, hub,
  rd,      \* reader: "idle" | "oc" | "ac" | "ss" | "cn" | "tm" | "up" | "done"
  tk,      \* presence tick: "idle" | "al"
  tmr,     \* the connection's armed timer (after the handshake): "none" | "presence" | "expire"
  expv,    \* the connection has expiring credentials
  sub,     \* "none" | "live"
  spawned, \* closers not yet running: sequence of codes
  cl,      \* the closer that owns the close: "none" | "tc" | "pm" | "done"
  who,     \* its code
  prev,    \* status it replaced
  shc,     \* shutdown's closer for the connection: "none" | "spawned" | "done"
  shut,    \* "no" | "begun" | "done"
  win,     \* where shutdown found the connection: "ac" reader between authentication and hub registration,
           \* "cn" reader inside OnConnect with a close() of the connection already blocked behind it, else "no"
  cbdone,  \* length of cb[c] when shutdown completed
  pushed,  \* pushes the environment sent to the connection (C11)
  nenv,
  out, cb, step

vars == <<st, auth, hub, rd, tk, tmr, expv, sub, spawned, cl, who, prev, shc, shut, win, cbdone, pushed, nenv, out, cb, step>>

F(t, c) == [t |-> t, code |-> c]
Upd(f, c, v) == [f EXCEPT ![c] = v]

Init ==
  /\ st = [c \in Conns |-> "absent"] /\ auth = [c \in Conns |-> FALSE] /\ hub = [c \in Conns |-> FALSE]
  /\ rd = [c \in Conns |-> "idle"] /\ tk = [c \in Conns |-> "idle"] /\ tmr = [c \in Conns |-> "none"]
  /\ expv = [c \in Conns |-> FALSE] /\ win = [c \in Conns |-> "no"]
  /\ sub = [c \in Conns |-> "none"] /\ spawned = [c \in Conns |-> <<>>]
  /\ cl = [c \in Conns |-> "none"] /\ who = [c \in Conns |-> 0] /\ prev = [c \in Conns |-> "absent"]
  /\ shc = [c \in Conns |-> "none"] /\ shut = "no" /\ cbdone = [c \in Conns |-> 0]
  /\ pushed = [c \in Conns |-> 0] /\ nenv = 0
  /\ out = [c \in Conns |-> <<>>] /\ cb = [c \in Conns |-> <<>>]
  /\ step = [act |-> "Init"]

\* close() takes connectMu (held by the reader inside triggerConnect) and then c.mu (held by connectCmd across
\* Node.addClient, i.e. while the reader is parked in "ac")
ConnectMuFree(c)  == rd[c] \notin {"ac", "cn"} /\ cl[c] \notin {"tc", "pm"}
\* Several close() calls blocked on connectMu behind a reader are woken in no particular order. Replay
\* configurations keep at most one of them waiting there (behind another close() the order does not matter:
\* all later ones find the connection closed).  A close() blocked on c.mu behind a reader in "ac" races with the
\* rest of connectCmd once the lock is dropped (no gate there): replay configurations do not start one.
MaySpawn(c) == Urgent => ((rd[c] = "cn" => spawned[c] = <<>>) /\ rd[c] # "ac")
PresenceMuFree(c) == tk[c] # "al"
Env == nenv < MaxEnv /\ nenv' = nenv + 1

\* the callbacks at the end of close()
CloseCallbacks(c, k) ==
  LET k1 == IF sub[c] = "live" /\ \E i \in 1..Len(k[c]) : k[c][i] = "connect" THEN Append(k[c], "unsubscribe") ELSE k[c]
      k2 == IF prev[c] = "connected" THEN Append(k1, "disconnect") ELSE k1
  IN Upd(k, c, k2)


(* a transport handler creates the client *)
NewConn(c) ==
  /\ st[c] = "absent"
  /\ st' = Upd(st, c, "connecting")
  /\ \E e \in (IF c \in Exp THEN BOOLEAN ELSE {FALSE}) :
       /\ expv' = Upd(expv, c, e)
       /\ step' = [act |-> "NewConn", c |-> c, exp |-> e]
  /\ UNCHANGED <<auth, hub, rd, tk, tmr, sub, spawned, cl, who, prev, shc, shut, win, cbdone, pushed, nenv, out, cb>>

(* ---- reader: the connect command ---- *)
ConnBegin(c) ==
  /\ st[c] # "absent" /\ rd[c] = "idle"
  /\ step' = [act |-> "ConnBegin", c |-> c]
  /\ IF st[c] = "closed"
       THEN rd' = Upd(rd, c, "done") /\ UNCHANGED cb
       ELSE rd' = Upd(rd, c, "oc") /\ cb' = Upd(cb, c, Append(cb[c], "connecting"))
  /\ UNCHANGED <<st, auth, hub, tk, tmr, expv, sub, spawned, cl, who, prev, shc, shut, win, cbdone, pushed, nenv, out>>

\* the connect reply, then triggerConnect up to the OnConnect handler
ReplyAndTrigger(c, o, k) ==
  IF st[c] = "closed"
    THEN \* closed during connect: the reply is dropped, the server-side subscription rolled back
         /\ rd' = Upd(rd, c, "done") /\ out' = o /\ cb' = k /\ UNCHANGED sub
    ELSE /\ out' = Upd(o, c, Append(o[c], F("connect", 0)))
         /\ sub' = IF SS /\ c = 1 THEN Upd(sub, c, "live") ELSE sub
         /\ cb' = Upd(k, c, Append(k[c], "connect"))
         /\ rd' = Upd(rd, c, "cn")

\* OnConnecting returned: c.mu, status check, authenticated := TRUE, into Node.addClient up to Transport.AcceptProtocol
ConnAuth(c) ==
  /\ rd[c] = "oc"
  /\ step' = [act |-> "ConnAuth", c |-> c]
  /\ IF st[c] = "closed"
       THEN rd' = Upd(rd, c, "done") /\ UNCHANGED auth
       ELSE rd' = Upd(rd, c, "ac") /\ auth' = Upd(auth, c, TRUE)
  /\ UNCHANGED <<st, hub, tk, tmr, expv, sub, spawned, cl, who, prev, shc, shut, win, cbdone, pushed, nenv, out, cb>>

\* hub.add, THEN the shutdown check, the reservations, c.mu released; on to the connect-time subscription / the reply
ConnReg(c) ==
  /\ rd[c] = "ac"
  /\ step' = [act |-> "ConnReg", c |-> c]
  /\ hub' = Upd(hub, c, TRUE)
  /\ IF Guard /\ shut # "no"
       THEN \* the node is shutting down: disconnect(shutdown) instead of a reply
            /\ spawned' = Upd(spawned, c, Append(spawned[c], Shutdown))
            /\ rd' = Upd(rd, c, "done") /\ UNCHANGED <<sub, out, cb>>
       ELSE IF SS /\ c = 1
       THEN rd' = Upd(rd, c, "ss") /\ UNCHANGED <<spawned, sub, out, cb>>
       ELSE ReplyAndTrigger(c, out, cb) /\ UNCHANGED spawned
  /\ UNCHANGED <<st, auth, tk, tmr, expv, cl, who, prev, shc, shut, win, cbdone, pushed, nenv>>

ConnReply(c) ==
  /\ rd[c] = "ss"
  /\ step' = [act |-> "ConnReply", c |-> c]
  /\ IF cl[c] = "pm" /\ PresenceMuFree(c)
       THEN \* closed during connect, and the close() was waiting for this subscribe: it finishes now
            /\ rd' = Upd(rd, c, "done") /\ UNCHANGED <<out, sub>>
            /\ cb' = CloseCallbacks(c, cb) /\ cl' = Upd(cl, c, "done")
            /\ shc' = IF who[c] = Shutdown /\ shc[c] = "spawned" THEN Upd(shc, c, "done") ELSE shc
       ELSE ReplyAndTrigger(c, out, cb) /\ UNCHANGED <<cl, shc>>
  /\ UNCHANGED <<st, auth, hub, tk, tmr, expv, spawned, who, prev, shut, win, cbdone, pushed, nenv>>

\* the OnConnect handler returns; triggerConnect flips the status and drops connectMu
ConnDone(c) ==
  /\ rd[c] = "cn"
  /\ rd' = Upd(rd, c, "tm")
  /\ st' = Upd(st, c, "connected")
  /\ cb' = Upd(cb, c, Append(cb[c], "connect-ret"))
  /\ step' = [act |-> "ConnDone", c |-> c]
  /\ UNCHANGED <<auth, hub, tk, tmr, expv, sub, spawned, cl, who, prev, shc, shut, win, cbdone, pushed, nenv, out>>

\* scheduleOnConnectTimers: the earliest of presence / expiry is armed (nothing when a close() got in between)
ConnArm(c) ==
  /\ rd[c] = "tm"
  /\ rd' = Upd(rd, c, "up")
  /\ tmr' = IF st[c] = "closed" THEN tmr ELSE Upd(tmr, c, IF expv[c] THEN "expire" ELSE "presence")
  /\ step' = [act |-> "ConnArm", c |-> c]
  /\ UNCHANGED <<st, auth, hub, tk, expv, sub, spawned, cl, who, prev, shc, shut, win, cbdone, pushed, nenv, out, cb>>

(* ---- commands of a connected client ---- *)
Subscribe(c) ==
  /\ ~Pushes /\ Env /\ rd[c] = "up" /\ st[c] = "connected" /\ sub[c] = "none" /\ spawned[c] = <<>>
  /\ sub' = Upd(sub, c, "live")
  /\ out' = Upd(out, c, Append(out[c], F("subscribe", 0)))
  /\ cb' = Upd(cb, c, Append(cb[c], "subscribe"))
  /\ step' = [act |-> "Subscribe", c |-> c]
  /\ UNCHANGED <<st, auth, hub, rd, tk, tmr, expv, spawned, cl, who, prev, shc, shut, win, cbdone, pushed>>

Unsubscribe(c) ==
  /\ ~Pushes /\ Env /\ rd[c] = "up" /\ st[c] = "connected" /\ sub[c] = "live" /\ spawned[c] = <<>>
  /\ sub' = Upd(sub, c, "none")
  /\ out' = Upd(out, c, Append(out[c], F("unsubscribe", 0)))
  /\ cb' = Upd(cb, c, Append(cb[c], "unsubscribe"))
  /\ step' = [act |-> "Unsubscribe", c |-> c]
  /\ UNCHANGED <<st, auth, hub, rd, tk, tmr, expv, spawned, cl, who, prev, shc, shut, win, cbdone, pushed>>

\* a second connect command on an authenticated connection: bad request, no callback
DupConnect(c) ==
  /\ Env /\ rd[c] = "up" /\ st[c] = "connected" /\ MaySpawn(c)
  /\ spawned' = Upd(spawned, c, Append(spawned[c], BadRequest))
  /\ step' = [act |-> "DupConnect", c |-> c]
  /\ UNCHANGED <<st, auth, hub, rd, tk, tmr, expv, sub, cl, who, prev, shc, shut, win, cbdone, pushed, out, cb>>

(* ---- presence tick ---- *)
TickBegin(c) ==
  /\ Env /\ tmr[c] = "presence" /\ tk[c] = "idle" /\ st[c] = "connected"
  /\ tk' = Upd(tk, c, "al")
  /\ cb' = Upd(cb, c, Append(cb[c], "alive"))
  /\ step' = [act |-> "TickBegin", c |-> c]
  /\ UNCHANGED <<st, auth, hub, rd, tmr, expv, sub, spawned, cl, who, prev, shc, shut, win, cbdone, pushed, out>>

\* close() runs its callbacks once it has presenceMu (no tick inside OnAlive) and its unsubscribe loop does not
\* have to wait for the connect-time server-side subscription that is still in flight (reader parked in "ss")
TickEnd(c) ==
  /\ tk[c] = "al"
  /\ tk' = Upd(tk, c, "idle")
  /\ step' = [act |-> "TickEnd", c |-> c]
  /\ IF cl[c] = "pm" /\ rd[c] # "ss"
       THEN \* a close() was waiting for presenceMu: it finishes now
            /\ cb' = CloseCallbacks(c, cb) /\ sub' = Upd(sub, c, "none") /\ cl' = Upd(cl, c, "done")
            /\ shc' = IF who[c] = Shutdown /\ shc[c] = "spawned" THEN Upd(shc, c, "done") ELSE shc
       ELSE UNCHANGED <<cb, sub, cl, shc>>
  /\ UNCHANGED <<st, auth, hub, rd, tmr, expv, spawned, who, prev, shut, win, cbdone, pushed, nenv, out>>

(* ---- expiry timer: the refresh handler runs and answers with a deadline behind the presence tick ---- *)
TimerExpire(c) ==
  /\ Env /\ tmr[c] = "expire" /\ st[c] = "connected"
  /\ tmr' = Upd(tmr, c, "presence")
  /\ cb' = Upd(cb, c, Append(cb[c], "refresh"))
  /\ step' = [act |-> "TimerExpire", c |-> c]
  /\ UNCHANGED <<st, auth, hub, rd, tk, expv, sub, spawned, cl, who, prev, shc, shut, win, cbdone, pushed, out>>

(* ---- closers ---- *)
Disconnect(c) ==
  /\ Env /\ st[c] \notin {"absent"} /\ MaySpawn(c)
  /\ spawned' = Upd(spawned, c, Append(spawned[c], ForceNoRec))
  /\ step' = [act |-> "Disconnect", c |-> c]
  /\ UNCHANGED <<st, auth, hub, rd, tk, tmr, expv, sub, cl, who, prev, shc, shut, win, cbdone, pushed, out, cb>>

TransportClose(c) ==
  /\ Env /\ st[c] \notin {"absent"} /\ MaySpawn(c)
  /\ spawned' = Upd(spawned, c, Append(spawned[c], ConnClosed))
  /\ step' = [act |-> "TransportClose", c |-> c]
  /\ UNCHANGED <<st, auth, hub, rd, tk, tmr, expv, sub, cl, who, prev, shc, shut, win, cbdone, pushed, out, cb>>

CloseStartEnabled(c) == spawned[c] # <<>> /\ ConnectMuFree(c)

CloseStart(c) ==
  /\ CloseStartEnabled(c)
  /\ \E j \in 1..Len(spawned[c]) :
     LET code == spawned[c][j] IN
     /\ spawned' = Upd(spawned, c, [x \in 1..(Len(spawned[c]) - 1) |-> IF x < j THEN spawned[c][x] ELSE spawned[c][x + 1]])
     /\ step' = [act |-> "CloseStart", c |-> c, code |-> code]
     /\ IF st[c] = "closed"
          THEN \* somebody closed it already: returns at once
               /\ shc' = IF code = Shutdown /\ shc[c] = "spawned" THEN Upd(shc, c, "done") ELSE shc
               /\ UNCHANGED <<st, hub, tmr, cl, who, prev>>
          ELSE /\ prev' = Upd(prev, c, st[c]) /\ st' = Upd(st, c, "closed")
               /\ tmr' = Upd(tmr, c, "none") /\ hub' = Upd(hub, c, FALSE)
               /\ cl' = Upd(cl, c, "tc") /\ who' = Upd(who, c, code)
               /\ UNCHANGED shc
  /\ UNCHANGED <<auth, rd, tk, expv, sub, shut, win, cbdone, pushed, nenv, out, cb>>

\* Transport.Close happens; then presenceMu, the unsubscribe loop and the disconnect callback
CloseXmit(c) ==
  /\ cl[c] = "tc"
  /\ out' = Upd(out, c, Append(out[c], F("disc", who[c])))
  /\ step' = [act |-> "CloseXmit", c |-> c]
  /\ IF PresenceMuFree(c) /\ rd[c] # "ss"
       THEN /\ cb' = CloseCallbacks(c, cb) /\ sub' = Upd(sub, c, "none") /\ cl' = Upd(cl, c, "done")
            /\ shc' = IF who[c] = Shutdown /\ shc[c] = "spawned" THEN Upd(shc, c, "done") ELSE shc
       ELSE cl' = Upd(cl, c, "pm") /\ UNCHANGED <<cb, sub, shc>>
  /\ UNCHANGED <<st, auth, hub, rd, tk, tmr, expv, spawned, who, prev, shut, win, cbdone, pushed, nenv>>

(* ---- node shutdown ---- *)
ShutBegin ==
  \* Shutdown's close() of a connection WAITS for a close() that is already in flight (blocked on connectMu behind a
  \* reader inside OnConnect): both wait there, whichever gets the lock closes, the other finds the connection closed
  /\ shut = "no" /\ \A c \in Conns : hub[c] => (Urgent => (rd[c] = "cn" => Len(spawned[c]) <= 1))
  /\ shut' = "begun"
  /\ spawned' = [c \in Conns |-> IF hub[c] THEN Append(spawned[c], Shutdown) ELSE spawned[c]]
  /\ shc' = [c \in Conns |-> IF hub[c] THEN "spawned" ELSE "none"]
  /\ win' = [c \in Conns |-> IF rd[c] = "ac" THEN "ac" ELSE IF rd[c] = "cn" /\ spawned[c] # <<>> THEN "cn" ELSE "no"]
  /\ step' = [act |-> "ShutBegin"]
  /\ UNCHANGED <<st, auth, hub, rd, tk, tmr, expv, sub, cl, who, prev, cbdone, pushed, nenv, out, cb>>

ShutDone ==
  /\ shut = "begun" /\ \A c \in Conns : shc[c] # "spawned"
  /\ shut' = "done"
  /\ cbdone' = [c \in Conns |-> Len(cb[c])]
  /\ step' = [act |-> "ShutDone"]
  /\ UNCHANGED <<st, auth, hub, rd, tk, tmr, expv, sub, spawned, cl, who, prev, shc, win, pushed, nenv, out, cb>>

(* ---- C11: something is sent to the connection while its connect command is still under way ----
   kind "send": Client.Send on the client found through Hub().Connections();
   kind "pub":  a publication without history (no offset) on channel "a", the connect-time server-side subscription
                whose Broker.Subscribe is the gate (its hub entry exists from the moment the reader is inside it);
   kind "hpub": a publication WITH history (it carries an offset) on one of the connect-time server-side
                subscriptions of the connection: "a" (not positioned, reader parked inside its Broker.Subscribe), "b"
                (not positioned, its subscribe finished: it is in the hub and only reserved in the client until the
                connect reply is out), "p" (positioned: buffered by the publication/subscribe synchronisation).
   The intended behaviour: nothing overtakes the connect reply. *)
PushChans == {"a", "b", "p"}
Push(c, kind, ch) ==
  /\ Pushes /\ Env /\ hub[c] /\ st[c] # "closed"
  /\ kind = "send" => ch = "-"
  /\ kind = "pub" => ch = "a"
  /\ kind = "hpub" => ch \in PushChans
  /\ kind # "send" => (SS /\ c = 1 /\ (rd[c] = "ss" \/ sub[c] = "live"))
  /\ pushed' = Upd(pushed, c, pushed[c] + 1)
  /\ out' = IF rd[c] \in {"cn", "tm", "up"} THEN Upd(out, c, Append(out[c], F("push", pushed[c] + 1))) ELSE out
  /\ step' = [act |-> "Push", c |-> c, kind |-> kind, ch |-> ch, n |-> pushed[c] + 1, window |-> rd[c] \notin {"cn", "tm", "up"}]
  /\ UNCHANGED <<st, auth, hub, rd, tk, tmr, expv, sub, spawned, cl, who, prev, shc, shut, win, cbdone, cb>>

AnyPush(c) == Push(c, "send", "-") \/ Push(c, "pub", "a") \/ \E ch \in PushChans : Push(c, "hpub", ch)

Next ==
  IF Urgent /\ \E c \in Conns : CloseStartEnabled(c)
    THEN \E c \in Conns : CloseStart(c)
  ELSE IF Urgent /\ \E c \in Conns : rd[c] = "tm"
    THEN \E c \in Conns : ConnArm(c)
    ELSE \/ \E c \in Conns : NewConn(c) \/ ConnBegin(c) \/ ConnAuth(c) \/ ConnReg(c) \/ ConnReply(c) \/ ConnDone(c) \/ ConnArm(c)
                             \/ Subscribe(c) \/ Unsubscribe(c) \/ DupConnect(c) \/ TickBegin(c) \/ TickEnd(c) \/ TimerExpire(c)
                             \/ Disconnect(c) \/ TransportClose(c) \/ CloseStart(c) \/ CloseXmit(c)
                             \/ AnyPush(c)
         \/ ShutBegin \/ ShutDone

Spec == Init /\ [][Next]_vars

---------------------------------------------------------------------------
(* C08: observable-only monitors over the callback log of each connection (and the moment shutdown completed) *)
Idx(s, x) == {i \in 1..Len(s) : s[i] = x}
Enabled8 == {"alive", "refresh", "subscribe", "unsubscribe", "disconnect"}
\* callbacks driven by the connection's timers (the sub-refresh callback is part of the tick that delivers "alive")
Timed8 == {"alive", "refresh"}

C08_Order ==
  \A c \in Conns :
    LET k == cb[c] IN
    /\ Cardinality(Idx(k, "connect")) <= 1
    /\ Cardinality(Idx(k, "disconnect")) <= 1
    \* the connect callback precedes every callback it enables
    /\ \A i \in 1..Len(k) : k[i] \in Enabled8 => \E j \in 1..(i - 1) : k[j] = "connect"
    \* no alive / refresh / sub-refresh callback starts before the connect callback returned
    /\ \A i \in 1..Len(k) : k[i] \in Timed8 => \E j \in 1..(i - 1) : k[j] = "connect-ret"
    \* nothing of the connection's life after the disconnect callback
    /\ \A i \in Idx(k, "disconnect") : \A j \in (i + 1)..Len(k) : k[j] \notin {"alive", "refresh", "connect", "connect-ret", "disconnect"}

\* the same as a statement about the timers: none is armed before the OnConnect callback returned
C08_NoEarlyTimer == \A c \in Conns : tmr[c] # "none" => rd[c] = "up"

\* one unsubscribe callback per established subscription that ended
Established(c) == Cardinality({i \in 1..Len(out[c]) : out[c][i].t = "subscribe"})
                  + (IF SS /\ c = 1 /\ \E i \in 1..Len(out[c]) : out[c][i].t = "connect" THEN 1 ELSE 0)
C08_Unsub ==
  \A c \in Conns :
    LET n == Cardinality(Idx(cb[c], "unsubscribe")) IN
    /\ n <= Established(c)
    /\ (cl[c] = "done" /\ \E i \in 1..Len(cb[c]) : cb[c][i] = "connect") => n = Established(c)

\* after shutdown completed nothing is connected and nothing becomes connected
C08_Shutdown ==
  shut = "done" =>
    \A c \in Conns :
      \* (a refused connection is registered until the close() that refuses it has run)
      /\ st[c] # "connected" /\ (hub[c] => spawned[c] # <<>>)
      /\ \A i \in (cbdone[c] + 1)..Len(cb[c]) : cb[c][i] # "connect"

C08 == C08_Order /\ C08_NoEarlyTimer /\ C08_Unsub /\ C08_Shutdown

\* C11: the first frame of a connection is the connect reply
C11_First == \A c \in Conns : out[c] # <<>> => out[c][1].t \in {"connect", "disc"}

\* witness predicates (negated scenarios: TLC's counterexample is the schedule replayed on every run)
\* Node.Shutdown begins while the connect command is still inside OnConnecting (or earlier) ...
Wit1 == ~(shut = "done" /\ \E c \in Conns : win[c] # "ac" /\ st[c] = "connected" /\ rd[c] = "up")
Wit2 == ~(shut = "done" /\ \E c \in Conns : win[c] # "ac" /\ rd[c] = "up" /\ \E i \in (cbdone[c] + 1)..Len(cb[c]) : cb[c][i] = "connect")
\* ... or while the connect command is between its authentication step and the hub registration: the connection is
\* neither in Shutdown's hub snapshot nor (with a shutdown check placed before the registration) refused; it
\* completes its handshake while Shutdown runs (Wit3) / after Shutdown returned (Wit4)
Wit3 == ~(shut = "done" /\ \E c \in Conns : win[c] = "ac" /\ st[c] = "connected" /\ rd[c] = "up" /\ \E i \in 1..cbdone[c] : cb[c][i] = "connect")
Wit4 == ~(shut = "done" /\ \E c \in Conns : win[c] = "ac" /\ rd[c] = "up" /\ \E i \in (cbdone[c] + 1)..Len(cb[c]) : cb[c][i] = "connect")
\* Node.Shutdown is called while a close() of a connection is blocked behind its reader inside OnConnect, and returns
Wit5 == ~(shut = "done" /\ \E c \in Conns : win[c] = "cn")
WitPushSend == ~(step.act = "Push" /\ step.kind = "send" /\ step.window)
WitPushPub  == ~(step.act = "Push" /\ step.kind = "pub" /\ step.window)
WitPushHpubA == ~(step.act = "Push" /\ step.kind = "hpub" /\ step.ch = "a" /\ step.window)
WitPushHpubB == ~(step.act = "Push" /\ step.kind = "hpub" /\ step.ch = "b" /\ step.window)
WitPushHpubP == ~(step.act = "Push" /\ step.kind = "hpub" /\ step.ch = "p" /\ step.window)

TypeOK == nenv <= MaxEnv
View == <<st, auth, hub, rd, tk, tmr, expv, sub, spawned, cl, who, prev, shc, shut, win, cbdone, pushed, nenv, out, cb>>
=============================================================================
