--------------------------- MODULE MapBrokerPages ---------------------------
(* C21 as a table: every state over the keys of KeySeq with every assignment of
   the scores (ties and the extremes included; unordered channels: key sets) is
   one initial state; `tbl` holds, computed by the pagination operators of
   MapBroker (transcribed from mapHub.getState / map_broker.go), the pages of
   every walk (page size x direction) with their cursors, and single pages
   from arbitrary cursor positions (keys that are absent, scores that differ
   from the stored one -- what a cursor looks like after the state changed).
   TLC checks the theorem (PaginationEnumerates, ProbesAreRefPages) on every
   state; the harness builds every state on the real broker and compares. *)
EXTENDS MapBroker

VARIABLE tbl

PEntry(k, sc) == [off |-> Rank(k), id |-> Rank(k), sc |-> sc, exp |-> 0, ver |-> 0, vep |-> "", seq |-> 0]
PStates(ord) == UNION {[D -> (IF ord THEN Scores ELSE {0})] : D \in SUBSET Keys}

RECURSIVE PagesOf(_, _, _, _, _, _)
PagesOf(s, ord, c, limit, asc, fuel) ==
  LET r == PageImpl(s, ord, c, limit, asc)
  IN IF ~r.next.has \/ fuel = 0 THEN <<r>> ELSE <<r>> \o PagesOf(s, ord, r.next, limit, asc, fuel - 1)

(* write-write-read sequences AFTER a read built the channel's sorted view (the cache must be invalidated by every write that
   owes it, however later writes look): rescore key a, then re-publish key b unchanged, then read; and remove key rm, publish a
   new key add, re-publish key b unchanged, then read.  The expected order is that of the resulting state. *)
Rescored(a, sc) == [st EXCEPT ![a].sc = sc]
Swapped(rm, add) == [k \in (DOMAIN st \ {rm}) \cup {add} |-> IF k = add THEN PEntry(add, IF cf.ord THEN st[rm].sc ELSE 0) ELSE st[k]]
Rescores == IF ~cf.ord THEN {} ELSE
  {[a |-> a, sc |-> sc, b |-> b, asc |-> SortedKeys(Rescored(a, sc), TRUE, TRUE), desc |-> SortedKeys(Rescored(a, sc), TRUE, FALSE)] :
     a \in DOMAIN st, sc \in Scores, b \in DOMAIN st}
RescoresOK == {r \in Rescores : r.sc # st[r.a].sc /\ r.b # r.a}
SwapsAll ==
  {[rm |-> rm, add |-> add, b |-> b, asc |-> SortedKeys(Swapped(rm, add), cf.ord, TRUE), desc |-> SortedKeys(Swapped(rm, add), cf.ord, FALSE)] :
     rm \in DOMAIN st, add \in Keys \ DOMAIN st, b \in DOMAIN st}
Swaps == {x \in SwapsAll : x.b # x.rm}

ProbeCursors == [has : {TRUE}, sc : (IF cf.ord THEN Scores ELSE {0}), k : Keys]
Table ==
  [walks  |-> {[limit |-> l, asc |-> a, pages |-> PagesOf(st, cf.ord, NoCur, l, a, Cardinality(DOMAIN st) + 1)] :
                 l \in PageSizes, a \in BOOLEAN},
   sorted |-> [asc |-> SortedKeys(st, cf.ord, TRUE), desc |-> SortedKeys(st, cf.ord, FALSE)],
   rescores |-> RescoresOK, swaps |-> Swaps,
   probes |-> {[cur |-> c, asc |-> a, limit |-> 2, page |-> PageImpl(st, cf.ord, c, 2, a), ref |-> RefPage(st, cf.ord, c, 2, a)] :
                 c \in ProbeCursors, a \in BOOLEAN}]

PInit ==
  /\ cf \in {Cfg("per", FALSE, 0, 8, 50, 0), Cfg("per", TRUE, 0, 8, 50, 0)}
  /\ \E f \in PStates(cf.ord) : st = [k \in DOMAIN f |-> PEntry(k, f[k])]
  /\ chEx = TRUE /\ chOrd = cf.ord /\ top = 0 /\ win = <<>> /\ ep = 1 /\ epc = 1
  /\ expAt = 0 /\ expQ = 0 /\ remAt = 0 /\ remQ = 0
  /\ idem = Empty /\ iq = {} /\ gidem = Empty /\ nkc = 0 /\ pl = FALSE /\ hq = <<>> /\ sub = DOMAIN st /\ pend = <<>>
  /\ now = 0 /\ npub = 0 /\ nops = 0 /\ bc = <<>>
  /\ step = [act |-> "Init"]
  /\ tbl = Table

PNext == UNCHANGED <<vars, tbl>>
PSpec == PInit /\ [][PNext]_<<vars, tbl>>

ProbesAreRefPages == \A p \in tbl.probes : p.page.keys = p.ref
WalksEnumerate ==
  \A w \in tbl.walks :
     LET all == IF Len(w.pages) = 0 THEN <<>> ELSE FoldLeft(LAMBDA acc, p : acc \o p.keys, <<>>, w.pages)
     IN /\ all = (IF w.asc THEN tbl.sorted.asc ELSE tbl.sorted.desc)
        /\ ~w.pages[Len(w.pages)].next.has
        /\ Len(w.pages) <= (IF Cardinality(DOMAIN st) = 0 THEN 1 ELSE Cardinality(DOMAIN st))
        /\ \A i \in 1..(Len(w.pages) - 1) : Len(w.pages[i].keys) = w.limit
=============================================================================
