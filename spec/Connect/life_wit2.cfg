SPECIFICATION Spec
CONSTANTS
  Conns = {1, 2}
  MaxEnv = 2
  Urgent = TRUE
  Guard = FALSE
  SS = TRUE
  Exp = {}
  Pushes = FALSE
INVARIANTS Wit2
CHECK_DEADLOCK FALSE
