SPECIFICATION Spec
CONSTANTS
  MaxCmds = 3
  MaxAsync = 2
  MaxFires = 0
  MaxEnv = 0
  UrgentClose = TRUE
  AfterClose = FALSE
  WithHist = TRUE
  Reduced = FALSE
  CfgSet <- CfgQuick
  GenericKinds = {"publish", "presence", "presence_stats", "history", "rpc"}
INVARIANTS TypeOK C09 OneClose NothingAfterClose
CHECK_DEADLOCK FALSE
