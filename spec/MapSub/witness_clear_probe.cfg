SPECIFICATION Spec
CONSTANTS
  NK = 2
  MaxOps = 2
  MaxLag = 1
  MaxResub = 1
  LiveLimit = 3
  Modes = {"per"}
  Kinds = {"fresh"}
  Pages = {2}
  SSizes = {2}
  Filts = {"none"}
  Ops = {"pub", "clear"}
  MaxJumps = 0
  EpochCheck = FALSE
  Pres = {2}
  N0s = {0}
  Contig = TRUE
  DropStale = TRUE
VIEW View
INVARIANTS TypeOK C22
PROPERTIES C22R C16M
CHECK_DEADLOCK FALSE
