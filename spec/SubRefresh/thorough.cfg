SPECIFICATION Spec
CONSTANTS
  Filters = {"a", "b"}
  MaxGen = 4
  MaxRefresh = 3
  MaxPub = 3
  GenMatch = TRUE
VIEW View
INVARIANTS TypeOK FilterIsConfigured
PROPERTIES C16_Refresh
CHECK_DEADLOCK FALSE
