// Package cl is the client-level plumbing shared by the harness families that drive real *centrifuge.Client
// objects through the public API only: a recording in-memory Transport, a node environment with
// scriptable callbacks and a callback log, command helpers and a write barrier.
package cl

import (
	"context"
	"encoding/json"
	"fmt"
	"runtime"
	"sync"
	"sync/atomic"
	"time"

	"github.com/centrifugal/centrifuge"
	"github.com/centrifugal/protocol"
)

// ------------------------------------------------------------------ transport

// Transport records every frame the server writes, decoded, in write order.
type Transport struct {
	mu      sync.Mutex
	cond    *sync.Cond
	proto   centrifuge.ProtocolType
	uni     bool
	replies []*protocol.Reply
	raw     [][]byte
	closed  bool
	disc    centrifuge.Disconnect
	nclose  int
	ping    centrifuge.PingPongConfig
	// OnWrite, if set, is called (outside the lock) before each Write/WriteMany is recorded: a natural gate.
	OnWrite func(n int)
	// WriteErr, if set, makes writes fail.
	WriteErr atomic.Bool
	// OnClose, if set, is called at the beginning of Close (before it is recorded): a natural gate.
	OnClose func(d centrifuge.Disconnect)
	// OnUnidirectional / OnDisabledPushFlags, if set, are called inside the respective TransportInfo calls: natural
	// gates inside the hub broadcast (payload preparation) and before a push is encoded.
	OnUnidirectional    func()
	OnDisabledPushFlags func()
	// DisabledFlags is what DisabledPushFlags reports (set before the transport is used).
	DisabledFlags uint64
}

func NewTransport(proto centrifuge.ProtocolType) *Transport {
	t := &Transport{proto: proto}
	t.cond = sync.NewCond(&t.mu)
	return t
}

func (t *Transport) SetPing(p centrifuge.PingPongConfig) { t.ping = p }
func (t *Transport) SetUnidirectional(u bool)            { t.uni = u }

func (t *Transport) Name() string                                { return "verif" }
func (t *Transport) AcceptProtocol() string                      { return "" }
func (t *Transport) Protocol() centrifuge.ProtocolType           { return t.proto }
func (t *Transport) ProtocolVersion() centrifuge.ProtocolVersion { return centrifuge.ProtocolVersion2 }
func (t *Transport) Unidirectional() bool {
	if f := t.OnUnidirectional; f != nil {
		f()
	}
	return t.uni
}
func (t *Transport) Emulation() bool { return false }
func (t *Transport) DisabledPushFlags() uint64 {
	if f := t.OnDisabledPushFlags; f != nil {
		f()
	}
	return t.DisabledFlags
}
func (t *Transport) PingPongConfig() centrifuge.PingPongConfig {
	if t.ping.PingInterval == 0 {
		return centrifuge.PingPongConfig{PingInterval: -1} // no server pings unless asked
	}
	return t.ping
}

func (t *Transport) decode(b []byte) []*protocol.Reply {
	data := append([]byte(nil), b...)
	var out []*protocol.Reply
	if t.uni {
		// unidirectional transports receive bare pushes
		if t.proto == centrifuge.ProtocolTypeJSON {
			var p protocol.Push
			if err := json.Unmarshal(data, &p); err == nil {
				out = append(out, &protocol.Reply{Push: &p})
			} else {
				out = append(out, &protocol.Reply{Error: &protocol.Error{Code: 999999, Message: "undecodable: " + string(data)}})
			}
		} else {
			var p protocol.Push
			if err := p.UnmarshalVT(data); err == nil {
				out = append(out, &protocol.Reply{Push: &p})
			} else {
				out = append(out, &protocol.Reply{Error: &protocol.Error{Code: 999999, Message: "undecodable"}})
			}
		}
		return out
	}
	if t.proto == centrifuge.ProtocolTypeJSON {
		d := protocol.NewJSONReplyDecoder(data)
		for {
			r, err := d.Decode()
			if r != nil {
				out = append(out, r)
			}
			if err != nil {
				break
			}
		}
	} else {
		// a Transport receives ONE un-prefixed Reply per message (the length prefix is added by the real transports)
		var r protocol.Reply
		if err := r.UnmarshalVT(data); err == nil {
			out = append(out, &r)
		}
	}
	if len(out) == 0 {
		out = append(out, &protocol.Reply{Error: &protocol.Error{Code: 999999, Message: "undecodable: " + string(data)}})
	}
	return out
}

func (t *Transport) Write(b []byte) error {
	if f := t.OnWrite; f != nil {
		f(1)
	}
	if t.WriteErr.Load() {
		return fmt.Errorf("verif: write error")
	}
	rs := t.decode(b)
	t.mu.Lock()
	if t.closed {
		t.mu.Unlock()
		return fmt.Errorf("verif: closed")
	}
	t.replies = append(t.replies, rs...)
	t.raw = append(t.raw, append([]byte(nil), b...))
	t.cond.Broadcast()
	t.mu.Unlock()
	return nil
}

func (t *Transport) WriteMany(bs ...[]byte) error {
	if f := t.OnWrite; f != nil {
		f(len(bs))
	}
	if t.WriteErr.Load() {
		return fmt.Errorf("verif: write error")
	}
	var rs []*protocol.Reply
	for _, b := range bs {
		rs = append(rs, t.decode(b)...)
	}
	t.mu.Lock()
	if t.closed {
		t.mu.Unlock()
		return fmt.Errorf("verif: closed")
	}
	t.replies = append(t.replies, rs...)
	for _, b := range bs {
		t.raw = append(t.raw, append([]byte(nil), b...))
	}
	t.cond.Broadcast()
	t.mu.Unlock()
	return nil
}

func (t *Transport) Close(d centrifuge.Disconnect) error {
	if f := t.OnClose; f != nil {
		f(d)
	}
	t.mu.Lock()
	t.nclose++
	if !t.closed {
		t.closed = true
		t.disc = d
	}
	t.cond.Broadcast()
	t.mu.Unlock()
	return nil
}

// Replies returns a snapshot of everything written so far.
func (t *Transport) Replies() []*protocol.Reply {
	t.mu.Lock()
	defer t.mu.Unlock()
	return append([]*protocol.Reply(nil), t.replies...)
}

func (t *Transport) Raw() [][]byte {
	t.mu.Lock()
	defer t.mu.Unlock()
	return append([][]byte(nil), t.raw...)
}

func (t *Transport) Closed() (bool, centrifuge.Disconnect) {
	t.mu.Lock()
	defer t.mu.Unlock()
	return t.closed, t.disc
}

func (t *Transport) CloseCalls() int {
	t.mu.Lock()
	defer t.mu.Unlock()
	return t.nclose
}

// WaitFor blocks until pred(replies, closed) holds or the timeout elapses.
func (t *Transport) WaitFor(timeout time.Duration, pred func(rs []*protocol.Reply, closed bool) bool) bool {
	deadline := time.Now().Add(timeout)
	timer := time.AfterFunc(timeout, func() {
		t.mu.Lock()
		t.cond.Broadcast()
		t.mu.Unlock()
	})
	defer timer.Stop()
	t.mu.Lock()
	defer t.mu.Unlock()
	for {
		if pred(t.replies, t.closed) {
			return true
		}
		if time.Now().After(deadline) {
			return false
		}
		t.cond.Wait()
	}
}

// ------------------------------------------------------------------ environment

// Event is one entry of the application-callback log.
type Event struct {
	Seq    int64  `json:"seq"`
	Client string `json:"client"`
	Kind   string `json:"kind"` // connecting, connect, subscribe, unsubscribe, disconnect, alive, rpc, publish, ...
	Ch     string `json:"ch,omitempty"`
	Code   uint32 `json:"code,omitempty"`
	Extra  string `json:"extra,omitempty"`
}

// Env is a running node with scriptable callbacks.
type Env struct {
	Node *centrifuge.Node

	seq   atomic.Int64
	logMu sync.Mutex
	log   []Event

	// OnSubscribe decides subscribe requests. Default: allow with zero options.
	OnSubscribe func(c *centrifuge.Client, e centrifuge.SubscribeEvent, cb centrifuge.SubscribeCallback)
	// OnConnecting decides connects. Default: accept, credentials from context.
	OnConnecting func(ctx context.Context, e centrifuge.ConnectEvent) (centrifuge.ConnectReply, error)
	// Setup is called for every connected client after the default handlers are installed.
	Setup func(c *centrifuge.Client)
	// Hook is called for every logged callback (after logging), e.g. to gate.
	Hook func(ev Event)
	// PreHook is called before the callback is logged (a gate here delays the log entry until the release).
	PreHook func(client, kind, ch string)
}

func (e *Env) Log(client, kind, ch string, code uint32, extra string) {
	if e.PreHook != nil {
		e.PreHook(client, kind, ch)
	}
	ev := Event{Seq: e.seq.Add(1), Client: client, Kind: kind, Ch: ch, Code: code, Extra: extra}
	e.logMu.Lock()
	e.log = append(e.log, ev)
	e.logMu.Unlock()
	if e.Hook != nil {
		e.Hook(ev)
	}
}

func (e *Env) Events() []Event {
	e.logMu.Lock()
	defer e.logMu.Unlock()
	return append([]Event(nil), e.log...)
}

func (e *Env) EventsOf(client string) []Event {
	var out []Event
	for _, ev := range e.Events() {
		if ev.Client == client {
			out = append(out, ev)
		}
	}
	return out
}

// NewEnv creates a node (not yet running): callers may SetBroker / SetPresenceManager, then call Run.
func NewEnv(cfg centrifuge.Config) (*Env, error) {
	n, err := centrifuge.New(cfg)
	if err != nil {
		return nil, err
	}
	e := &Env{Node: n}
	n.OnConnecting(func(ctx context.Context, ev centrifuge.ConnectEvent) (centrifuge.ConnectReply, error) {
		e.Log(ev.ClientID, "connecting", "", 0, "")
		if e.OnConnecting != nil {
			return e.OnConnecting(ctx, ev)
		}
		return centrifuge.ConnectReply{}, nil
	})
	n.OnConnect(func(c *centrifuge.Client) {
		id := c.ID()
		e.Log(id, "connect", "", 0, "")
		c.OnSubscribe(func(ev centrifuge.SubscribeEvent, cb centrifuge.SubscribeCallback) {
			e.Log(id, "subscribe", ev.Channel, 0, "")
			if e.OnSubscribe != nil {
				e.OnSubscribe(c, ev, cb)
				return
			}
			cb(centrifuge.SubscribeReply{}, nil)
		})
		c.OnUnsubscribe(func(ev centrifuge.UnsubscribeEvent) {
			e.Log(id, "unsubscribe", ev.Channel, ev.Code, "")
		})
		c.OnDisconnect(func(ev centrifuge.DisconnectEvent) {
			e.Log(id, "disconnect", "", ev.Code, "")
		})
		c.OnRPC(func(ev centrifuge.RPCEvent, cb centrifuge.RPCCallback) {
			cb(centrifuge.RPCReply{Data: ev.Data}, nil)
		})
		if e.Setup != nil {
			e.Setup(c)
		}
	})
	return e, nil
}

func (e *Env) Run() error { return e.Node.Run() }

func (e *Env) Close() {
	ctx, cancel := context.WithTimeout(context.Background(), 5*time.Second)
	defer cancel()
	_ = e.Node.Shutdown(ctx)
}

// ------------------------------------------------------------------ connection

type Conn struct {
	Env    *Env
	Client *centrifuge.Client
	T      *Transport
	Cancel context.CancelFunc
	CloseF centrifuge.ClientCloseFunc
	nextID atomic.Uint32
}

// NewConn creates a client on a fresh recording transport with the given user in the context credentials.
func (e *Env) NewConn(user string, proto centrifuge.ProtocolType) (*Conn, error) {
	t := NewTransport(proto)
	return e.NewConnT(user, t)
}

func (e *Env) NewConnT(user string, t *Transport) (*Conn, error) {
	ctx, cancel := context.WithCancel(context.Background())
	if user != "" {
		ctx = centrifuge.SetCredentials(ctx, &centrifuge.Credentials{UserID: user})
	}
	c, closeFn, err := centrifuge.NewClient(ctx, e.Node, t)
	if err != nil {
		cancel()
		return nil, err
	}
	cn := &Conn{Env: e, Client: c, T: t, Cancel: cancel, CloseF: closeFn}
	cn.nextID.Store(0)
	return cn, nil
}

func (c *Conn) NextID() uint32 { return c.nextID.Add(1) }

// Do hands one command to the client like a transport reader would. Returns HandleCommand's result.
func (c *Conn) Do(cmd *protocol.Command) bool {
	return c.Client.HandleCommand(cmd, 0)
}

// Connect sends a connect command and waits for its reply. Returns the reply (nil on timeout/close).
func (c *Conn) Connect() *protocol.Reply {
	id := c.NextID()
	c.Do(&protocol.Command{Id: id, Connect: &protocol.ConnectRequest{}})
	return c.WaitReply(id, 2*time.Second)
}

// WaitReply waits for the reply with the given id.
func (c *Conn) WaitReply(id uint32, timeout time.Duration) *protocol.Reply {
	var found *protocol.Reply
	c.T.WaitFor(timeout, func(rs []*protocol.Reply, closed bool) bool {
		for _, r := range rs {
			if r.Id == id {
				found = r
				return true
			}
		}
		return closed
	})
	return found
}

// Barrier sends an RPC and waits for its reply: every frame enqueued before it has then been written.
// Returns false if the connection closed or the timeout elapsed.
func (c *Conn) Barrier(timeout time.Duration) bool {
	id := c.NextID() + 1000000
	c.Do(&protocol.Command{Id: id, Rpc: &protocol.RPCRequest{Method: "barrier", Data: []byte("{}")}})
	return c.WaitReply(id, timeout) != nil
}

// IsBarrier tells whether a reply belongs to a Barrier call.
func IsBarrier(r *protocol.Reply) bool { return r.Id > 1000000 && r.Rpc != nil }

// Frames returns the written frames without barrier replies.
func (c *Conn) Frames() []*protocol.Reply {
	var out []*protocol.Reply
	for _, r := range c.T.Replies() {
		if IsBarrier(r) {
			continue
		}
		out = append(out, r)
	}
	return out
}

// Describe renders a frame compactly for replay files and messages.
func Describe(r *protocol.Reply) string {
	switch {
	case r.Error != nil:
		return fmt.Sprintf("error(id=%d code=%d)", r.Id, r.Error.Code)
	case r.Connect != nil:
		return fmt.Sprintf("connect-reply(id=%d)", r.Id)
	case r.Subscribe != nil:
		offs := []uint64{}
		for _, p := range r.Subscribe.Publications {
			offs = append(offs, p.Offset)
		}
		return fmt.Sprintf("subscribe-reply(id=%d off=%d epoch=%q recovered=%v was_recovering=%v pubs=%v)", r.Id, r.Subscribe.Offset, r.Subscribe.Epoch, r.Subscribe.Recovered, r.Subscribe.WasRecovering, offs)
	case r.Unsubscribe != nil:
		return fmt.Sprintf("unsubscribe-reply(id=%d)", r.Id)
	case r.Push != nil:
		p := r.Push
		switch {
		case p.Pub != nil:
			return fmt.Sprintf("push-pub(ch=%s off=%d data=%s)", p.Channel, p.Pub.Offset, string(p.Pub.Data))
		case p.Join != nil:
			return fmt.Sprintf("push-join(ch=%s client=%s)", p.Channel, p.Join.Info.GetClient())
		case p.Leave != nil:
			return fmt.Sprintf("push-leave(ch=%s client=%s)", p.Channel, p.Leave.Info.GetClient())
		case p.Unsubscribe != nil:
			return fmt.Sprintf("push-unsubscribe(ch=%s code=%d)", p.Channel, p.Unsubscribe.Code)
		case p.Subscribe != nil:
			return fmt.Sprintf("push-subscribe(ch=%s off=%d)", p.Channel, p.Subscribe.Offset)
		case p.Disconnect != nil:
			return fmt.Sprintf("push-disconnect(code=%d)", p.Disconnect.Code)
		case p.Connect != nil:
			return "push-connect"
		case p.Message != nil:
			return "push-message"
		case p.Refresh != nil:
			return "push-refresh"
		}
		return fmt.Sprintf("push(ch=%s)", p.Channel)
	case r.Rpc != nil:
		return fmt.Sprintf("rpc-reply(id=%d)", r.Id)
	case r.Publish != nil:
		return fmt.Sprintf("publish-reply(id=%d)", r.Id)
	case r.History != nil:
		return fmt.Sprintf("history-reply(id=%d n=%d)", r.Id, len(r.History.Publications))
	case r.Presence != nil:
		return fmt.Sprintf("presence-reply(id=%d n=%d)", r.Id, len(r.Presence.Presence))
	case r.PresenceStats != nil:
		return fmt.Sprintf("presence-stats-reply(id=%d)", r.Id)
	case r.Refresh != nil:
		return fmt.Sprintf("refresh-reply(id=%d)", r.Id)
	case r.SubRefresh != nil:
		return fmt.Sprintf("sub-refresh-reply(id=%d)", r.Id)
	}
	if r.Id == 0 {
		return "ping"
	}
	return fmt.Sprintf("reply(id=%d)", r.Id)
}

func DescribeAll(rs []*protocol.Reply) []string {
	out := make([]string, 0, len(rs))
	for _, r := range rs {
		out = append(out, Describe(r))
	}
	return out
}

// ------------------------------------------------------------------ gate broker

// GateBroker wraps the node's MemoryBroker: every interface call is observable and can be parked, and
// publications/joins/leaves travel through an interceptor that may hold, drop, duplicate or reorder them
// before they enter the node (Node.HandlePublication is exactly where a Redis PUB/SUB delivery enters).
type GateBroker struct {
	Inner   *centrifuge.MemoryBroker
	handler centrifuge.BrokerEventHandler

	// Gates; nil = pass through. Called on the goroutine that performs the broker call.
	OnSubscribe    func(ch string)
	OnUnsubscribe  func(ch string)
	BeforeHistory  func(ch string, opts centrifuge.HistoryOptions)
	AfterHistory   func(ch string, opts centrifuge.HistoryOptions, pubs []*centrifuge.Publication, sp centrifuge.StreamPosition)
	OnPublishJoin  func(ch string, info *centrifuge.ClientInfo)
	OnPublishLeave func(ch string, info *centrifuge.ClientInfo)
	// RewritePosition, if set, may alter the stream position History reports (e.g. blank the epoch: a lagging replica).
	RewritePosition func(ch string, sp centrifuge.StreamPosition) centrifuge.StreamPosition
	SubscribeErr    func(ch string) error
	UnsubscribeErr  func(ch string) error
	// Intercept decides what happens to a publication handed over by the inner broker:
	// return true to deliver it to the node now, false to withhold it (the harness delivers it later via Deliver).
	Intercept func(ch string, pub *centrifuge.Publication, sp centrifuge.StreamPosition, delta bool, prev *centrifuge.Publication) bool

	callsMu sync.Mutex
	Calls   []string // "sub:ch", "unsub:ch" in call order
}

func NewGateBroker(n *centrifuge.Node) (*GateBroker, error) {
	inner, err := centrifuge.NewMemoryBroker(n, centrifuge.MemoryBrokerConfig{})
	if err != nil {
		return nil, err
	}
	return &GateBroker{Inner: inner}, nil
}

type interceptor struct{ g *GateBroker }

func (i interceptor) HandlePublication(ch string, pub *centrifuge.Publication, sp centrifuge.StreamPosition, delta bool, prev *centrifuge.Publication) error {
	if i.g.Intercept != nil && !i.g.Intercept(ch, pub, sp, delta, prev) {
		return nil
	}
	return i.g.handler.HandlePublication(ch, pub, sp, delta, prev)
}
func (i interceptor) HandleJoin(ch string, info *centrifuge.ClientInfo) error {
	return i.g.handler.HandleJoin(ch, info)
}
func (i interceptor) HandleLeave(ch string, info *centrifuge.ClientInfo) error {
	return i.g.handler.HandleLeave(ch, info)
}

func (g *GateBroker) RegisterBrokerEventHandler(h centrifuge.BrokerEventHandler) error {
	g.handler = h
	return g.Inner.RegisterBrokerEventHandler(interceptor{g})
}

// Deliver hands a (withheld) publication to the node, like a PUB/SUB message arriving.
func (g *GateBroker) Deliver(ch string, pub *centrifuge.Publication, sp centrifuge.StreamPosition, delta bool, prev *centrifuge.Publication) error {
	return g.handler.HandlePublication(ch, pub, sp, delta, prev)
}

func (g *GateBroker) record(s string) {
	g.callsMu.Lock()
	g.Calls = append(g.Calls, s)
	g.callsMu.Unlock()
}

func (g *GateBroker) CallLog() []string {
	g.callsMu.Lock()
	defer g.callsMu.Unlock()
	return append([]string(nil), g.Calls...)
}

func (g *GateBroker) Subscribe(chs ...string) error {
	for _, ch := range chs {
		if g.SubscribeErr != nil {
			if err := g.SubscribeErr(ch); err != nil {
				g.record("sub-fail:" + ch)
				return err
			}
		}
		g.record("sub:" + ch)
		if g.OnSubscribe != nil {
			g.OnSubscribe(ch)
		}
	}
	return g.Inner.Subscribe(chs...)
}

func (g *GateBroker) Unsubscribe(chs ...string) error {
	for _, ch := range chs {
		if g.UnsubscribeErr != nil {
			if err := g.UnsubscribeErr(ch); err != nil {
				g.record("unsub-fail:" + ch)
				return err
			}
		}
		g.record("unsub:" + ch)
		if g.OnUnsubscribe != nil {
			g.OnUnsubscribe(ch)
		}
	}
	return g.Inner.Unsubscribe(chs...)
}

func (g *GateBroker) Publish(ch string, data []byte, opts centrifuge.PublishOptions) (centrifuge.PublishResult, error) {
	return g.Inner.Publish(ch, data, opts)
}

func (g *GateBroker) PublishJoin(ch string, info *centrifuge.ClientInfo) error {
	if g.OnPublishJoin != nil {
		g.OnPublishJoin(ch, info)
	}
	return g.Inner.PublishJoin(ch, info)
}

func (g *GateBroker) PublishLeave(ch string, info *centrifuge.ClientInfo) error {
	if g.OnPublishLeave != nil {
		g.OnPublishLeave(ch, info)
	}
	return g.Inner.PublishLeave(ch, info)
}

func (g *GateBroker) History(ch string, opts centrifuge.HistoryOptions) ([]*centrifuge.Publication, centrifuge.StreamPosition, error) {
	if g.BeforeHistory != nil {
		g.BeforeHistory(ch, opts)
	}
	pubs, sp, err := g.Inner.History(ch, opts)
	if err == nil && g.AfterHistory != nil {
		g.AfterHistory(ch, opts, pubs, sp)
	}
	if err == nil && g.RewritePosition != nil {
		sp = g.RewritePosition(ch, sp)
	}
	return pubs, sp, err
}

func (g *GateBroker) RemoveHistory(ch string) error { return g.Inner.RemoveHistory(ch) }

// ------------------------------------------------------------------ goroutine gate

// Gate parks the goroutine that calls Arrive until the scheduler calls Release, and lets the scheduler wait
// for the arrival. One Gate instance per (thread, point) occurrence.
type Gate struct {
	arrived chan struct{}
	release chan struct{}
	once    sync.Once
}

func NewGate() *Gate { return &Gate{arrived: make(chan struct{}), release: make(chan struct{})} }

// Arrive is called by the worker; blocks until released (or the safety timeout, reported by the return value).
func (g *Gate) Arrive(timeout time.Duration) bool {
	g.once.Do(func() { close(g.arrived) })
	select {
	case <-g.release:
		return true
	case <-time.After(timeout):
		return false
	}
}

// WaitArrived is called by the scheduler.
func (g *Gate) WaitArrived(timeout time.Duration) bool {
	select {
	case <-g.arrived:
		return true
	case <-time.After(timeout):
		return false
	}
}

func (g *Gate) Release() {
	select {
	case <-g.release:
	default:
		close(g.release)
	}
}

// ------------------------------------------------------------------ goroutine identity

// GoID returns the current goroutine's id (parsed from runtime.Stack; harness-only use).
func GoID() uint64 {
	var buf [64]byte
	n := runtime.Stack(buf[:], false)
	// "goroutine 123 [running]:"
	var id uint64
	for _, c := range buf[len("goroutine "):n] {
		if c < '0' || c > '9' {
			break
		}
		id = id*10 + uint64(c-'0')
	}
	return id
}

// ------------------------------------------------------------------ gating presence manager

// GatePresence wraps the node's memory presence manager; Add/Remove are natural gates.
type GatePresence struct {
	Inner    centrifuge.PresenceManager
	OnAdd    func(ch, clientID string)
	OnRemove func(ch, clientID string)
	// OnAdded is called after the inner AddPresence returned (the entry exists): a gate "presence landed".
	OnAdded func(ch, clientID string)
}

func NewGatePresence(n *centrifuge.Node) (*GatePresence, error) {
	inner, err := centrifuge.NewMemoryPresenceManager(n, centrifuge.MemoryPresenceManagerConfig{})
	if err != nil {
		return nil, err
	}
	return &GatePresence{Inner: inner}, nil
}

func (g *GatePresence) Presence(ch string) (map[string]*centrifuge.ClientInfo, error) {
	return g.Inner.Presence(ch)
}
func (g *GatePresence) PresenceStats(ch string) (centrifuge.PresenceStats, error) {
	return g.Inner.PresenceStats(ch)
}
func (g *GatePresence) AddPresence(ch string, clientID string, info *centrifuge.ClientInfo) error {
	if g.OnAdd != nil {
		g.OnAdd(ch, clientID)
	}
	err := g.Inner.AddPresence(ch, clientID, info)
	if g.OnAdded != nil {
		g.OnAdded(ch, clientID)
	}
	return err
}
func (g *GatePresence) RemovePresence(ch string, clientID string, userID string) error {
	if g.OnRemove != nil {
		g.OnRemove(ch, clientID)
	}
	return g.Inner.RemovePresence(ch, clientID, userID)
}

// ------------------------------------------------------------------ manual timer scheduler

// ManualTimers implements centrifuge.TimerScheduler: timers never fire by themselves; Fire runs the most
// recently scheduled, not cancelled callback on the calling goroutine.
type ManualTimers struct {
	mu   sync.Mutex
	last *manualTimer
}

type manualTimer struct {
	cb        func()
	d         time.Duration
	cancelled atomic.Bool
}

func (t *manualTimer) Cancel() { t.cancelled.Store(true) }

func (m *ManualTimers) ScheduleTimer(d time.Duration, cb func()) centrifuge.TimerCanceler {
	t := &manualTimer{cb: cb, d: d}
	m.mu.Lock()
	m.last = t
	m.mu.Unlock()
	return t
}

// Fire runs the pending timer callback, returns false if there is none.
func (m *ManualTimers) Fire() bool {
	m.mu.Lock()
	t := m.last
	m.last = nil
	m.mu.Unlock()
	if t == nil || t.cancelled.Load() {
		return false
	}
	t.cb()
	return true
}
