//go:build verif

package centrifuge

// Overlay-injected (never committed to /repo): re-exports of internal/queue, internal/dissolve,
// internal/bpool and of the unexported per-connection writer for the /verif harness module (which cannot
// import internal packages). Nothing here changes behaviour: constructors are called the way client.go
// calls them, everything else is a plain forwarder.

import (
	"time"

	"github.com/centrifugal/centrifuge/internal/bpool"
	"github.com/centrifugal/centrifuge/internal/dissolve"
	"github.com/centrifugal/centrifuge/internal/queue"
)

// ---- internal/queue ----

type VerifWQItem = queue.Item

func VerifWNewQueue(initialCapacity int) *queue.Queue { return queue.New(initialCapacity) }

// ---- writer ----

type VerifWWriterConfig struct {
	WriteFn            func(item queue.Item) error
	WriteManyFn        func(items ...queue.Item) error
	MaxQueueSize       int
	QueueInitialCap    int
	WriteDelay         time.Duration
	MaxMessagesInFrame int
	QueueShrinkDelay   time.Duration
	WriteWithTimer     bool
}

type VerifWWriter struct {
	w    *writer
	done chan struct{}
}

// VerifWNewWriter constructs and starts the writer exactly as Client.startWriter does.
func VerifWNewWriter(c VerifWWriterConfig) *VerifWWriter {
	v := &VerifWWriter{done: make(chan struct{})}
	v.w = newWriter(writerConfig{WriteFn: c.WriteFn, WriteManyFn: c.WriteManyFn, MaxQueueSize: c.MaxQueueSize}, c.QueueInitialCap)
	if c.WriteDelay > 0 && c.WriteWithTimer {
		v.w.run(c.WriteDelay, c.MaxMessagesInFrame, c.QueueShrinkDelay, true)
		close(v.done)
	} else {
		go func() {
			defer close(v.done)
			v.w.run(c.WriteDelay, c.MaxMessagesInFrame, c.QueueShrinkDelay, false)
		}()
	}
	return v
}

// result codes of Enqueue*: 0 = accepted, otherwise the disconnect code (DisconnectSlow.Code, DisconnectConnectionClosed.Code).
func verifWCode(d *Disconnect) uint32 {
	if d == nil {
		return 0
	}
	return d.Code
}

func (v *VerifWWriter) Enqueue(item queue.Item) uint32         { return verifWCode(v.w.enqueue(item)) }
func (v *VerifWWriter) EnqueueMany(items ...queue.Item) uint32 { return verifWCode(v.w.enqueueMany(items...)) }
func (v *VerifWWriter) Close(flush bool) error                 { return v.w.close(flush) }
func (v *VerifWWriter) Queue() *queue.Queue                    { return v.w.messages }

// RunReturned is closed when writer.run returned (at once in timer mode).
func (v *VerifWWriter) RunReturned() <-chan struct{} { return v.done }

func VerifWSlowCode() uint32   { return DisconnectSlow.Code }
func VerifWClosedCode() uint32 { return DisconnectConnectionClosed.Code }

// ---- item buffer pool of writer.go ----

type VerifWItemBuf = itemBuf

func VerifWGetItemBuf(length int) *itemBuf { return getItemBuf(length) }
func VerifWPutItemBuf(b *itemBuf)          { putItemBuf(b) }
func VerifWNextLogBase2(v uint32) uint32   { return nextLogBase2(v) }
func VerifWPrevLogBase2(v uint32) uint32   { return prevLogBase2(v) }

// ---- internal/bpool ----

type VerifWByteBuffer = bpool.ByteBuffer
type VerifWByteSlicesBuf = bpool.ByteSlicesBuf

func VerifWGetByteBuffer(length int) *bpool.ByteBuffer       { return bpool.GetByteBuffer(length) }
func VerifWPutByteBuffer(b *bpool.ByteBuffer)                { bpool.PutByteBuffer(b) }
func VerifWGetByteSlicesBuf(length int) *bpool.ByteSlicesBuf { return bpool.GetByteSlicesBuf(length) }
func VerifWPutByteSlicesBuf(b *bpool.ByteSlicesBuf)          { bpool.PutByteSlicesBuf(b) }
func VerifWBpoolNextLog(v uint32) uint32                     { return bpool.VerifNextLogBase2(v) }
func VerifWBpoolPrevLog(v uint32) uint32                     { return bpool.VerifPrevLogBase2(v) }
func VerifWBpoolNextLogSlices(v uint32) uint32               { return bpool.VerifNextLogBase2ByteSlices(v) }
func VerifWBpoolPrevLogSlices(v uint32) uint32               { return bpool.VerifPrevLogBase2ByteSlices(v) }

// ---- internal/dissolve ----

func VerifWNewDissolver(numWorkers int) *dissolve.Dissolver { return dissolve.New(numWorkers) }

// VerifWSubmit forwards to Dissolver.Submit (dissolve.Job is a named func type of an internal package).
func VerifWSubmit(d *dissolve.Dissolver, job func() error) error { return d.Submit(job) }
