------------------------------- MODULE Writer -------------------------------
(* C12, second half: writer.go -- the per-connection writer over the abstract
   FIFO that spec/Writer/Ring.tla shows internal/queue to implement.

   Threads: producers calling enqueue / enqueueMany, the writer goroutine
   (run -> waitSendMessage loop; "plain" = WriteDelay 0, "delay" = WriteDelay>0
   with a dedicated goroutine), or in "timer" mode the runtime timer and the
   flush() callbacks it spawns, and a closer calling close(flush).

   Atomicity: one action per critical section of the queue mutex or of w.mu.
   w.mu is modelled as `mu` (holder); acquiring it is merged with the first
   step made under it (lock acquisition is a right mover), releasing it with
   the last.  Time is not modelled: a sleeping writer may wake at any moment, an
   armed timer may fire at any moment.  The runtime timer firing is merged with
   the flush() callback getting w.mu (a fired callback that waits for w.mu is
   indistinguishable from a timer that fires later; one that waits while
   close() runs finds the queue empty and does nothing).

   cfg = [mode, frame, maxq]: frame = MaxMessagesInFrame after run()'s
   normalisation (0 -> 16; -1 = unlimited), maxq = MaxQueueSize (0 = none).

   Actions whose names do not start with a thread letter (EnqB, EnqE, Write,
   CloseB, CloseE in `step.act`) are the ones visible from outside: the
   harness logs exactly these, WriterTrace.tla consumes them and composes all
   others as silent steps.                                                    *)
EXTENDS Integers, Sequences, FiniteSets, TLC

CONSTANTS
  Producers,      \* e.g. {1, 2}
  Configs,        \* set of cfg records explored
  MaxItems,       \* items offered in total (producer p numbers its items p*100+1, p*100+2, ..)
  ManySizes,      \* sizes of enqueueMany calls ({} = only enqueue)
  ByteSizes,      \* len(item.Data)
  MaxFails,       \* transport write errors injected
  MaxCloses       \* close() calls

VARIABLES
  cfg,
  fifo, qclosed,                 \* w.messages (abstract) and its closed flag
  mu,                            \* w.mu holder: "" | "w" | "f" | "c"
  wclosed, closeCh,              \* w.closed, closed(w.closeCh)
  wpc, wbuf,                     \* writer goroutine: pc, bufSize
  batch,                         \* items drained and not yet handed to the transport
  tsched, armed, fpc, fbuf, fok, \* timer mode: w.timerScheduled, runtime timer pending, the running flush(): pc, bufSize, write result
  ppc, pit, pres, pn,            \* producers: pc, items of the call in progress, its result, items offered so far
  cpc, cflush, crem, ncloses,    \* closer
  written,                       \* ids handed to the transport by successful writes, in order (frame boundaries: see step)
  failed, nfails,                \* a transport write returned an error
  enq, dropped, closeKind, slowSeen,   \* ghosts: items in Add order; items discarded by close(false); "", "flush", "noflush"; an enqueue returned slow
  step

wvars == <<wpc, wbuf>>
tvars0 == <<tsched, armed, fpc, fbuf, fok>>
pvars == <<ppc, pit, pres, pn>>
cvars == <<cpc, cflush, crem, ncloses>>
ghosts == <<enq, dropped, closeKind, slowSeen>>
core == <<cfg, fifo, qclosed, mu, wclosed, closeCh, wvars, batch, tvars0, pvars, cvars, written, failed, nfails, ghosts>>
vars == <<core, step>>

Ids(s) == [i \in 1..Len(s) |-> s[i].id]
RECURSIVE SumBytes(_)
SumBytes(f) == IF f = <<>> THEN 0 ELSE Head(f).bytes + SumBytes(Tail(f))
IsPrefix(a, b) == Len(a) <= Len(b) /\ SubSeq(b, 1, Len(a)) = a
Min(a, b) == IF a < b THEN a ELSE b

ConfigsStd  == [mode : {"plain", "delay", "timer"}, frame : {-1, 1, 2}, maxq : {0, 2}]
ConfigsWide == [mode : {"plain", "delay", "timer"}, frame : {-1, 1, 2, 3, 16}, maxq : {0, 2, 3}]
ConfigsLive == [mode : {"plain", "delay", "timer"}, frame : {-1, 1, 2}, maxq : {0}]

---------------------------------------------------------------------------
InitWith(c) ==
  /\ cfg = c
  /\ fifo = <<>> /\ qclosed = FALSE /\ mu = "" /\ wclosed = FALSE /\ closeCh = FALSE
  /\ wpc = (IF c.mode = "timer" THEN "off" ELSE "wait") /\ wbuf = 0
  /\ batch = <<>>
  /\ tsched = FALSE /\ armed = FALSE /\ fpc = "none" /\ fbuf = 0 /\ fok = TRUE
  /\ ppc = [p \in Producers |-> "idle"] /\ pit = [p \in Producers |-> <<>>]
  /\ pres = [p \in Producers |-> ""] /\ pn = [p \in Producers |-> 0]
  /\ cpc = "idle" /\ cflush = FALSE /\ crem = <<>> /\ ncloses = 0
  /\ written = <<>> /\ failed = FALSE /\ nfails = 0
  /\ enq = <<>> /\ dropped = <<>> /\ closeKind = "" /\ slowSeen = FALSE
  /\ step = [act |-> "Init"]

Init == \E c \in Configs : InitWith(c)

\* where the writer goroutine goes when queue.Wait() returned true
AfterWait == IF cfg.mode = "delay" THEN "delaychk" ELSE "lock"
\* "return !w.messages.Closed()" at the top of the loop in run()
Loop(closedNow) == IF closedNow THEN "done" ELSE "wait"

---------------------------------------------------------------------------
(* producers: enqueue / enqueueMany *)
P_Begin(p, its) ==
  /\ ppc[p] = "idle"
  /\ ppc' = [ppc EXCEPT ![p] = "add"] /\ pit' = [pit EXCEPT ![p] = its] /\ pres' = [pres EXCEPT ![p] = ""]
  /\ pn' = [pn EXCEPT ![p] = pn[p] + Len(its)]
  /\ UNCHANGED <<cfg, fifo, qclosed, mu, wclosed, closeCh, wvars, batch, tvars0, cvars, written, failed, nfails, ghosts>>
  /\ step' = [act |-> "EnqB", p |-> p, items |-> its]

\* queue.Add / AddMany: one critical section; cond.Signal wakes the writer if it is blocked in Wait()
P_Add(p) ==
  /\ ppc[p] = "add"
  /\ IF qclosed
       THEN /\ ppc' = [ppc EXCEPT ![p] = "ret"] /\ pres' = [pres EXCEPT ![p] = "closed"]
            /\ UNCHANGED <<fifo, enq, wpc>>
       ELSE /\ fifo' = fifo \o pit[p] /\ enq' = enq \o pit[p]
            /\ ppc' = [ppc EXCEPT ![p] = "check"] /\ UNCHANGED pres
            /\ wpc' = IF wpc = "blocked" THEN AfterWait ELSE wpc
  /\ pit' = [pit EXCEPT ![p] = <<>>]          \* (not needed any more; cleared to keep the state space small)
  /\ UNCHANGED <<cfg, qclosed, mu, wclosed, closeCh, wbuf, batch, tvars0, pn, cvars, written, failed, nfails, dropped, closeKind, slowSeen>>
  /\ step' = [act |-> "P_Add", p |-> p, accepted |-> ~qclosed]

\* "if MaxQueueSize > 0 && w.messages.Size() > MaxQueueSize { return &DisconnectSlow }"; then "if w.timerMode"
P_Check(p) ==
  /\ ppc[p] = "check"
  /\ LET slow == cfg.maxq > 0 /\ SumBytes(fifo) > cfg.maxq IN
     /\ IF slow THEN /\ ppc' = [ppc EXCEPT ![p] = "ret"] /\ pres' = [pres EXCEPT ![p] = "slow"]
        ELSE IF cfg.mode = "timer" THEN ppc' = [ppc EXCEPT ![p] = "sched"] /\ UNCHANGED pres
        ELSE /\ ppc' = [ppc EXCEPT ![p] = "ret"] /\ pres' = [pres EXCEPT ![p] = "ok"]
     /\ slowSeen' = (slowSeen \/ slow)
     /\ step' = [act |-> "P_Check", p |-> p, size |-> SumBytes(fifo), slow |-> slow]
  /\ UNCHANGED <<cfg, fifo, qclosed, mu, wclosed, closeCh, wvars, batch, tvars0, pit, pn, cvars, written, failed, nfails, enq, dropped, closeKind>>

\* "w.mu.Lock(); if !w.closed && !w.timerScheduled { w.scheduleFlushLocked() }; w.mu.Unlock()"
P_Sched(p) ==
  /\ ppc[p] = "sched" /\ mu = ""
  /\ IF ~wclosed /\ ~tsched THEN tsched' = TRUE /\ armed' = TRUE ELSE UNCHANGED <<tsched, armed>>
  /\ ppc' = [ppc EXCEPT ![p] = "ret"] /\ pres' = [pres EXCEPT ![p] = "ok"]
  /\ UNCHANGED <<cfg, fifo, qclosed, mu, wclosed, closeCh, wvars, batch, fpc, fbuf, fok, pit, pn, cvars, written, failed, nfails, ghosts>>
  /\ step' = [act |-> "P_Sched", p |-> p]

P_End(p) ==
  /\ ppc[p] = "ret"
  /\ ppc' = [ppc EXCEPT ![p] = "idle"] /\ pres' = [pres EXCEPT ![p] = ""]
  /\ UNCHANGED <<cfg, fifo, qclosed, mu, wclosed, closeCh, wvars, batch, tvars0, pit, pn, cvars, written, failed, nfails, ghosts>>
  /\ step' = [act |-> "EnqE", p |-> p, res |-> pres[p]]

---------------------------------------------------------------------------
(* the writer goroutine: waitSendMessage *)
W_Wait ==
  /\ wpc = "wait"
  /\ wpc' = IF qclosed THEN "done" ELSE IF fifo # <<>> THEN AfterWait ELSE "blocked"
  /\ UNCHANGED <<cfg, fifo, qclosed, mu, wclosed, closeCh, wbuf, batch, tvars0, pvars, cvars, written, failed, nfails, ghosts>>
  /\ step' = [act |-> "W_Wait"]

\* "if maxMessagesInFrame == -1 || w.messages.Len() < maxMessagesInFrame" -> sleep WriteDelay
W_DelayChk ==
  /\ wpc = "delaychk"
  /\ wpc' = IF cfg.frame = -1 \/ Len(fifo) < cfg.frame THEN "sleep" ELSE "lock"
  /\ UNCHANGED <<cfg, fifo, qclosed, mu, wclosed, closeCh, wbuf, batch, tvars0, pvars, cvars, written, failed, nfails, ghosts>>
  /\ step' = [act |-> "W_DelayChk"]

\* select { case <-tm.C: ; case <-w.closeCh: FinishCollect; return false }
W_SleepEnd ==
  /\ wpc = "sleep"
  /\ \/ wpc' = "lock"
     \/ closeCh /\ wpc' = "done"
  /\ UNCHANGED <<cfg, fifo, qclosed, mu, wclosed, closeCh, wbuf, batch, tvars0, pvars, cvars, written, failed, nfails, ghosts>>
  /\ step' = [act |-> "W_SleepEnd"]

\* RemoveManyInto(buf, bufSize) / RemoveManyIntoShrink(buf, bufSize) with len(buf) = bufSize, w.mu held
DrainInto(n0) ==
  IF fifo = <<>>
    THEN /\ mu' = "" /\ wpc' = Loop(qclosed) /\ UNCHANGED <<fifo, batch>>
    ELSE LET n == Min(Len(fifo), n0) IN
         /\ batch' = SubSeq(fifo, 1, n) /\ fifo' = SubSeq(fifo, n + 1, Len(fifo))
         /\ wpc' = "write" /\ mu' = "w"

\* w.mu.Lock(); bufSize := maxMessagesInFrame; if bufSize < 0 { bufSize = Len(); if bufSize == 0 { unlock; return .. } }
\* For a fixed frame size nothing is read here, so the lock step is merged with the drain that follows.
W_Lock ==
  /\ wpc = "lock" /\ mu = ""
  /\ IF cfg.frame < 0
       THEN /\ IF Len(fifo) = 0
                 THEN /\ wpc' = (IF cfg.mode = "delay" THEN "wait" ELSE Loop(qclosed))
                      /\ UNCHANGED <<mu, wbuf>>
                 ELSE /\ mu' = "w" /\ wpc' = "drain" /\ wbuf' = Len(fifo)
            /\ UNCHANGED <<fifo, batch>>
       ELSE /\ wbuf' = cfg.frame /\ DrainInto(cfg.frame)
  /\ UNCHANGED <<cfg, qclosed, wclosed, closeCh, tvars0, pvars, cvars, written, failed, nfails, ghosts>>
  /\ step' = [act |-> "W_Lock"]

W_Drain ==
  /\ wpc = "drain"
  /\ DrainInto(wbuf)
  /\ UNCHANGED <<cfg, qclosed, wclosed, closeCh, wbuf, tvars0, pvars, cvars, written, failed, nfails, ghosts>>
  /\ step' = [act |-> "W_Drain"]

\* the transport call (WriteFn for one item, WriteManyFn otherwise); w.mu released after it
W_Write(ok) ==
  /\ wpc = "write"
  /\ ok \/ nfails < MaxFails
  /\ IF ok THEN /\ written' = written \o Ids(batch) /\ wpc' = "wait" /\ UNCHANGED <<failed, nfails>>
           ELSE /\ failed' = TRUE /\ nfails' = nfails + 1 /\ wpc' = "done" /\ UNCHANGED written
  /\ batch' = <<>> /\ mu' = "" /\ wbuf' = 0
  /\ UNCHANGED <<cfg, fifo, qclosed, wclosed, closeCh, tvars0, pvars, cvars, ghosts>>
  /\ step' = [act |-> "Write", by |-> "w", ids |-> Ids(batch), many |-> (Len(batch) # 1), ok |-> ok, limit |-> cfg.frame]

---------------------------------------------------------------------------
(* timer mode: the runtime timer fires and flush() gets w.mu *)
\* w.mu.Lock(); w.timerScheduled = false; if Len() == 0 { unlock; return }; bufSize
F_Begin ==
  /\ armed /\ mu = "" /\ fpc = "none"
  /\ armed' = FALSE /\ tsched' = FALSE
  /\ IF fifo = <<>> THEN UNCHANGED <<mu, fpc, fbuf>>
     ELSE /\ mu' = "f" /\ fpc' = "drain" /\ fbuf' = IF cfg.frame < 0 THEN Len(fifo) ELSE cfg.frame
  /\ UNCHANGED <<cfg, fifo, qclosed, wclosed, closeCh, wvars, batch, fok, pvars, cvars, written, failed, nfails, ghosts>>
  /\ step' = [act |-> "F_Begin"]

F_Drain ==
  /\ fpc = "drain"
  /\ IF fifo = <<>>
       THEN /\ mu' = "" /\ fpc' = "none" /\ UNCHANGED <<fifo, batch>>
       ELSE LET n == Min(Len(fifo), fbuf) IN
            /\ batch' = SubSeq(fifo, 1, n) /\ fifo' = SubSeq(fifo, n + 1, Len(fifo))
            /\ fpc' = "write" /\ UNCHANGED mu
  /\ UNCHANGED <<cfg, qclosed, wclosed, closeCh, wvars, tsched, armed, fbuf, fok, pvars, cvars, written, failed, nfails, ghosts>>
  /\ step' = [act |-> "F_Drain"]

F_Write(ok) ==
  /\ fpc = "write"
  /\ ok \/ nfails < MaxFails
  /\ IF ok THEN written' = written \o Ids(batch) /\ UNCHANGED <<failed, nfails>>
           ELSE failed' = TRUE /\ nfails' = nfails + 1 /\ UNCHANGED written
  /\ fok' = ok /\ batch' = <<>> /\ fpc' = "resched"
  /\ UNCHANGED <<cfg, fifo, qclosed, mu, wclosed, closeCh, wvars, tsched, armed, fbuf, pvars, cvars, ghosts>>
  /\ step' = [act |-> "Write", by |-> "f", ids |-> Ids(batch), many |-> (Len(batch) # 1), ok |-> ok, limit |-> cfg.frame]

\* "if writeErr == nil && w.messages.Len() > 0 && !w.closed { schedule }"; w.mu.Unlock()
F_Resched ==
  /\ fpc = "resched"
  /\ IF fok /\ fifo # <<>> /\ ~wclosed /\ ~tsched THEN tsched' = TRUE /\ armed' = TRUE ELSE UNCHANGED <<tsched, armed>>
  /\ mu' = "" /\ fpc' = "none" /\ fbuf' = 0 /\ fok' = TRUE
  /\ UNCHANGED <<cfg, fifo, qclosed, wclosed, closeCh, wvars, batch, pvars, cvars, written, failed, nfails, ghosts>>
  /\ step' = [act |-> "F_Resched"]

---------------------------------------------------------------------------
(* close(flushRemaining) *)
C_Begin(flush) ==
  /\ cpc = "idle" /\ ncloses < MaxCloses
  /\ cpc' = "lock" /\ cflush' = flush /\ ncloses' = ncloses + 1
  /\ UNCHANGED <<cfg, fifo, qclosed, mu, wclosed, closeCh, wvars, batch, tvars0, pvars, crem, written, failed, nfails, ghosts>>
  /\ step' = [act |-> "CloseB", flush |-> flush]

\* w.mu.Lock(); if w.closed return; w.closed = true; flushTimer.Stop(); CloseRemaining() / Close()  (Broadcast wakes the writer)
C_Lock ==
  /\ cpc = "lock" /\ mu = ""
  /\ IF wclosed
       THEN /\ cpc' = "ret"
            /\ UNCHANGED <<fifo, qclosed, mu, wclosed, armed, crem, wpc, dropped, closeKind>>
       ELSE /\ mu' = "c" /\ wclosed' = TRUE /\ armed' = FALSE
            /\ qclosed' = TRUE /\ fifo' = <<>>
            /\ crem' = (IF cflush THEN fifo ELSE <<>>)
            /\ dropped' = (IF cflush THEN dropped ELSE fifo)
            /\ closeKind' = (IF cflush THEN "flush" ELSE "noflush")
            /\ wpc' = (IF wpc = "blocked" THEN AfterWait ELSE wpc)
            /\ cpc' = "write"
  /\ cflush' = FALSE
  /\ UNCHANGED <<cfg, closeCh, wbuf, batch, tsched, fpc, fbuf, fok, pvars, ncloses, written, failed, nfails, enq, slowSeen>>
  /\ step' = [act |-> "C_Lock"]

\* "if len(remaining) > 0 { _ = w.config.WriteManyFn(remaining...) }"
C_Write(ok) ==
  /\ cpc = "write" /\ crem # <<>>
  /\ ok \/ nfails < MaxFails
  /\ IF ok THEN written' = written \o Ids(crem) /\ UNCHANGED <<failed, nfails>>
           ELSE failed' = TRUE /\ nfails' = nfails + 1 /\ UNCHANGED written
  /\ crem' = <<>>
  /\ UNCHANGED <<cfg, fifo, qclosed, mu, wclosed, closeCh, wvars, batch, tvars0, pvars, cpc, cflush, ncloses, ghosts>>
  /\ step' = [act |-> "Write", by |-> "c", ids |-> Ids(crem), many |-> TRUE, ok |-> ok, limit |-> -1]

\* close(w.closeCh); w.mu.Unlock()
C_Finish ==
  /\ cpc = "write" /\ crem = <<>>
  /\ closeCh' = TRUE /\ mu' = "" /\ cpc' = "ret"
  /\ UNCHANGED <<cfg, fifo, qclosed, wclosed, wvars, batch, tvars0, pvars, cflush, crem, ncloses, written, failed, nfails, ghosts>>
  /\ step' = [act |-> "C_Finish"]

C_End ==
  /\ cpc = "ret" /\ cpc' = "idle"
  /\ UNCHANGED <<cfg, fifo, qclosed, mu, wclosed, closeCh, wvars, batch, tvars0, pvars, cflush, crem, ncloses, written, failed, nfails, ghosts>>
  /\ step' = [act |-> "CloseE"]

---------------------------------------------------------------------------
NewItems(p, n, bs) == [i \in 1..n |-> [id |-> p * 100 + pn[p] + i, bytes |-> bs[i]]]
RECURSIVE SumPn(_)
SumPn(T) == IF T = {} THEN 0 ELSE LET x == CHOOSE y \in T : TRUE IN pn[x] + SumPn(T \ {x})
Offered == SumPn(Producers)

Silent ==
  \/ \E p \in Producers : P_Add(p) \/ P_Check(p) \/ P_Sched(p)
  \/ W_Wait \/ W_DelayChk \/ W_SleepEnd \/ W_Lock \/ W_Drain
  \/ F_Begin \/ F_Drain \/ F_Resched
  \/ C_Lock \/ C_Finish

Begin ==
  \E p \in Producers, n \in {1} \cup ManySizes : \E bs \in [1..n -> ByteSizes] :
        Offered + n <= MaxItems /\ P_Begin(p, NewItems(p, n, bs))

Next ==
  \/ Begin
  \/ \E p \in Producers : P_End(p)
  \/ \E ok \in BOOLEAN : W_Write(ok) \/ F_Write(ok) \/ C_Write(ok)
  \/ \E fl \in BOOLEAN : C_Begin(fl)
  \/ C_End
  \/ Silent

Spec == Init /\ [][Next]_vars

(* Reduced next-state relation for the exhaustive runs.  EnqB, EnqE and CloseE touch nothing but the calling
   thread's own pc (they exist for the trace spec: they are the moments the harness logs).  EnqB is a right
   mover, EnqE and CloseE are left movers, and no invariant below distinguishes "idle"/"add" or "ret"/"idle", so
   every behaviour of Next is equivalent to one in which EnqB is followed at once by its Add and EnqE / CloseE
   happen as soon as they are enabled.                                                                        *)
Urgent == \/ \E p \in Producers : P_End(p) \/ P_Add(p) \/ (cfg.maxq = 0 /\ P_Check(p))   \* without a size limit the check reads nothing shared
          \/ C_End
UrgentEnabled == (\E p \in Producers : ppc[p] \in {"ret", "add"} \/ (cfg.maxq = 0 /\ ppc[p] = "check")) \/ cpc = "ret"
NextR == IF UrgentEnabled THEN Urgent ELSE Next
SpecR == Init /\ [][NextR]_vars

\* fairness for the liveness clause: every thread of the code keeps running; the environment (producers
\* starting calls, the closer starting, transport errors) is not forced
Progress ==
  \/ \E p \in Producers : P_Add(p) \/ P_Check(p) \/ P_Sched(p) \/ P_End(p)
  \/ W_Wait \/ W_DelayChk \/ W_SleepEnd \/ W_Lock \/ W_Drain \/ W_Write(TRUE)
  \/ F_Begin \/ F_Drain \/ F_Write(TRUE) \/ F_Resched
  \/ C_Lock \/ C_Write(TRUE) \/ C_Finish \/ C_End
FairSpec == Spec /\ WF_vars(Progress)

---------------------------------------------------------------------------
(* C12 *)
Held == IF crem # <<>> THEN crem ELSE fifo

\* order preserved, no loss, no duplication: what the transport got, what is in flight and what is queued
\* make up exactly what was queued, in queue order -- until a write fails
Exact == ~failed => written \o Ids(batch) \o Ids(Held) \o Ids(dropped) = Ids(enq)
PrefixWise == ~failed => IsPrefix(written, Ids(enq))
NoDup == \A i, j \in 1..Len(written) : i # j => written[i] # written[j]
\* queue order respects each producer's own order
ProducerOrder == \A i, j \in 1..Len(enq) : (i < j /\ enq[i].id \div 100 = enq[j].id \div 100) => enq[i].id < enq[j].id

\* close(true) returned => everything queued before the close went to the transport (nothing accepted later)
FlushDelivers ==
  (closeKind = "flush" /\ closeCh /\ ~failed) => (written = Ids(enq) /\ batch = <<>> /\ fifo = <<>>)
\* close(false) drops only what was still queued
NoFlushDrops ==
  (closeKind = "noflush" /\ closeCh /\ ~failed) => (written \o Ids(batch) \o Ids(dropped) = Ids(enq))
\* after the queue is closed nothing is accepted
ClosedRejects == [][ (step'.act = "P_Add" /\ qclosed) => (pres'[step'.p] = "closed" /\ enq' = enq) ]_vars

\* frames: never empty, never above MaxMessagesInFrame (the flush at close is exempt); single item -> Write, else WriteMany
FrameLimit == [][ step'.act = "Write" =>
                    /\ Len(step'.ids) >= 1
                    /\ (step'.limit > 0 => Len(step'.ids) <= step'.limit)
                    /\ step'.many = (Len(step'.ids) # 1 \/ step'.by = "c")
                    /\ (step'.ok /\ ~failed) => IsPrefix(written \o step'.ids, Ids(enq)) ]_vars

\* slow consumer: exactly the enqueue that observes a queue above MaxQueueSize is answered DisconnectSlow
SlowIffOver == [][ (step'.act = "P_Check") =>
                   LET p == step'.p IN
                   ((ppc'[p] = "ret" /\ pres'[p] = "slow") <=> (cfg.maxq > 0 /\ SumBytes(fifo) > cfg.maxq)) ]_vars
ResultKinds == [][ step'.act = "EnqE" => step'.res \in {"ok", "slow", "closed"} ]_vars

\* no lost wake-up: whenever something is queued, somebody is going to write it
\* (a slow answer returns before the flush is scheduled -- the connection is being closed then)
Someone ==
  \/ qclosed \/ failed \/ slowSeen
  \/ fifo = <<>>
  \/ IF cfg.mode = "timer"
       THEN armed \/ fpc # "none" \/ \E p \in Producers : ppc[p] \in {"check", "sched"}
       ELSE wpc \notin {"blocked", "done", "off"}
WriterAlive == (wpc = "done") => (qclosed \/ failed)

\* liveness (FairSpec): whatever is queued is eventually written, or the connection was closed / a write failed
EventuallyWritten == (fifo # <<>>) ~> (fifo = <<>> \/ failed \/ slowSeen)
\* and close terminates
CloseReturns == (cpc = "lock") ~> (cpc = "ret")

TypeOK ==
  /\ mu \in {"", "w", "f", "c"}
  /\ (mu = "w") = (wpc \in {"drain", "write"})
  /\ (mu = "f") = (fpc \in {"drain", "write", "resched"})
  /\ (mu = "c") = (cpc = "write")
  /\ batch # <<>> => mu \in {"w", "f"}
  /\ cfg.mode = "timer" <=> wpc = "off"

NotFailed == ~failed     \* state constraint: the statement ends at the first write error
View == core
=============================================================================
