// C27, extension: replay of the spec/Cluster/ControlX table on two real nodes.
//
// Filter rows: the connections T {tier: pro, lvl: 10}, D {tier: free, lvl: 5}, U {} of user "u" and E (user "v", labels as
// T) live on node A. Node.Subscribe / Unsubscribe / Refresh / Disconnect with the row's label filter (built from the
// model's tree) is issued on A ("local") and on B ("remote", reaches A as a control message); the touched
// connections are read from public observations (IsSubscribed, refresh push, transport close). Verdict: the touched
// sets of the two REAL runs differ -> violation "<op>:filter:<comparators of the tree>:remote-differs"; the model's
// touched set and the filter tree found in the control message (shim decode) are conformance checks (drift).
//
// Phase rows: connection T on A has its subscription to the channel established / waiting for the OnSubscribe callback
// / parked in Broker.Subscribe (client- or server-side); Node.Unsubscribe(user, channel or "") is issued on A or on B
// on its own goroutine, the held subscribe is released, and after the call returned and a barrier the outcome
// (still subscribed?, hub subscribers, OnUnsubscribe callbacks, unsubscribe pushes) of the local and the remote run
// are compared: differ -> violation "unsubscribe:in-progress:<phase>:<named|emptych>:remote-differs".
package main

import (
	"encoding/json"
	"fmt"
	"sort"
	"strings"
	"sync"
	"time"

	"github.com/centrifugal/centrifuge"
	"github.com/centrifugal/protocol"

	"verifharness/cl"
	"verifharness/vh"
)

type c27xIn struct {
	Rows    []map[string]any `json:"rows"`
	Workers int              `json:"workers"`
}

var c27xConns = []connSpec{
	{Name: "T", User: "u", Labels: map[string]string{"tier": "pro", "lvl": "10"}},
	{Name: "D", User: "u", Labels: map[string]string{"tier": "free", "lvl": "5"}},
	{Name: "U", User: "u", Labels: map[string]string{}},
	{Name: "E", User: "v", Labels: map[string]string{"tier": "pro", "lvl": "10"}},
}

func filterFromModel(v any) *centrifuge.FilterNode {
	m := vh.Map(v)
	f := &centrifuge.FilterNode{Op: vh.Str(m["op"]), Key: vh.Str(m["key"]), Cmp: vh.Str(m["cmp"]), Val: vh.Str(m["val"])}
	for _, x := range vh.List(m["vals"]) {
		f.Vals = append(f.Vals, vh.Str(x))
	}
	for _, n := range vh.List(m["nodes"]) {
		f.Nodes = append(f.Nodes, filterFromModel(n))
	}
	return f
}

// canonical rendering of a filter tree (model tree, or the shim's decode of the wire tree)
func filterString(v any) string {
	if v == nil {
		return "nil"
	}
	m := vh.Map(v)
	get := func(k string) string {
		if s, ok := m[k].(string); ok {
			return s
		}
		return ""
	}
	var vals, nodes []string
	if l, ok := m["vals"].([]any); ok {
		for _, x := range l {
			vals = append(vals, vh.Str(x))
		}
	}
	if l, ok := m["nodes"].([]any); ok {
		for _, x := range l {
			nodes = append(nodes, filterString(x))
		}
	}
	if get("op") == "" {
		return fmt.Sprintf("(%s %s %q %v)", get("key"), get("cmp"), get("val"), vals)
	}
	return fmt.Sprintf("%s[%s]", get("op"), strings.Join(nodes, " "))
}

func filterCmps(v any, into map[string]bool) {
	m := vh.Map(v)
	if vh.Str(m["op"]) == "" {
		into[vh.Str(m["cmp"])] = true
	}
	for _, n := range vh.List(m["nodes"]) {
		filterCmps(n, into)
	}
}

type c27xWorker struct {
	id  int
	p   *c28pWorker // cluster with the OnSubscribe / Broker.Subscribe holds
	seq int
	// reused by subscribe / unsubscribe / refresh filter runs
	pool     map[string]*hconn
	poolUses int
}

func (w *c27xWorker) conns(fresh bool) (map[string]*hconn, func(), error) {
	A := w.p.cl.nodes[0]
	mk := func() (map[string]*hconn, error) {
		m := map[string]*hconn{}
		for _, sp := range c27xConns {
			if fresh {
				// disconnect runs: own users, so that the call cannot reach the pooled connections of "u"
				sp.User += "d"
			}
			h, err := A.connect(sp)
			if err != nil {
				return nil, err
			}
			m[sp.Name] = h
		}
		return m, nil
	}
	drop := func(m map[string]*hconn) {
		for _, h := range m {
			if !h.closed() {
				h.drop()
			} else {
				h.c.Cancel()
			}
		}
	}
	if fresh {
		m, err := mk()
		return m, func() { drop(m) }, err
	}
	if w.pool == nil || w.poolUses >= 150 {
		if w.pool != nil {
			drop(w.pool)
		}
		m, err := mk()
		if err != nil {
			return nil, nil, err
		}
		w.pool, w.poolUses = m, 0
	}
	w.poolUses++
	return w.pool, func() {}, nil
}

// filterRun executes one operation with the label filter, called on A (remote=false) or B, and returns the touched
// connections and the filter tree found in the control message.
func (w *c27xWorker) filterRun(op string, f *centrifuge.FilterNode, remote bool, hint []string) ([]string, string, error) {
	A, B := w.p.cl.nodes[0], w.p.cl.nodes[1]
	caller := A
	if remote {
		caller = B
	}
	conns, done, err := w.conns(op == "disconnect")
	if err != nil {
		return nil, "", err
	}
	defer done()
	order := []string{"T", "D", "U", "E"}
	w.seq++
	ch := fmt.Sprintf("f%d_%d_%d", vh.Seed(), w.id, w.seq)
	barrier := func() error {
		for _, n := range order {
			if conns[n].closed() {
				continue
			}
			if !conns[n].c.Barrier(3*time.Second) && !conns[n].closed() {
				return fmt.Errorf("barrier on %s failed", n)
			}
		}
		return nil
	}
	cm := caller.ctrl.mark()
	var touched []string
	switch op {
	case "subscribe":
		if err := caller.env.Node.Subscribe("u", ch, centrifuge.WithSubscribeLabelFilter(f)); err != nil {
			return nil, "", err
		}
		if err := barrier(); err != nil {
			return nil, "", err
		}
		for _, n := range order {
			if conns[n].c.Client.IsSubscribed(ch) {
				touched = append(touched, n)
			}
		}
	case "unsubscribe":
		for _, n := range order {
			if err := conns[n].c.Client.Subscribe(ch); err != nil {
				return nil, "", err
			}
		}
		cm = caller.ctrl.mark()
		if err := caller.env.Node.Unsubscribe("u", ch, centrifuge.WithUnsubscribeLabelFilter(f)); err != nil {
			return nil, "", err
		}
		if err := barrier(); err != nil {
			return nil, "", err
		}
		for _, n := range order {
			if !conns[n].c.Client.IsSubscribed(ch) {
				touched = append(touched, n)
			}
		}
	case "refresh":
		fm := map[string]int{}
		for n, h := range conns {
			fm[n] = h.frameMark()
		}
		if err := caller.env.Node.Refresh("u", centrifuge.WithRefreshLabelFilter(f), centrifuge.WithRefreshExpireAt(time.Now().Unix()+3600)); err != nil {
			return nil, "", err
		}
		if err := barrier(); err != nil {
			return nil, "", err
		}
		for _, n := range order {
			for _, r := range conns[n].framesSince(fm[n]) {
				if r.Push != nil && r.Push.Refresh != nil {
					touched = append(touched, n)
					break
				}
			}
		}
	case "disconnect":
		if err := caller.env.Node.Disconnect("ud", centrifuge.WithDisconnectLabelFilter(f)); err != nil {
			return nil, "", err
		}
		waitClosed(conns, hint, true)
		if err := barrier(); err != nil {
			return nil, "", err
		}
		for _, n := range order {
			if conns[n].closed() {
				touched = append(touched, n)
			}
		}
	}
	wire := "none"
	for _, m := range caller.ctrl.since(cm) {
		d, err := decodeControl(m.data)
		if err != nil || vh.Str(d["kind"]) != op {
			continue
		}
		wire = filterString(vh.Map(d["fields"])["label_filter"])
	}
	return touched, wire, nil
}

type phaseOutcome struct {
	Subscribed bool `json:"subscribed"`
	Hub        int  `json:"hub"`
	Callbacks  int  `json:"callbacks"`
	Pushes     int  `json:"pushes"`
	Returned   bool `json:"call_returned"`
}

// phaseRun: T's subscription to a fresh channel is brought into the phase, Node.Unsubscribe(user, channel or "") is
// issued on A or B, the held subscribe is released, the outcome after settling is returned.
func (w *c27xWorker) phaseRun(phase string, emptyCh, remote bool) (*phaseOutcome, error) {
	p := w.p
	A, B := p.cl.nodes[0], p.cl.nodes[1]
	caller := A
	if remote {
		caller = B
	}
	w.seq++
	user := fmt.Sprintf("pu%d_%d_%d", vh.Seed(), w.id, w.seq)
	ch := fmt.Sprintf("a_p%d_%d_%d", vh.Seed(), w.id, w.seq) // "a": presence and join/leave enabled (optsFor)
	h, err := A.connect(connSpec{Name: "T", User: user})
	if err != nil {
		return nil, err
	}
	defer h.drop()
	var gate *cl.Gate
	var subDone chan struct{}
	var subID uint32
	var ssErr error
	switch phase {
	case "live":
		subID = h.c.NextID()
		h.c.Do(&protocol.Command{Id: subID, Subscribe: &protocol.SubscribeRequest{Channel: ch}})
		if r := h.c.WaitReply(subID, phaseWait); r == nil || r.Subscribe == nil {
			return nil, fmt.Errorf("subscribe failed")
		}
	case "cb":
		p.mu.Lock()
		p.holdCB[ch] = true
		p.mu.Unlock()
		subID = h.c.NextID()
		h.c.Do(&protocol.Command{Id: subID, Subscribe: &protocol.SubscribeRequest{Channel: ch}})
		p.mu.Lock()
		_, held := p.cbs[h.id+"|"+ch]
		p.mu.Unlock()
		if !held {
			return nil, fmt.Errorf("OnSubscribe was not called")
		}
	case "csbr", "ssbr":
		gate = cl.NewGate()
		p.mu.Lock()
		p.gates[A.name+"|"+ch] = gate
		p.mu.Unlock()
		subDone = make(chan struct{})
		if phase == "csbr" {
			subID = h.c.NextID()
			go func() {
				defer close(subDone)
				h.c.Do(&protocol.Command{Id: subID, Subscribe: &protocol.SubscribeRequest{Channel: ch}})
			}()
		} else {
			go func() {
				defer close(subDone)
				ssErr = h.c.Client.Subscribe(ch, centrifuge.WithEmitPresence(true), centrifuge.WithEmitJoinLeave(true))
			}()
		}
		if !gate.WaitArrived(phaseWait) {
			gate.Release()
			return nil, fmt.Errorf("subscribe did not reach Broker.Subscribe")
		}
	}
	fm, em := h.frameMark(), A.evMark()
	chArg := ch
	if emptyCh {
		chArg = ""
	}
	callDone := make(chan error, 1)
	go func() { callDone <- caller.env.Node.Unsubscribe(user, chArg) }()
	time.Sleep(3 * time.Millisecond)
	// release
	switch phase {
	case "cb":
		p.mu.Lock()
		pc := p.cbs[h.id+"|"+ch]
		delete(p.cbs, h.id+"|"+ch)
		p.mu.Unlock()
		pc.cb(centrifuge.SubscribeReply{Options: pc.opts}, nil)
		if r := h.c.WaitReply(subID, phaseWait); r == nil {
			return nil, fmt.Errorf("no subscribe reply after the callback was answered")
		}
	case "csbr", "ssbr":
		p.mu.Lock()
		delete(p.gates, A.name+"|"+ch)
		p.mu.Unlock()
		gate.Release()
		select {
		case <-subDone:
		case <-time.After(phaseWait):
			return nil, fmt.Errorf("parked subscribe did not finish")
		}
		if ssErr != nil {
			return nil, fmt.Errorf("Client.Subscribe: %v", ssErr)
		}
	}
	out := &phaseOutcome{}
	select {
	case err := <-callDone:
		if err != nil {
			return nil, err
		}
		out.Returned = true
	case <-time.After(phaseWait):
	}
	if !h.c.Barrier(phaseWait) {
		return nil, fmt.Errorf("barrier failed")
	}
	out.Subscribed = h.c.Client.IsSubscribed(ch)
	out.Hub = A.env.Node.Hub().NumSubscribers(ch)
	for _, ev := range A.evSince(em) {
		if ev.Client == h.id && ev.Kind == "unsubscribe" && ev.Ch == ch {
			out.Callbacks++
		}
	}
	for _, r := range h.framesSince(fm) {
		if r.Push != nil && r.Push.Unsubscribe != nil && r.Push.Channel == ch {
			out.Pushes++
		}
	}
	return out, nil
}

var c27xFailedLeaf = map[string]bool{} // op|cmp of leaves already reported (guarded by extraMu)

func (w *c27xWorker) row(ri int, row map[string]any, res *vh.Result) {
	completed := 0
	defer func() { res.Done(1, completed) }()
	switch vh.Str(row["kind"]) {
	case "filter":
		op := vh.Str(row["op"])
		tree := filterString(row["f"])
		var want []string
		for _, c := range vh.List(row["touched"]) {
			want = append(want, vh.Str(c))
		}
		ordr := func(t []string) []string {
			sort.Slice(t, func(i, j int) bool { return strings.Index("TDUE", t[i]) < strings.Index("TDUE", t[j]) })
			return t
		}
		want = ordr(want)
		f := filterFromModel(row["f"])
		L, wl, err := w.filterRun(op, f, false, want)
		if err != nil {
			res.Drift("C27", fmt.Sprintf("%s with filter %s local: %v", op, tree, err), nil)
			return
		}
		R, wr, err := w.filterRun(op, f, true, want)
		if err != nil {
			res.Drift("C27", fmt.Sprintf("%s with filter %s remote: %v", op, tree, err), nil)
			return
		}
		L, R = ordr(L), ordr(R)
		replay := map[string]any{"op": op, "filter": row["f"], "local_touched": L, "remote_touched": R, "model_touched": want, "wire_filter": wr}
		conform := true
		if strings.Join(L, ",") != strings.Join(want, ",") {
			res.Drift("C27", fmt.Sprintf("Node.%s with label filter %s called on the node holding the connections touched %v, the model says %v", op, tree, L, want), replay)
			conform = false
		}
		if wl != tree || wr != tree {
			res.Drift("C27", fmt.Sprintf("Node.%s with label filter %s: the control message carries %s (local call) / %s (remote call)", op, tree, wl, wr), replay)
			conform = false
		}
		if conform {
			completed = 1
			res.Distinct(op + " " + tree)
		}
		if strings.Join(L, ",") == strings.Join(R, ",") {
			res.Count("filter_agree", 1)
			return
		}
		res.Count("filter_differ", 1)
		cmps := map[string]bool{}
		filterCmps(row["f"], cmps)
		names := sortedKeys(cmps)
		isLeaf := vh.Str(vh.Map(row["f"])["op"]) == ""
		extraMu.Lock()
		if isLeaf {
			c27xFailedLeaf[op+"|"+names[0]] = true
		} else {
			// attribute a composite tree to those of its comparators that already fail as a single leaf
			var failing []string
			for _, c := range names {
				if c27xFailedLeaf[op+"|"+c] {
					failing = append(failing, c)
				}
			}
			if len(failing) > 0 {
				names = failing
			}
		}
		extraMu.Unlock()
		size := len(tree)
		c27Violate(fmt.Sprintf("%s:filter:%s:remote-differs", op, strings.Join(names, "+")), size,
			fmt.Sprintf("Node.%s(\"u\", ...) with label filter %s: called on the node that holds the connections it touches %v, called on another node it touches %v (labels: T {tier: pro, lvl: 10}, D {tier: free, lvl: 5}, U {}); filter tree in the control message: %s",
				strings.ToUpper(op[:1])+op[1:], tree, L, R, wr), replay)
	case "phase":
		phase, e := vh.Str(row["phase"]), vh.Bool(row["emptych"])
		chn := "named"
		if e {
			chn = "emptych"
		}
		L, err := w.phaseRun(phase, e, false)
		if err != nil {
			res.Drift("C27", fmt.Sprintf("phase %s %s local: %v", phase, chn, err), nil)
			return
		}
		R, err := w.phaseRun(phase, e, true)
		if err != nil {
			res.Drift("C27", fmt.Sprintf("phase %s %s remote: %v", phase, chn, err), nil)
			return
		}
		m := vh.Map(row["local"])
		want := phaseOutcome{Subscribed: vh.Bool(m["subscribed"]), Hub: vh.Int(m["hub"]), Callbacks: vh.Int(m["callbacks"]), Pushes: vh.Int(m["pushes"]), Returned: true}
		replay := map[string]any{"phase": phase, "channel": chn, "local": L, "remote": R, "model": want}
		if *L == want {
			completed = 1
			res.Distinct("phase " + phase + " " + chn)
		} else {
			res.Drift("C27", fmt.Sprintf("Node.Unsubscribe (%s channel) called on the connection's node while its subscription was %q: outcome %s, the model says %s", chn, phase, vh.J(L), vh.J(want)), replay)
		}
		if *L == *R {
			res.Count("phase_agree", 1)
			return
		}
		res.Count("phase_differ", 1)
		c27Violate(fmt.Sprintf("unsubscribe:in-progress:%s:%s:remote-differs", phase, chn), 0,
			fmt.Sprintf("Node.Unsubscribe(user, %s) arriving while the connection's subscription is %q (live = established, cb = OnSubscribe callback pending, csbr/ssbr = parked in Broker.Subscribe): after release and settling the call issued on the connection's node gives %s, the call issued on another node gives %s",
				map[bool]string{true: "\"\"", false: "channel"}[e], phase, vh.J(L), vh.J(R)), replay)
	}
}

func c27x(in json.RawMessage, res *vh.Result) error {
	var ci c27xIn
	if err := json.Unmarshal(in, &ci); err != nil {
		return err
	}
	nw := ci.Workers
	if nw <= 0 {
		nw = 4
	}
	var wg sync.WaitGroup
	jobs := make(chan int)
	for i := 0; i < nw; i++ {
		p, err := newC28pWorker()
		if err != nil {
			return err
		}
		w := &c27xWorker{id: i, p: p}
		wg.Add(1)
		go func() {
			defer wg.Done()
			defer p.cl.close()
			for ri := range jobs {
				w.row(ri, ci.Rows[ri], res)
			}
		}()
	}
	for ri := range ci.Rows {
		jobs <- ri
	}
	close(jobs)
	wg.Wait()
	for _, sig := range sortedKeys(c27Viols) {
		v := c27Viols[sig]
		res.Violate("C27", sig, v.what, v.replay)
	}
	return nil
}
