"""C14 (delta encoding reconstructs the published data), C25 (shared-poll keyed delivery) -- family `keyed`.

Specs   spec/Delta/Delta.tla (+DeltaSim)   stream paths: first-full rule, broker vs local (medium) base, filtered
                                           publications, recovered chain, recovery -> live, wire faults, sessions
        spec/Delta/DeltaMap.tla            map paths: per-key bases over state / recovery join / live
        spec/SharedPoll/SharedPoll.tla (+SharedPollSim)  keyed paths + all of C25
Harness harness/keyed  modes delta (gate replay on GateBroker like harness/substream), mapdelta (sequential replay),
        sharedpoll (gate replay: OnSharedPoll handler + trace-log call between the two phases of the keyed write),
        probe (tags-filter policy for delta subscribers).  kconn.go: recording transport for JSON and Protobuf.
Overlay overlay/keyed/keyed.go: one shim exporting SharedPollManager.SharedPollRevokeKeys (unexported Node field).

Every spec has a reference design that satisfies the property and `AsCoded` switches for the places where TLC showed
that the code as written does not; the counterexamples of the as-coded configurations are replayed on the real code
(witnesses, frozen copies spec/*/witness_*.json for the quick tier), the verdict is always the observable-only
monitor on the real frames: the harness client APPLIES every delivered delta with fdelta.Apply to the bytes it holds
and compares with the published bytes.

Genuine defects found (all reproduced on the real code; diffs in spec/Delta/*.fix.diff):
  D1 C14 recovery-to-live:empty-recovery / :after-filtered  flagDeltaAllowed set on every recovered subscribe
        -> fixed by /repo 0edc212c (d1.fix.diff)
  D2 C14 json-escape:delta-cuts-utf8 (also keyed: and map paths)  fossil patch cuts a UTF-8 sequence, json.Escape
        turns the stray byte into U+FFFD -> fixed by /repo b374e37e (d2.fix.diff)
  D3 C14 map:live:filtered-subscription  map subscription with a tags filter negotiates delta; the per-key base is
        the key's previous state value which the filter may have withheld (d3.fix.diff: no delta with a filter)
  C25 epoch-flip:idle-subscription-survives, update-for-untracked-key:after-removal, stale-epoch-data:push
        (no small safe fix; see the final report / known_findings.json)

Later additions (seeded changes C14-1, C14-2, C25-2, C05-2 passed the first version of the checks):
  * per-publication delta option (PublishOptions.UseDelta / MapPublishOptions.UseDelta) is an argument of Publish in
    Delta.tla / DeltaMap.tla; scenario witnesses scn_mixed (medium: with / without / with the option) and scn_tail
    (recovered reply whose position tail was buffered inside the subscribe window and withheld by the tags filter, then a
    live delta) are replayed WITH frame comparison on every run. Seeded C14-1 -> sig medium:live-nonpositioned:
    after-nondelta-publish:*, seeded C14-2 -> recovery-to-live:after-filtered-in-window:*.
  * payload classes (Publish argument pk in Delta.tla): "sim" payloads share long substrings, an "unrel" payload is short
    and unrelated so that the code falls back to the full data in the middle of a chain (model rule: a patch travels only
    between two similar payloads or for the identical payload; every recovered publication is judged against the data of
    the previous RECOVERED one). Scenario scn_chain (recovered chain similar / unrelated / similar) replayed with
    comparison on every run. Seeded C14-4 -> recovered-chain:after-full-fallback:*.
  * SharedPoll.tla: track split at the natural gate Node.OnCommandProcessed (reply written, keyed-hub join pending),
    monitors stale-after-(refresh|publish)[:track-window:<cached-item|same-version|zero>]: with everything at rest a
    tracking connection must not be left with an older payload than one applied on the server while it tracked the key.
    Seeded C25-2 -> :track-window:cached-item. HEAD itself loses such an update for keys NOT classified warm at trackKeys
    time (:track-window:same-version, :zero; TLC liveness counterexample live_split_head.cfg; candidate fix
    spec/SharedPoll/c25_track_window.fix.diff, with it the code matches the reference with 0 drift).
  * free-run rule (FRAMEWORK.md rule 9) in the sharedpoll replay: a disagreement with the model (frames, a gate not
    reached) is remembered, everything parked is released, every key gets a new payload (backend change + publish +
    notification) and the at-rest obligation decides: a tracking connection without the newest payload = violation
    stale-after-publish[:track-window:<class>|:free-run]; only otherwise the difference is reported as drift. The same
    closing phase runs after every witness schedule. Seeded C25-4 (unfiltered revoke drops the pendingHubJoin guard;
    AsCoded "revoke-ignores-pending", invariant HubHasEntry, witness ascoded_revoke.cfg) -> :track-window:revoke-during-track.
  * SubClose.tla + harness mode subclose (shared-poll SUBSCRIBE vs close(), the 5 s gate timeout an explicit action, real
    5 s waited out in the replay) in c05_keyed: seeded C05-3 -> keyed-subscribe-finishes-after-close:wait-timeout; HEAD
    itself leaks presence + a late join when close() runs between the finalize's commit and setupMapPresenceAndJoin
    (:options / :processed; candidate fix spec/SharedPoll/c05_subscribe_presence.fix.diff).
  * TrackClose.tla + harness mode trackclose + c05_keyed(c) for C05 (called from fam/lifecycle.py); HEAD defect fixed by
    /repo fe4f9531 (spec/SharedPoll/c05_track_join.fix.diff).

Mutation testing (FRAMEWORK.md rule 3; scratch worktrees /tmp/keyed-*, baseline = HEAD + d1..d3: C14 exit 0 for seeds 1..5;
C25 baseline shows exactly the three known sigs for seeds 1..5, every mutation adds the sig named in its line), `./check` exit:
  C14 m1 first-full rule skipped on the positioned live path (deltaAllowed || true)                     caught (1)
      m2 flagDeltaAllowed set at commit for every delta subscription (no full publication sent yet)     caught (1)
      m3 broker hands over the OLDEST retained publication as prevPub (wrong base, also after filtered) caught (1)
      m4 recovered chain: every delta against the first recovered publication (prevPub not advanced)    caught (1)
      m5 medium keeps the first publication as latestPublication forever (stale local base)            caught (1)
      m6 JSON escape applied twice to live delta data                                                   caught (1)
      m6' JSON escape not applied to delta data: the server's own encoder rejects the frame and
          disconnects (DisconnectInappropriateProtocol) - nothing wrong is delivered: drift, exit 2     missed by design
      m7 recovery-to-live boundary uses the pre-recovery base (= D1 reverted)                           caught (1)
      m8 map recovery: one base shared across keys                                                      caught (1)
  C25 s1 version check `<` instead of `<=` (equal version pushed again)   version-not-increasing        caught (1)
      s2 deltaReady assumed for a key tracked with a version               delta-base:push               caught (1)
      s3 phase 3 of the keyed write reuses the phase 1 key state           update-for-untracked-key:after-untrack  caught (1)
      s4 versionless counter reset on every refresh      stale-after-refresh, not-newest-after-settle   caught (1)
      s5 epoch flip does not unsubscribe                 epoch-flip:tracking-subscription-survives       caught (1)
"""
import json
import os
import re
from concurrent.futures import ThreadPoolExecutor

from lib import tlaparse, vf


def _error_trace(tlc_out):
    """The counterexample behaviour TLC prints after `Error: Invariant .. is violated` as a list of state dicts."""
    m = re.search(r'^Error: The behavior up to this point is:\s*$', tlc_out, re.M)
    if not m:
        return None
    text = tlc_out[m.end():]
    cut = re.search(r'^\d+ states generated', text, re.M)
    if cut:
        text = text[:cut.start()]
    return tlaparse.parse_states_file(text)


def _variant(c, family, cfg, withhold):
    """cfg file name to use for the probed tags-filter policy (a derived copy in the scratch spec dir)."""
    if not withhold:
        return cfg
    d = c._specdir(family)
    name = cfg.replace('.cfg', '_wh.cfg')
    text = open(os.path.join(d, cfg)).read().replace('Withhold = FALSE', 'Withhold = TRUE')
    with open(os.path.join(d, name), 'w') as fh:
        fh.write(text)
    return name


def _exhaustive_parallel(c, family, module, cfgs, workers=3, timeout=3000):
    c._specdir(family)
    with ThreadPoolExecutor(max_workers=len(cfgs)) as ex:
        futs = [(cfg, ex.submit(c.tlc_exhaustive, family, module, cfg, workers=workers, timeout=timeout)) for cfg in cfgs]
        for cfg, f in futs:
            r = f.result()
            c.log('TLC exhaustive %s: %d distinct / %d generated, depth %d, %.0fs' % (cfg, r['distinct'], r['states'], r['depth'], r['wall_s']))


def _absorb_delta(c, res, total):
    c.absorb(res)
    total['executed'] += res['executed']
    total['completed'] += res['completed']
    c.cov['distinct_nontrivial'] += res['nontrivial']
    for k, v in (res.get('counters') or {}).items():
        total['counters'][k] = total['counters'].get(k, 0) + v


def _par(jobs, width=4):
    """Runs callables concurrently (TLC processes with 1-2 workers each); returns their results in order."""
    with ThreadPoolExecutor(max_workers=width) as ex:
        futs = [ex.submit(j) for j in jobs]
        return [f.result() for f in futs]


def _exh(c, family, module, cfg, workers=1, timeout=3000):
    def run():
        r = c.tlc_exhaustive(family, module, cfg, workers=workers, timeout=timeout)
        c.log('TLC exhaustive %s: %d distinct / %d generated, depth %d, %.0fs' % (cfg, r['distinct'], r['states'], r['depth'], r['wall_s']))
        return r
    return run


def _witness(c, family, module, cfg):
    """Counterexample of an as-coded configuration as a replayable behaviour. The quick tier replays the frozen copy
    (spec/<family>/witness_<cfg>.json, produced by the same TLC run at build time; it is only a schedule - the verdict
    comes from the monitors on the real frames); the thorough tier lets TLC produce it again."""
    frozen = os.path.join(vf.ROOT, 'spec', family, 'witness_' + cfg.replace('_wh', '').replace('.cfg', '.json'))

    def run():
        if c.tier == 'quick' and os.path.exists(frozen) and not cfg.endswith('_wh.cfg'):
            wit = json.load(open(frozen))
            c.log('witness %s: frozen TLC counterexample, %d steps' % (cfg, len(wit) - 1))
            return wit
        w = c.tlc(family, module, cfg, workers=1, timeout=1500, expect_violation=True)
        wit = _error_trace(w['out']) if not w['ok'] else None
        if not wit:
            raise vf.Inconclusive('%s produced no counterexample: %s' % (cfg, w['out'][-1500:]))
        c.log('TLC counterexample %s: %d steps' % (cfg, len(wit) - 1))
        return wit
    return run


def _sim(c, family, module, cfg, n, depth):
    def run():
        s = c.tlc(family, module, cfg, simulate=n, depth=depth, timeout=2400)
        if not s['ok']:
            raise vf.Inconclusive('simulation %s failed: %s\n%s' % (cfg, s['error'], s['out'][-3000:]))
        behs = c.behaviours(s)
        c.log('TLC simulate %s: %d behaviours, %.0fs' % (cfg, len(behs), s['wall_s']))
        return behs
    return run


def c14(c):
    quick = c.tier == 'quick'
    total = {'executed': 0, 'completed': 0, 'counters': {}}
    binp = c.go_build('keyed')
    # 0. which tags-filter policy does the code apply to delta subscribers (C14 holds under both, see Delta.tla)
    pr = c.harness(binp, 'probe', {}, timeout=60)
    withhold = bool(pr['extra']['withhold'])
    c.log('probe: publications excluded by the tags filter are %s for delta subscribers' % ('withheld' if withhold else 'still pushed (live paths)'))
    c.cov['filter_policy_for_delta_subscribers'] = 'withhold' if withhold else 'push'
    c._specdir('Delta')
    v = lambda x: _variant(c, 'Delta', x, withhold)
    # 1. design check: the reference design satisfies C14 on every behaviour of the small configurations
    # 2. the code as written (flagDeltaAllowed after every recovered subscribe) has C14 counterexamples in the model
    # 3. behaviours of the reference design for replay
    cfgs = ['quick_rec.cfg', 'quick_np.cfg', 'quick_chain.cfg'] if quick else ['thorough_pos.cfg', 'thorough_np.cfg', 'thorough_faults.cfg', 'thorough_mix.cfg']
    jobs = [_exh(c, 'Delta', 'Delta', v(x), workers=1 if quick else 2) for x in cfgs]
    if not quick:   # the other filter policy is sound as well
        jobs += [_exh(c, 'Delta', 'Delta', _variant(c, 'Delta', x, not withhold)) for x in ['quick_rec.cfg', 'quick_np.cfg']]
    nj = len(jobs)
    jobs += [_witness(c, 'Delta', 'Delta', v('ascoded.cfg')), _sim(c, 'Delta', 'DeltaSim', v('sim.cfg'), 600 if quick else 6000, 30)]
    # keyed path: behaviours of spec/SharedPoll (per-key deltaReady / version / base version), delta monitors only
    c._specdir('SharedPoll')
    jobs += [_sim(c, 'SharedPoll', 'SharedPollSim', 'sim_v.cfg', 80 if quick else 800, 50)]
    # map paths: per-key bases (sequential model of the map subscribe protocol outcomes)
    jobs += [_exh(c, 'Delta', 'DeltaMap', 'map_quick.cfg'), _witness(c, 'Delta', 'DeltaMap', 'map_ascoded.cfg'),
             _sim(c, 'Delta', 'DeltaMap', 'map_sim.cfg', 150 if quick else 3000, 30)]
    # scenario witnesses of the REFERENCE (shortest behaviours reaching a named situation; replayed with comparison on
    # every run): recovered reply whose position tail was withheld inside the subscribe window, then a live delta;
    # medium: publications with / without / with the delta option
    jobs += [_witness(c, 'Delta', 'Delta', v('scn_tail.cfg')), _witness(c, 'Delta', 'Delta', v('scn_mixed.cfg')),
             _witness(c, 'Delta', 'Delta', v('scn_chain.cfg'))]
    out = _par(jobs)
    wit, behs, kbehs, mwit, mbehs = out[nj], out[nj + 1], out[nj + 2], out[nj + 4], out[nj + 5]
    behs = [out[nj + 6], out[nj + 7], out[nj + 8]] + behs
    res = c.harness(binp, 'mapdelta', {'compare': False, 'behaviours': [mwit]}, timeout=300)
    _absorb_delta(c, res, total)
    res = c.harness(binp, 'mapdelta', {'compare': True, 'behaviours': mbehs}, timeout=1800)
    _absorb_delta(c, res, total)
    res = c.harness(binp, 'sharedpoll', {'compare': False, 'versioned': True, 'behaviours': kbehs}, timeout=1800)
    _absorb_delta(c, res, total)
    res = c.harness(binp, 'delta', {'hist_size': 2, 'compare': False, 'behaviours': [wit]}, timeout=300)
    _absorb_delta(c, res, total)
    c.cov['samples'] += res['samples'][:1]
    res = c.harness(binp, 'delta', {'hist_size': 3, 'compare': True, 'behaviours': behs}, timeout=1800)
    _absorb_delta(c, res, total)
    c.cov['samples'] += res['samples'][:1]
    c.cov['traces_validated_against_impl'] = total['completed']
    c.cov['evaluations'] = total['executed']
    c.cov['replay_counters'] = total['counters']


def _absorb_sp(c, res, total):
    c.absorb(res)
    total['executed'] += res['executed']
    total['completed'] += res['completed']
    c.cov['distinct_nontrivial'] += res['nontrivial']
    for k, v in (res.get('counters') or {}).items():
        total['counters'][k] = total['counters'].get(k, 0) + v


def c25(c):
    quick = c.tier == 'quick'
    total = {'executed': 0, 'completed': 0, 'counters': {}}
    binp = c.go_build('keyed')
    c._specdir('SharedPoll')
    # 1. design check of the reference (safety: action properties on every frame + invariants; liveness under weak
    #    fairness of worker / publisher / revoker / track completion with the refresh timer on, no state constraint)
    # 2. deviations of the code from the reference found by TLC: counterexamples = witnesses for the real code
    # 3. behaviours of the reference for gate replay
    # 0. track window (reply written, hub join pending; natural gate Node.OnCommandProcessed): does the code under test
    #    cover an update that lands there for a key that was not classified warm? The as-coded counterexample decides
    #    which model variant explains the code (the violation itself is reported either way).
    wsame = _witness(c, 'SharedPoll', 'SharedPoll', 'scn_window_same.cfg')()
    res = c.harness(binp, 'sharedpoll', {'compare': False, 'versioned': True, 'behaviours': [wsame]}, timeout=300)
    gap = any('track-window' in (v.get('sig') or '') for v in res.get('violations') or [])
    _absorb_sp(c, res, total)
    c.cov['track_window_gap_in_code'] = gap
    c.log('track window: an update between track reply and hub join for a non-warm key is %s' % ('LOST by the code under test' if gap else 'covered'))
    cfgs = ['quick.cfg', 'quick_vl.cfg'] if quick else ['thorough.cfg', 'thorough2.cfg', 'thorough_vl.cfg']
    cfgs += ['quick_split.cfg', 'live.cfg', 'live_vl.cfg', 'live_split.cfg']
    jobs = [_exh(c, 'SharedPoll', 'SharedPoll', x, workers=1 if quick else 2) for x in cfgs]
    nj = len(jobs)
    wcfgs = ['ascoded_flip.cfg', 'ascoded_removal.cfg', 'ascoded_epoch.cfg', 'scn_window_cached.cfg', 'ascoded_revoke.cfg']
    jobs += [_witness(c, 'SharedPoll', 'SharedPoll', x) for x in wcfgs]
    n = 160 if quick else 1500
    sims = (('sim_v.cfg', True, n), ('sim_flip.cfg', True, n // 4), ('sim_vl.cfg', False, n // 2),
            ('sim_split_head.cfg' if gap else 'sim_split.cfg', True, n // 2))
    jobs += [_sim(c, 'SharedPoll', 'SharedPollSim', x, k, 50) for x, _, k in sims]
    out = _par(jobs, width=5)
    wits = out[nj:nj + len(wcfgs)]
    res = c.harness(binp, 'sharedpoll', {'compare': False, 'versioned': True, 'behaviours': wits}, timeout=300)
    _absorb_sp(c, res, total)
    for (cfg, versioned, _), behs in zip(sims, out[nj + len(wcfgs):]):
        res = c.harness(binp, 'sharedpoll', {'compare': True, 'versioned': versioned, 'behaviours': behs}, timeout=1800)
        _absorb_sp(c, res, total)
        c.cov['samples'] += res['samples'][:1]
    # 4. real timers: seeded free-running schedules with the refresh timer on (25 ms); same frame monitors plus
    #    "every tracking connection holds the backend's newest payload within 6 s after the last operation"
    res = c.harness(binp, 'spfree', {'n': 24 if quick else 96, 'ops': 60}, timeout=1800)
    _absorb_sp(c, res, total)
    c.cov['traces_validated_against_impl'] = total['completed']
    c.cov['evaluations'] = total['executed']
    c.cov['replay_counters'] = total['counters']


def c05_keyed(c):
    """C05 on the shared-poll track path (called from fam/lifecycle.py's C05 check): TrackClose.tla = handleTrack as
    validate / OnTrack callback / GetSharedPollChannelOptions / trackKeys / commit under c.mu with the generation
    re-check / reply + OnCommandProcessed / keyed-hub join, interleaved with close / unsubscribe / resubscribe of the
    same connection. TLC exhaustive on the reference; the counterexamples of the two as-coded variants (re-check hoisted
    out of the commit; no re-check at the hub join) and simulated behaviours are replayed with the track command parked
    in the application callbacks; verdict: after the end of the subscription the OnSharedPoll backend is no longer asked
    for the channel's keys, nothing of the connection is left in the keyed hub / SharedPollManager / Node.Hub()."""
    binp = c.go_build('keyed')
    c._specdir('SharedPoll')
    out = _par([_exh(c, 'SharedPoll', 'TrackClose', 'tc_ref.cfg'),
                _witness(c, 'SharedPoll', 'TrackClose', 'tc_seeded.cfg'),
                _witness(c, 'SharedPoll', 'TrackClose', 'tc_head.cfg'),
                _sim(c, 'SharedPoll', 'TrackClose', 'tc_sim.cfg', 120 if c.tier == 'quick' else 1200, 14),
                # the keyed SUBSCRIBE against close(): SubClose.tla (reserve / OnSubscribe callback / finalize with the
                # closed re-check / options / reply / presence + join; close() waiting on the reservation gate, its 5 s
                # timeout an explicit action). The replay waits out the real 5 s: few behaviours, side by side.
                _exh(c, 'SharedPoll', 'SubClose', 'sc_ref.cfg'),
                _witness(c, 'SharedPoll', 'SubClose', 'sc_seeded.cfg'),
                _witness(c, 'SharedPoll', 'SubClose', 'sc_head.cfg'),
                _witness(c, 'SharedPoll', 'SubClose', 'sc_scn.cfg'),
                _sim(c, 'SharedPoll', 'SubClose', 'sc_sim.cfg', 3 if c.tier == 'quick' else 24, 10)], width=5)
    for mode, behs in (('trackclose', [out[1], out[2]] + out[3]), ('subclose', [out[5], out[6], out[7]] + out[8])):
        res = c.harness(binp, mode, {'behaviours': behs}, timeout=900)
        for v in res.get('violations') or []:
            if v.get('prop') == 'C05':
                c.violation(v.get('sig', ''), v.get('what', ''), v.get('replay'))
        for d in res.get('drifts') or []:
            c.drifts.append(d)
        c.cov['traces_validated_against_impl'] += res['completed']
        c.cov['evaluations'] += res['executed']
        c.cov['distinct_nontrivial'] += res['nontrivial']
        c.cov['samples'] += res['samples'][:1]
    c.assumptions += ['keyed track path: one connection, one key; gates only where the code calls the application (OnTrack, GetSharedPollChannelOptions, '
                      'OnCommandProcessed); close / unsubscribe run to completion while the track command is parked']


CHECKS = {'C14': c14, 'C25': c25}
_n14 = ('Bounds: exhaustive (reference design): stream paths <=3 publications (4 thorough), history size 2, <=1 wire fault (2 thorough), 2 subscribe '
        'sessions (3 thorough), kinds positioned / recoverable / non-positioned with and without history, tags filter on/off, channel medium '
        '(KeepLatestPublication) on/off, both tags-filter policies; map paths 2 keys, 4 updates, 3 subscribes; replay: 600 (quick) simulated stream '
        'behaviours (<=5 publications, 3 sessions, 2 faults, history clear) x JSON and Protobuf, 150 map behaviours, 80 shared-poll behaviours, plus the '
        'TLC counterexamples of the as-coded configurations as witnesses. Payloads: seeded distinct JSON documents (with escapes, HTML characters, '
        '2-4 byte UTF-8, U+2028; every second behaviour ASCII only) and binary blobs (all byte values, fossil grammar characters) of 90-300 bytes sharing '
        'long substrings. NOT decided by the specification: correctness of the fossil algorithm itself and of the JSON string escaping - they are only '
        'covered by the byte comparison on these generated payloads (that comparison found the UTF-8 cut defect D2). The per-publication delta option is a Publish argument (mixed sequences). Not modelled: mixed history / '
        'no-history publishes into one channel, channel medium with queue / broadcast delay, cache recovery mode with delta, unidirectional transports, '
        'channel compaction ids, publications without offset inside the subscribe window (known finding C10), concurrent HandlePublication calls for one '
        'channel (brokers serialise per channel), Redis brokers. Trusted: TLC, lib/tlaparse.py, the fossil library Apply on the client side, the harness '
        'projection / monitor code.')
_n25 = ('Bounds: exhaustive (reference design) 2 connections, 1 key (2 versionless thorough), <=1-2 backend changes, 1 publisher restart (epoch flip), 4-5 client / '
        'publish / revoke operations, every interleaving of worker, publisher, revoker, client commands incl. the two phases of the keyed write; liveness '
        '(<>[] every tracking connection has the newest payload) under weak fairness of worker / publisher / revoker / track completion with the refresh timer '
        'on and NO state constraint: 1 connection, 1 key, 1-2 changes, 3 operations (versioned incl. one flip, and versionless). Replay: 160+40+80 (quick) / 1500+375+750 (thorough) '
        'simulated behaviours (2 connections, 2 keys, <=5 changes, 12 operations) on JSON / Protobuf, 3 witnesses, 24 (96 thorough) free-running schedules of 60 operations '
        'with the real 25 ms refresh timer. Replay granularity: a thread runs from gate to gate (gates: OnSharedPoll entry / return, the trace-log call between '
        'phase 1 and the locked enqueue of keyedWritePublication / before the removal write, start / return of SharedPollPublish and SharedPollRevokeKeys); '
        'track steps 1-4 (through the reply) and 5-7 (hub join, warm snapshot) are separate steps, the command parked in Node.OnCommandProcessed in between; the order in which a broadcast visits its subscribers is Go map order, so '
        'two subscribers passing phase 1 are handled without interleaving. KeepLatestData = true only (delta base from the entry; PrevData from the backend '
        'and KeepLatestData = false are not modelled), local publish mode (PublishEnabled = false), no notification batching, no track expiry, channel state '
        'never shut down during a behaviour (ChannelShutdownDelay 1 h), revoke for all users only. Trusted: TLC, lib/tlaparse.py, harness projection / monitor code, '
        'a hidden connection tracking a sentinel key (worker barrier).')
META = {
    'C14': dict(level='model_checking',
                text='Delta.tla / DeltaMap.tla / SharedPoll.tla model delta negotiation and base tracking with payloads as identities: the client model holds one payload per '
                     'subscription (per key for map and keyed channels, kept across resubscribes like the SDKs), the server side is transcribed from the code (first-full rule / '
                     'flagDeltaAllowed, broker prevPub vs medium latestPublication, filtered publications, recovered chains, recovery-to-live boundary, per-key deltaReady / version / '
                     'base version, wire faults). TLC checks exhaustively that in the reference design every delta(base, p) meets held = base; for every place where the code as written '
                     'differs from that reference TLC produces a counterexample that is replayed on the real code. Simulated behaviours are replayed on real clients that negotiated fossil '
                     'delta (JSON and Protobuf) with the publications held back and delivered / dropped / duplicated / reordered as the model says; the harness client applies the REAL delta '
                     'bytes with the fossil Apply to the bytes it holds and compares with the published bytes - only that comparison decides a violation.',
                note=_n14, technique='TLA+ spec + TLC exhaustive; gate replay of TLC behaviours and counterexamples on real clients; observable-only byte-level monitor'),
    'C25': dict(level='model_checking',
                text='SharedPoll.tla models the shared-poll channel state (entry version / data / needsBroadcast / freshFromPublish, pendingHubJoin, keyed hub, synthetic version counter, '
                     'notification queue, epoch), per-connection key state (version, deltaReady) and the threads of the code one critical section per action: track (steps 1-4, 5-7), untrack, '
                     'unsubscribe, refresh worker (backend call, epoch flip, per-client unsubscribe, item application, broadcast), publisher, revoker, and the keyed write as Prepare (outside the lock) '
                     'and LockedEnqueue. Action properties on every appended frame (version strictly increasing per connection and key, delta base = held payload, update only for a tracked key), an '
                     'epoch invariant and a liveness property are checked by TLC on the reference design; the three places where the code as written violates them are replayed on the real code from '
                     'TLC counterexamples. Simulated behaviours are replayed on a real node with a scripted OnSharedPoll backend, the threads parked at natural gates; the monitors run on the real '
                     'frames (deltas applied with the real fossil Apply); free-running seeded schedules with the real refresh timer check the same monitors plus convergence to the newest payload.',
                note=_n25, technique='TLA+ spec + TLC exhaustive safety and liveness; gate replay of TLC behaviours and counterexamples; free-running driver with observable-only monitors'),
}
