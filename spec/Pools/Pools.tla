------------------------------- MODULE Pools -------------------------------
(* C42: the three size-classed buffer pools --
     "bytes"  internal/bpool/bpool.go        GetByteBuffer / PutByteBuffer        (19 classes, max 2^18)
     "slices" internal/bpool/byte_slices.go  GetByteSlicesBuf / PutByteSlicesBuf  (13 classes, max 2^12)
     "items"  writer.go                      getItemBuf / putItemBuf              (13 classes, max 2^12)
   Each class is a sync.Pool: a bag that may lose its content at any time and
   may answer "nothing" although it holds something.

   A buffer is [len, cap, dlo, dhi]: [dlo, dhi) is the range of entries that
   are not the zero value (dlo = dhi = 0: clean).  Between Get and Put the
   user does what Go lets him do with the struct he was handed: write the
   entries of the slice, append (growing within the capacity or moving to a
   new backing array of any capacity), reslice it to any length within the
   capacity, replace the slice by one of his own; and he may Put buffers that
   never came from Get.  That is the quantifier of C42 ("regardless of what
   was previously returned to the pool").

   The property is about what Get hands out:
     bytes, slices : len = 0 and cap >= requested length
     items         : getItemBuf returns B[:length], so "empty" means that the
                     `length` visible entries are zero Items, and cap >= length. *)
EXTENDS Integers, Sequences, FiniteSets, TLC

CONSTANTS
  Kinds,        \* subset of {"bytes", "slices", "items"}
  Small,        \* small lengths / capacities explored (abstraction: values around powers of two)
  Around,       \* offsets around the largest class, e.g. {-1, 0, 1}: MaxLen(k) + d  and  MaxLen(k) \div 2 + d
  PoolBound,    \* buffers kept per kind (sync.Pool may drop the rest)
  Reslice       \* TRUE: the user may also shorten / lengthen B within its capacity before Put

VARIABLES kind, pool, held, panicked, step      \* kind: the pool family this behaviour exercises (they share nothing)
vars == <<kind, pool, held, panicked, step>>

MaxLog(k) == IF k = "bytes" THEN 18 ELSE 12
MaxLen(k) == 2 ^ MaxLog(k)
Default(k) == 16              \* GetByteSlicesBuf / getItemBuf for length <= 0

\* transcriptions: uint32(32 - bits.LeadingZeros32(v-1)) = bits.Len32(v-1) = number of bits of v-1
RECURSIVE BitLen(_)
BitLen(x) == IF x = 0 THEN 0 ELSE 1 + BitLen(x \div 2)
NextLogRaw(v) == BitLen(v - 1)                         \* bpool.nextLogBase2 (v > 0)
NextLog(k, v) == IF k # "bytes" /\ v = 0 THEN 0 ELSE NextLogRaw(v)
PrevLog(k, v) ==
  IF k # "bytes" /\ v = 0 THEN 0
  ELSE LET n == NextLog(k, v) IN IF v = 2 ^ n THEN n ELSE n - 1

AroundStd == {-1, 0, 1}
Lens == Small \cup {MaxLen(kind) + d : d \in Around} \cup {MaxLen(kind) \div 2 + d : d \in Around}
LensOf(k) == Small \cup {MaxLen(k) + d : d \in Around} \cup {MaxLen(k) \div 2 + d : d \in Around}

Clean(l, c) == [len |-> l, cap |-> c, dlo |-> 0, dhi |-> 0]
None == [len |-> -1, cap |-> -1, dlo |-> 0, dhi |-> 0]
Max(a, b) == IF a > b THEN a ELSE b
Min(a, b) == IF a < b THEN a ELSE b

Init ==
  /\ kind \in Kinds
  /\ pool = [k \in Kinds |-> {}]          \* set of [cls, buf]
  /\ held = [k \in Kinds |-> None]
  /\ panicked = FALSE
  /\ step = [act |-> "Init"]

Eff(k, n) == IF k # "bytes" /\ n <= 0 THEN Default(k) ELSE n

\* what Get does with a pooled buffer b
Hit(k, b, n) ==
  IF k = "bytes" THEN b                                            \* returned as is
  ELSE IF k = "slices" THEN [b EXCEPT !.len = 0]                   \* buf.B = buf.B[:0]
  ELSE [b EXCEPT !.len = n]                                        \* buf.B = buf.B[:length]  (panics if length > cap)

Fresh(k, n, c) == IF k = "items" THEN Clean(n, c) ELSE Clean(0, c)

Get(k, n0) ==
  /\ held[k] = None /\ ~panicked
  /\ LET n == Eff(k, n0) IN
     \/ \* not pooled: zero length (bytes) or above the largest class
        /\ (k = "bytes" /\ n = 0) \/ n > MaxLen(k)
        /\ held' = [held EXCEPT ![k] = IF k = "bytes" /\ n = 0 THEN Clean(0, 0) ELSE Fresh(k, n, n)]
        /\ UNCHANGED <<pool, panicked>>
        /\ step' = [act |-> "Get", k |-> k, n |-> n0, eff |-> n, hit |-> FALSE]
     \/ /\ ~((k = "bytes" /\ n = 0) \/ n > MaxLen(k))
        /\ LET idx == NextLog(k, n) IN
           \/ \* the class pool answers nothing: make(.., 1<<idx)
              /\ held' = [held EXCEPT ![k] = Fresh(k, n, 2 ^ idx)]
              /\ UNCHANGED <<pool, panicked>>
              /\ step' = [act |-> "Get", k |-> k, n |-> n0, eff |-> n, hit |-> FALSE]
           \/ \E e \in pool[k] :
              /\ e.cls = idx
              /\ pool' = [pool EXCEPT ![k] = @ \ {e}]
              /\ IF k = "items" /\ n > e.buf.cap
                   THEN panicked' = TRUE /\ UNCHANGED held           \* slice bounds out of range
                   ELSE held' = [held EXCEPT ![k] = Hit(k, e.buf, n)] /\ UNCHANGED panicked
              /\ step' = [act |-> "Get", k |-> k, n |-> n0, eff |-> n, hit |-> TRUE]

(* ---- what the user may do with the buffer he holds ---- *)
\* write every entry of the slice (worst case for "dirty")
Write(k) ==
  /\ held[k] # None /\ held[k].len > 0
  /\ LET b == held[k] IN held' = [held EXCEPT ![k] = [b EXCEPT !.dlo = 0, !.dhi = Max(b.dhi, b.len)]]
  /\ UNCHANGED <<pool, panicked>>
  /\ step' = [act |-> "Write", k |-> k]

\* append up to length l: within the capacity, or (l > cap) onto a new backing array of capacity c
Grow(k, l, c) ==
  /\ held[k] # None /\ l > held[k].len
  /\ IF l <= held[k].cap
       THEN LET b == held[k] IN
            /\ held' = [held EXCEPT ![k] = [b EXCEPT !.len = l, !.dlo = IF b.dhi = 0 THEN b.len ELSE Min(b.dlo, b.len), !.dhi = Max(b.dhi, l)]]
            /\ c = b.cap
       ELSE c >= l /\ held' = [held EXCEPT ![k] = [len |-> l, cap |-> c, dlo |-> 0, dhi |-> l]]
  /\ UNCHANGED <<pool, panicked>>
  /\ step' = [act |-> "Append", k |-> k, len |-> l, cap |-> c]

\* B = B[:l] for any l within the capacity
Resl(k, l) ==
  /\ Reslice /\ held[k] # None /\ l <= held[k].cap /\ l # held[k].len
  /\ LET b == held[k] IN held' = [held EXCEPT ![k] = [b EXCEPT !.len = l]]
  /\ UNCHANGED <<pool, panicked>>
  /\ step' = [act |-> "Reslice", k |-> k, len |-> l]

\* a buffer of the user's own making (never obtained from Get), fully written
Foreign(k, l, c) ==
  /\ held[k] = None /\ l <= c
  /\ held' = [held EXCEPT ![k] = [len |-> l, cap |-> c, dlo |-> 0, dhi |-> l]]
  /\ UNCHANGED <<pool, panicked>>
  /\ step' = [act |-> "Foreign", k |-> k, len |-> l, cap |-> c]

\* Put: drop if cap = 0 or above the largest class; class = prevLog(cap); clear the entries of the SLICE; len = 0
Cleared(k, b) ==
  IF k = "bytes" THEN Clean(0, b.cap)                                        \* bb.Reset()  (the content of a byte buffer of length 0 is unobservable)
  ELSE IF b.dhi <= b.len THEN Clean(0, b.cap)                                 \* for i := range buf.B { buf.B[i] = zero }
  ELSE [len |-> 0, cap |-> b.cap, dlo |-> Max(b.dlo, b.len), dhi |-> b.dhi]

Put(k) ==
  /\ held[k] # None
  /\ held' = [held EXCEPT ![k] = None]
  /\ LET b == held[k] IN
     IF b.cap = 0 \/ b.cap > MaxLen(k)
       THEN UNCHANGED pool
       ELSE \/ pool' = [pool EXCEPT ![k] = @ \cup {[cls |-> PrevLog(k, b.cap), buf |-> Cleared(k, b)]}]
               /\ Cardinality(pool'[k]) <= PoolBound
            \/ UNCHANGED pool                                                \* sync.Pool is free to drop it
  /\ UNCHANGED panicked
  /\ step' = [act |-> "Put", k |-> k]

Lose(k) ==
  /\ \E e \in pool[k] : pool' = [pool EXCEPT ![k] = @ \ {e}]
  /\ UNCHANGED <<held, panicked>>
  /\ step' = [act |-> "Lose", k |-> k]

Next ==
  /\ UNCHANGED kind
  /\ \E k \in {kind} :
    \/ \E n \in Lens : Get(k, n)
    \/ Write(k) \/ Put(k) \/ Lose(k)
    \/ \E l \in Lens, c \in Lens : Grow(k, l, c) \/ Foreign(k, l, c)
    \/ \E l \in Lens : Resl(k, l)

Spec == Init /\ [][Next]_vars

---------------------------------------------------------------------------
(* C42 *)
VisibleDirty(b) == b.dhi > b.dlo /\ b.dlo < b.len

GetOK == [][ step'.act = "Get" =>
             LET k == step'.k  b == held'[k] IN
             /\ ~panicked'
             /\ b.cap >= step'.n                              \* capacity at least the requested length
             /\ k \in {"bytes", "slices"} => b.len = 0        \* empty
             /\ k = "items" => (b.len = step'.eff /\ ~VisibleDirty(b)) ]_vars

\* what makes it true: a pooled buffer is empty, fits its class and (slices/items) carries no non-zero entry
PoolInv ==
  \A k \in Kinds : \A e \in pool[k] :
    /\ e.buf.len = 0
    /\ 2 ^ e.cls <= e.buf.cap /\ e.buf.cap <= MaxLen(k)
PoolClean == \A e \in pool["items"] : e.buf.dhi = 0

\* the size-class functions are floor / ceiling of log2 on everything they are applied to
ClassesOK ==
  \A k \in Kinds : \A v \in LensOf(k) :
    (v >= 1 /\ v <= 2 * MaxLen(k)) =>
       /\ 2 ^ NextLog(k, v) >= v /\ (NextLog(k, v) = 0 \/ 2 ^ (NextLog(k, v) - 1) < v)
       /\ 2 ^ PrevLog(k, v) <= v /\ v < 2 ^ (PrevLog(k, v) + 1)
ASSUME ClassesOK

View == <<kind, pool, held, panicked>>
=============================================================================
