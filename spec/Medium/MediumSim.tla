----------------------------- MODULE MediumSim -----------------------------
(* Behaviour generator for the replay (TLC -simulate) of Medium with
   Urgent = TRUE: asynchronous insufficient-state goroutines and the queue
   writer run as soon as they can (the replay has no hook to delay them; the
   writer can be held inside a broadcast through WriterTake(park = TRUE)).
   The slot variable gives every operation class a fixed number of distinct
   successor states, so that the simulator's uniform choice among successor
   STATES is a weighted choice among operations.                            *)
EXTENDS Medium

VARIABLE sl
simvars == <<vars, sl>>

\* The real writer does not wait for the insufficient-state goroutines its broadcast spawned: if it has another message
\* to take, what the ending subscribers still receive is a race the replay cannot schedule.  Behaviours stop there.
Gaps(it) == \E s \in Subs : Positioned(s) /\ Live(s) /\ (it.t = "ins" \/ it.off > sub[s].pos + 1)
RaceFree(it, rest) == Gaps(it) => rest = <<>>

\* which connection's tick reaches the medium first cannot be scheduled: with the shared check the replay ticks only
\* when every live positioned subscriber holds the same position (the verdict is then the same for any first caller)
SharedDet == (med /\ opts.shared) => \A s, t \in Callers : sub[s].pos = sub[t].pos
FirstCaller == CHOOSE s \in Callers : TRUE

SimNext ==
  IF \E s \in Subs : pend[s] > 0 THEN (\E s \in Subs : AsyncEnd(s)) /\ sl' = 0
  ELSE IF WriterCanTake THEN RaceFree(Head(q), Tail(q)) /\ (\E p \in BOOLEAN : WriterTake(p)) /\ sl' = 0
  ELSE IF SentinelWaits THEN WriterTick /\ sl' = 0
  ELSE
    \/ \E k \in 1..4 : Publish /\ sl' = k
    \/ \E o \in wire, k \in 1..4 : Deliver(o) /\ sl' = k
    \/ \E o \in wire : Drop(o) /\ sl' = 0
    \/ \E k \in 1..3 : RaceFree(witem, q) /\ WriterDone /\ sl' = k
    \/ \E k \in 1..4 : WriterTick /\ sl' = k
    \/ \E k \in 1..2 : Quiet /\ Callers # {} /\ SharedDet /\ Tick("ok", FirstCaller) /\ sl' = k
    \/ Quiet /\ Callers # {} /\ SharedDet /\ Tick("error", FirstCaller) /\ sl' = 0
    \/ \E s \in Subs : Quiet /\ (Unsubscribe(s) \/ Resubscribe(s)) /\ sl' = 0
    \/ \E k \in 1..3 : Quiet /\ Shutdown /\ sl' = k

SimSpec == Init /\ sl = 0 /\ [][SimNext]_simvars
=============================================================================
