// Harness of the `connect` family (C09 C43 C36 C08 C11): see the mode files.
package main

import "verifharness/vh"

func main() {
	vh.Main(map[string]vh.Mode{
		"c09":         c09,
		"c09conc":     c09conc,
		"c09stress":   c09stress,
		"c43":         c43,
		"c43sf":       c43sf,
		"c36":         c36,
		"c36probe":    c36probe,
		"c08":         c08,
		"c08map":      c08map,
		"c11dict":     c11dict,
		"c11dictconn": c11dictconn,
	})
}
