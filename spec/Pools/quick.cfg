SPECIFICATION Spec
CONSTANTS
  Kinds = {"bytes", "slices", "items"}
  Lens = {0, 1, 2, 3, 4, 5, 8, 9, 16, 17, 4095, 4096, 4097, 262143, 262144, 262145}
  PoolBound = 2
  Reslice = FALSE
VIEW View
INVARIANTS PoolInv PoolClean
PROPERTIES GetOK
CHECK_DEADLOCK FALSE
