----------------------------- MODULE Partition -----------------------------
(* C35  Sharded PUB/SUB partition tags are balanced and Redis-compatible.

   The tag tables are the CODE'S DATA: module PartitionData is generated at every check run by
   harness/redisfuncs mode `dumptags` from redispartition.PrecomputedSizes() / FindTags(n) (tags as
   byte sequences).  This module is the independent oracle they are validated against:

   * Redis key slot (cluster specification, "Key distribution model" and appendix A):
       HASH_SLOT = CRC16(key) mod 16384,   CRC16 = CRC-16/XMODEM: width 16, poly 0x1021, init 0,
       no input/output reflection, no final xor;  CRC16("123456789") = 0x31C3.
     Written here as bit-serial polynomial division with Bitwise!^^ - no lookup table.
   * Even contiguous slot assignment of a cluster of k masters, as redispartition.SlotToNode's comment
     states it ("sn = totalSlots / numNodes, with the first totalSlots % numNodes nodes getting one
     extra slot"): node i owns [Start(i, k), Start(i + 1, k)) with Start(i, k) = i * (16384 \div k) +
     min(i, 16384 % k).  (redis-cli --cluster create splits with float rounding,
     lround(cursor + 16384/k - 1); its boundaries differ from this by at most one slot - the harness
     reports, as information only, for how many (P, k) the tables are also balanced under that split.)

   Property, per supported partition count P (rows of kind "size"): the table has P tags, over
   [a-z0-9] (a brace would break the hash tag, a dot extractChannel), their slots are pairwise
   distinct; per (P, k), k <= P (rows of kind "bal"): the per-node partition counts differ by at most
   one, i.e. every node owns floor(P/k) or ceil(P/k) partitions.

   The rows are a function table: TLC computes them, fam/redisfuncs.py turns rows that falsify the
   property into violations (the data IS the code), and the harness compares slot / node / count
   columns with the code's own TagSlot and SlotToNode.                                          *)
EXTENDS Integers, Sequences, FiniteSets, Bitwise, TLC, PartitionData

CONSTANTS Chunks,      \* the cluster sizes of one P are split into this many seed states (parallelism)
          KStride,     \* [P -> stride]: for P the cluster sizes 1, 1+stride, ... and P itself are enumerated
          StartKs      \* cluster sizes whose Start table is emitted (harness formula cross-check)

TotalSlots == 16384

---------------------------------------------------------------------------
(* --- CRC16-XMODEM -------------------------------------------------------- *)
RECURSIVE ShiftBits(_, _)
\* n steps of the division: shift left, subtract (xor) the polynomial when a 1 falls out of bit 15
ShiftBits(c, n) ==
  IF n = 0 THEN c
  ELSE ShiftBits(IF c >= 32768 THEN ((c * 2) % 65536) ^^ 4129 ELSE c * 2, n - 1)      \* 4129 = 0x1021

RECURSIVE Crc(_, _, _)
Crc(bytes, i, c) == IF i > Len(bytes) THEN c ELSE Crc(bytes, i + 1, ShiftBits(c ^^ (bytes[i] * 256), 8))

CRC16(bytes) == Crc(bytes, 1, 0)
Slot(bytes)  == CRC16(bytes) % TotalSlots

ASSUME CRC16(<<49, 50, 51, 52, 53, 54, 55, 56, 57>>) = 12739          \* "123456789" -> 0x31C3
ASSUME Slot(<<102, 111, 111>>) = 12182 /\ Slot(<<98, 97, 114>>) = 5061  \* CLUSTER KEYSLOT foo / bar
ASSUME Slot(<<>>) = 0

---------------------------------------------------------------------------
(* --- slot -> node --------------------------------------------------------- *)
Min2(a, b) == IF a < b THEN a ELSE b
Start(i, k) == i * (TotalSlots \div k) + Min2(i, TotalSlots % k)

ASSUME \A k \in {1, 2, 3, 5, 7, 16, 100, 1000, 4096, 16384} :
          /\ Start(0, k) = 0 /\ Start(k, k) = TotalSlots
          /\ \A i \in 0..(k - 1) : Start(i + 1, k) - Start(i, k) \in {TotalSlots \div k, (TotalSlots \div k) + 1}

---------------------------------------------------------------------------
(* --- the code's data ------------------------------------------------------ *)
SizeSet == {Sizes[i] : i \in 1..Len(Sizes)}
TagsOf(P) == Tags[P]

\* evaluated once (constant level): slot of every tag, per size
SlotsOf == [P \in SizeSet |-> [i \in 1..Len(Tags[P]) |-> Slot(Tags[P][i])]]

IsSorted(s) == \A i \in 1..(Len(s) - 1) : s[i] < s[i + 1]

\* ascending slots of a size (the tables are stored in slot order; sorted here if they are not)
SortedOf == [P \in SizeSet |-> IF IsSorted(SlotsOf[P]) THEN SlotsOf[P] ELSE SortSeq(SlotsOf[P], LAMBDA a, b : a < b)]

AlnumBytes == (48..57) \cup (97..122)
CharsetOK(P) == \A i \in 1..Len(Tags[P]) : Len(Tags[P][i]) >= 1 /\ \A j \in 1..Len(Tags[P][i]) : Tags[P][i][j] \in AlnumBytes

\* number of elements of the ascending sequence s that are < x  (binary search; lo..hi = candidates)
RECURSIVE RankIn(_, _, _, _)
RankIn(s, x, lo, hi) ==
  IF lo > hi THEN lo - 1
  ELSE LET mid == (lo + hi) \div 2 IN
       IF s[mid] < x THEN RankIn(s, x, mid + 1, hi) ELSE RankIn(s, x, lo, mid - 1)
Rank(s, x) == RankIn(s, x, 1, Len(s))

\* per-node partition counts of size P on a cluster of k masters
Counts(P, k) ==
  LET s == SortedOf[P]
      r == [i \in 0..k |-> Rank(s, Start(i, k))]
  IN {r[i + 1] - r[i] : i \in 0..(k - 1)}

SetMin(S) == CHOOSE x \in S : \A y \in S : x <= y
SetMax(S) == CHOOSE x \in S : \A y \in S : x >= y

---------------------------------------------------------------------------
(* --- the table ------------------------------------------------------------ *)
\* rows:  <<"size", P, number of tags, charset ok, slots distinct, stored in slot order, <<slot of tag i>> >>
\*        <<"bal", P, k, floor(P/k), ceil(P/k), min count, max count>>
\*        <<"starts", k, <<Start(0,k), ..., Start(k,k)>> >>
VARIABLE row
vars == <<row>>

Ks(P) == {k \in 1..P : k = P \/ (k - 1) % KStride[P] = 0}

Seeds == {<<"seed", P, c>> : P \in SizeSet, c \in 0..(Chunks - 1)}
Init == row \in Seeds

Next ==
  /\ row[1] = "seed"
  /\ LET P == row[2]  c == row[3] IN
     \/ \E k \in {k \in Ks(P) : k % Chunks = c} :
          LET cs == Counts(P, k) IN
          row' = <<"bal", P, k, P \div k, (P + k - 1) \div k, SetMin(cs), SetMax(cs)>>
     \/ /\ c = 0
        /\ row' = <<"size", P, Len(Tags[P]), CharsetOK(P),
                    Cardinality({SlotsOf[P][i] : i \in 1..Len(SlotsOf[P])}) = Len(SlotsOf[P]),
                    IsSorted(SlotsOf[P]), SlotsOf[P]>>
     \/ /\ c = 0 /\ P = Sizes[1]
        /\ \E k \in StartKs : row' = <<"starts", k, [i \in 1..(k + 1) |-> Start(i - 1, k)]>>

Spec == Init /\ [][Next]_vars

\* strides of the two tiers (cfg: KStride <- ...)
QuickStride    == [P \in SizeSet |-> IF P <= 128 THEN 1 ELSE IF P <= 256 THEN 3 ELSE IF P <= 1024 THEN 17 ELSE 127]
ThoroughStride == [P \in SizeSet |-> 1]

\* Sanity of the oracle itself (not of the data): the counts of a (P, k) add up to P nodes' worth
Sane == row[1] = "bal" => row[6] >= 0 /\ row[7] <= row[2] /\ row[6] <= row[7] /\ row[4] <= row[5]
=============================================================================
