SPECIFICATION SimSpec
CONSTANTS
  MaxNow = 5
  MaxActs = 8
  CfgSet <- CfgAllT
INVARIANTS TypeOK
CHECK_DEADLOCK FALSE
