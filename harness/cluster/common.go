// Family `cluster` (C27, C28, C41): a cluster simulated by real nodes joined by a harness Controller.
//
// Every node is a real *centrifuge.Node (cl.Env) with its own MemoryBroker (wrapped by cl.GateBroker so that
// join/leave publications and history reads are observable through the public Broker interface), its own
// MemoryPresenceManager and a harness Controller (public interface centrifuge.Controller, Node.SetController)
// that records every control message and forwards the bytes to the peers' public Node.HandleControl,
// synchronously, like a PUB/SUB control channel that delivers to every node including the sender.
package main

import (
	"context"
	"encoding/json"
	"fmt"
	"sort"
	"sync"
	"time"

	"github.com/centrifugal/centrifuge"
	"github.com/centrifugal/protocol"

	"verifharness/cl"
)

// ------------------------------------------------------------------ controller

type sentMsg struct {
	data   []byte
	nodeID string
}

type controller struct {
	mu      sync.Mutex
	handler centrifuge.ControlEventHandler
	self    *centrifuge.Node
	peers   []*controller
	sent    []sentMsg
	// forward=false: messages are only recorded/captured (C41 injects the answers itself)
	forward bool
	// capture, if set, sees every message before it is forwarded
	capture func(data []byte, nodeID string)
	peerErr []error
}

func (c *controller) RegisterControlEventHandler(h centrifuge.ControlEventHandler) error {
	c.mu.Lock()
	c.handler = h
	c.mu.Unlock()
	return nil
}

func (c *controller) PublishControl(data []byte, nodeID, _ string) error {
	cp := append([]byte(nil), data...)
	c.mu.Lock()
	c.sent = append(c.sent, sentMsg{cp, nodeID})
	capture := c.capture
	fwd := c.forward
	peers := append([]*controller(nil), c.peers...)
	own := c.handler
	c.mu.Unlock()
	if capture != nil {
		capture(cp, nodeID)
	}
	if !fwd {
		return nil
	}
	for _, p := range peers {
		if nodeID != "" && p.self.ID() != nodeID {
			continue
		}
		p.mu.Lock()
		h := p.handler
		p.mu.Unlock()
		if h == nil {
			continue
		}
		// a real control channel is asynchronous: the publisher never sees the receiver's error
		if err := h.HandleControl(cp); err != nil {
			c.mu.Lock()
			c.peerErr = append(c.peerErr, err)
			c.mu.Unlock()
		}
	}
	if own != nil && (nodeID == "" || c.self.ID() == nodeID) {
		_ = own.HandleControl(cp) // the sender receives its own message too and ignores it by uid
	}
	return nil
}

func (c *controller) mark() int {
	c.mu.Lock()
	defer c.mu.Unlock()
	return len(c.sent)
}

func (c *controller) since(m int) []sentMsg {
	c.mu.Lock()
	defer c.mu.Unlock()
	return append([]sentMsg(nil), c.sent[m:]...)
}

// ------------------------------------------------------------------ node

type jlEvent struct {
	Kind   string // join | leave
	Ch     string
	Client string
	Chan   string // chan info
}

type histCall struct {
	Ch      string
	Since   bool
	SinceO  uint64
	Limit   int
	Reverse bool
	MetaTTL time.Duration
}

type cnode struct {
	name string
	env  *cl.Env
	gb   *cl.GateBroker
	ctrl *controller
	pm   *centrifuge.MemoryPresenceManager

	mu      sync.Mutex
	jl      []jlEvent
	hist    []histCall
	onUnsub func(clientID, ch string) // called inside the OnUnsubscribe callback (a natural gate), set before connecting
	evs     []cl.Event                // OnUnsubscribe / OnDisconnect callbacks (own log: cl.Env.Events copies the whole log per call)
}

func (n *cnode) logEvent(ev cl.Event) {
	n.mu.Lock()
	n.evs = append(n.evs, ev)
	n.mu.Unlock()
}

func (n *cnode) evMark() int {
	n.mu.Lock()
	defer n.mu.Unlock()
	return len(n.evs)
}

func (n *cnode) evSince(m int) []cl.Event {
	n.mu.Lock()
	defer n.mu.Unlock()
	return append([]cl.Event(nil), n.evs[m:]...)
}

func (n *cnode) jlMark() int {
	n.mu.Lock()
	defer n.mu.Unlock()
	return len(n.jl)
}

func (n *cnode) jlSince(m int) []jlEvent {
	n.mu.Lock()
	defer n.mu.Unlock()
	return append([]jlEvent(nil), n.jl[m:]...)
}

func (n *cnode) histMark() int {
	n.mu.Lock()
	defer n.mu.Unlock()
	return len(n.hist)
}

func (n *cnode) histSince(m int) []histCall {
	n.mu.Lock()
	defer n.mu.Unlock()
	return append([]histCall(nil), n.hist[m:]...)
}

type ctxKey string

const labelKey ctxKey = "verif-label"
const labelsKey ctxKey = "verif-labels"

type cfgMod func(*centrifuge.Config)

func newNode(name string, forward bool, mods ...cfgMod) (*cnode, error) {
	cfg := centrifuge.Config{
		Name:     name,
		LogLevel: centrifuge.LogLevelNone,
		// generous: nothing in the harness may depend on liveness timers
		ClientStaleCloseDelay:           time.Hour,
		ClientPresenceUpdateInterval:    time.Hour,
		ClientExpiredCloseDelay:         time.Hour,
		ClientExpiredSubCloseDelay:      time.Hour,
		ClientChannelPositionCheckDelay: time.Hour,
		ClientChannelLimit:              100000,
	}
	for _, m := range mods {
		m(&cfg)
	}
	env, err := cl.NewEnv(cfg)
	if err != nil {
		return nil, err
	}
	n := &cnode{name: name, env: env}
	gb, err := cl.NewGateBroker(env.Node)
	if err != nil {
		return nil, err
	}
	n.gb = gb
	gb.OnPublishJoin = func(ch string, info *centrifuge.ClientInfo) {
		n.mu.Lock()
		n.jl = append(n.jl, jlEvent{"join", ch, info.ClientID, string(info.ChanInfo)})
		n.mu.Unlock()
	}
	gb.OnPublishLeave = func(ch string, info *centrifuge.ClientInfo) {
		n.mu.Lock()
		n.jl = append(n.jl, jlEvent{"leave", ch, info.ClientID, string(info.ChanInfo)})
		n.mu.Unlock()
	}
	gb.BeforeHistory = func(ch string, o centrifuge.HistoryOptions) {
		hc := histCall{Ch: ch, Limit: o.Filter.Limit, Reverse: o.Filter.Reverse, MetaTTL: o.MetaTTL}
		if o.Filter.Since != nil {
			hc.Since = true
			hc.SinceO = o.Filter.Since.Offset
		}
		n.mu.Lock()
		n.hist = append(n.hist, hc)
		n.mu.Unlock()
	}
	env.Node.SetBroker(gb)
	pm, err := centrifuge.NewMemoryPresenceManager(env.Node, centrifuge.MemoryPresenceManagerConfig{})
	if err != nil {
		return nil, err
	}
	n.pm = pm
	env.Node.SetPresenceManager(pm)
	n.ctrl = &controller{self: env.Node, forward: forward}
	env.Node.SetController(n.ctrl)
	env.OnConnecting = func(ctx context.Context, _ centrifuge.ConnectEvent) (centrifuge.ConnectReply, error) {
		r := centrifuge.ConnectReply{}
		if l, ok := ctx.Value(labelKey).(string); ok && l != "" {
			r.Labels = map[string]string{"tier": l}
		}
		if m, ok := ctx.Value(labelsKey).(map[string]string); ok && m != nil {
			r.Labels = m
		}
		return r, nil
	}
	env.Setup = func(c *centrifuge.Client) {
		id := c.ID()
		c.OnUnsubscribe(func(ev centrifuge.UnsubscribeEvent) {
			extra := fmt.Sprintf("server_side=%v reason=%s", ev.ServerSide, ev.Reason)
			if ev.Disconnect != nil {
				extra += fmt.Sprintf(" disconnect=%d", ev.Disconnect.Code)
			}
			n.logEvent(cl.Event{Client: id, Kind: "unsubscribe", Ch: ev.Channel, Code: ev.Code, Extra: extra})
			if f := n.onUnsub; f != nil {
				f(id, ev.Channel)
			}
		})
		c.OnDisconnect(func(ev centrifuge.DisconnectEvent) {
			n.logEvent(cl.Event{Client: id, Kind: "disconnect", Code: ev.Code, Extra: "reason=" + ev.Reason})
		})
	}
	return n, nil
}

type cluster struct {
	nodes []*cnode
}

// newCluster creates n nodes, joins their controllers and runs them. Each learns about the others through the
// node-info control messages they publish in Run (forwarded by the controller).
func newCluster(n int, forward bool, setup func(i int, nd *cnode), mods ...cfgMod) (*cluster, error) {
	c := &cluster{}
	for i := 0; i < n; i++ {
		nd, err := newNode(string(rune('A'+i)), forward, mods...)
		if err != nil {
			return nil, err
		}
		c.nodes = append(c.nodes, nd)
	}
	for i, a := range c.nodes {
		for j, b := range c.nodes {
			if i != j {
				a.ctrl.peers = append(a.ctrl.peers, b.ctrl)
			}
		}
	}
	for i, nd := range c.nodes {
		if setup != nil {
			setup(i, nd)
		}
		if err := nd.env.Run(); err != nil {
			return nil, err
		}
	}
	return c, nil
}

func (c *cluster) close() {
	for _, nd := range c.nodes {
		nd.env.Close()
	}
}

// ------------------------------------------------------------------ connections

// emuTransport is cl.Transport reporting Emulation() = true: NewClient then generates a session id (the only
// effect of the flag inside the library), so that session targeting can be exercised on a bidirectional connection.
type emuTransport struct{ *cl.Transport }

func (emuTransport) Emulation() bool { return true }

type connSpec struct {
	Name    string // model name
	User    string
	Session bool
	Label   string
	Labels  map[string]string // full label map (overrides Label)
}

type hconn struct {
	spec    connSpec
	node    *cnode
	c       *cl.Conn
	id      string
	session string
}

func (n *cnode) connect(spec connSpec) (*hconn, error) { return n.connectInfo(spec, "") }

// connectInfo connects with the given connection info (Credentials.Info).
func (n *cnode) connectInfo(spec connSpec, info string) (*hconn, error) {
	t := cl.NewTransport(centrifuge.ProtocolTypeJSON)
	ctx, cancel := context.WithCancel(context.Background())
	cred := &centrifuge.Credentials{UserID: spec.User}
	if info != "" {
		cred.Info = []byte(info)
	}
	ctx = centrifuge.SetCredentials(ctx, cred)
	ctx = context.WithValue(ctx, labelKey, spec.Label)
	if spec.Labels != nil {
		ctx = context.WithValue(ctx, labelsKey, spec.Labels)
	}
	var tr centrifuge.Transport = t
	if spec.Session {
		tr = emuTransport{t}
	}
	c, closeFn, err := centrifuge.NewClient(ctx, n.env.Node, tr)
	if err != nil {
		cancel()
		return nil, err
	}
	cn := &cl.Conn{Env: n.env, Client: c, T: t, Cancel: cancel, CloseF: closeFn}
	rep := cn.Connect()
	if rep == nil || rep.Connect == nil {
		cancel()
		return nil, fmt.Errorf("connect of %s failed", spec.Name)
	}
	h := &hconn{spec: spec, node: n, c: cn, id: c.ID(), session: rep.Connect.Session}
	if spec.Session && h.session == "" {
		cancel()
		return nil, fmt.Errorf("connection %s got no session id", spec.Name)
	}
	return h, nil
}

func (h *hconn) drop() {
	h.c.Client.Disconnect(centrifuge.DisconnectForceNoReconnect)
	h.c.T.WaitFor(2*time.Second, func(_ []*protocol.Reply, closed bool) bool { return closed })
	h.c.Cancel()
}

func (h *hconn) closed() bool {
	cl, _ := h.c.T.Closed()
	return cl
}

func (h *hconn) channels() []string {
	chs := h.c.Client.Channels()
	sort.Strings(chs)
	return chs
}

// frameMark / framesSince: frames written to the connection after a mark (barrier replies excluded).
func (h *hconn) frameMark() int { return len(h.c.T.Replies()) }

func (h *hconn) framesSince(m int) []*protocol.Reply {
	var out []*protocol.Reply
	rs := h.c.T.Replies()
	for _, r := range rs[m:] {
		if cl.IsBarrier(r) {
			continue
		}
		out = append(out, r)
	}
	return out
}

// jsonish normalises a map produced by an overlay accessor to what encoding/json would deliver (vh.Int etc. expect that).
func jsonish(m map[string]any) map[string]any {
	b, err := json.Marshal(m)
	if err != nil {
		panic(err)
	}
	var out map[string]any
	if err := json.Unmarshal(b, &out); err != nil {
		panic(err)
	}
	return out
}

func decodeControl(data []byte) (map[string]any, error) {
	d, err := centrifuge.VerifClusterDecodeControl(data)
	if err != nil {
		return nil, err
	}
	return jsonish(d), nil
}

func channelContext(c *centrifuge.Client, ch string) (map[string]any, bool) {
	m, ok := centrifuge.VerifClusterChannelContext(c, ch)
	if !ok {
		return nil, false
	}
	return jsonish(m), true
}

func tierFilter(v string) *centrifuge.FilterNode {
	return &centrifuge.FilterNode{Key: "tier", Cmp: "eq", Val: v}
}

func sortedKeys[V any](m map[string]V) []string {
	out := make([]string, 0, len(m))
	for k := range m {
		out = append(out, k)
	}
	sort.Strings(out)
	return out
}
