SPECIFICATION Spec
CONSTANTS
  ClosedCheck = TRUE
  PresenceRecheck = FALSE
VIEW View
INVARIANTS C05_KeyedSub
CHECK_DEADLOCK FALSE
