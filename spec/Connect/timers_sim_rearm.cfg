SPECIFICATION SimSpec
CONSTANTS
  MaxNow = 5
  MaxActs = 8
  CfgSet <- CfgAllT
  ServerZeroRearms = TRUE
INVARIANTS TypeOK
CHECK_DEADLOCK FALSE
