// Minimal standalone reproductions of the findings of the `cluster` family (mode "repro"): each scenario is a few
// public API calls on real nodes; the result lists what was observed. Used by nobody but humans triaging a finding:
//
//	python3 -c "import sys; sys.path.insert(0,'/verif'); from lib import vf; c=vf.Check('C28'); b=c.go_build('cluster'); import json; print(json.dumps(c.harness(b,'repro',{})['extra'],indent=1))"
package main

import (
	"encoding/json"
	"fmt"
	"time"

	"github.com/centrifugal/centrifuge"
	"github.com/centrifugal/protocol"

	"verifharness/vh"
)

func repro(_ json.RawMessage, res *vh.Result) error {
	// ---- C28: Node.Unsubscribe(user, "") with a connection subscribed to two channels
	{
		c, err := newCluster(2, true, nil)
		if err != nil {
			return err
		}
		h, err := c.nodes[0].connect(connSpec{Name: "c", User: "u"})
		if err != nil {
			return err
		}
		_ = h.c.Client.Subscribe("ch", centrifuge.WithEmitPresence(true), centrifuge.WithEmitJoinLeave(true))
		_ = h.c.Client.Subscribe("ch2")
		h.c.Barrier(time.Second)
		out := map[string]any{}
		for _, from := range []int{0, 1} {
			fm, em := h.frameMark(), c.nodes[0].evMark()
			err := c.nodes[from].env.Node.Unsubscribe("u", "")
			h.c.Barrier(time.Second)
			var pushes, cbs []string
			for _, r := range h.framesSince(fm) {
				if r.Push != nil && r.Push.Unsubscribe != nil {
					pushes = append(pushes, fmt.Sprintf("unsubscribe push channel=%q code=%d", r.Push.Channel, r.Push.Unsubscribe.Code))
				}
			}
			for _, ev := range c.nodes[0].evSince(em) {
				cbs = append(cbs, fmt.Sprintf("OnUnsubscribe %s code=%d", ev.Ch, ev.Code))
			}
			pr, _ := c.nodes[0].env.Node.Presence("ch")
			out[fmt.Sprintf("Node.Unsubscribe(\"u\", \"\") called on node %s", c.nodes[from].name)] = map[string]any{
				"error": fmt.Sprint(err), "Channels() after": h.channels(), "callbacks": cbs, "pushes": pushes, "presence entries of ch": len(pr.Presence)}
		}
		res.Extra["C28"] = out
		c.close()
	}
	// ---- C27: options that do not travel in controlpb.Subscribe
	{
		c, err := newCluster(2, true, nil)
		if err != nil {
			return err
		}
		A, B := c.nodes[0], c.nodes[1]
		h, err := A.connect(connSpec{Name: "c", User: "u"})
		if err != nil {
			return err
		}
		out := map[string]any{}
		for i, caller := range []*cnode{A, B} {
			ch := fmt.Sprintf("r%d", i)
			for p := 1; p <= 3; p++ {
				_, _ = A.env.Node.Publish(ch, []byte(`{}`), centrifuge.WithHistory(1, time.Minute))
			}
			fm, hm := h.frameMark(), A.histMark()
			err := caller.env.Node.Subscribe("u", ch, centrifuge.WithRecovery(true), centrifuge.WithRecoveryMode(centrifuge.RecoveryModeCache),
				centrifuge.WithAutoCacheRecover(true), centrifuge.WithSubscribeHistoryMetaTTL(77*time.Second))
			h.c.Barrier(time.Second)
			var push *protocol.Subscribe
			for _, r := range h.framesSince(fm) {
				if r.Push != nil && r.Push.Subscribe != nil {
					push = r.Push.Subscribe
				}
			}
			ctx, _ := channelContext(h.c.Client, ch)
			out[fmt.Sprintf("Node.Subscribe(u, %s, WithRecovery, WithRecoveryMode(cache), WithAutoCacheRecover, WithSubscribeHistoryMetaTTL(77s)) called on node %s (connection on A)", ch, caller.name)] = map[string]any{
				"error": fmt.Sprint(err), "subscribe push": fmt.Sprintf("%+v", push), "Broker.History calls on A": fmt.Sprintf("%+v", A.histSince(hm)), "ChannelContext.metaTTLSeconds": ctx["meta_ttl"]}
		}
		res.Extra["C27"] = out
		c.close()
	}
	// ---- C41: a late local survey answer blocks forever
	{
		w := &c41Worker{nodes: []string{"n2"}}
		if err := w.fresh(); err != nil {
			return err
		}
		node := w.nd.env.Node
		b, _ := centrifuge.VerifClusterEncodeNode("n2", "n2")
		w.handle(b)
		sv := &survey41{tag: "repro", mode: "async", realID: 1, inHandler: make(chan struct{}), release: make(chan struct{}),
			published: make(chan struct{}), exited: make(chan struct{}), retGate: make(chan struct{}), ret: make(chan surveyRet, 1)}
		sv.ctx = &gateCtx{done: make(chan struct{})}
		sv.ctx.errGate = func() { close(sv.exited); <-sv.retGate }
		w.mu.Lock()
		w.byTag["repro"], w.byReal[1] = sv, sv
		w.mu.Unlock()
		go func() {
			r, err := node.Survey(sv.ctx, "verif", []byte("repro"), "")
			sv.ret <- surveyRet{r, err}
		}()
		<-sv.inHandler
		close(sv.release) // the handler keeps the callback and returns
		<-sv.published
		close(sv.ctx.done)        // deadline
		<-sv.exited               // collector finished; Survey is evaluating ctx.Err(), the registry entry still exists
		for k := 1; k <= 2; k++ { // two late (duplicated) answers of n2 fill the channel of capacity 2
			d, _ := centrifuge.VerifClusterEncodeSurveyResponse("n2", 1, uint32(k), []byte("late"))
			w.handle(d)
		}
		close(sv.retGate)
		r := <-sv.ret
		done := make(chan struct{})
		go func() { sv.cb(centrifuge.SurveyReply{Code: 1}); close(done) }()
		blocked := !waitCh(done, 2*time.Second)
		res.Extra["C41"] = map[string]any{"Survey returned": fmt.Sprintf("%d results, err=%v", len(r.res), r.err),
			"late local SurveyCallback blocked for 2s (goroutine leaked)": blocked}
	}
	return nil
}
