SPECIFICATION TSpec
CONSTANTS
  Kinds = {"bytes", "slices", "items"}
  Small = {0, 1}
  Around <- AroundStd
  PoolBound = 1
  Reslice = FALSE
INVARIANTS TableOK
CHECK_DEADLOCK FALSE
