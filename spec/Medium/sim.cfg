SPECIFICATION SimSpec
CONSTANTS
  Subs = {"p1", "p2", "n"}
  OptSets <- OptAll
  MaxPub = 6
  MaxFaults = 2
  MaxTicks = 2
  MaxResub = 1
  QMax = 1
  Timed = FALSE
  CheckDelay = 40
  Advances = {}
  MaxNow = 0
  Urgent = TRUE
INVARIANTS TypeOK
CHECK_DEADLOCK FALSE
