SPECIFICATION Spec
CONSTANTS Alphabet = {10, 13, 58, 32, 100, 123, 34, 120}
          MaxMsgs = 2
          MaxLen1 = 5
          MaxLen2 = 3
          Table = FALSE
INVARIANTS SSEExact SSESem SplitExact SplitSem SplitSame NDExact NDSem PBExact PipeSSE PipeSplit PipeND SSEPlain
CHECK_DEADLOCK FALSE
