// C09: replay of spec/Connect behaviours (exhaustive dump of short command sequences + simulated longer ones)
// on real clients. Commands are encoded (JSON / Protobuf) and fed through the public centrifuge.HandleReadFrame
// like a transport reader does; application handlers follow the script's handler mode, asynchronous callbacks are
// kept and invoked when the behaviour says; the connection's single timer is fired through a harness
// TimerScheduler. After every step the harness waits for a quiescent point, projects the real frames / handler
// log to the model's `out` / `cb`, evaluates the observable-only monitors of C09 on the REAL data (verdict) and
// compares with the model (difference with all monitors true = drift).
package main

import (
	"bytes"
	"context"
	"encoding/json"
	"errors"
	"fmt"
	"strings"
	"sync"
	"time"

	"github.com/centrifugal/centrifuge"
	"github.com/centrifugal/protocol"

	"verifharness/cl"
	"verifharness/vh"
)

const (
	codeBadRequest  = 3501
	codeStale       = 3502
	codeNoPong      = 3012
	codeExpired     = 3005
	codeNotAvail    = 3508
	codeForceNoRec  = 3503
	codeConnClosed  = 3000
	codeHandlerDisc = 4242
	codeHandlerErr  = 477
	codeServerError = 3004
	failPrefix      = "fail:" // channels the workers' broker refuses to subscribe to
)

var (
	handlerErr  = &centrifuge.Error{Code: codeHandlerErr, Message: "verif handler error"}
	handlerDisc = centrifuge.Disconnect{Code: codeHandlerDisc, Reason: "verif handler disconnect"}
	filterA     = &centrifuge.FilterNode{Key: "role", Cmp: "eq", Val: "a"}
	filterB     = &centrifuge.FilterNode{Key: "role", Cmp: "eq", Val: "b"}
)

type frame struct {
	T    string `json:"t"`
	ID   int    `json:"id"`
	K    string `json:"k"`
	Code int    `json:"code"`
}

type cbEntry struct {
	K    string `json:"k"`
	N    int    `json:"n"`
	Code int    `json:"code"`
}

type cmdRec struct {
	Kind string `json:"kind"`
	ID   int    `json:"id"`
	Var  string `json:"var"`
	Mode string `json:"mode"`
	Seen int    `json:"seen"`
}

type cfg9 struct {
	CSR      bool `json:"csr"`
	Handlers bool `json:"handlers"`
	Pong     bool `json:"pong"`
	MapSub   bool `json:"mapsub"`
	Strict   bool `json:"strict"`
}

// ------------------------------------------------------------------ worker: one node, many behaviours

type worker struct {
	env     *cl.Env
	sch     *sched
	runners sync.Map // client id -> *runner
}

func (w *worker) runner(id string) *runner {
	if v, ok := w.runners.Load(id); ok {
		return v.(*runner)
	}
	return nil
}

func newWorker(extra func(*centrifuge.Config)) (*worker, error) {
	w := &worker{sch: &sched{}}
	conf := centrifuge.Config{
		LogLevel:                     centrifuge.LogLevelNone,
		ClientTimerScheduler:         w.sch,
		ClientPresenceUpdateInterval: 10 * time.Hour, // never the earliest operation of the multiplexed timer
		ClientStaleCloseDelay:        time.Hour,
		Map: centrifuge.MapConfig{
			GetMapChannelOptions: func(string) centrifuge.MapChannelOptions {
				return centrifuge.MapChannelOptions{Mode: centrifuge.MapModeRecoverable, KeyTTL: time.Minute, MinPageSize: 1}
			},
		},
	}
	if extra != nil {
		extra(&conf)
	}
	env, err := cl.NewEnv(conf)
	if err != nil {
		return nil, err
	}
	w.env = env
	mb, err := centrifuge.NewMemoryMapBroker(env.Node, centrifuge.MemoryMapBrokerConfig{})
	if err != nil {
		return nil, err
	}
	if err := mb.RegisterEventHandler(nil); err != nil {
		return nil, err
	}
	env.Node.SetMapBroker(mb)
	gb, err := cl.NewGateBroker(env.Node)
	if err != nil {
		return nil, err
	}
	gb.SubscribeErr = func(ch string) error {
		if strings.HasPrefix(ch, failPrefix) {
			return errors.New("verif: broker refuses this channel")
		}
		return nil
	}
	env.Node.SetBroker(gb)
	env.OnConnecting = func(_ context.Context, ev centrifuge.ConnectEvent) (centrifuge.ConnectReply, error) {
		r := w.runner(ev.ClientID)
		if r == nil {
			return centrifuge.ConnectReply{Credentials: &centrifuge.Credentials{UserID: "u"}}, nil
		}
		return r.onConnecting()
	}
	env.OnSubscribe = func(c *centrifuge.Client, ev centrifuge.SubscribeEvent, cb centrifuge.SubscribeCallback) {
		r := w.runner(c.ID())
		if r == nil {
			cb(centrifuge.SubscribeReply{}, nil)
			return
		}
		r.onSubscribe(ev, cb)
	}
	env.Setup = func(c *centrifuge.Client) {
		if r := w.runner(c.ID()); r != nil {
			r.setup(c)
		}
	}
	env.Hook = func(ev cl.Event) {
		r := w.runner(ev.Client)
		if r == nil {
			return
		}
		switch ev.Kind {
		case "connecting", "subscribe":
			r.logCB(ev.Kind, r.curN(), 0)
		case "connect":
			r.logCB("connect", 0, 0)
		case "unsubscribe", "disconnect":
			r.logCB(ev.Kind, 0, int(ev.Code))
		}
	}
	if err := env.Run(); err != nil {
		return nil, err
	}
	return w, nil
}

// ------------------------------------------------------------------ runner: one behaviour on one connection

type runner struct {
	w     *worker
	cfg   cfg9
	proto centrifuge.ProtocolType
	conn  *cl.Conn
	id    string
	ch    string
	pubch string

	mu  sync.Mutex
	cur struct {
		n          int
		kind, mode string
	}
	kept       map[int]func(res string)
	keptID     map[int]int
	log        []cbEntry
	cmds       []cmdRec
	causes     map[int]bool
	lateWrites int
	closeDone  chan struct{}
}

func (r *runner) curN() int {
	r.mu.Lock()
	defer r.mu.Unlock()
	return r.cur.n
}

func (r *runner) logCB(k string, n, code int) {
	r.mu.Lock()
	r.log = append(r.log, cbEntry{k, n, code})
	r.mu.Unlock()
}

func (r *runner) cbLog() []cbEntry {
	r.mu.Lock()
	defer r.mu.Unlock()
	return append([]cbEntry(nil), r.log...)
}

func (r *runner) cause(code int) {
	r.mu.Lock()
	r.causes[code] = true
	r.mu.Unlock()
}

func (r *runner) onConnecting() (centrifuge.ConnectReply, error) {
	r.mu.Lock()
	mode := r.cur.mode
	r.mu.Unlock()
	switch mode {
	case "err":
		return centrifuge.ConnectReply{}, centrifuge.ErrorUnauthorized
	case "disc":
		r.cause(codeHandlerDisc)
		return centrifuge.ConnectReply{}, handlerDisc
	case "nocred":
		return centrifuge.ConnectReply{}, nil
	case "sserr":
		// accepted, but the connect-time server-side subscription expired in the past: connectCmd answers the
		// connect with the error "expired" after it authenticated and registered the connection
		return centrifuge.ConnectReply{Credentials: &centrifuge.Credentials{UserID: "u"}, ClientSideRefresh: r.cfg.CSR,
			Subscriptions: map[string]centrifuge.SubscribeOptions{r.ch + "_ss": {ExpireAt: time.Now().Unix() - 10}}}, nil
	case "ssdisc":
		// accepted, but the broker fails the connect-time server-side subscription: disconnect(server error)
		r.cause(codeServerError)
		return centrifuge.ConnectReply{Credentials: &centrifuge.Credentials{UserID: "u"}, ClientSideRefresh: r.cfg.CSR,
			Subscriptions: map[string]centrifuge.SubscribeOptions{failPrefix + r.ch: {}}}, nil
	}
	return centrifuge.ConnectReply{Credentials: &centrifuge.Credentials{UserID: "u"}, ClientSideRefresh: r.cfg.CSR}, nil
}

// handle is the common shape of every scripted application handler: log the invocation, then answer now or keep
// the callback.
func (r *runner) handle(kind string, fin func(res string)) {
	r.mu.Lock()
	n, mode := r.cur.n, r.cur.mode
	if kind != "subscribe" { // the environment's default OnSubscribe already logged it through the hook
		r.log = append(r.log, cbEntry{kind, n, 0})
	}
	if mode == "async" {
		r.kept[n] = fin
		r.mu.Unlock()
		return
	}
	r.mu.Unlock()
	r.finish(fin, mode)
}

func (r *runner) finish(fin func(string), res string) {
	switch res {
	case "disc":
		r.cause(codeHandlerDisc)
	case "expired":
		r.cause(codeExpired)
	}
	fin(res)
}

func far() int64 { return time.Now().Unix() + 100000 }

func (r *runner) onSubscribe(_ centrifuge.SubscribeEvent, cb centrifuge.SubscribeCallback) {
	r.handle("subscribe", func(res string) {
		switch res {
		case "err":
			cb(centrifuge.SubscribeReply{}, handlerErr)
		case "disc":
			cb(centrifuge.SubscribeReply{}, handlerDisc)
		default:
			opts := centrifuge.SubscribeOptions{ExpireAt: far()}
			if r.cfg.MapSub {
				opts.Type = centrifuge.SubscriptionTypeMap
				opts.ServerTagsFilter = filterA
			}
			cb(centrifuge.SubscribeReply{Options: opts, ClientSideRefresh: r.cfg.CSR}, nil)
		}
	})
}

func (r *runner) setup(c *centrifuge.Client) {
	if !r.cfg.Handlers {
		c.OnSubscribe(nil)
		c.OnRPC(nil)
		return
	}
	c.OnRPC(func(e centrifuge.RPCEvent, cb centrifuge.RPCCallback) {
		if e.Method == "barrier" {
			cb(centrifuge.RPCReply{Data: []byte("{}")}, nil)
			return
		}
		r.handle("rpc", func(res string) {
			switch res {
			case "err":
				cb(centrifuge.RPCReply{}, handlerErr)
			case "disc":
				cb(centrifuge.RPCReply{}, handlerDisc)
			default:
				cb(centrifuge.RPCReply{Data: []byte("{}")}, nil)
			}
		})
	})
	c.OnPublish(func(_ centrifuge.PublishEvent, cb centrifuge.PublishCallback) {
		r.handle("publish", func(res string) {
			switch res {
			case "err":
				cb(centrifuge.PublishReply{}, handlerErr)
			case "disc":
				cb(centrifuge.PublishReply{}, handlerDisc)
			default:
				cb(centrifuge.PublishReply{}, nil)
			}
		})
	})
	c.OnPresence(func(_ centrifuge.PresenceEvent, cb centrifuge.PresenceCallback) {
		r.handle("presence", func(res string) {
			switch res {
			case "err":
				cb(centrifuge.PresenceReply{}, handlerErr)
			case "disc":
				cb(centrifuge.PresenceReply{}, handlerDisc)
			default:
				cb(centrifuge.PresenceReply{}, nil)
			}
		})
	})
	c.OnPresenceStats(func(_ centrifuge.PresenceStatsEvent, cb centrifuge.PresenceStatsCallback) {
		r.handle("presence_stats", func(res string) {
			switch res {
			case "err":
				cb(centrifuge.PresenceStatsReply{}, handlerErr)
			case "disc":
				cb(centrifuge.PresenceStatsReply{}, handlerDisc)
			default:
				cb(centrifuge.PresenceStatsReply{}, nil)
			}
		})
	})
	c.OnHistory(func(_ centrifuge.HistoryEvent, cb centrifuge.HistoryCallback) {
		r.handle("history", func(res string) {
			switch res {
			case "err":
				cb(centrifuge.HistoryReply{}, handlerErr)
			case "disc":
				cb(centrifuge.HistoryReply{}, handlerDisc)
			default:
				cb(centrifuge.HistoryReply{}, nil)
			}
		})
	})
	c.OnMessage(func(centrifuge.MessageEvent) {
		r.logCB("send", r.curN(), 0)
	})
	c.OnRefresh(func(_ centrifuge.RefreshEvent, cb centrifuge.RefreshCallback) {
		r.handle("refresh", func(res string) {
			switch res {
			case "err":
				cb(centrifuge.RefreshReply{}, handlerErr)
			case "disc":
				cb(centrifuge.RefreshReply{}, handlerDisc)
			case "expired":
				cb(centrifuge.RefreshReply{Expired: true}, nil)
			case "past":
				cb(centrifuge.RefreshReply{ExpireAt: time.Now().Unix() - 10}, nil)
			default:
				cb(centrifuge.RefreshReply{ExpireAt: far()}, nil)
			}
		})
	})
	c.OnSubRefresh(func(_ centrifuge.SubRefreshEvent, cb centrifuge.SubRefreshCallback) {
		r.handle("sub_refresh", func(res string) {
			switch res {
			case "err":
				cb(centrifuge.SubRefreshReply{}, handlerErr)
			case "disc":
				cb(centrifuge.SubRefreshReply{}, handlerDisc)
			case "past":
				cb(centrifuge.SubRefreshReply{ExpireAt: time.Now().Unix() - 10}, nil)
			case "tagschange":
				cb(centrifuge.SubRefreshReply{ExpireAt: far(), ServerTagsFilter: filterB}, nil)
			default:
				cb(centrifuge.SubRefreshReply{ExpireAt: far()}, nil)
			}
		})
	})
}

// ------------------------------------------------------------------ commands

func (r *runner) channel(v string) string {
	if v == "emptych" {
		return ""
	}
	return r.ch
}

// build returns the frame bytes for one command symbol.
func (r *runner) build(kind, variant string, id uint32) ([]byte, error) {
	switch kind {
	case "malformed":
		if r.proto == centrifuge.ProtocolTypeJSON {
			return []byte(`{"id":1,"rpc":`), nil
		}
		return []byte{0x05, 0x08, 0x01}, nil // announces 5 bytes, carries 2
	case "emptyframe":
		return []byte{}, nil
	}
	cmd := &protocol.Command{Id: id}
	sub := func() *protocol.SubscribeRequest {
		s := &protocol.SubscribeRequest{Channel: r.channel(variant)}
		if r.cfg.MapSub {
			s.Type = int32(centrifuge.SubscriptionTypeMap)
			s.Phase = centrifuge.MapPhaseState
			s.Limit = 100
		}
		return s
	}
	switch kind {
	case "connect":
		cmd.Connect = &protocol.ConnectRequest{}
	case "subscribe":
		cmd.Subscribe = sub()
	case "multi":
		cmd.Subscribe = sub()
		cmd.Rpc = &protocol.RPCRequest{Method: "m", Data: []byte("{}")}
	case "unsubscribe":
		cmd.Unsubscribe = &protocol.UnsubscribeRequest{Channel: r.channel(variant)}
	case "publish":
		ch := r.pubch
		if variant == "emptych" {
			ch = ""
		}
		cmd.Publish = &protocol.PublishRequest{Channel: ch, Data: []byte("{}")}
	case "presence":
		cmd.Presence = &protocol.PresenceRequest{Channel: r.channel(variant)}
	case "presence_stats":
		cmd.PresenceStats = &protocol.PresenceStatsRequest{Channel: r.channel(variant)}
	case "history":
		cmd.History = &protocol.HistoryRequest{Channel: r.channel(variant), Limit: 10}
	case "rpc":
		cmd.Rpc = &protocol.RPCRequest{Method: "m", Data: []byte("{}")}
	case "send":
		cmd.Send = &protocol.SendRequest{Data: []byte("{}")}
	case "refresh":
		tok := "t"
		if variant == "emptytok" {
			tok = ""
		}
		cmd.Refresh = &protocol.RefreshRequest{Token: tok}
	case "sub_refresh":
		tok := "t"
		if variant == "emptytok" {
			tok = ""
		}
		cmd.SubRefresh = &protocol.SubRefreshRequest{Channel: r.channel(variant), Token: tok}
	case "empty":
	case "pingfield":
		cmd.Ping = &protocol.PingRequest{}
	default:
		return nil, fmt.Errorf("unknown command kind %q", kind)
	}
	if r.proto == centrifuge.ProtocolTypeJSON {
		return protocol.NewJSONCommandEncoder().Encode(cmd)
	}
	return protocol.NewProtobufCommandEncoder().Encode(cmd)
}

// ------------------------------------------------------------------ projection

func isBarrierID(id uint32) bool { return id > 1000000 }

func projectFrames(t *cl.Transport) (out []frame, pushDisc int) {
	pushDisc = -1
	for _, rep := range t.Replies() {
		if isBarrierID(rep.Id) {
			continue
		}
		f := frame{T: "reply", ID: int(rep.Id)}
		switch {
		case rep.Error != nil:
			f.K, f.Code = "error", int(rep.Error.Code)
		case rep.Connect != nil:
			f.K = "connect"
		case rep.Subscribe != nil:
			f.K = "subscribe"
		case rep.Unsubscribe != nil:
			f.K = "unsubscribe"
		case rep.Publish != nil:
			f.K = "publish"
		case rep.Presence != nil:
			f.K = "presence"
		case rep.PresenceStats != nil:
			f.K = "presence_stats"
		case rep.History != nil:
			f.K = "history"
		case rep.Rpc != nil:
			f.K = "rpc"
		case rep.Refresh != nil:
			f.K = "refresh"
		case rep.SubRefresh != nil:
			f.K = "sub_refresh"
		case rep.Push != nil:
			p := rep.Push
			switch {
			case p.Disconnect != nil:
				pushDisc = int(p.Disconnect.Code)
				continue
			case p.Unsubscribe != nil:
				f = frame{T: "unsub", Code: int(p.Unsubscribe.Code)}
			default:
				f = frame{T: "other:" + cl.Describe(rep)}
			}
		default:
			if rep.Id == 0 {
				f = frame{T: "ping"}
			} else {
				f.K = "empty"
			}
		}
		out = append(out, f)
	}
	if closed, d := t.Closed(); closed {
		out = append(out, frame{T: "disc", Code: int(d.Code)})
	}
	return out, pushDisc
}

func modelFrames(st map[string]any) []frame {
	var out []frame
	for _, x := range vh.List(st["out"]) {
		m := vh.Map(x)
		out = append(out, frame{T: vh.Str(m["t"]), ID: vh.Int(m["id"]), K: vh.Str(m["k"]), Code: vh.Int(m["code"])})
	}
	return out
}

func modelCB(st map[string]any) []cbEntry {
	var out []cbEntry
	for _, x := range vh.List(st["cb"]) {
		m := vh.Map(x)
		out = append(out, cbEntry{K: vh.Str(m["k"]), N: vh.Int(m["n"]), Code: vh.Int(m["code"])})
	}
	return out
}

func sameFrames(a, b []frame) bool {
	if len(a) != len(b) {
		return false
	}
	for i := range a {
		if a[i] != b[i] {
			return false
		}
	}
	return true
}

// normalise: the frames as they are (the order reply, then state-invalidated unsubscribe push is the model's).
func normalise(a []frame) []frame { return a }

func sameBag(a, b []frame) bool {
	if len(a) != len(b) {
		return false
	}
	m := map[frame]int{}
	for _, f := range a {
		m[f]++
	}
	for _, f := range b {
		m[f]--
	}
	for _, v := range m {
		if v != 0 {
			return false
		}
	}
	return true
}

func sameCB(a, b []cbEntry) bool {
	if len(a) != len(b) {
		return false
	}
	for i := range a {
		if a[i] != b[i] {
			return false
		}
	}
	return true
}

// ------------------------------------------------------------------ observable-only monitors (same formulas as Connect.tla)

type verdict struct{ sig, what string }

func framed(c cmdRec) bool   { return c.Kind == "malformed" || c.Kind == "emptyframe" }
func pongLike(c cmdRec) bool { return !framed(c) && c.ID == 0 && c.Kind != "send" }
func needsReply(c cmdRec) bool {
	return !framed(c) && c.ID > 0 && c.Kind != "send"
}

func connectedBy(out []frame, m int) bool {
	for i := 0; i < m && i < len(out); i++ {
		if out[i].T == "reply" && out[i].K == "connect" {
			return true
		}
	}
	return false
}

// failedConnectBy: among the first m frames there is an error reply to a connect command
func failedConnectBy(cmds []cmdRec, out []frame, m int) bool {
	for _, q := range cmds {
		if q.Kind != "connect" || q.ID == 0 {
			continue
		}
		for x := q.Seen; x < m && x < len(out); x++ {
			if out[x].T == "reply" && out[x].K == "error" && out[x].ID == q.ID {
				return true
			}
		}
	}
	return false
}

func closedBy(out []frame, m int) (bool, int) {
	for i := 0; i < m && i < len(out); i++ {
		if out[i].T == "disc" {
			return true, out[i].Code
		}
	}
	return false, 0
}

// monitors evaluates C09 on what the real connection produced. waiting: ids of commands whose callback the
// application still holds; causes: close codes the environment / the handlers asked for themselves.
func monitors(cmds []cmdRec, out []frame, cb []cbEntry, waiting map[int]int, causes map[int]bool) []verdict {
	var vs []verdict
	closed, code := closedBy(out, len(out))
	okCode := func() bool { return code == codeBadRequest || causes[code] }
	calls := map[int]int{}
	for _, e := range cb {
		if e.N > 0 {
			calls[e.N]++
		}
	}
	for i, c := range cmds {
		n := i + 1
		cb0, _ := closedBy(out, c.Seen)
		// C09a
		if !framed(c) && c.Kind != "connect" && !connectedBy(out, c.Seen) && !cb0 {
			if calls[n] > 0 {
				vs = append(vs, verdict{"gate:handler-called:" + c.Kind, fmt.Sprintf("command #%d (%s, id %d) arrived before the connection had connected and an application handler was invoked for it", n, c.Kind, c.ID)})
			}
			if !closed {
				vs = append(vs, verdict{"gate:not-closed:" + c.Kind, fmt.Sprintf("command #%d (%s, id %d) arrived before the connection had connected and the connection was not closed", n, c.Kind, c.ID)})
			} else if !okCode() {
				vs = append(vs, verdict{fmt.Sprintf("gate:code-%d:%s", code, c.Kind), fmt.Sprintf("command #%d (%s, id %d) arrived before the connection had connected; the connection was closed with code %d instead of bad request (3501)", n, c.Kind, c.ID, code)})
			}
		}
		// C09a': after a connect answered with an error reply every later command is refused
		if !framed(c) && failedConnectBy(cmds, out, c.Seen) && !connectedBy(out, c.Seen) && !cb0 {
			if calls[n] > 0 {
				vs = append(vs, verdict{"failed-connect:handler-called:" + c.Kind, fmt.Sprintf("command #%d (%s, id %d) arrived after the connect command had been answered with an error reply and an application handler was invoked for it", n, c.Kind, c.ID)})
			}
			if !closed {
				vs = append(vs, verdict{"failed-connect:not-closed:" + c.Kind, fmt.Sprintf("command #%d (%s, id %d) arrived after the connect command had been answered with an error reply and the connection was not closed", n, c.Kind, c.ID)})
			} else if !okCode() {
				vs = append(vs, verdict{fmt.Sprintf("failed-connect:code-%d:%s", code, c.Kind), fmt.Sprintf("command #%d (%s, id %d) arrived after the connect command had been answered with an error reply; the connection was closed with code %d instead of bad request (3501)", n, c.Kind, c.ID, code)})
			}
		}
		// C09c
		if pongLike(c) && connectedBy(out, c.Seen) && !cb0 {
			from := 0
			for m := i - 1; m >= 0; m-- {
				if pongLike(cmds[m]) {
					from = cmds[m].Seen
					break
				}
			}
			pings := 0
			for x := from; x < c.Seen && x < len(out); x++ {
				if out[x].T == "ping" {
					pings++
				}
			}
			if pings == 0 {
				if !closed {
					vs = append(vs, verdict{"pong:not-closed", fmt.Sprintf("command #%d is a pong (id 0, %s) with no server ping since the previous pong / the connect reply and the connection stayed open", n, c.Kind)})
				} else if !okCode() {
					vs = append(vs, verdict{fmt.Sprintf("pong:code-%d", code), fmt.Sprintf("unnecessary pong (command #%d) closed the connection with code %d instead of bad request (3501)", n, code)})
				}
			}
		}
		if calls[n] > 1 {
			vs = append(vs, verdict{"handler-twice:" + c.Kind, fmt.Sprintf("the application handler of command #%d (%s) was invoked %d times", n, c.Kind, calls[n])})
		}
	}
	// C09b
	sent := map[int]int{}
	name := map[int]string{}
	for _, c := range cmds {
		if needsReply(c) {
			sent[c.ID]++
			name[c.ID] = c.Kind + ":" + c.Mode
			if c.Var != "ok" {
				name[c.ID] += ":" + c.Var
			}
		}
	}
	got := map[int]int{}
	for _, f := range out {
		if f.T != "reply" {
			continue
		}
		if _, ok := sent[f.ID]; !ok {
			vs = append(vs, verdict{"reply-unknown-id", fmt.Sprintf("a reply with id %d was written although no command that needs a reply carried that id", f.ID)})
			continue
		}
		got[f.ID]++
	}
	for id, s := range sent {
		due := s - waiting[id]
		if got[id] > due {
			vs = append(vs, verdict{"dup-reply:" + name[id], fmt.Sprintf("%d replies with id %d for %d answered command(s) (%s)", got[id], id, due, name[id])})
		}
		if !closed && got[id] < due {
			vs = append(vs, verdict{"no-reply:" + name[id], fmt.Sprintf("%d replies with id %d for %d answered command(s) (%s) and the connection is still open", got[id], id, due, name[id])})
		}
	}
	return vs
}

// ------------------------------------------------------------------ one behaviour

const (
	closeWait = 3 * time.Second
	syncWait  = 2 * time.Second
)

func (w *worker) run9(bi int, beh []map[string]any, proto centrifuge.ProtocolType, res *vh.Result) {
	var c cfg9
	_ = json.Unmarshal([]byte(vh.J(beh[0]["cfg"])), &c)
	r := &runner{w: w, cfg: c, proto: proto, kept: map[int]func(string){}, keptID: map[int]int{}, causes: map[int]bool{}}
	tag := fmt.Sprintf("%d_%d_%s", vh.Seed(), bi, proto)
	r.ch, r.pubch = "c9_"+tag, "c9p_"+tag
	w.sch.reset()
	t := cl.NewTransport(proto)
	ping := centrifuge.PingPongConfig{PingInterval: 10 * time.Second, PongTimeout: 3 * time.Second}
	if !c.Pong {
		ping.PongTimeout = -1
	}
	t.SetPing(ping)
	t.OnWrite = func(int) {
		if cl, _ := t.Closed(); cl {
			r.mu.Lock()
			r.lateWrites++
			r.mu.Unlock()
		}
	}
	// timers scheduled inside NewClient (stale) belong to this connection; its id is not known before
	w.sch.setOwner("c")
	conn, err := w.env.NewConnT("", t)
	if err != nil {
		res.Drift("C09", "NewConn: "+err.Error(), nil)
		res.Done(1, 0)
		return
	}
	r.conn, r.id = conn, conn.Client.ID()
	w.runners.Store(r.id, r)
	var steps []any
	completed := 1
	protoName := "json"
	if proto == centrifuge.ProtocolTypeProtobuf {
		protoName = "protobuf"
	}
	replay := func() map[string]any {
		out, _ := projectFrames(t)
		return map[string]any{"cfg": c, "proto": protoName, "steps": steps, "frames": out, "handler_log": r.cbLog()}
	}
	drift := func(what string) {
		res.Drift("C09", fmt.Sprintf("%s (behaviour %d, %s, cfg %s)", what, bi, protoName, vh.J(c)), replay())
		completed = 0
	}
	defer func() {
		// release whatever is still kept / open so that no goroutine of this behaviour survives
		r.mu.Lock()
		kept := r.kept
		r.kept = map[int]func(string){}
		r.mu.Unlock()
		for _, fin := range kept {
			fin("ok")
		}
		if closed, _ := t.Closed(); !closed {
			_ = conn.CloseF()
		}
		if r.closeDone != nil {
			select {
			case <-r.closeDone:
			case <-time.After(closeWait):
			}
		}
		conn.Cancel()
		w.runners.Delete(r.id)
	}()
	nontrivial := false
	panicked := ""
	for si := 1; si < len(beh) && completed == 1; si++ {
		st := beh[si]
		step := vh.Map(st["step"])
		act := vh.Str(step["act"])
		steps = append(steps, step)
		switch act {
		case "Cmd":
			kind, mode, variant := vh.Str(step["kind"]), vh.Str(step["mode"]), vh.Str(step["var"])
			id, n := vh.Int(step["id"]), vh.Int(step["n"])
			data, err := r.build(kind, variant, uint32(id))
			if err != nil {
				drift(err.Error())
				break
			}
			seen, _ := projectFrames(t)
			r.mu.Lock()
			r.cur.n, r.cur.kind, r.cur.mode = n, kind, mode
			r.cmds = append(r.cmds, cmdRec{Kind: kind, ID: id, Var: variant, Mode: mode, Seen: len(seen)})
			if mode == "async" {
				r.keptID[n] = id
			}
			r.mu.Unlock()
			if kind == "send" && !c.Handlers {
				r.cause(codeNotAvail)
			}
			if p := guarded(func() { centrifuge.HandleReadFrame(conn.Client, bytes.NewReader(data), 1<<16) }); p != "" {
				panicked = p
			}
			if kind != "connect" {
				nontrivial = true
			}
		case "Complete":
			n := vh.Int(step["n"])
			r.mu.Lock()
			fin := r.kept[n]
			delete(r.kept, n)
			for i := range r.cmds {
				if i+1 == n {
					r.cmds[i].Mode = "async/" + vh.Str(step["res"])
				}
			}
			r.mu.Unlock()
			if fin == nil {
				drift(fmt.Sprintf("the application handler of command #%d did not keep a callback", n))
				break
			}
			if p := guarded(func() { r.finish(fin, vh.Str(step["res"])) }); p != "" {
				panicked = p
			}
			nontrivial = true
		case "TimerFire":
			r.cause(codeStale)
			r.cause(codeNoPong)
			before := w.sch.lastSeq()
			if _, n, ok := w.sch.fire("c"); !ok {
				drift(fmt.Sprintf("expected exactly one armed timer (%s), found %d", vh.Str(step["op"]), n))
				break
			}
			if vh.Str(st["tmr"]) != "none" {
				if !w.sch.waitArmed("c", before, syncWait) {
					drift(fmt.Sprintf("timer was not re-armed after firing %s", vh.Str(step["op"])))
				}
			}
			nontrivial = true
		case "ServerDisconnect":
			r.cause(codeForceNoRec)
			conn.Client.Disconnect()
		case "TransportClose":
			r.cause(codeConnClosed)
			done := make(chan struct{})
			r.closeDone = done
			go func() { defer close(done); _ = conn.CloseF() }()
			if vh.Int(st["cwait"]) == 0 {
				select {
				case <-done:
				case <-time.After(closeWait):
					drift("the transport's close function did not return")
				}
			}
		case "CloseRun":
		default:
			drift("unknown action " + act)
		}
		if completed == 0 {
			break
		}
		if len(vh.List(st["closing"])) > 0 {
			continue // a spawned close() is running; the model performs it in the next step
		}
		mo, mcb := modelFrames(st), modelCB(st)
		status := vh.Str(st["status"])
		switch {
		case status == "closed":
			t.WaitFor(closeWait, func(_ []*protocol.Reply, closed bool) bool { return closed })
			// the disconnect callback runs at the end of close(), after the transport went away
			deadline := time.Now().Add(syncWait)
			for len(r.cbLog()) < len(mcb) && time.Now().Before(deadline) {
				time.Sleep(200 * time.Microsecond)
			}
		case status == "connected":
			conn.Barrier(syncWait)
		default:
			t.WaitFor(syncWait, func(rs []*protocol.Reply, closed bool) bool { return len(rs) >= len(mo) || closed })
		}
		real, pushDisc := projectFrames(t)
		rcb := r.cbLog()
		r.mu.Lock()
		waiting := map[int]int{}
		for n := range r.kept {
			waiting[r.keptID[n]]++
		}
		cmds := append([]cmdRec(nil), r.cmds...)
		causes := map[int]bool{}
		for k := range r.causes {
			causes[k] = true
		}
		late := r.lateWrites
		r.mu.Unlock()
		vs := monitors(cmds, real, rcb, waiting, causes)
		if len(vs) > 0 {
			for _, v := range vs {
				res.Violate("C09", v.sig, fmt.Sprintf("%s (behaviour %d, %s, cfg %s)", v.what, bi, protoName, vh.J(c)), replay())
			}
			completed = 0
			break
		}
		if panicked != "" {
			// a panic of the code under test: C09 does not talk about crashes, the monitors above decided the verdict
			drift("the code under test panicked: " + panicked)
			break
		}
		// the order of the state-invalidated unsubscribe push and the sub_refresh reply is not part of the model's claim
		same := sameFrames(normalise(real), normalise(mo))
		if !same {
			drift(fmt.Sprintf("frames differ after %s: real %s, model %s", vh.J(step), vh.J(real), vh.J(mo)))
			break
		}
		if !sameCB(rcb, mcb) {
			drift(fmt.Sprintf("handler log differs after %s: real %s, model %s", vh.J(step), vh.J(rcb), vh.J(mcb)))
			break
		}
		if closed, d := t.Closed(); closed && pushDisc >= 0 && pushDisc != int(d.Code) {
			drift(fmt.Sprintf("disconnect push code %d differs from the close code %d", pushDisc, d.Code))
			break
		}
		if late > 0 {
			drift(fmt.Sprintf("%d write(s) reached the transport after it was closed", late))
			break
		}
	}
	if completed == 1 && nontrivial {
		res.Distinct(protoName + vh.J(c) + vh.J(steps))
	}
	if bi < 2 {
		res.Sample(replay())
	}
	res.Done(1, completed)
}

// guarded runs f and returns the panic message, if any.
func guarded(f func()) (msg string) {
	defer func() {
		if p := recover(); p != nil {
			msg = fmt.Sprint(p)
		}
	}()
	f()
	return ""
}

func sget(m map[string]any, k string) string {
	if s, ok := m[k].(string); ok {
		return s
	}
	return ""
}

type in9 struct {
	Protos     []string           `json:"protos"`
	Behaviours [][]map[string]any `json:"behaviours"`
}

func c09(in json.RawMessage, res *vh.Result) error {
	var ri in9
	if err := json.Unmarshal(in, &ri); err != nil {
		return err
	}
	type job struct {
		bi    int
		proto centrifuge.ProtocolType
	}
	const nw = 8
	var wg sync.WaitGroup
	jobs := make(chan job)
	for i := 0; i < nw; i++ {
		w, err := newWorker(nil)
		if err != nil {
			return err
		}
		wg.Add(1)
		go func() {
			defer wg.Done()
			defer w.env.Close()
			for j := range jobs {
				w.run9(j.bi, ri.Behaviours[j.bi], j.proto, res)
			}
		}()
	}
	for bi := range ri.Behaviours {
		for _, p := range ri.Protos {
			pt := centrifuge.ProtocolTypeJSON
			if p == "protobuf" {
				pt = centrifuge.ProtocolTypeProtobuf
			}
			jobs <- job{bi, pt}
		}
	}
	close(jobs)
	wg.Wait()
	return nil
}
