SPECIFICATION SubSpec
CONSTANTS
  Keys = {"a"}
  NonPub = {"join", "leave"}
  Sizes = {3}
  Delays = {TRUE}
  Lates = {TRUE}
  Threads = {1}
  MaxAdds = 2
  MaxEnds = 100
  AtomicAdd = TRUE
  ClosedRefuses = TRUE
  SplitGet = FALSE
  RecheckOnStore = TRUE
  StaleTimers = FALSE
  EarlyDel = TRUE
  MaxGen = 2
  BatchedKinds = {"pub", "join", "leave", "other"}
  SubSplit = FALSE
  CfgSwitch = "latest"
VIEW SubView
INVARIANTS TypeOK
PROPERTIES OrderPreserved
CHECK_DEADLOCK FALSE
