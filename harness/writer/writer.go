package main

import (
	"encoding/json"
	"errors"
	"fmt"
	"math/rand"
	"runtime"
	"sync"
	"sync/atomic"
	"time"

	"github.com/centrifugal/centrifuge"

	"verifharness/vh"
)

// ---- recorded events -------------------------------------------------------------------------------------

// wev is one logged event. Seq comes from one counter under one mutex: the log order is real-time order.
type wev struct {
	Seq   int     `json:"-"`
	Ev    string  `json:"ev"`
	P     int     `json:"p,omitempty"`
	Items []mitem `json:"items,omitempty"`
	Res   string  `json:"res,omitempty"`
	Ids   []int   `json:"ids,omitempty"`
	Many  *bool   `json:"many,omitempty"`
	Ok    *bool   `json:"ok,omitempty"`
	Flush *bool   `json:"flush,omitempty"`
	Mode  string  `json:"mode,omitempty"`
	Frame *int    `json:"frame,omitempty"`
	MaxQ  *int    `json:"maxq,omitempty"`
	End   int     `json:"-"` // Write: Seq at which the transport call returned
}

// MarshalJSON writes exactly the fields of the event's kind (the trace spec reads them unconditionally).
func (e *wev) MarshalJSON() ([]byte, error) {
	m := map[string]any{"ev": e.Ev}
	switch e.Ev {
	case "Cfg":
		m["mode"], m["frame"], m["maxq"] = e.Mode, *e.Frame, *e.MaxQ
	case "EnqB":
		m["p"], m["items"] = e.P, e.Items
	case "EnqE":
		m["p"], m["res"] = e.P, e.Res
	case "Write":
		ids := e.Ids
		if ids == nil {
			ids = []int{}
		}
		m["ids"], m["many"], m["ok"] = ids, *e.Many, *e.Ok
	case "CloseB":
		m["flush"] = *e.Flush
	}
	return json.Marshal(m)
}

type wrec struct {
	mu  sync.Mutex
	evs []*wev
}

func (r *wrec) log(e *wev) *wev {
	r.mu.Lock()
	e.Seq = len(r.evs) + 1
	r.evs = append(r.evs, e)
	r.mu.Unlock()
	return e
}

// tick returns a fresh sequence number without logging an event (end of a transport call).
func (r *wrec) tick() int {
	r.mu.Lock()
	defer r.mu.Unlock()
	r.evs = append(r.evs, &wev{Seq: len(r.evs) + 1, Ev: "-"})
	return len(r.evs)
}

func bp(b bool) *bool { return &b }
func ip(i int) *int   { return &i }

// ---- scenarios -------------------------------------------------------------------------------------------

type wcall struct {
	Items  []mitem `json:"items"`
	Many   bool    `json:"many"`
	Jitter int     `json:"jitter"` // before the call: 0 none, 1 Gosched, else microseconds
}

type wscenario struct {
	Mode       string     `json:"mode"` // plain | delay | timer
	DelayUs    int        `json:"delay_us"`
	Frame      int        `json:"frame"` // MaxMessagesInFrame as configured (0 = default 16, -1 = unlimited)
	MaxQ       int        `json:"maxq"`
	InitCap    int        `json:"init_cap"`
	ShrinkUs   int        `json:"shrink_us"` // QueueShrinkDelay: <0 immediate, 0 default (1 s)
	Prod       [2][]wcall `json:"prod"`
	WriteUs    int        `json:"write_us"`    // duration of a transport call
	StallUs    int        `json:"stall_us"`    // duration of the FIRST transport call (slow-consumer scenarios)
	FailAt     int        `json:"fail_at"`     // k-th transport call fails (0 = none)
	CloseEarly bool       `json:"close_early"` // closer runs concurrently with the producers
	CloseUs    int        `json:"close_us"`    // ... after this delay
	Flush      bool       `json:"flush"`
	Twice      bool       `json:"close_twice"`
}

func effFrame(f int) int {
	if f == 0 {
		return 16
	}
	return f
}

func genScenario(r *rand.Rand, idx int) wscenario {
	modes := []string{"plain", "delay", "timer"}
	s := wscenario{Mode: modes[idx%3]}
	if s.Mode != "plain" {
		s.DelayUs = []int{150, 600, 2000}[r.Intn(3)]
	}
	s.Frame = []int{1, 2, 3, 0, -1, 2, 1}[r.Intn(7)]
	s.InitCap = []int{0, 1, 2, 4}[r.Intn(4)]
	s.ShrinkUs = []int{-1, 0, 300}[r.Intn(3)]
	kind := r.Intn(10)
	// item sizes 1..3; a size limit in about half of the runs
	if r.Intn(2) == 0 {
		s.MaxQ = []int{3, 5, 8, 12}[r.Intn(4)]
	}
	for p := 0; p < 2; p++ {
		n := 1 + r.Intn(6)
		if kind == 9 && p == 1 {
			n = 0 // single producer against a stalled transport: the size check is exact
		}
		k := 0
		for c := 0; c < n; c++ {
			call := wcall{Jitter: []int{0, 0, 1, 1, 40, 250, 1200}[r.Intn(7)]}
			m := 1
			if r.Intn(6) == 0 {
				m = 2 + r.Intn(2)
				call.Many = true
			} else if r.Intn(12) == 0 {
				call.Many = true // enqueueMany with a single item
			}
			for i := 0; i < m; i++ {
				k++
				call.Items = append(call.Items, mitem{ID: (p+1)*100 + k, Bytes: 1 + r.Intn(3)})
			}
			s.Prod[p] = append(s.Prod[p], call)
		}
	}
	s.WriteUs = []int{0, 0, 30, 300}[r.Intn(4)]
	if kind >= 8 {
		s.StallUs = 4000
		if s.MaxQ == 0 {
			s.MaxQ = []int{3, 5, 8}[r.Intn(3)]
		}
	}
	if kind == 7 {
		s.FailAt = 1 + r.Intn(3)
	}
	s.Flush = r.Intn(3) != 0
	if kind <= 2 {
		s.CloseEarly = true
		s.CloseUs = []int{0, 20, 200, 900, 2500}[r.Intn(5)]
	}
	s.Twice = r.Intn(8) == 0
	return s
}

func jitter(j int) {
	switch {
	case j == 0:
	case j == 1:
		runtime.Gosched()
	default:
		time.Sleep(time.Duration(j) * time.Microsecond)
	}
}

// ---- one run ---------------------------------------------------------------------------------------------

var errInjected = errors.New("verif: injected transport error")

// quiesceWait bounds the liveness clause: typical completion is a few milliseconds.
const quiesceWait = 5 * time.Second

var stuckSeen atomic.Int64

type wrun struct {
	sc     wscenario
	rec    *wrec
	calls  atomic.Int64
	nwrit  atomic.Int64 // ids handed to successful transport calls
	failed atomic.Bool
}

func (w *wrun) transport(items []centrifuge.VerifWQItem, many bool) error {
	n := int(w.calls.Add(1))
	ids := make([]int, 0, len(items))
	for _, it := range items {
		ids = append(ids, itemID(it))
	}
	ok := n != w.sc.FailAt
	e := w.rec.log(&wev{Ev: "Write", Ids: ids, Many: bp(many), Ok: bp(ok)})
	d := w.sc.WriteUs
	if n == 1 && w.sc.StallUs > 0 {
		d = w.sc.StallUs
	}
	if d > 0 {
		time.Sleep(time.Duration(d) * time.Microsecond)
	}
	end := w.rec.tick()
	e.End = end
	if !ok {
		w.failed.Store(true)
		return errInjected
	}
	w.nwrit.Add(int64(len(ids)))
	return nil
}

func resName(code uint32) string {
	switch code {
	case 0:
		return "ok"
	case centrifuge.VerifWSlowCode():
		return "slow"
	case centrifuge.VerifWClosedCode():
		return "closed"
	}
	return fmt.Sprintf("code-%d", code)
}

type wresult struct {
	evs       []*wev
	stuck     bool // quiescence deadline passed with accepted items unwritten
	stuckAt   int  // ... items delivered at that moment
	runLeak   bool // run() did not return after close
	panicked  any
	accepted  int
	slowSeen  bool
	quiesceOK bool // the quiescence wait was performed and succeeded
}

func runScenario(sc wscenario) (out wresult) {
	w := &wrun{sc: sc, rec: &wrec{}}
	w.rec.log(&wev{Ev: "Cfg", Mode: sc.Mode, Frame: ip(effFrame(sc.Frame)), MaxQ: ip(sc.MaxQ)})
	shrink := time.Duration(sc.ShrinkUs) * time.Microsecond
	vw := centrifuge.VerifWNewWriter(centrifuge.VerifWWriterConfig{
		WriteFn:            func(it centrifuge.VerifWQItem) error { return w.transport([]centrifuge.VerifWQItem{it}, false) },
		WriteManyFn:        func(its ...centrifuge.VerifWQItem) error { return w.transport(its, true) },
		MaxQueueSize:       sc.MaxQ,
		QueueInitialCap:    sc.InitCap,
		WriteDelay:         time.Duration(sc.DelayUs) * time.Microsecond,
		MaxMessagesInFrame: sc.Frame,
		QueueShrinkDelay:   shrink,
		WriteWithTimer:     sc.Mode == "timer",
	})
	var accepted atomic.Int64
	var slow atomic.Bool
	var pmu sync.Mutex
	var wg sync.WaitGroup
	catch := func() {
		if p := recover(); p != nil {
			pmu.Lock()
			out.panicked = p
			pmu.Unlock()
		}
	}
	for p := 0; p < 2; p++ {
		wg.Add(1)
		go func(p int) {
			defer wg.Done()
			defer catch()
			for _, c := range sc.Prod[p] {
				jitter(c.Jitter)
				var its []centrifuge.VerifWQItem
				for _, it := range c.Items {
					its = append(its, mkItem(it.ID, it.Bytes))
				}
				w.rec.log(&wev{Ev: "EnqB", P: p + 1, Items: c.Items})
				var code uint32
				if c.Many {
					code = vw.EnqueueMany(its...)
				} else {
					code = vw.Enqueue(its[0])
				}
				r := resName(code)
				w.rec.log(&wev{Ev: "EnqE", P: p + 1, Res: r})
				if r == "ok" || r == "slow" {
					accepted.Add(int64(len(its)))
				}
				if r == "slow" {
					slow.Store(true)
				}
			}
		}(p)
	}
	doClose := func() {
		defer catch()
		w.rec.log(&wev{Ev: "CloseB", Flush: bp(sc.Flush)})
		_ = vw.Close(sc.Flush)
		w.rec.log(&wev{Ev: "CloseE"})
		if sc.Twice {
			w.rec.log(&wev{Ev: "CloseB", Flush: bp(!sc.Flush)})
			_ = vw.Close(!sc.Flush)
			w.rec.log(&wev{Ev: "CloseE"})
		}
	}
	var cwg sync.WaitGroup
	if sc.CloseEarly {
		cwg.Add(1)
		go func() {
			defer cwg.Done()
			time.Sleep(time.Duration(sc.CloseUs) * time.Microsecond)
			doClose()
		}()
	}
	wg.Wait()
	if !sc.CloseEarly {
		// liveness clause, bounded: with the producers done and nothing closed, everything accepted reaches the
		// transport (timer mode: unless a slow answer returned before scheduling the flush -- see Writer.tla).
		wait := quiesceWait
		if stuckSeen.Load() >= 3 {
			wait = 300 * time.Millisecond // a broken writer was already demonstrated: do not spend 5 s on every run
		}
		deadline := time.Now().Add(wait)
		for time.Now().Before(deadline) {
			if w.failed.Load() || w.nwrit.Load() >= accepted.Load() {
				break
			}
			time.Sleep(100 * time.Microsecond)
		}
		if !w.failed.Load() && w.nwrit.Load() < accepted.Load() {
			if !(sc.Mode == "timer" && slow.Load()) {
				out.stuck = true
				out.stuckAt = int(w.nwrit.Load())
				stuckSeen.Add(1)
			}
		} else if !w.failed.Load() {
			out.quiesceOK = true
		}
		doClose()
	}
	cwg.Wait()
	select {
	case <-vw.RunReturned():
	case <-time.After(5 * time.Second):
		out.runLeak = true
	}
	// a flush() callback that lost the race against close may still be about to run: it cannot write (the
	// queue is closed), but give it a moment so that a write after close would be seen
	if sc.Mode == "timer" {
		time.Sleep(time.Duration(sc.DelayUs+200) * time.Microsecond)
	}
	w.rec.mu.Lock()
	out.evs = append(out.evs, w.rec.evs...)
	w.rec.mu.Unlock()
	out.accepted = int(accepted.Load())
	out.slowSeen = slow.Load()
	return out
}

// ---- the observable-only monitor -------------------------------------------------------------------------

type wcallInfo struct {
	p      int
	items  []mitem
	b, e   int
	res    string
	nbytes int
}

type wviol struct{ sig, what string }

func monitor(sc wscenario, evs []*wev) (viol []wviol, drift []string, stats map[string]int) {
	stats = map[string]int{}
	var calls []*wcallInfo
	open := map[int]*wcallInfo{}
	owner := map[int]*wcallInfo{}
	bytesOf := map[int]int{}
	var writes []*wev
	var closeB, closeE []int
	firstFlush := false
	for _, e := range evs {
		switch e.Ev {
		case "EnqB":
			c := &wcallInfo{p: e.P, items: e.Items, b: e.Seq}
			for _, it := range e.Items {
				owner[it.ID] = c
				bytesOf[it.ID] = it.Bytes
				c.nbytes += it.Bytes
			}
			open[e.P] = c
			calls = append(calls, c)
		case "EnqE":
			c := open[e.P]
			c.e, c.res = e.Seq, e.Res
			delete(open, e.P)
		case "Write":
			writes = append(writes, e)
		case "CloseB":
			if len(closeB) == 0 {
				firstFlush = *e.Flush
			}
			closeB = append(closeB, e.Seq)
		case "CloseE":
			closeE = append(closeE, e.Seq)
		}
	}
	add := func(sig, f string, a ...any) { viol = append(viol, wviol{sig, fmt.Sprintf(f, a...)}) }
	// writes up to the first failing one are covered by the statement
	failIdx := -1
	for i, wv := range writes {
		if !*wv.Ok {
			failIdx = i
			break
		}
	}
	valid := writes
	if failIdx >= 0 {
		valid = writes[:failIdx]
	}
	pos := map[int]int{} // id -> position in the delivered sequence
	var delivered []int
	for _, wv := range valid {
		if len(wv.Ids) == 0 {
			add("writer:empty-frame", "transport called with no items")
		}
		for _, id := range wv.Ids {
			c, known := owner[id]
			if !known || c.b > wv.Seq {
				add("writer:phantom", "transport received item %d that had not been offered", id)
				continue
			}
			if _, dup := pos[id]; dup {
				add("writer:dup", "item %d delivered twice", id)
				continue
			}
			pos[id] = len(delivered)
			delivered = append(delivered, id)
		}
	}
	// per producer: delivered items are a prefix of the accepted ones, in the producer's order
	for p := 1; p <= 2; p++ {
		var acc []int
		for _, c := range calls {
			if c.p != p {
				continue
			}
			for _, it := range c.items {
				if c.res == "ok" || c.res == "slow" {
					acc = append(acc, it.ID)
				} else if _, d := pos[it.ID]; d {
					add("writer:rejected-delivered", "item %d was answered %q but reached the transport", it.ID, c.res)
				}
			}
		}
		var del []int
		for _, id := range delivered {
			if owner[id].p == p {
				del = append(del, id)
			}
		}
		for i, id := range del {
			if i >= len(acc) {
				break
			}
			if acc[i] != id {
				if _, d := pos[acc[i]]; d {
					add("writer:order", "producer %d: item %d delivered before %d which was queued first (delivered %v)", p, id, acc[i], delivered)
				} else {
					add("writer:loss", "producer %d: item %d delivered while the earlier accepted item %d never was (delivered %v)", p, id, acc[i], delivered)
				}
				break
			}
		}
	}
	// across producers: a call that returned before another began is queued first
	for _, a := range calls {
		if a.res != "ok" && a.res != "slow" {
			continue
		}
		for _, b := range calls {
			if a == b || a.e >= b.b {
				continue
			}
			for _, ib := range b.items {
				pb, db := pos[ib.ID]
				if !db {
					continue
				}
				for _, ia := range a.items {
					pa, da := pos[ia.ID]
					if !da {
						add("writer:loss", "item %d delivered while item %d, accepted before %d was even offered, never was (delivered %v)", ib.ID, ia.ID, ib.ID, delivered)
					} else if pa > pb {
						add("writer:order", "item %d delivered before item %d although %d was accepted before %d was offered (delivered %v)", ib.ID, ia.ID, ia.ID, ib.ID, delivered)
					}
				}
			}
		}
	}
	// close(flush=true) returned and no write failed: everything accepted was delivered
	if len(closeE) > 0 && firstFlush && failIdx < 0 {
		for _, c := range calls {
			if c.res == "ok" || c.res == "slow" {
				for _, it := range c.items {
					if _, d := pos[it.ID]; !d {
						add("writer:flush-loss", "close(flush) returned but accepted item %d never reached the transport (delivered %v)", it.ID, delivered)
					}
				}
			}
		}
	}
	// answers of enqueue
	for _, c := range calls {
		if c.res == "closed" && (len(closeB) == 0 || c.e < closeB[0]) {
			add("writer:closed-spurious", "enqueue of %v answered closed before any close() had begun", c.items)
		}
		if len(closeE) > 0 && c.b > closeE[0] && c.res != "closed" {
			add("writer:accepted-after-close", "enqueue of %v answered %q although close() had returned before it began", c.items, c.res)
		}
	}
	for _, c := range calls {
		if c.res != "ok" && c.res != "slow" && c.res != "closed" {
			add("writer:result", "enqueue answered %s", c.res)
		}
	}
	// slow consumer: bounds on the queue size at the moment of the size check, which lies inside the call
	if sc.MaxQ > 0 {
		for _, c := range calls {
			if c.res != "ok" && c.res != "slow" {
				continue
			}
			// lower bound: own items + items of calls that had returned before this one began, minus everything
			// that may have left the queue before this call returned
			lb, ub := 0, 0
			gone := map[int]bool{}    // possibly drained before c.e
			drained := map[int]bool{} // certainly drained before c.b
			prevEnd := 0
			for _, wv := range writes {
				if wv.Seq < c.e || prevEnd < c.e {
					// the drain of a write precedes its event; it cannot precede the end of the previous call
					for _, id := range wv.Ids {
						gone[id] = true
					}
				}
				if wv.Seq < c.b {
					for _, id := range wv.Ids {
						drained[id] = true
					}
				}
				prevEnd = wv.End
				if prevEnd == 0 {
					prevEnd = 1 << 30
				}
			}
			closedBefore := len(closeB) > 0 && closeB[0] < c.e // a close may have emptied the queue
			for _, o := range calls {
				if o.res != "ok" && o.res != "slow" {
					continue
				}
				for _, it := range o.items {
					if (o == c || o.e < c.b) && !gone[it.ID] {
						lb += it.Bytes
					}
					if o.b < c.e && !drained[it.ID] {
						ub += it.Bytes
					}
				}
			}
			if closedBefore {
				lb = 0
			}
			if lb == ub {
				stats["slow_exact"]++
			}
			if c.res == "ok" && lb > sc.MaxQ {
				add("writer:slow-missed", "enqueue of %v accepted without DisconnectSlow although the queue held at least %d bytes > MaxQueueSize %d", c.items, lb, sc.MaxQ)
			}
			if c.res == "slow" && ub <= sc.MaxQ {
				add("writer:slow-spurious", "enqueue of %v answered DisconnectSlow although the queue held at most %d bytes <= MaxQueueSize %d", c.items, ub, sc.MaxQ)
			}
			if c.res == "slow" {
				stats["slow_answers"]++
			}
		}
	}
	// frame shape (not part of the statement: drift)
	lim := effFrame(sc.Frame)
	for _, wv := range writes {
		inClose := false
		for i, b := range closeB {
			if wv.Seq > b && (i >= len(closeE) || wv.Seq < closeE[i]) {
				inClose = true
			}
		}
		if !*wv.Many && len(wv.Ids) != 1 {
			drift = append(drift, fmt.Sprintf("WriteFn called with %d items", len(wv.Ids)))
		}
		if *wv.Many && len(wv.Ids) == 1 && !inClose {
			drift = append(drift, "WriteManyFn called with a single item outside close()")
		}
		if lim > 0 && len(wv.Ids) > lim && !inClose {
			drift = append(drift, fmt.Sprintf("frame of %d items exceeds MaxMessagesInFrame %d", len(wv.Ids), lim))
		}
		if len(wv.Ids) > 1 {
			stats["batched_frames"]++
		}
	}
	if len(closeE) > 0 {
		for _, wv := range writes {
			if wv.Seq > closeE[0] {
				drift = append(drift, "transport called after close() returned")
			}
		}
	}
	stats["delivered"] = len(delivered)
	return viol, drift, stats
}

// interleaved: the delivered sequence mixes both producers (non-trivial run)
func interleaved(evs []*wev) bool {
	last, switches := 0, 0
	for _, e := range evs {
		if e.Ev != "Write" || !*e.Ok {
			continue
		}
		for _, id := range e.Ids {
			p := id / 100
			if last != 0 && p != last {
				switches++
			}
			last = p
		}
	}
	return switches >= 2
}

func traceOf(evs []*wev) []*wev {
	out := make([]*wev, 0, len(evs))
	for _, e := range evs {
		if e.Ev != "-" {
			out = append(out, e)
		}
	}
	return out
}

type writerIn struct {
	N         int         `json:"n"`
	Traces    int         `json:"traces"`
	Parallel  int         `json:"parallel"`
	Scenarios []wscenario `json:"scenarios"` // replay of given scenarios instead of generated ones
}

func writerRuns(in json.RawMessage, res *vh.Result) error {
	var a writerIn
	if err := json.Unmarshal(in, &a); err != nil {
		return err
	}
	scs := a.Scenarios
	if len(scs) == 0 {
		r := rand.New(rand.NewSource(vh.Seed()*7919 + 12))
		for i := 0; i < a.N; i++ {
			scs = append(scs, genScenario(r, i))
		}
	}
	par := a.Parallel
	if par <= 0 {
		par = 8
	}
	type job struct {
		i   int
		out wresult
	}
	results := make([]wresult, len(scs))
	var wg sync.WaitGroup
	ch := make(chan int)
	for k := 0; k < par; k++ {
		wg.Add(1)
		go func() {
			defer wg.Done()
			for i := range ch {
				results[i] = runScenario(scs[i])
			}
		}()
	}
	for i := range scs {
		ch <- i
	}
	close(ch)
	wg.Wait()
	var traces [][]*wev
	var traceScen []wscenario
	for i, out := range results {
		sc := scs[i]
		replay := map[string]any{"scenario": sc, "trace": traceOf(out.evs)}
		completed := 1
		if out.panicked != nil {
			res.Violate("C12", "writer:panic", fmt.Sprintf("writer panicked: %v (%s)", out.panicked, vh.J(sc)), replay)
			res.Done(1, 0)
			continue
		}
		viol, drift, stats := monitor(sc, out.evs)
		for _, v := range viol {
			res.Violate("C12", v.sig+":"+sc.Mode, v.what+" -- "+vh.J(sc), replay)
			completed = 0
		}
		if out.stuck {
			res.Violate("C12", "writer:stuck:"+sc.Mode, fmt.Sprintf("producers finished, nothing closed or failed, but only %d of %d accepted items had reached the transport when the wait (%v) ended -- %s",
				out.stuckAt, out.accepted, quiesceWait, vh.J(sc)), replay)
			completed = 0
		}
		for _, d := range drift {
			res.Drift("C12", "writer: "+d+" -- "+vh.J(sc), replay)
		}
		if out.runLeak {
			res.Drift("C12", "writer: run() did not return within 5 s after close -- "+vh.J(sc), replay)
		}
		for k, v := range stats {
			res.Count(k, v)
		}
		res.Count("mode_"+sc.Mode, 1)
		if out.quiesceOK {
			res.Count("quiescence_checked", 1)
		}
		if interleaved(out.evs) && stats["batched_frames"] > 0 {
			res.Distinct(vh.J(traceOf(out.evs)))
		}
		if len(traces) < a.Traces {
			traces = append(traces, traceOf(out.evs))
			traceScen = append(traceScen, sc)
		}
		if i < 2 {
			res.Sample(replay)
		}
		res.Done(1, completed)
	}
	res.Extra["traces"] = traces
	res.Extra["trace_scenarios"] = traceScen
	return nil
}
