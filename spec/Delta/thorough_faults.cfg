SPECIFICATION Spec
CONSTANTS
  MaxPub = 3
  HistSize = 1
  MaxFaults = 2
  MaxSess = 2
  Kinds = {"rec"}
  Filts = {FALSE, TRUE}
  Meds = {FALSE}
  AllowClear = TRUE
  DeltaOpts = {TRUE}
  PayKinds = {"sim"}
  AsCoded = FALSE
  Withhold = FALSE
VIEW View
INVARIANTS TypeOK C14 HeldIsLast
CHECK_DEADLOCK FALSE
