module verifharness

go 1.25.0

require (
	github.com/centrifugal/centrifuge v0.0.0
	github.com/FZambia/eagle v0.2.0
	github.com/centrifugal/protocol v0.21.1
	github.com/cespare/xxhash/v2 v2.3.0
	github.com/google/cel-go v0.30.0
	github.com/google/uuid v1.6.0
	github.com/maypok86/otter/v2 v2.3.0
	github.com/planetscale/vtprotobuf v0.6.0
	github.com/prometheus/client_golang v1.24.1
	github.com/prometheus/client_model v0.6.2
	github.com/quagmt/udecimal v1.10.1
	github.com/redis/rueidis v1.0.77
	github.com/segmentio/encoding v0.5.4
	github.com/shadowspore/fossil-delta v0.0.0-20241213113458-1d797d70cbe3
	github.com/stretchr/testify v1.12.1
	golang.org/x/sync v0.22.0
	google.golang.org/protobuf v1.36.12
	cel.dev/expr v0.25.1
	github.com/antlr4-go/antlr/v4 v4.13.1
	github.com/beorn7/perks v1.0.1
	github.com/josharian/intern v1.0.0
	github.com/mailru/easyjson v0.7.7
	github.com/munnerz/goautoneg v0.0.0-20191010083416-a7dc8b61c822
	github.com/prometheus/common v0.70.1
	github.com/prometheus/procfs v0.21.1
	github.com/segmentio/asm v1.2.1
	github.com/valyala/bytebufferpool v1.0.0
	go.yaml.in/yaml/v3 v3.0.5
	golang.org/x/exp v0.0.0-20240823005443-9b4947da3948
	golang.org/x/sys v0.47.0
	google.golang.org/genproto/googleapis/api v0.0.0-20240826202546-f6391c0de4c7
	google.golang.org/genproto/googleapis/rpc v0.0.0-20240826202546-f6391c0de4c7
)

replace github.com/centrifugal/centrifuge => /repo
