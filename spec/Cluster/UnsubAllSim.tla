---------------------------- MODULE UnsubAllSim ----------------------------
(* Behaviour generator for the C28 replay (TLC -simulate): the actions of UnsubAll with weights.  TLC's simulator
   picks uniformly among the successor STATES; every operation class contributes a fixed number of slots (the
   variable `w` makes them distinct successors) and the arguments of a slot are derived from a hash of the slot,
   the step number and the current subscription state, which walks through the argument space across steps and
   behaviours (RandomElement is useless: TLC re-seeds it per behaviour).  The channel argument is "" in half of
   the unsubscribe slots; the calling node (origin) alternates between A and B so that every connection is reached
   both by the local hub call and through the control message.                                                  *)
EXTENDS UnsubAll, Sequences, SequencesExt

VARIABLES w, n
simvars == <<subs, pres, hub, step, w, n>>

ConnQ == <<"c1", "c2", "c3", "c4">>
ChanQ == SetToSeq(Chans)
Code(v) == CASE v = "none" -> 0 [] v = "cs" -> 1 [] OTHER -> 2

RECURSIVE SumTo(_, _)
SumTo(f, k) == IF k = 0 THEN 0 ELSE f[k] + SumTo(f, k - 1)
SubsNum ==
  LET cells == [i \in 1..(Len(ConnQ) * Len(ChanQ)) |->
                  LET c == ConnQ[((i - 1) \div Len(ChanQ)) + 1]
                      x == ChanQ[((i - 1) % Len(ChanQ)) + 1]
                  IN Code(subs[c][x]) * (i * i + 3 * i + 1)]
  IN SumTo(cells, Len(ConnQ) * Len(ChanQ))

H(s) == s * 7919 + n * 104729 + SubsNum * 104723   \* stays below 2^31
Sel(q, h, d) == q[((h \div d) % Len(q)) + 1]

UserQ    == <<"u", "u", "v", "", "">>
ChQ      == <<"", "", "">> \o ChanQ
ClientQ  == <<"", "", "", "c1", "c3">>
SessionQ == <<"", "", "", "s1", "s3">>
LabelQ   == <<"", "", "pro", "free">>
BoolQ    == <<FALSE, TRUE>>
CustomQ  == <<FALSE, FALSE, TRUE>>
OriginQ  == <<"A", "B">>
KindQ    == <<"cs", "ss">>

SimSubscribe(s) ==
  LET open == {p \in Free : subs[p[1]][p[2]] = "none"}
  IN /\ open # {}
     /\ LET q == SetToSeq(open)
            h == H(s)
            p == Sel(q, h, 1)
        IN Subscribe(p[1], p[2], Sel(KindQ, h, 13))

SimUnsub(s) ==
  LET h == H(s + 100) IN
  NodeUnsubscribe(Sel(OriginQ, h, 2), Sel(UserQ, h, 3), Sel(ChQ, h, 7), Sel(ClientQ, h, 11), Sel(SessionQ, h, 17),
                  Sel(LabelQ, h, 23), Sel(BoolQ, h, 29), Sel(CustomQ, h, 31))

SimNext ==
  \/ \E s \in 1..5 : SimSubscribe(s) /\ w' = s /\ n' = n + 1
  \/ \E s \in 1..3 : SimUnsub(s) /\ w' = 10 + s /\ n' = n + 1

SimSpec == Init /\ w = 0 /\ n = 0 /\ [][SimNext]_simvars
=============================================================================
