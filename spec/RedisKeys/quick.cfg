SPECIFICATION Spec
CONSTANTS
  ChanChars = {"{", "}", ".", "a", ":"}
  MaxChan = 3
  Modes = {"plain", "cluster", "sharded", "precomp"}
INVARIANTS Classified Tight
CHECK_DEADLOCK FALSE
