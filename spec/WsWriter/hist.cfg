SPECIFICATION Spec
CONSTANTS
  Bs = {16}
  WClasses = {"0", "1", "B", "B+1", "2B+1", "L+1"}
  OClasses = {"0", "B", "B+1", "L+1", "126"}
  PClasses = {"0", "126", "PB+1"}
  MaxOps = 3
  MaxWrites = 3
INVARIANTS TypeOK Roundtrip Monitor Dangling
CHECK_DEADLOCK FALSE
