------------------------------ MODULE Merge ------------------------------
(* C39  Recovery merge is sorted, deduplicated and detects gaps.

   Transcription of internal/recovery/helpers.go (MergePublications,
   uniqueNonFilteredPublications) as TLA+ operators, the property as an
   invariant over the whole bounded input space, and the (input, result)
   table that the Go harness replays into the real function.

   A publication is [off, f] : offset and "filtered placeholder" flag
   (Time == -1 in the code).  Payload identity is added by the harness.   *)
EXTENDS Integers, Sequences, FiniteSets, SequencesExt, FiniteSetsExt

CONSTANTS MaxOff, MaxLen

Pub   == [off : 1..MaxOff, f : BOOLEAN]
Lists == UNION {[1..n -> Pub] : n \in 0..MaxLen}

VARIABLES rec, buf, res
vars == <<rec, buf, res>>

---------------------------------------------------------------------------
(* --- the code, step by step ------------------------------------------- *)

\* sort.Slice by offset.  The Go sort is not stable; only the multiset per
\* offset matters for what follows, so a stable sort is a faithful model
\* as long as the property does not depend on the order among equals
\* (checked: UniqueNonFiltered keeps "the first" of equal offsets, which by
\* offset-identity is observationally the same element).
SortByOff(s) == SortSeq(s, LAMBDA a, b : a.off < b.off)

RECURSIVE UNF(_, _, _, _, _)
\* uniqueNonFilteredPublications: (remaining, seenKeys, list, maxSeen, skipped)
UNF(s, keys, list, mx, sk) ==
  IF s = <<>> THEN [list |-> list, max |-> mx, skipped |-> sk]
  ELSE LET e   == Head(s)
           mx2 == IF e.off > mx THEN e.off ELSE mx
       IN IF e.f THEN UNF(Tail(s), keys, list, mx2, sk \cup {e.off})
          ELSE IF e.off \in keys THEN UNF(Tail(s), keys, list, mx2, sk)
          ELSE UNF(Tail(s), keys \cup {e.off}, Append(list, e), mx2, sk)

RECURSIVE GapFree(_, _, _)
\* the loop over recoveredPubs[1:] : TRUE iff no uncovered hole
GapFree(prev, rest, sk) ==
  IF rest = <<>> THEN TRUE
  ELSE LET p == Head(rest).off IN
       IF p # prev + 1
         THEN IF sk = {} THEN FALSE
              ELSE IF \E o \in (prev + 1)..(p - 1) : o \notin sk THEN FALSE
              ELSE GapFree(p, Tail(rest), sk)
         ELSE GapFree(p, Tail(rest), sk)

MergeImpl(r, b) ==
  LET all == SortByOff(r \o b)
      u   == UNF(all, {}, <<>>, 0, {})
      ok  == IF b # <<>> /\ Len(u.list) > 1
               THEN GapFree(u.list[1].off, Tail(u.list), u.skipped)
               ELSE TRUE
  IN IF ok THEN [pubs |-> [i \in 1..Len(u.list) |-> u.list[i].off], max |-> u.max, ok |-> TRUE]
           ELSE [pubs |-> <<>>, max |-> 0, ok |-> FALSE]

---------------------------------------------------------------------------
(* --- the property, stated independently of the code's steps ------------ *)

Offs(s, flt)  == {s[i].off : i \in {j \in 1..Len(s) : s[j].f = flt}}
Union         == Offs(rec, FALSE) \cup Offs(buf, FALSE)       \* real publications
Placeholders  == Offs(rec, TRUE) \cup Offs(buf, TRUE)
SortedUnion   == SetToSortSeq(Union, <)

\* a hole: two consecutive merged offsets with an offset in between that no
\* filtered placeholder accounts for
Hole == \E i \in 1..(Len(SortedUnion) - 1) :
          \E o \in (SortedUnion[i] + 1)..(SortedUnion[i + 1] - 1) : o \notin Placeholders

ExpectedOk == ~(buf # <<>> /\ Hole)

MergeProperty ==
  /\ res.ok = ExpectedOk
  /\ res.ok => /\ res.pubs = SortedUnion          \* union, ordered, no duplicates, no placeholders
               /\ res.max = Max({0} \cup Union \cup Placeholders)
  /\ ~res.ok => res.pubs = <<>>

---------------------------------------------------------------------------
Init == /\ rec \in Lists
        /\ buf \in Lists
        /\ res = MergeImpl(rec, buf)
Next == UNCHANGED vars
Spec == Init /\ [][Next]_vars
=============================================================================
