//go:build verif

package centrifuge

// Overlay-injected (never committed to /repo) for the /verif mapbroker family (C20, C21, C24):
// setters for the two unexported options of the map API (ordered, score), construction of a
// MemoryMapBroker WITHOUT its cleanup goroutines plus a manual trigger of the key-expiry sweep
// body, and a read-only snapshot of one channel of the hub. Nothing here changes behaviour of
// the code under test.

import (
	"sort"

	"github.com/centrifugal/centrifuge/internal/memstream"
)

// VerifMapOrdered returns the options with the unexported `ordered` flag set.
func VerifMapOrdered(o MapChannelOptions, ordered bool) MapChannelOptions {
	o.ordered = ordered
	return o
}

// VerifMapScore returns the options with the unexported `score` set.
func VerifMapScore(o MapPublishOptions, score int64) MapPublishOptions {
	o.score = score
	return o
}

// VerifMapSetHandler does what RegisterEventHandler does except starting the goroutines
// (expireResultCache, expireStreams, removeChannels, expireKeys).
func VerifMapSetHandler(e *MemoryMapBroker, h BrokerEventHandler) {
	e.eventHandler = h
	e.mapHub.setEventHandler(h)
}

// VerifMapExpireKeysIteration runs one iteration of the key-expiry sweep (the body of the
// expireKeys loop) on the calling goroutine.
func VerifMapExpireKeysIteration(e *MemoryMapBroker) {
	var next int64
	e.mapHub.expireKeysIteration(&next)
}

// VerifMapPubLockIndex is the index of the per-channel publish lock.
func VerifMapPubLockIndex(ch string) int { return index(ch, numPubLocks) }

type VerifMapEntry struct {
	Key          string
	Offset       uint64 // Publication.Offset
	RevOffset    uint64 // Revision.Offset
	RevEpoch     string
	PubKey       string
	Removed      bool
	Data         []byte
	Score        int64 // stateEntry.Score
	PubScore     int64 // Publication.Score
	ExpireAt     int64
	Version      uint64
	VersionEpoch string
}

type VerifMapStreamItem struct {
	Offset    uint64
	PubOffset uint64
	Key       string
	Removed   bool
	Data      []byte
}

type VerifMapSnapshot struct {
	Exists     bool
	Ordered    bool
	Epoch      string
	Top        uint64
	Stream     []VerifMapStreamItem
	State      []VerifMapEntry // sorted by key
	Scores     map[string]int64
	KeyExpires map[string]int64 // key -> keyExpires[ch\x00key], for the keys of the state
	ExpiresAt  int64            // expires[ch], 0 if absent
	RemovesAt  int64            // removes[ch], 0 if absent
	KeyQueue   int              // length of the key expiry queue (all channels)
}

// VerifMapPeek is a read-only snapshot of one channel (no TTL is touched, nothing is created).
func VerifMapPeek(e *MemoryMapBroker, ch string) VerifMapSnapshot {
	h := e.mapHub
	h.RLock()
	defer h.RUnlock()
	s := VerifMapSnapshot{Scores: map[string]int64{}, KeyExpires: map[string]int64{}}
	s.ExpiresAt = h.expires[ch]
	s.RemovesAt = h.removes[ch]
	s.KeyQueue = h.keyExpireQueue.Len()
	c, ok := h.channels[ch]
	if !ok {
		return s
	}
	for k := range c.state {
		if at, ok := h.keyExpires[h.makeChKey(ch, k)]; ok {
			s.KeyExpires[k] = at
		}
	}
	s.Exists = true
	s.Ordered = c.ordered
	if c.stream != nil {
		s.Epoch = c.stream.Epoch()
		s.Top = c.stream.Top()
		items, _, _ := c.stream.Get(0, false, -1, false)
		for _, it := range items {
			s.Stream = append(s.Stream, verifStreamItem(it))
		}
	}
	for k, en := range c.state {
		ve := VerifMapEntry{Key: k, RevOffset: en.Revision.Offset, RevEpoch: en.Revision.Epoch, Score: en.Score,
			ExpireAt: en.ExpireAt, Version: en.Version, VersionEpoch: en.VersionEpoch}
		if en.Publication != nil {
			ve.Offset = en.Publication.Offset
			ve.PubKey = en.Publication.Key
			ve.Removed = en.Publication.Removed
			ve.Data = en.Publication.Data
			ve.PubScore = en.Publication.Score
		}
		s.State = append(s.State, ve)
	}
	sort.Slice(s.State, func(i, j int) bool { return s.State[i].Key < s.State[j].Key })
	for k, v := range c.scores {
		s.Scores[k] = v
	}
	return s
}

func verifStreamItem(it memstream.Item) VerifMapStreamItem {
	out := VerifMapStreamItem{Offset: it.Offset}
	if p, ok := it.Value.(*Publication); ok && p != nil {
		out.PubOffset = p.Offset
		out.Key = p.Key
		out.Removed = p.Removed
		out.Data = p.Data
	}
	return out
}
