SPECIFICATION Spec
CONSTANTS
  MaxPub = 3
  HistSize = 3
  MaxFaults = 0
  MaxSess = 2
  Kinds = {"rec"}
  Filts = {TRUE}
  Meds = {FALSE}
  AllowClear = FALSE
  DeltaOpts = {TRUE}
  PayKinds = {"sim"}
  AsCoded = FALSE
  Withhold = FALSE
VIEW View
INVARIANTS NotScnWithheldTail
CHECK_DEADLOCK FALSE
