SPECIFICATION Spec
CONSTANTS
  NK = 2
  MaxOps = 2
  MaxLag = 1
  MaxResub = 1
  LiveLimit = 3
  Modes = {"rec"}
  Kinds = {"fresh"}
  Pages = {1}
  SSizes = {1, 2}
  Filts = {"none", "server"}
  Ops = {"pub", "rem", "exp", "sexp", "clear", "refresh", "poscheck"}
  MaxJumps = 1
  EpochCheck = TRUE
  Pres = {2}
  N0s = {2}
  Contig = TRUE
  DropStale = TRUE
VIEW View
INVARIANTS TypeOK C22
PROPERTIES C22R C16M
CHECK_DEADLOCK FALSE
