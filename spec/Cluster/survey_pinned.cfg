SPECIFICATION Spec
CONSTANTS
  Nodes = {"n2"}
  Extra = {}
  MaxSurveys = 2
  MaxDeliver = 4
  LocalModes = {"sync", "async"}
  DupOK = TRUE
  Causal = TRUE
  LocalSend = "blocking"
VIEW View
INVARIANTS TypeOK HeardAreReturned RegistryIsInFlight RegistryEmptyAfterAll ResultsAreOwnAnswers ReturnedIsCollected WaitsOnlyWhileIncomplete EndsForAReason ErrIffDeadline NoStuckSurvey NoBlockedCallback CanFinish
CHECK_DEADLOCK FALSE
