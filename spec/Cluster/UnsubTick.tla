------------------------------ MODULE UnsubTick ------------------------------
(* C28: the per-channel effect "presence removal" of an unsubscribe-all that overlaps a presence tick.

   Tick thread (client.go updatePresence, sequential duty): for every channel of its snapshot, in the snapshot's
   order: if the channel is still in Client.channels issue AddPresence (TickCheck; the add is in flight until
   TickAddLands); at the end compensateRacedPresence removes the entries it added for channels that are no longer
   in Client.channels (TickCompensate).  Unsubscribe-all thread (Client.Unsubscribe("")): for every channel, in its
   own order: delete it from Client.channels (UDelete), then RemovePresence (URemove).  Both orders are arbitrary
   (map iteration).  Compensate = "all" is the code; "first" (tick_pinned.cfg, not run by the check) stops at the first
   raced channel and TLC reports NoPresenceLeft violated.

   Property: when both threads are done the presence manager holds no entry of the connection.               *)
EXTENDS Naturals, Sequences, FiniteSets, TLC

CONSTANTS Chans, Compensate

Perms == {q \in [1..Cardinality(Chans) -> Chans] : \A i, j \in 1..Cardinality(Chans) : i # j => q[i] # q[j]}

VARIABLES ch, pres, tq, tadd, added, tdone, uq, urem, step
vars == <<ch, pres, tq, tadd, added, tdone, uq, urem, step>>
View == <<ch, pres, tq, tadd, added, tdone, uq, urem>>

Init == /\ ch = Chans /\ pres = Chans
        /\ tq \in Perms /\ uq \in Perms
        /\ tadd = "" /\ added = {} /\ tdone = FALSE /\ urem = ""
        /\ step = "Init"

TickCheck == /\ tadd = "" /\ tq # <<>>
             /\ tadd' = IF Head(tq) \in ch THEN Head(tq) ELSE ""
             /\ tq' = Tail(tq) /\ step' = "TickCheck"
             /\ UNCHANGED <<ch, pres, added, tdone, uq, urem>>
TickAddLands == /\ tadd # ""
                /\ pres' = pres \cup {tadd} /\ added' = added \cup {tadd} /\ tadd' = "" /\ step' = "TickAddLands"
                /\ UNCHANGED <<ch, tq, tdone, uq, urem>>
TickCompensate == /\ tadd = "" /\ tq = <<>> /\ ~tdone
                  /\ LET raced == {x \in added : x \notin ch}
                         undo  == IF Compensate = "all" \/ raced = {} THEN raced ELSE {CHOOSE x \in raced : TRUE}
                     IN pres' = pres \ undo
                  /\ tdone' = TRUE /\ step' = "TickCompensate"
                  /\ UNCHANGED <<ch, tq, tadd, added, uq, urem>>
UDelete == /\ urem = "" /\ uq # <<>>
           /\ ch' = ch \ {Head(uq)} /\ urem' = Head(uq) /\ uq' = Tail(uq) /\ step' = "UDelete"
           /\ UNCHANGED <<pres, tq, tadd, added, tdone>>
URemove == /\ urem # ""
           /\ pres' = pres \ {urem} /\ urem' = "" /\ step' = "URemove"
           /\ UNCHANGED <<ch, tq, tadd, added, tdone, uq>>

Next == TickCheck \/ TickAddLands \/ TickCompensate \/ UDelete \/ URemove
Spec == Init /\ [][Next]_vars

NoPresenceLeft == (tdone /\ uq = <<>> /\ urem = "") => pres = {}
=============================================================================
